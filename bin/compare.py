#!/usr/bin/env python3
"""Compare the implementation's canonical results with the Lean driver's, case by case."""
import json, sys

def norm_val(v):
    if v is None:
        return None
    if isinstance(v, dict):
        if 'm' in v:
            k, va, ents = v['m']
            es = [[norm_val(a), norm_val(b)] for a, b in ents]
            es.sort(key=lambda e: json.dumps(e[0], sort_keys=True))
            return {'m': [k, va, es]}
        if 'l' in v:
            return {'l': [norm_val(x) for x in v['l']]}
        if 'n' in v:
            return {'n': norm_val(v['n'])}
        if 'o' in v:
            return {'o': 1}
        if 'f' in v:
            return {'f': [v['f'][0], v['f'][1].lower()]}
    return v

def norm_res(r, cmp):
    out = {'r': r.get('r')}
    if out['r'] == 'ok':
        out['v'] = norm_val(r.get('v'))
    if out['r'] == 'err' and cmp == 'path':
        out['c'] = bool(r.get('c'))
        out['path'] = [p for p in (r.get('path') or []) if not p.startswith('{oneof[')]
    return out

def compare(cases_path, go_path, lean_path, limit=20):
    diffs = []
    n = 0
    with open(cases_path) as fc, open(go_path) as fg, open(lean_path) as fl:
        for lc, lg, ll in zip(fc, fg, fl):
            n += 1
            c = json.loads(lc)
            g = json.loads(lg)
            l = json.loads(ll)
            cmp = c.get('cmp', 'class')
            if norm_res(g, cmp) != norm_res(l, cmp):
                diffs.append({'case': c, 'go': g, 'lean': l})
    return n, diffs

if __name__ == '__main__':
    n, diffs = compare(sys.argv[1], sys.argv[2], sys.argv[3])
    print(f"{n} cases, {len(diffs)} differences")
    for d in diffs[:int(sys.argv[4]) if len(sys.argv) > 4 else 10]:
        c = d['case']
        print(json.dumps({'id': c['id'], 'op': c['op'], 'note': c.get('note'), 'schema': c['schema'], 'v': c.get('v'), 'schema2': c.get('schema2')})[:1500])
        print('   go  :', json.dumps(d['go'])[:600])
        print('   lean:', json.dumps(d['lean'])[:600])
