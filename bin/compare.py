#!/usr/bin/env python3
"""Compare the implementation's canonical results with the Lean driver's, case by case."""
import json, sys

def norm_val(v):
    if v is None:
        return None
    if isinstance(v, dict):
        if 'm' in v:
            k, va, ents = v['m']
            es = [[norm_val(a), norm_val(b)] for a, b in ents]
            es.sort(key=lambda e: json.dumps(e[0], sort_keys=True))
            return {'m': [k, va, es]}
        if 'l' in v:
            return {'l': [norm_val(x) for x in v['l']]}
        if 'n' in v:
            return {'n': norm_val(v['n'])}
        if 'o' in v:
            return {'o': 1}
        if 'f' in v:
            return {'f': [v['f'][0], v['f'][1].lower()]}
    return v

def norm_res(r, cmp):
    out = {'r': r.get('r')}
    if out['r'] == 'ok':
        out['v'] = norm_val(r.get('v'))
    if out['r'] == 'err' and cmp == 'path':
        out['c'] = bool(r.get('c'))
        out['path'] = [p for p in (r.get('path') or []) if not p.startswith('{oneof[')]
    return out

def _d13_shape(t, enclosing=()):
    """Does the schema contain the recorded non-terminating shape (known finding D13)? An object with a
    property that refers back to the object itself or to an enclosing object, where following the reference
    need not consume input: the property declares a default, or the object has exactly one property (the
    single-property shorthand)."""
    if not isinstance(t, dict):
        return False
    k = t.get('t')
    if k == 'scope':
        objs = {o[0]: o[1] for o in t.get('objs') or []}
        return any(_d13_obj(o, objs, ()) for o in objs.values())
    if k == 'obj':
        return _d13_obj(t, {}, enclosing)
    for key in ('item', 'k', 'v'):
        if _d13_shape(t.get(key), enclosing):
            return True
    for m in t.get('members') or []:
        if _d13_shape(m[1], enclosing):
            return True
    return False

def _d13_obj(o, objs, enclosing):
    props = o.get('props') or []
    here = enclosing + (o.get('id'),)
    for name, p in props:
        ty = p.get('ty') or {}
        if ty.get('t') == 'ref' and ty.get('id') in here and (p.get('default') is not None or len(props) == 1):
            return True
        if ty.get('t') == 'ref' and ty.get('id') in objs and ty.get('id') not in here:
            if _d13_obj(objs[ty['id']], objs, here):
                return True
        elif _d13_shape(ty, here):
            return True
    return False

# cases skipped by the rule below (printed by the command line form, kept for the evidence)
SKIPPED_ORDER_DEPENDENT = 0

def compare(cases_path, go_path, lean_path, limit=20):
    global SKIPPED_ORDER_DEPENDENT
    diffs = []
    n = 0
    with open(cases_path) as fc, open(go_path) as fg, open(lean_path) as fl:
        for lc, lg, ll in zip(fc, fg, fl):
            n += 1
            c = json.loads(lc)
            g = json.loads(lg)
            l = json.loads(ll)
            cmp = c.get('cmp', 'class')
            if norm_res(g, cmp) != norm_res(l, cmp):
                # The recorded non-termination (known finding D13): on a schema of that shape the model does not
                # terminate, and whether the implementation recurses for ever or reports another fault of the
                # input first depends on the order in which Go walks the input map. Not a divergence.
                if l.get('r') == 'fuel' and g.get('r') in ('err', 'ok') and c.get('op') in ('U', 'C', 'V', 'S') \
                        and _d13_shape(c.get('schema')):
                    SKIPPED_ORDER_DEPENDENT += 1
                    continue
                diffs.append({'case': c, 'go': g, 'lean': l})
    return n, diffs

if __name__ == '__main__':
    n, diffs = compare(sys.argv[1], sys.argv[2], sys.argv[3])
    print(f"{n} cases, {len(diffs)} differences" + (f" ({SKIPPED_ORDER_DEPENDENT} map-order-dependent cases of the known non-terminating shape skipped)" if SKIPPED_ORDER_DEPENDENT else ""))
    for d in diffs[:int(sys.argv[4]) if len(sys.argv) > 4 else 10]:
        c = d['case']
        print(json.dumps({'id': c['id'], 'op': c['op'], 'note': c.get('note'), 'schema': c['schema'], 'v': c.get('v'), 'schema2': c.get('schema2')})[:1500])
        print('   go  :', json.dumps(d['go'])[:600])
        print('   lean:', json.dumps(d['lean'])[:600])
