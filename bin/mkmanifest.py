#!/usr/bin/env python3
"""Regenerate MANIFEST.json from bin/props.json and bin/manifest_texts.json."""
import json, os
ROOT = os.path.dirname(os.path.dirname(os.path.abspath(__file__)))
props = json.load(open(os.path.join(ROOT, 'bin', 'props.json')))
texts = json.load(open(os.path.join(ROOT, 'bin', 'manifest_texts.json')))
ids = [json.loads(l)['id'] for l in open(os.path.join(ROOT, 'properties.jsonl'))]
checks = []
na = []
for pid in ids:
    if pid in props and pid in texts.get('checks', {}):
        t = texts['checks'][pid]
        checks.append({
            "property_id": pid,
            "quick_cmd": f"bin/check {pid} --tier quick",
            "thorough_cmd": f"bin/check {pid} --tier thorough",
            "evidence_file": f"/verif/evidence/{pid}.json",
            "replay_cmd_template": f"bin/check {pid} --replay {{path}}",
            "engine": "lean-proof+correspondence",
            "level_claimed": {"category": "proof", "text": t["text"], "design_ref": t.get("design_ref", "DESIGN.md section 6")},
            "level_note": t["note"],
            "technique": t.get("technique", "Lean 4 theorems about an executable model; model tied to the Go code by differential correspondence on generated inputs"),
        })
    else:
        na.append({"property_id": pid, "reason": texts.get('not_applicable', {}).get(pid, "check not built yet (work in progress)")})
m = {
    "version": 1,
    "setup_cmd": "bin/check --setup",
    "hooks": {
        "guard": "verif",
        "enable": "no hook is committed in /repo; instrumentation, where a check needs it, is generated from the working tree and injected with `go build -tags verif -overlay <generated overlay.json>`",
        "baseline_off_cmd": "cd /repo && go test -vet=off -count=1 ./... && cd cmd/arcaflow-codegen && go test -vet=off -count=1 ./...",
        "source_commits": [],
        "add_only": True,
    },
    "engines": [{
        "name": "lean-proof+correspondence", "path": "/verif/bin/check",
        "serves_properties": [c["property_id"] for c in checks],
        "kind_free_text": "Lean 4 model + theorems (lake build, #print axioms audit) and a Go differential harness driving the real SDK and the compiled Lean driver on the same generated cases",
    }],
    "checks": checks,
    "not_applicable": na,
    "notes": texts.get("notes", ""),
}
json.dump(m, open(os.path.join(ROOT, 'MANIFEST.json'), 'w'), indent=1)
print(len(checks), "checks;", len(na), "not claimed")
