package hx

// A second construction route: the schema the constructors built is re-made from Go composite literals
// that carry the exported fields only (what a plugin author writing `&schema.ObjectSchema{...}` by hand, a
// decoder filling the exported fields, or a copy made field by field hands to the library). Every lazily
// filled unexported field (decoded defaults, one-of interface type, unit caches, reference links) starts
// empty. Struct-mapped objects cannot be written this way (their field table is unexported) and are kept.

import (
	"hash/fnv"
	"reflect"

	"go.flow.arcalot.io/pluginsdk/schema"
)

// LitRoute decides, from the description alone (so that a replay takes the same route), whether the node
// is built from literals.
func LitRoute(t *Ty) bool {
	h := fnv.New32a()
	h.Write([]byte(t.T))
	h.Write([]byte(t.ID))
	h.Write([]byte(t.Disc))
	h.Write([]byte(t.Root))
	for _, p := range t.Props {
		h.Write([]byte(p.Name))
	}
	for _, m := range t.Members {
		h.Write([]byte(m.Key))
	}
	if t.Min != nil {
		h.Write([]byte(*t.Min))
	}
	if t.Max != nil {
		h.Write([]byte(*t.Max))
	}
	return h.Sum32()%3 == 0
}

// Relit re-makes ONE node (not its children: they took their own decision when they were built).
func Relit(x schema.Type) schema.Type {
	switch s := x.(type) {
	case *schema.IntSchema:
		return &schema.IntSchema{MinValue: s.MinValue, MaxValue: s.MaxValue, UnitsValue: relitUnits(s.UnitsValue)}
	case *schema.FloatSchema:
		return &schema.FloatSchema{MinValue: s.MinValue, MaxValue: s.MaxValue, UnitsValue: relitUnits(s.UnitsValue)}
	case *schema.StringSchema:
		return &schema.StringSchema{MinValue: s.MinValue, MaxValue: s.MaxValue, PatternValue: s.PatternValue}
	case *schema.IntEnumSchema:
		return &schema.IntEnumSchema{
			EnumSchema: schema.EnumSchema[int64, int64]{ValidValuesMap: s.ValidValuesMap},
			IntUnits:   relitUnits(s.IntUnits),
		}
	case *schema.StringEnumSchema:
		return &schema.StringEnumSchema{TypedStringEnumSchema: schema.TypedStringEnumSchema[string]{
			EnumSchema: schema.EnumSchema[string, string]{ValidValuesMap: s.ValidValuesMap}}}
	case *schema.ListSchema:
		return &schema.ListSchema{AbstractListSchema: schema.AbstractListSchema[schema.Type]{
			ItemsValue: s.ItemsValue, MinValue: s.MinValue, MaxValue: s.MaxValue}}
	case *schema.MapSchema[schema.Type, schema.Type]:
		return &schema.MapSchema[schema.Type, schema.Type]{KeysValue: s.KeysValue, ValuesValue: s.ValuesValue,
			MinValue: s.MinValue, MaxValue: s.MaxValue}
	case *schema.ObjectSchema:
		return RelitObject(s)
	case *schema.OneOfSchema[string]:
		return &schema.OneOfSchema[string]{TypesValue: s.TypesValue,
			DiscriminatorFieldNameValue: s.DiscriminatorFieldNameValue, DiscriminatorInlined: s.DiscriminatorInlined}
	case *schema.OneOfSchema[int64]:
		return &schema.OneOfSchema[int64]{TypesValue: s.TypesValue,
			DiscriminatorFieldNameValue: s.DiscriminatorFieldNameValue, DiscriminatorInlined: s.DiscriminatorInlined}
	case *schema.ScopeSchema:
		lit := &schema.ScopeSchema{ObjectsValue: s.ObjectsValue, RootValue: s.RootValue}
		lit.ApplySelf()
		return lit
	}
	return x
}

// RelitObject re-makes a map-backed object (and its properties) from literals.
func RelitObject(o *schema.ObjectSchema) *schema.ObjectSchema {
	if o.ReflectedType().Kind() != reflect.Map {
		return o
	}
	props := make(map[string]*schema.PropertySchema, len(o.PropertiesValue))
	for k, p := range o.PropertiesValue {
		props[k] = &schema.PropertySchema{
			TypeValue: p.TypeValue, DisplayValue: p.DisplayValue, RequiredValue: p.RequiredValue,
			RequiredIfValue: p.RequiredIfValue, RequiredIfNotValue: p.RequiredIfNotValue, ConflictsValue: p.ConflictsValue,
			DefaultValue: p.DefaultValue, ExamplesValue: p.ExamplesValue, Disabled: p.Disabled, DisabledReason: p.DisabledReason,
		}
	}
	return &schema.ObjectSchema{IDValue: o.IDValue, PropertiesValue: props, IDUnenforcedValue: o.IDUnenforcedValue}
}

func relitUnits(u *schema.UnitsDefinition) *schema.UnitsDefinition {
	if u == nil {
		return nil
	}
	lit := &schema.UnitsDefinition{BaseUnitValue: &schema.UnitDefinition{
		NameShortSingularValue: u.BaseUnitValue.NameShortSingularValue, NameShortPluralValue: u.BaseUnitValue.NameShortPluralValue,
		NameLongSingularValue: u.BaseUnitValue.NameLongSingularValue, NameLongPluralValue: u.BaseUnitValue.NameLongPluralValue}}
	if u.MultipliersValue != nil {
		lit.MultipliersValue = make(map[int64]*schema.UnitDefinition, len(u.MultipliersValue))
		for m, d := range u.MultipliersValue {
			c := *d
			lit.MultipliersValue[m] = &c
		}
	}
	return lit
}
