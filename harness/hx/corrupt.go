package hx

import (
	"strconv"
)

// Corruption is one single-fault variant of an accepted value together with the path at which the
// SDK must report it (computed from the value's position only, independently of any model).
type Corruption struct {
	V    *Val
	Path []string
	What string
	// Names, when set, is a text the rejection must show (an undeclared key is named in the message: the path
	// leads to the object that holds it)
	Names string
}

func cloneVal(v *Val) *Val {
	if v == nil {
		return nil
	}
	c := *v
	if v.L != nil {
		c.L = make([]*Val, len(v.L))
		for i, e := range v.L {
			c.L[i] = cloneVal(e)
		}
	}
	if v.M != nil {
		c.M = make([][2]*Val, len(v.M))
		for i, kv := range v.M {
			c.M[i] = [2]*Val{cloneVal(kv[0]), cloneVal(kv[1])}
		}
	}
	if v.N != nil {
		c.N = cloneVal(v.N)
	}
	return &c
}

func keyText(k *Val) (string, bool) {
	switch k.Kind {
	case "s":
		return k.S, true
	case "i":
		return k.I.String(), true
	}
	return "", false
}

// leafFaults lists the faulty replacements of a scalar position.
func leafFaults(t *Ty) []Corruption {
	var out []Corruption
	add := func(v *Val, what string) { out = append(out, Corruption{V: v, What: what}) }
	switch t.T {
	case "int":
		add(Str("x"), "wrong type")
		add(List(), "wrong type")
		if t.Units == nil {
			if t.Min != nil {
				n, _ := strconv.ParseInt(*t.Min, 10, 64)
				if n > -1<<62 {
					add(Int("int64", n-1), "below min")
				}
			}
			if t.Max != nil {
				n, _ := strconv.ParseInt(*t.Max, 10, 64)
				if n < 1<<62 {
					add(Int("int64", n+1), "above max")
				}
			}
		}
	case "float":
		add(Str("x"), "wrong type")
		add(StrAny(), "wrong type")
	case "str":
		add(Bool(true), "wrong type")
		add(Nil(), "wrong type")
		if t.Max != nil {
			n, _ := strconv.ParseInt(*t.Max, 10, 64)
			if n >= 0 && n < 60 && t.Pat == nil {
				s := ""
				for i := int64(0); i <= n; i++ {
					s += "a"
				}
				add(Str(s), "too long")
			}
		}
		if t.Pat != nil && *t.Pat == `^[a-z]+$` {
			add(Str("A1"), "pattern miss")
		}
	case "bool":
		add(Str("maybe"), "wrong type")
		add(F64(1), "wrong type")
	case "enumInt":
		add(Int("int64", 987654), "not in enum")
	case "enumStr":
		add(Str("no-such-member"), "not in enum")
	case "pattern":
		add(Str("a("), "invalid pattern")
	}
	return out
}

// Corruptions walks an ACCEPTED raw value v of schema t and returns every single-fault variant.
// Values given in the single-property shorthand are not descended into (the SDK flattens that
// error on purpose and says so in its message).
func Corruptions(t *Ty, v *Val, env Env) []Corruption {
	var out []Corruption
	prefix := func(seg string, cs []Corruption, rebuild func(*Val) *Val) {
		for _, c := range cs {
			out = append(out, Corruption{V: rebuild(c.V), Path: append([]string{seg}, c.Path...), What: c.What})
		}
	}
	switch t.T {
	case "int", "float", "str", "bool", "enumInt", "enumStr", "pattern":
		return leafFaults(t)
	case "list":
		if v.Kind != "l" {
			return nil
		}
		for i := range v.L {
			i := i
			prefix("["+strconv.Itoa(i)+"]", Corruptions(t.Item, v.L[i], env), func(e *Val) *Val {
				c := cloneVal(v)
				c.L[i] = e
				c.LT = ""
				return c
			})
		}
	case "map":
		if v.Kind != "m" {
			return nil
		}
		for i := range v.M {
			i := i
			k, ok := keyText(v.M[i][0])
			if !ok {
				continue
			}
			if !v.MVA {
				continue
			}
			prefix("["+k+"]", Corruptions(t.V, v.M[i][1], env), func(e *Val) *Val {
				c := cloneVal(v)
				c.M[i][1] = e
				return c
			})
		}
	case "obj":
		if v.Kind != "m" {
			return nil // shorthand
		}
		present := map[string]int{}
		for i, kv := range v.M {
			if kv[0].Kind == "s" {
				present[kv[0].S] = i
			}
		}
		for _, np := range t.Props {
			np := np
			i, ok := present[np.Name]
			if !ok {
				continue
			}
			if v.MVA {
				prefix(np.Name, Corruptions(np.P.Ty, v.M[i][1], env), func(e *Val) *Val {
					c := cloneVal(v)
					c.M[i][1] = e
					return c
				})
			}
			// removing a required property without default: the rule names the property
			// (only where no other presence rule exists that the removal could also trigger)
			if np.P.Required && np.P.Default == nil && !hasOtherRules(t) {
				c := cloneVal(v)
				c.M = append(c.M[:i:i], c.M[i+1:]...)
				out = append(out, Corruption{V: c, Path: []string{np.Name}, What: "missing required"})
			}
		}
		if v.MVA {
			c := cloneVal(v)
			c.M = append(c.M, [2]*Val{Str("undeclared_key"), Int("int64", 1)})
			out = append(out, Corruption{V: c, Path: []string{}, What: "extra key", Names: "undeclared_key"})
			if v.MK == "any" {
				// what YAML 1.1 and CBOR decoders produce: keys that are not strings (`443:`, `on:`)
				c2 := cloneVal(v)
				c2.M = append(c2.M, [2]*Val{Int("int64", 443), Int("int64", 1)})
				out = append(out, Corruption{V: c2, Path: []string{}, What: "extra key (not a string)", Names: "443"})
				c3 := cloneVal(v)
				c3.M = append(c3.M, [2]*Val{Bool(true), Int("int64", 1)})
				out = append(out, Corruption{V: c3, Path: []string{}, What: "extra key (not a string)", Names: "true"})
			}
		}
	case "oneOf":
		if v.Kind != "m" {
			return nil
		}
		// find the member by the discriminator (string or integer representation)
		var d *Val
		for _, kv := range v.M {
			if kv[0].Kind == "s" && kv[0].S == t.Disc {
				d = kv[1]
			}
		}
		if d == nil {
			return nil
		}
		key, ok := keyText(d)
		if !ok {
			return nil
		}
		for _, m := range t.Members {
			if m.Key != key {
				continue
			}
			mt := m.Ty
			for mt.T == "ref" {
				mt = env[mt.ID]
			}
			// the member sees the map without the discriminator unless inlined
			inner := cloneVal(v)
			if !t.Inlined {
				var kvs [][2]*Val
				for _, kv := range inner.M {
					if !(kv[0].Kind == "s" && kv[0].S == t.Disc) {
						kvs = append(kvs, kv)
					}
				}
				inner.M = kvs
			}
			for _, c := range Corruptions(mt, inner, env) {
				if c.What == "extra key" && false {
					continue
				}
				cv := c.V
				if !t.Inlined && cv.Kind == "m" {
					cv = cloneVal(cv)
					cv.M = append(cv.M, [2]*Val{Str(t.Disc), cloneVal(d)})
				}
				// a corruption of the inlined discriminator property itself changes the routing
				if len(c.Path) > 0 && c.Path[0] == t.Disc {
					continue
				}
				out = append(out, Corruption{V: cv, Path: c.Path, What: c.What})
			}
		}
	case "ref":
		if o, ok := env[t.ID]; ok {
			return Corruptions(o, v, env)
		}
	case "scope":
		env2 := Env{}
		for _, o := range t.Objs {
			env2[o.ID] = o.Ty
		}
		return Corruptions(env2[t.Root], v, env2)
	}
	return out
}

// SetNoShorthand makes Value avoid the single-property shorthand (its error is flattened by the SDK).
func (g *Gen) SetNoShorthand(b bool) { g.noShorthand = b }

func hasOtherRules(t *Ty) bool {
	for _, np := range t.Props {
		if len(np.P.RequiredIf) > 0 || len(np.P.RequiredIfNot) > 0 || len(np.P.Conflicts) > 0 {
			return true
		}
	}
	return false
}
