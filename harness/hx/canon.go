package hx

import (
	"encoding/json"
	"sort"
)

// Canon renders a value with map entries sorted, so that two observations of equal Go values
// (reflect.DeepEqual up to slice/map element type tags, NaN == NaN) give equal strings.
func Canon(v *Val) string {
	c := canonCopy(v)
	b, err := json.Marshal(c)
	if err != nil {
		panic(err)
	}
	return string(b)
}

func canonCopy(v *Val) *Val {
	if v == nil {
		return nil
	}
	c := *v
	c.LT = ""
	if v.L != nil {
		c.L = make([]*Val, len(v.L))
		for i, e := range v.L {
			c.L[i] = canonCopy(e)
		}
	}
	if v.N != nil {
		c.N = canonCopy(v.N)
	}
	if v.M != nil {
		type ent struct {
			k  string
			kv [2]*Val
		}
		es := make([]ent, len(v.M))
		for i, kv := range v.M {
			ck := canonCopy(kv[0])
			b, _ := json.Marshal(ck)
			es[i] = ent{string(b), [2]*Val{ck, canonCopy(kv[1])}}
		}
		sort.Slice(es, func(i, j int) bool { return es[i].k < es[j].k })
		c.M = make([][2]*Val, len(es))
		for i, e := range es {
			c.M[i] = e.kv
		}
	}
	return &c
}
