package hx

import (
	"fmt"
	"math"
	"regexp"
	"sort"
	"strconv"
	"unicode/utf8"
)

// Ext is the finite part of the external library functions a case can need (Lean: Arca.Ext),
// computed with the same library calls the SDK makes.
type Ext struct {
	PF [][2]any `json:"pf,omitempty"` // [string, hex|null]   strconv.ParseFloat(s, 64)
	FF [][2]any `json:"ff,omitempty"` // [hex, string]        fmt.Sprintf("%f", x)
	RC [][2]any `json:"rc,omitempty"` // [string, bool]       regexp.Compile ok
	RM [][3]any `json:"rm,omitempty"` // [pattern, string, bool]
}

var (
	reCache      = map[string]*regexp.Regexp{}
	compileCache = map[string]bool{}
)

func cachedRe(p string) *regexp.Regexp {
	if r, ok := reCache[p]; ok {
		return r
	}
	r := regexp.MustCompile(p)
	reCache[p] = r
	return r
}

func compiles(s string) bool {
	if ok, seen := compileCache[s]; seen {
		return ok
	}
	_, err := regexp.Compile(s)
	if len(compileCache) > 100000 {
		compileCache = map[string]bool{}
	}
	compileCache[s] = err == nil
	return err == nil
}

func isDigit(b byte) bool { return b >= '0' && b <= '9' }

func runeString(n int64) string {
	if n < 0 || n > math.MaxInt32 {
		return "�"
	}
	return string(rune(n))
}

// candidateStrings lists every string the SDK could derive from the scalars inside v.
func candidateStrings(v *Val, out map[string]bool, floats map[uint64]bool) {
	v.Walk(func(x *Val) {
		switch x.Kind {
		case "s", "re":
			out[x.S] = true
		case "i":
			out[x.I.String()] = true
			if x.I.IsInt64() {
				out[runeString(x.I.Int64())] = true
			} else {
				out["�"] = true
			}
		case "f":
			floats[x.F] = true
			out[fmt.Sprintf("%f", math.Float64frombits(x.F))] = true
		case "y":
			if utf8.Valid(x.Y) {
				out[string(x.Y)] = true
			}
			for _, b := range x.Y {
				out[strconv.Itoa(int(b))] = true
				out[string(rune(b))] = true
			}
		}
	})
}

// MkExt computes the tables for schema t and the values vs.
func MkExt(t *Ty, vs ...*Val) *Ext {
	strs := map[string]bool{}
	floats := map[uint64]bool{}
	for _, v := range vs {
		candidateStrings(v, strs, floats)
	}
	var pats []string
	hasFloat, hasPattern := false, false
	t.WalkTy(func(s *Ty) {
		if s.T == "float" {
			hasFloat = true
		}
		if s.T == "pattern" {
			hasPattern = true
		}
		if s.Pat != nil {
			pats = append(pats, *s.Pat)
		}
		for _, p := range s.Props {
			if p.P.Default != nil {
				if p.P.Default.D1 != nil {
					candidateStrings(p.P.Default.D1.V, strs, floats)
				}
				if p.P.Default.D2 != nil {
					candidateStrings(p.P.Default.D2.V, strs, floats)
				}
			}
		}
		for _, m := range s.Members {
			strs[m.Key] = true
		}
	})
	e := &Ext{}
	keys := make([]string, 0, len(strs))
	for s := range strs {
		keys = append(keys, s)
	}
	sort.Strings(keys)
	pf := map[string]bool{}
	addPF := func(s string) {
		if pf[s] || !hasFloat {
			return
		}
		pf[s] = true
		f, err := strconv.ParseFloat(s, 64)
		if err != nil {
			e.PF = append(e.PF, [2]any{s, nil})
		} else {
			e.PF = append(e.PF, [2]any{s, fmt.Sprintf("%016x", canonBits(f))})
		}
	}
	for _, s := range keys {
		addPF(s)
		// captures of the unit grammar: every digits.digits substring
		for d := 1; d+1 < len(s); d++ {
			if s[d] != '.' || !isDigit(s[d-1]) || !isDigit(s[d+1]) {
				continue
			}
			lo := d
			for lo > 0 && isDigit(s[lo-1]) {
				lo--
			}
			hi := d + 1
			for hi < len(s) && isDigit(s[hi]) {
				hi++
			}
			// the integer part of a capture starts where the digit run starts (unit names
			// contain no digits in generated definitions); the fraction may be any prefix
			for j := d + 2; j <= hi; j++ {
				addPF(s[lo:j])
			}
		}
		if hasPattern {
			e.RC = append(e.RC, [2]any{s, compiles(s)})
		}
		for _, p := range pats {
			e.RM = append(e.RM, [3]any{p, s, cachedRe(p).MatchString(s)})
		}
	}
	fk := make([]uint64, 0, len(floats))
	for f := range floats {
		fk = append(fk, f)
	}
	sort.Slice(fk, func(i, j int) bool { return fk[i] < fk[j] })
	for _, f := range fk {
		e.FF = append(e.FF, [2]any{fmt.Sprintf("%016x", f), fmt.Sprintf("%f", math.Float64frombits(f))})
	}
	return e
}
