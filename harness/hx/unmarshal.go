package hx

import (
	"encoding/json"
	"fmt"
	"math/big"
	"strconv"
)

// UnmarshalJSON reads the grammar MarshalJSON writes (used for replay files).
func (v *Val) UnmarshalJSON(b []byte) error {
	if string(b) == "null" {
		*v = Val{Kind: "nil"}
		return nil
	}
	var m map[string]json.RawMessage
	if err := json.Unmarshal(b, &m); err != nil {
		return err
	}
	if raw, ok := m["nilc"]; ok {
		_ = json.Unmarshal(raw, &v.NilC)
		delete(m, "nilc")
	}
	if raw, ok := m["lt"]; ok {
		_ = json.Unmarshal(raw, &v.LT)
		delete(m, "lt")
	}
	for k, raw := range m {
		switch k {
		case "b":
			v.Kind = "b"
			return json.Unmarshal(raw, &v.B)
		case "i":
			var a [2]string
			if err := json.Unmarshal(raw, &a); err != nil {
				return err
			}
			n, ok := new(big.Int).SetString(a[1], 10)
			if !ok {
				return fmt.Errorf("bad integer %q", a[1])
			}
			v.Kind, v.IK, v.I = "i", a[0], n
			return nil
		case "f":
			var a [2]string
			if err := json.Unmarshal(raw, &a); err != nil {
				return err
			}
			bits, err := strconv.ParseUint(a[1], 16, 64)
			if err != nil {
				return err
			}
			v.Kind, v.FK, v.F = "f", a[0], bits
			return nil
		case "s":
			v.Kind = "s"
			return json.Unmarshal(raw, &v.S)
		case "re":
			v.Kind = "re"
			return json.Unmarshal(raw, &v.S)
		case "y":
			var ys []int
			if err := json.Unmarshal(raw, &ys); err != nil {
				return err
			}
			v.Kind = "y"
			v.Y = make([]byte, len(ys))
			for i, y := range ys {
				v.Y[i] = byte(y)
			}
			return nil
		case "l":
			v.Kind = "l"
			return json.Unmarshal(raw, &v.L)
		case "m":
			var a []json.RawMessage
			if err := json.Unmarshal(raw, &a); err != nil {
				return err
			}
			v.Kind = "m"
			if err := json.Unmarshal(a[0], &v.MK); err != nil {
				return err
			}
			if err := json.Unmarshal(a[1], &v.MVA); err != nil {
				return err
			}
			return json.Unmarshal(a[2], &v.M)
		case "n":
			v.Kind = "n"
			v.N = &Val{}
			return json.Unmarshal(raw, v.N)
		case "o":
			v.Kind = "o"
			return json.Unmarshal(raw, &v.O)
		}
	}
	return fmt.Errorf("bad value %s", string(b))
}

func pair(b []byte, first any, second any) error {
	var a []json.RawMessage
	if err := json.Unmarshal(b, &a); err != nil {
		return err
	}
	if len(a) != 2 {
		return fmt.Errorf("expected a pair, got %s", string(b))
	}
	if err := json.Unmarshal(a[0], first); err != nil {
		return err
	}
	return json.Unmarshal(a[1], second)
}

func (u *UnitMult) UnmarshalJSON(b []byte) error {
	var s string
	if err := pair(b, &s, &u.Names); err != nil {
		return err
	}
	n, err := strconv.ParseInt(s, 10, 64)
	u.M = n
	return err
}

func (n *NamedProp) UnmarshalJSON(b []byte) error { n.P = &Prop{}; return pair(b, &n.Name, n.P) }
func (m *Member) UnmarshalJSON(b []byte) error    { m.Ty = &Ty{}; return pair(b, &m.Key, m.Ty) }
func (n *NamedObj) UnmarshalJSON(b []byte) error  { n.Ty = &Ty{}; return pair(b, &n.ID, n.Ty) }
