// Package hx holds the shared pieces of the correspondence harness: the JSON forms of values and
// schemas (the same grammar the Lean driver reads), builders from those forms to real SDK objects,
// the external-function tables, and the runners that execute SDK operations under recover.
package hx

import (
	"encoding/json"
	"fmt"
	"math"
	"math/big"
	"reflect"
	"regexp"
	"time"

	"github.com/fxamacker/cbor/v2"
)

// Val is the JSON form of a Go value (Lean: Arca.V).
type Val struct {
	Kind string // nil b i f s y l m n re o
	B    bool
	IK   string
	I    *big.Int
	FK   string
	F    uint64
	S    string
	Y    []byte
	L    []*Val
	LT   string // element type hint for building a typed slice: "", int64, string, float64, bool
	NilC bool   // an empty list / map that is a NIL slice / map in Go (the model sees an empty container)
	MK   string // any string int64 other
	MVA  bool
	M    [][2]*Val
	N    *Val
	O    int
}

const NaNBits = 0x7FF8000000000001

func canonBits(f float64) uint64 {
	if f != f {
		return NaNBits
	}
	return math.Float64bits(f)
}

func (v *Val) MarshalJSON() ([]byte, error) {
	if v == nil {
		return []byte("null"), nil
	}
	switch v.Kind {
	case "nil":
		return []byte("null"), nil
	case "b":
		return json.Marshal(map[string]any{"b": v.B})
	case "i":
		return json.Marshal(map[string]any{"i": []string{v.IK, v.I.String()}})
	case "f":
		return json.Marshal(map[string]any{"f": []string{v.FK, fmt.Sprintf("%016x", v.F)}})
	case "s":
		return json.Marshal(map[string]any{"s": v.S})
	case "y":
		ys := make([]int, len(v.Y))
		for i, b := range v.Y {
			ys[i] = int(b)
		}
		return json.Marshal(map[string]any{"y": ys})
	case "l":
		l := v.L
		if l == nil {
			l = []*Val{}
		}
		if v.NilC && len(l) == 0 {
			return json.Marshal(map[string]any{"l": l, "nilc": true, "lt": v.LT})
		}
		if v.LT != "" {
			return json.Marshal(map[string]any{"l": l, "lt": v.LT})
		}
		return json.Marshal(map[string]any{"l": l})
	case "m":
		m := v.M
		if m == nil {
			m = [][2]*Val{}
		}
		if v.NilC && len(m) == 0 {
			return json.Marshal(map[string]any{"m": []any{v.MK, v.MVA, m}, "nilc": true})
		}
		return json.Marshal(map[string]any{"m": []any{v.MK, v.MVA, m}})
	case "n":
		return json.Marshal(map[string]any{"n": v.N})
	case "re":
		return json.Marshal(map[string]any{"re": v.S})
	case "o":
		return json.Marshal(map[string]any{"o": v.O})
	}
	return nil, fmt.Errorf("bad Val kind %q", v.Kind)
}

func Nil() *Val                  { return &Val{Kind: "nil"} }
func Bool(b bool) *Val           { return &Val{Kind: "b", B: b} }
func Str(s string) *Val          { return &Val{Kind: "s", S: s} }
func Bytes(b []byte) *Val        { return &Val{Kind: "y", Y: b} }
func List(xs ...*Val) *Val       { return &Val{Kind: "l", L: xs} }
func Named(v *Val) *Val          { return &Val{Kind: "n", N: v} }
func Regex(s string) *Val        { return &Val{Kind: "re", S: s} }
func Opaque(n int) *Val          { return &Val{Kind: "o", O: n} }
func F64(f float64) *Val         { return &Val{Kind: "f", FK: "f64", F: canonBits(f)} }
func F64Bits(b uint64) *Val      { return &Val{Kind: "f", FK: "f64", F: b} }
func F32(f float32) *Val         { return &Val{Kind: "f", FK: "f32", F: canonBits(float64(f))} }
func Int(k string, n int64) *Val { return &Val{Kind: "i", IK: k, I: big.NewInt(n)} }
func Uint(k string, n uint64) *Val {
	return &Val{Kind: "i", IK: k, I: new(big.Int).SetUint64(n)}
}
func Map(mk string, va bool, kvs ...[2]*Val) *Val {
	return &Val{Kind: "m", MK: mk, MVA: va, M: kvs}
}
func StrAny(kvs ...[2]*Val) *Val { return Map("string", true, kvs...) }
func AnyAny(kvs ...[2]*Val) *Val { return Map("any", true, kvs...) }

// named scalar types used for {"n": ...}
type (
	MyStr   string
	MyInt64 int64
	MyInt   int
	MyUint8 uint8
	MyU64   uint64
	MyBool  bool
	MyF64   float64
	MyF32   float32
	MyI32   int32
)

type foreignStruct struct{ A int }

// NOpaque is the number of distinct opaque values ToGo can produce.
const NOpaque = 10

func opaqueValue(n int) any {
	switch n % NOpaque {
	case 0:
		return foreignStruct{A: 1}
	case 1:
		return &foreignStruct{A: 2}
	case 2:
		return (*int)(nil)
	case 3:
		return cbor.Tag{Number: 42, Content: "x"}
	case 4:
		return time.Unix(0, 0).UTC()
	case 5:
		return *big.NewInt(7)
	case 6:
		return func() {}
	case 7:
		return make(chan int)
	case 8:
		return [2]int{1, 2}
	default:
		return (*regexp.Regexp)(nil)
	}
}

// ToGo builds the Go value.
func (v *Val) ToGo() any {
	if v == nil {
		return nil // JSON null
	}
	switch v.Kind {
	case "nil":
		return nil
	case "b":
		return v.B
	case "i":
		switch v.IK {
		case "int":
			return int(v.I.Int64())
		case "int8":
			return int8(v.I.Int64())
		case "int16":
			return int16(v.I.Int64())
		case "int32":
			return int32(v.I.Int64())
		case "int64":
			return v.I.Int64()
		case "uint":
			return uint(v.I.Uint64())
		case "uint8":
			return uint8(v.I.Uint64())
		case "uint16":
			return uint16(v.I.Uint64())
		case "uint32":
			return uint32(v.I.Uint64())
		case "uint64":
			return v.I.Uint64()
		}
	case "f":
		f := math.Float64frombits(v.F)
		if v.FK == "f32" {
			return float32(f)
		}
		return f
	case "s":
		return v.S
	case "y":
		return append([]byte{}, v.Y...)
	case "l":
		if v.NilC && len(v.L) == 0 {
			switch v.LT {
			case "string":
				return []string(nil)
			case "int64":
				return []int64(nil)
			}
			return []any(nil)
		}
		elems := make([]any, len(v.L))
		for i, e := range v.L {
			elems[i] = e.ToGo()
		}
		if v.LT != "" {
			if typed, ok := typedSlice(v.LT, elems); ok {
				return typed
			}
		}
		return elems
	case "m":
		return v.mapToGo()
	case "n":
		inner := v.N.ToGo()
		switch x := inner.(type) {
		case string:
			return MyStr(x)
		case int64:
			return MyInt64(x)
		case int:
			return MyInt(x)
		case uint8:
			return MyUint8(x)
		case uint64:
			return MyU64(x)
		case bool:
			return MyBool(x)
		case float64:
			return MyF64(x)
		case float32:
			return MyF32(x)
		case int32:
			return MyI32(x)
		}
		panic(fmt.Sprintf("harness: no named type for %T", inner))
	case "re":
		return regexp.MustCompile(v.S)
	case "o":
		return opaqueValue(v.O)
	}
	panic("harness: bad Val")
}

func typedSlice(lt string, elems []any) (any, bool) {
	var et reflect.Type
	switch lt {
	case "int64":
		et = reflect.TypeOf(int64(0))
	case "string":
		et = reflect.TypeOf("")
	case "float64":
		et = reflect.TypeOf(float64(0))
	case "bool":
		et = reflect.TypeOf(false)
	case "named":
		// all elements are values of one defined scalar type
		if len(elems) == 0 || elems[0] == nil {
			return nil, false
		}
		et = reflect.TypeOf(elems[0])
	default:
		return nil, false
	}
	s := reflect.MakeSlice(reflect.SliceOf(et), len(elems), len(elems))
	for i, e := range elems {
		if e == nil || reflect.TypeOf(e) != et {
			return nil, false
		}
		s.Index(i).Set(reflect.ValueOf(e))
	}
	return s.Interface(), true
}

func (v *Val) mapToGo() any {
	anyT := reflect.TypeOf((*any)(nil)).Elem()
	var kt reflect.Type
	switch v.MK {
	case "any":
		kt = anyT
	case "string":
		kt = reflect.TypeOf("")
	case "int64":
		kt = reflect.TypeOf(int64(0))
	case "nstr":
		kt = reflect.TypeOf(MyStr("")) // a defined string type as key: kind String, but not `string`
	default:
		kt = reflect.TypeOf(false) // "other": map[bool]...
	}
	vt := anyT
	if !v.MVA {
		// typed values: element type of the first value (all must agree), default string
		vt = reflect.TypeOf("")
		if len(v.M) > 0 {
			if g := v.M[0][1].ToGo(); g != nil {
				vt = reflect.TypeOf(g)
			}
			// an EMPTY typed container says nothing about its element type (it is rebuilt with the default,
			// string): take the type from the first value that has entries, and give the empty ones that type
			for _, kv := range v.M {
				if e := kv[1]; (e.Kind == "m" && len(e.M) > 0) || (e.Kind == "l" && len(e.L) > 0) {
					if g := e.ToGo(); g != nil {
						vt = reflect.TypeOf(g)
					}
					break
				}
			}
		}
	}
	if v.NilC && len(v.M) == 0 {
		return reflect.Zero(reflect.MapOf(kt, vt)).Interface()
	}
	m := reflect.MakeMap(reflect.MapOf(kt, vt))
	for _, kv := range v.M {
		k := kv[0].ToGo()
		e := kv[1].ToGo()
		cv := kv[1]
		kv := reflect.ValueOf(k)
		if k == nil {
			kv = reflect.Zero(kt)
		}
		ev := reflect.ValueOf(e)
		if e == nil {
			ev = reflect.Zero(vt)
		}
		if c := cv; e != nil && !ev.Type().AssignableTo(vt) && ((c.Kind == "m" && len(c.M) == 0 && vt.Kind() == reflect.Map) || (c.Kind == "l" && len(c.L) == 0 && vt.Kind() == reflect.Slice)) {
			// the empty container of the siblings' type (nil stays nil)
			switch {
			case c.NilC:
				ev = reflect.Zero(vt)
			case vt.Kind() == reflect.Map:
				ev = reflect.MakeMap(vt)
			default:
				ev = reflect.MakeSlice(vt, 0, 0)
			}
		}
		if !kv.Type().AssignableTo(kt) || !ev.Type().AssignableTo(vt) {
			panic(fmt.Sprintf("harness: ill-typed map entry %T:%T for map[%s]%s", k, e, kt, vt))
		}
		m.SetMapIndex(kv, ev)
	}
	return m.Interface()
}

var regexpPtrType = reflect.TypeOf((*regexp.Regexp)(nil))

// Enc encodes a Go value as a Val (the canonical observation of a result).
func Enc(x any) *Val {
	if x == nil {
		return Nil()
	}
	rv := reflect.ValueOf(x)
	rt := rv.Type()
	named := func(v *Val, predeclared reflect.Type) *Val {
		if rt == predeclared {
			return v
		}
		return Named(v)
	}
	switch rv.Kind() {
	case reflect.Bool:
		return named(Bool(rv.Bool()), reflect.TypeOf(false))
	case reflect.Int:
		return named(Int("int", rv.Int()), reflect.TypeOf(int(0)))
	case reflect.Int8:
		return named(Int("int8", rv.Int()), reflect.TypeOf(int8(0)))
	case reflect.Int16:
		return named(Int("int16", rv.Int()), reflect.TypeOf(int16(0)))
	case reflect.Int32:
		return named(Int("int32", rv.Int()), reflect.TypeOf(int32(0)))
	case reflect.Int64:
		return named(Int("int64", rv.Int()), reflect.TypeOf(int64(0)))
	case reflect.Uint:
		return named(Uint("uint", rv.Uint()), reflect.TypeOf(uint(0)))
	case reflect.Uint8:
		return named(Uint("uint8", rv.Uint()), reflect.TypeOf(uint8(0)))
	case reflect.Uint16:
		return named(Uint("uint16", rv.Uint()), reflect.TypeOf(uint16(0)))
	case reflect.Uint32:
		return named(Uint("uint32", rv.Uint()), reflect.TypeOf(uint32(0)))
	case reflect.Uint64:
		return named(Uint("uint64", rv.Uint()), reflect.TypeOf(uint64(0)))
	case reflect.Float32:
		return named(&Val{Kind: "f", FK: "f32", F: canonBits(rv.Float())}, reflect.TypeOf(float32(0)))
	case reflect.Float64:
		return named(&Val{Kind: "f", FK: "f64", F: canonBits(rv.Float())}, reflect.TypeOf(float64(0)))
	case reflect.String:
		return named(Str(rv.String()), reflect.TypeOf(""))
	case reflect.Slice:
		if rt.Elem().Kind() == reflect.Uint8 {
			return Bytes(append([]byte{}, rv.Bytes()...))
		}
		out := &Val{Kind: "l", L: make([]*Val, rv.Len())}
		for i := 0; i < rv.Len(); i++ {
			out.L[i] = Enc(rv.Index(i).Interface())
		}
		return out
	case reflect.Map:
		out := &Val{Kind: "m"}
		switch {
		case rt.Key().Kind() == reflect.Interface:
			out.MK = "any"
		case rt.Key() == reflect.TypeOf(""):
			out.MK = "string"
		case rt.Key() == reflect.TypeOf(int64(0)):
			out.MK = "int64"
		case rt.Key() == reflect.TypeOf(MyStr("")):
			out.MK = "nstr"
		default:
			out.MK = "other"
		}
		out.MVA = rt.Elem().Kind() == reflect.Interface && rt.Elem().NumMethod() == 0
		for it := rv.MapRange(); it.Next(); {
			out.M = append(out.M, [2]*Val{Enc(it.Key().Interface()), Enc(it.Value().Interface())})
		}
		return out
	case reflect.Pointer:
		if rt == regexpPtrType && !rv.IsNil() {
			re := x.(*regexp.Regexp)
			if f := reflect.ValueOf(re).Elem().FieldByName("longest"); f.IsValid() && f.Kind() == reflect.Bool && f.Bool() {
				// a compiled expression that somebody switched to leftmost-longest matching is not the
				// expression its text denotes (the library never makes one)
				return Regex(re.String() + " (switched to leftmost-longest matching)")
			}
			return Regex(re.String())
		}
	}
	return Opaque(0)
}

// Walk calls f on v and every value nested in it.
func (v *Val) Walk(f func(*Val)) {
	if v == nil {
		return
	}
	f(v)
	for _, e := range v.L {
		e.Walk(f)
	}
	for _, kv := range v.M {
		kv[0].Walk(f)
		kv[1].Walk(f)
	}
	if v.N != nil {
		v.N.Walk(f)
	}
}
