package hx

import (
	"fmt"
	"math"
	"math/rand"
	"strconv"
	"strings"
)

// Gen is the seeded, type-directed generator of schemas and values. Every random choice comes
// from R, so a seed replays exactly.
type Gen struct {
	R      *rand.Rand
	nextID int
	// MaxDepth bounds schema nesting.
	MaxDepth int
	// Stats counts what was generated (printed into the evidence).
	Stats map[string]int
	// noShorthand suppresses the single-property shorthand (one-of members need a real map)
	noShorthand bool
}

func NewGen(seed int64) *Gen {
	return &Gen{R: rand.New(rand.NewSource(seed)), MaxDepth: 3, Stats: map[string]int{}}
}

func (g *Gen) count(k string)           { g.Stats[k]++ }
func (g *Gen) p(prob float64) bool      { return g.R.Float64() < prob }
func (g *Gen) pick(xs ...string) string { return xs[g.R.Intn(len(xs))] }

// ---------------------------------------------------------------------------------------------
// units

var BuiltinUnits = map[string]*Units{
	"bytes": {Base: [4]string{"B", "B", "byte", "bytes"}, Mults: []UnitMult{
		{1024, [4]string{"kB", "kB", "kilobyte", "kilobytes"}},
		{1048576, [4]string{"MB", "MB", "megabyte", "megabytes"}},
		{1073741824, [4]string{"GB", "GB", "gigabyte", "gigabytes"}},
		{1099511627776, [4]string{"TB", "TB", "terabyte", "terabytes"}},
		{1125899906842624, [4]string{"PB", "PB", "petabyte", "petabytes"}},
	}},
	"nanoseconds": {Base: [4]string{"ns", "ns", "nanosecond", "nanoseconds"}, Mults: []UnitMult{
		{1000, [4]string{"μs", "μs", "microsecond", "microseconds"}},
		{1000000, [4]string{"ms", "ms", "milliseconds", "milliseconds"}},
		{1000000000, [4]string{"s", "s", "second", "seconds"}},
		{60000000000, [4]string{"m", "m", "minute", "minutes"}},
		{3600000000000, [4]string{"H", "H", "hour", "hours"}},
		{86400000000000, [4]string{"d", "d", "day", "days"}},
	}},
	"seconds": {Base: [4]string{"s", "s", "second", "seconds"}, Mults: []UnitMult{
		{60, [4]string{"m", "m", "minute", "minutes"}},
		{3600, [4]string{"H", "H", "hour", "hours"}},
		{86400, [4]string{"d", "d", "day", "days"}},
	}},
	"characters": {Base: [4]string{"char", "chars", "character", "characters"}},
	"percentage": {Base: [4]string{"%", "%", "percent", "percent"}},
}

var builtinUnitNames = []string{"bytes", "nanoseconds", "seconds", "characters", "percentage"}

// GenUnits returns a built-in definition or a generated well-formed one (names without digits
// and spaces, pairwise distinct; multipliers > 1 and distinct).
func (g *Gen) GenUnits() *Units {
	if g.p(0.6) {
		return BuiltinUnits[builtinUnitNames[g.R.Intn(len(builtinUnitNames))]]
	}
	pool := []string{"a", "ab", "abc", "b", "ba", "x", "xy", "q.", "(z", "k*", "m", "ms", "w+", "[u", "t|", "µ", "é"}
	g.R.Shuffle(len(pool), func(i, j int) { pool[i], pool[j] = pool[j], pool[i] })
	next := 0
	names := func() [4]string {
		n := [4]string{pool[next], pool[next] + "s", pool[next] + "long", pool[next] + "longs"}
		next++
		return n
	}
	u := &Units{Base: names()}
	nm := g.R.Intn(4)
	m := int64(1)
	for i := 0; i < nm; i++ {
		m *= int64(2 + g.R.Intn(60))
		u.Mults = append(u.Mults, UnitMult{m, names()})
	}
	// the Go side keeps them in a map; list order here is arbitrary on purpose
	g.R.Shuffle(len(u.Mults), func(i, j int) { u.Mults[i], u.Mults[j] = u.Mults[j], u.Mults[i] })
	if nm == 0 && g.p(0.5) {
		u.Mults = nil
	}
	return u
}

// FormatUnits renders n (>= 0) in the unit grammar: counts with names, largest unit first.
func (g *Gen) FormatUnits(u *Units, n int64) string {
	ms := append([]UnitMult{}, u.Mults...)
	for i := range ms {
		for j := i + 1; j < len(ms); j++ {
			if ms[j].M > ms[i].M {
				ms[i], ms[j] = ms[j], ms[i]
			}
		}
	}
	var sb strings.Builder
	sep := func() {
		if g.p(0.2) {
			sb.WriteString(" ")
		}
	}
	rem := n
	for _, m := range ms {
		q := rem / m.M
		rem -= q * m.M
		if q == 0 && g.p(0.9) {
			continue
		}
		sb.WriteString(strconv.FormatInt(q, 10))
		sep()
		sb.WriteString(m.Names[g.R.Intn(4)])
		sep()
	}
	if rem != 0 || sb.Len() == 0 || g.p(0.1) {
		sb.WriteString(strconv.FormatInt(rem, 10))
		sep()
		if g.p(0.85) {
			sb.WriteString(u.Base[g.R.Intn(4)])
		}
	}
	return sb.String()
}

// ---------------------------------------------------------------------------------------------
// schemas

var patternPool = []string{`^[a-z]+$`, `^a`, `[0-9]+`, `^.{2,4}$`, `x|y`, `^$`, `^[A-Za-z0-9_]*$`,
	// patterns made of literal characters only (searched for, not anchored, unless they say so)
	`abc`, `^abc$`, `\.yaml`, `://`, `23`, `b`, `^ab`, `bc$`, `a b`}
var stringPool = []string{"", "a", "ab", "abc", "abcd", "x", "y", "5", "10", "-3", "true", "hello", "A", "é", "日本", "a b", "1.5", "007", " 7", "+4", "cpu%", "%s", "100%d",
	"xabc", "abcx", "xabcx", "file.yaml", "http://host", "12345", "xa bx",
	// long texts in multi-byte scripts: more than 48 / 64 BYTES but fewer CHARACTERS, and with a character
	// straddling those byte offsets (error messages quote the offending value)
	"日本語のテキストはここにあります、長い文章です。これは長い", "Список дел, которые нужно сделать сегодня и завтра утром",
	"한국어로 된 긴 문장입니다 이것은 매우 긴 문장이에요", "😀😀😀😀😀😀😀😀😀😀😀😀😀😀😀😀😀😀😀😀", "ääääääääääääääääääääääääääääääääääääääää",
	"aaaaaaaaaaaaaaaaaaaaaaaaaaaaaaaaaaaaaaaaaaaaaaaaaaaaaaaaaaaaaaaaaaaaaaaaaaaaaaaaaaaaaaaa"}
var propNames = []string{"a", "b", "c", "d", "e"}

type scopeCtx struct {
	ids []string // object IDs of the enclosing scope (targets for references)
}

func (g *Gen) smallInt() int64 { return int64(g.R.Intn(26) - 5) }

func (g *Gen) bounds(lo, hi int) (min, max *string) {
	a := int64(lo + g.R.Intn(hi-lo+1))
	b := int64(lo + g.R.Intn(hi-lo+1))
	if a > b && !g.p(0.05) {
		a, b = b, a
	}
	if g.p(0.5) {
		min = IntP(a)
	}
	if g.p(0.5) {
		max = IntP(b)
	}
	return
}

var floatPool = []float64{0, 0.5, 1, -1.5, 100, 1e300, -1e300, 3.25, 1e-3, 9007199254740992, 9007199254740994, -0.0}

// Scalar returns a random scalar schema.
func (g *Gen) Scalar() *Ty {
	switch g.R.Intn(7) {
	case 0:
		t := &Ty{T: "int"}
		if g.p(0.15) {
			// extreme bounds
			ex := []int64{math.MinInt64, math.MaxInt64, math.MaxInt64 - 1, math.MinInt64 + 1, 1 << 53, (1 << 53) + 1}
			if g.p(0.5) {
				t.Min = IntP(ex[g.R.Intn(len(ex))])
			}
			if g.p(0.5) {
				t.Max = IntP(ex[g.R.Intn(len(ex))])
			}
		} else {
			t.Min, t.Max = g.bounds(-5, 20)
		}
		if g.p(0.2) {
			t.Units = g.GenUnits()
		}
		return t
	case 1:
		t := &Ty{T: "float"}
		a := floatPool[g.R.Intn(len(floatPool))]
		b := floatPool[g.R.Intn(len(floatPool))]
		if a > b {
			a, b = b, a
		}
		if g.p(0.5) {
			t.Min = FloatP(a)
		}
		if g.p(0.5) {
			t.Max = FloatP(b)
		}
		if g.p(0.15) {
			t.Units = g.GenUnits()
		}
		return t
	case 2:
		t := &Ty{T: "str"}
		t.Min, t.Max = g.bounds(0, 6)
		if g.p(0.3) {
			t.Pat = StrP(patternPool[g.R.Intn(len(patternPool))])
		}
		return t
	case 3:
		return &Ty{T: "bool"}
	case 4:
		return &Ty{T: "pattern"}
	case 5:
		t := &Ty{T: "enumInt"}
		n := 1 + g.R.Intn(4)
		seen := map[int64]bool{}
		for len(t.Vals) < n {
			v := g.smallInt()
			if g.p(0.05) {
				v = math.MaxInt64
			}
			if !seen[v] {
				seen[v] = true
				t.Vals = append(t.Vals, strconv.FormatInt(v, 10))
			}
		}
		if g.p(0.15) {
			t.Units = g.GenUnits()
		}
		return t
	default:
		t := &Ty{T: "enumStr"}
		n := 1 + g.R.Intn(4)
		seen := map[string]bool{}
		for len(t.Vals) < n {
			v := stringPool[g.R.Intn(len(stringPool))]
			if !seen[v] {
				seen[v] = true
				t.Vals = append(t.Vals, v)
			}
		}
		return t
	}
}

func (g *Gen) keySchema() *Ty {
	for {
		t := g.Scalar()
		switch t.T {
		case "int", "str", "enumInt", "enumStr":
			return t
		}
	}
}

// Schema returns a random schema; sc is the enclosing scope (nil outside any scope).
func (g *Gen) Schema(depth int, sc *scopeCtx) *Ty {
	if depth >= g.MaxDepth || g.p(0.35) {
		if g.p(0.1) {
			return &Ty{T: "any"}
		}
		return g.Scalar()
	}
	switch r := g.R.Intn(100); {
	case r < 18:
		t := &Ty{T: "list", Item: g.Schema(depth+1, sc)}
		t.Min, t.Max = g.bounds(0, 3)
		return t
	case r < 34:
		t := &Ty{T: "map", K: g.keySchema(), V: g.Schema(depth+1, sc)}
		t.Min, t.Max = g.bounds(0, 3)
		return t
	case r < 60:
		return g.Object(depth, sc, 0)
	case r < 72:
		if sc != nil && len(sc.ids) > 0 {
			return &Ty{T: "ref", ID: sc.ids[g.R.Intn(len(sc.ids))]}
		}
		return g.Scope(depth)
	case r < 84:
		return g.Scope(depth)
	case r < 96:
		return g.OneOf(depth, sc)
	default:
		return &Ty{T: "any"}
	}
}

func (g *Gen) freshID() string {
	g.nextID++
	return fmt.Sprintf("O%d", g.nextID)
}

// defaultFor renders a JSON default text that the type accepts most of the time.
func (g *Gen) defaultFor(t *Ty) *Default {
	switch t.T {
	case "int":
		lo := int64(0)
		if t.Min != nil {
			lo, _ = strconv.ParseInt(*t.Min, 10, 64)
		} else if t.Max != nil {
			lo, _ = strconv.ParseInt(*t.Max, 10, 64)
		}
		if g.p(0.2) {
			return MkDefault(fmt.Sprintf("\"%d\"", lo))
		}
		return MkDefault(strconv.FormatInt(lo, 10))
	case "float":
		if t.Min != nil {
			return MkDefault(strconv.FormatFloat(*optFloat(t.Min), 'g', -1, 64))
		}
		if t.Max != nil {
			return MkDefault(strconv.FormatFloat(*optFloat(t.Max), 'g', -1, 64))
		}
		return MkDefault("1.5")
	case "str":
		s := g.pick("abc", "ab", "hello", "a", "xyz", "", "")
		if g.p(0.3) {
			return MkDefault(s) // unquoted: exercises the quoting fallback
		}
		return MkDefault(strconv.Quote(s))
	case "bool":
		return MkDefault(g.pick("true", "false", "\"yes\"", "0"))
	case "enumInt":
		return MkDefault(t.Vals[0])
	case "enumStr":
		return MkDefault(strconv.Quote(t.Vals[0]))
	case "list":
		return MkDefault("[]")
	case "map":
		return MkDefault("{}")
	case "any":
		return MkDefault(g.pick("1", "\"x\"", "[1,2]", "{\"k\":true}", "null"))
	}
	return nil
}

// Object returns a map-based object schema. minProps > 0 forces at least that many properties.
func (g *Gen) Object(depth int, sc *scopeCtx, minProps int) *Ty {
	t := &Ty{T: "obj", ID: g.freshID()}
	n := g.R.Intn(5)
	if n < minProps {
		n = minProps
	}
	names := append([]string{}, propNames...)
	g.R.Shuffle(len(names), func(i, j int) { names[i], names[j] = names[j], names[i] })
	names = names[:n]
	for _, name := range names {
		p := &Prop{Ty: g.Schema(depth+1, sc)}
		// a reference (possibly recursive) must not be reachable without consuming input:
		// no default on it, and the single-property shorthand is avoided by the caller
		isRef := p.Ty.T == "ref"
		if g.p(0.35) {
			p.Required = true
		}
		others := func() []string {
			var out []string
			for _, o := range names {
				if o != name && g.p(0.4) {
					out = append(out, o)
				}
			}
			if g.p(0.1) {
				out = append(out, "undeclared")
			}
			return out
		}
		if g.p(0.15) {
			p.RequiredIf = others()
		}
		if g.p(0.15) {
			p.RequiredIfNot = others()
		}
		if g.p(0.15) {
			p.Conflicts = others()
		}
		if !isRef && g.p(0.3) {
			p.Default = g.defaultFor(p.Ty)
		}
		if g.p(0.06) {
			p.Disabled = true
		}
		t.Props = append(t.Props, NamedProp{name, p})
	}
	return t
}

// Scope returns a scope with 1..3 objects whose properties may refer to each other.
func (g *Gen) Scope(depth int) *Ty {
	n := 1 + g.R.Intn(3)
	sc := &scopeCtx{}
	for i := 0; i < n; i++ {
		sc.ids = append(sc.ids, g.freshID())
	}
	t := &Ty{T: "scope", Root: sc.ids[0]}
	for _, id := range sc.ids {
		// at least two properties, so that recursion through references always consumes a map
		o := g.Object(depth, sc, 2)
		o.ID = id
		t.Objs = append(t.Objs, NamedObj{id, o})
	}
	return t
}

// OneOf returns a one-of over 1..3 object members.
func (g *Gen) OneOf(depth int, sc *scopeCtx) *Ty {
	t := &Ty{T: "oneOf", IntKey: g.p(0.4), Disc: g.pick("_type", "kind", "a"), Inlined: g.p(0.4)}
	n := 1 + g.R.Intn(3)
	// keys include the zero values of the key types (0, "") and a negative integer
	base := g.R.Intn(3) - 1
	emptyKey := g.p(0.15)
	for i := 0; i < n; i++ {
		var key string
		if t.IntKey {
			key = strconv.Itoa(base + i)
		} else {
			key = g.pick("x", "y", "z", "5")[0:1] + strconv.Itoa(i)
			if emptyKey && i == 0 {
				key = ""
			}
		}
		var m *Ty
		if sc != nil && len(sc.ids) > 0 && !t.Inlined && g.p(0.3) {
			m = &Ty{T: "ref", ID: sc.ids[g.R.Intn(len(sc.ids))]}
		} else {
			m = g.Object(depth+1, sc, 0)
			// the member must (inlined) or must not (otherwise) declare the discriminator
			var props []NamedProp
			for _, p := range m.Props {
				if p.Name != t.Disc {
					props = append(props, p)
				}
			}
			m.Props = props
			if t.Inlined {
				var dt *Ty
				if t.IntKey {
					dt = &Ty{T: "int"}
				} else {
					dt = &Ty{T: "str"}
				}
				m.Props = append(m.Props, NamedProp{t.Disc, &Prop{Ty: dt, Required: g.p(0.7)}})
			}
		}
		t.Members = append(t.Members, Member{key, m})
	}
	if !t.Inlined && sc != nil {
		// referenced members must not declare the discriminator either: keep only safe refs
		for i, m := range t.Members {
			if m.Ty.T == "ref" {
				t.Members[i].Ty = g.Object(depth+1, sc, 0)
				var props []NamedProp
				for _, p := range t.Members[i].Ty.Props {
					if p.Name != t.Disc {
						props = append(props, p)
					}
				}
				t.Members[i].Ty.Props = props
			}
		}
	}
	return t
}

// ---------------------------------------------------------------------------------------------
// values

// Env resolves references while generating values.
type Env map[string]*Ty

func optI(p *string, d int64) int64 {
	if p == nil {
		return d
	}
	n, _ := strconv.ParseInt(*p, 10, 64)
	return n
}

// intReps returns n in a random Go representation.
func (g *Gen) intRep(n int64, u *Units) *Val {
	for {
		switch g.R.Intn(12) {
		case 0, 1:
			return Int("int64", n)
		case 2:
			return Int("int", n)
		case 3:
			if n >= 0 {
				return Uint("uint64", uint64(n))
			}
		case 4:
			if n >= math.MinInt32 && n <= math.MaxInt32 {
				return Int("int32", n)
			}
		case 5:
			if n >= 0 && n <= 255 {
				return Uint("uint8", uint64(n))
			}
		case 6:
			if n >= -128 && n <= 127 {
				return Int("int8", n)
			}
		case 7:
			if n > -(1<<53) && n < (1<<53) {
				return F64(float64(n))
			}
		case 8:
			if n > -(1<<24) && n < (1<<24) {
				return F32(float32(n))
			}
		case 9:
			if u != nil && n >= 0 {
				return Str(g.FormatUnits(u, n))
			}
			if n >= 0 && g.p(0.35) {
				// the way documents spell numbers: zero-padded, signed
				if g.p(0.5) {
					return Str(fmt.Sprintf("%03d", n))
				}
				return Str("+" + strconv.FormatInt(n, 10))
			}
			return Str(strconv.FormatInt(n, 10))
		case 10:
			if n >= 0 && n <= 65535 {
				return Uint("uint16", uint64(n))
			}
			if n >= 0 {
				return Uint("uint", uint64(n))
			}
		case 11:
			if n == 0 || n == 1 {
				return Bool(n == 1)
			}
			if n >= math.MinInt16 && n <= math.MaxInt16 {
				return Int("int16", n)
			}
		}
	}
}

func (g *Gen) intValue(min, max *string) int64 {
	lo, hi := optI(min, -5), optI(max, 20)
	if min != nil && max == nil {
		hi = lo + 10
		if hi < lo {
			hi = math.MaxInt64
		}
	}
	if max != nil && min == nil {
		lo = hi - 10
		if lo > hi {
			lo = math.MinInt64
		}
	}
	if g.p(0.3) {
		// boundaries, possibly outside
		c := []int64{lo, hi, lo - 1, hi + 1, lo + 1, hi - 1}
		return c[g.R.Intn(len(c))]
	}
	if hi < lo {
		return lo
	}
	span := uint64(hi - lo)
	if span == math.MaxUint64 {
		return int64(g.R.Uint64())
	}
	return lo + int64(g.R.Uint64()%(span+1))
}

func (g *Gen) floatValue(t *Ty) float64 {
	lo, hi := -10.0, 10.0
	if t.Min != nil {
		lo = *optFloat(t.Min)
		hi = lo + 10
	}
	if t.Max != nil {
		hi = *optFloat(t.Max)
		if t.Min == nil {
			lo = hi - 10
		}
	}
	switch g.R.Intn(10) {
	case 0:
		return lo
	case 1:
		return hi
	case 2:
		return math.Nextafter(lo, math.Inf(-1))
	case 3:
		return math.Nextafter(hi, math.Inf(1))
	case 4:
		return []float64{math.NaN(), math.Inf(1), math.Inf(-1), 0, math.Copysign(0, -1), 1 << 53, (1 << 53) + 2, 0.1, 1e-320}[g.R.Intn(9)]
	case 5:
		return float64(int64(lo + (hi-lo)*g.R.Float64()))
	default:
		return lo + (hi-lo)*g.R.Float64()
	}
}

func (g *Gen) floatRep(f float64, u *Units) *Val {
	for {
		switch g.R.Intn(8) {
		case 0, 1, 2:
			return F64(f)
		case 3:
			if float64(float32(f)) == f {
				return F32(float32(f))
			}
		case 4:
			if f == math.Trunc(f) && math.Abs(f) < 1e15 {
				return g.intRep(int64(f), nil)
			}
		case 5:
			if u != nil && f >= 0 && f == math.Trunc(f) && f < 1e15 {
				return Str(g.FormatUnits(u, int64(f)))
			}
			if u != nil && f >= 0 && f < 1e6 {
				return Str(strconv.FormatFloat(f, 'f', 3, 64) + u.Base[g.R.Intn(4)])
			}
			return Str(strconv.FormatFloat(f, 'g', -1, 64))
		case 6:
			return Str(strconv.FormatFloat(f, 'f', -1, 64))
		}
	}
}

func (g *Gen) stringValue(t *Ty) string {
	if t.Pat != nil {
		pools := map[string][]string{
			`^[a-z]+$`: {"a", "ab", "abc", "hello", "abcdef", "abcdefg"}, `^a`: {"a", "ab", "abc", "axyz99"},
			`[0-9]+`: {"5", "a1", "007", "1234567"}, `^.{2,4}$`: {"ab", "abc", "abcd", "日本"},
			`x|y`: {"x", "y", "axb", "yyyyy"}, `^$`: {""}, `^[A-Za-z0-9_]*$`: {"", "a_1", "Z9", "abcdefgh"},
		}
		if p, ok := pools[*t.Pat]; ok && g.p(0.85) {
			return p[g.R.Intn(len(p))]
		}
	}
	if g.p(0.4) {
		lo, hi := optI(t.Min, 0), optI(t.Max, 6)
		n := []int64{lo, hi, lo - 1, hi + 1}[g.R.Intn(4)]
		if n < 0 {
			n = 0
		}
		if n > 40 {
			n = 40
		}
		return strings.Repeat("a", int(n))
	}
	return stringPool[g.R.Intn(len(stringPool))]
}

var boolWordPool = []string{"1", "yes", "y", "on", "true", "enable", "enabled", "0", "no", "n", "off", "false", "disable", "disabled"}

func randCase(g *Gen, s string) string {
	b := []byte(s)
	for i := range b {
		if b[i] >= 'a' && b[i] <= 'z' && g.p(0.3) {
			b[i] -= 32
		}
	}
	return string(b)
}

// Value returns a raw value that Unserialize of t accepts with high probability; boundary and
// representation choices are made at random.
func (g *Gen) Value(t *Ty, env Env, depth int) *Val {
	g.count("val:" + t.T)
	if depth > 9 {
		return Nil() // recursion through references that the schema forces: give up (invalid value)
	}
	switch t.T {
	case "int":
		return g.intRep(g.intValue(t.Min, t.Max), t.Units)
	case "float":
		return g.floatRep(g.floatValue(t), t.Units)
	case "str":
		s := g.stringValue(t)
		if g.p(0.08) {
			if n, err := strconv.ParseInt(s, 10, 64); err == nil {
				return g.intRep(n, nil)
			}
			return F64(1.5)
		}
		return Str(s)
	case "bool":
		switch g.R.Intn(4) {
		case 0:
			return Bool(g.p(0.5))
		case 1:
			return Str(randCase(g, boolWordPool[g.R.Intn(len(boolWordPool))]))
		case 2:
			return g.intRep(int64(g.R.Intn(2)), nil)
		default:
			return Bool(g.p(0.5))
		}
	case "pattern":
		return Str(g.pick("^a+$", "[0-9]*", "x|y", "a(b", "", "^.{2}$", "a\n", "^a$\n", "\n", "a\r\n", "a\\\n", " a ", "a\t"))
	case "enumInt":
		if g.p(0.12) {
			return g.intRep(g.smallInt(), t.Units)
		}
		n, _ := strconv.ParseInt(t.Vals[g.R.Intn(len(t.Vals))], 10, 64)
		return g.intRep(n, t.Units)
	case "enumStr":
		s := t.Vals[g.R.Intn(len(t.Vals))]
		if g.p(0.12) {
			s = stringPool[g.R.Intn(len(stringPool))]
		}
		if g.p(0.15) {
			if n, err := strconv.ParseInt(s, 10, 64); err == nil && strconv.FormatInt(n, 10) == s {
				return g.intRep(n, nil)
			}
		}
		return Str(s)
	case "list":
		n := int(g.sizeValue(t.Min, t.Max))
		if depth > 3 && n > 1 {
			n = 1
		}
		if t.Max == nil && depth <= 2 && g.p(0.04) {
			// a long list (samples, log lines): an implementation may treat lists beyond some block size
			// differently; items are still numbered from the start of the list
			switch t.Item.T {
			case "int", "float", "str", "bool", "enumInt", "enumStr", "list", "obj":
				n = 60 + g.R.Intn(140)
				g.count("list:long")
			}
		}
		l := &Val{Kind: "l"}
		for i := 0; i < n; i++ {
			l.L = append(l.L, g.Value(t.Item, env, depth+1))
		}
		if g.p(0.25) {
			l.LT = g.pick("int64", "string", "float64", "bool")
		}
		if t.Item.T == "int" && g.p(0.1) {
			b := make([]byte, n)
			for i := range b {
				b[i] = byte(g.R.Intn(100))
			}
			return Bytes(b)
		}
		return l
	case "map":
		n := int(g.sizeValue(t.Min, t.Max))
		if depth > 3 && n > 1 {
			n = 1
		}
		m := &Val{Kind: "m", MK: "any", MVA: true}
		seen := map[string]bool{}
		allStr, allI64 := true, true
		for i := 0; i < n*3 && len(m.M) < n; i++ {
			k := g.Value(t.K, env, depth+1)
			// one representation per native key, so that keys do not collide after conversion
			id := k.Kind + ":" + k.S
			if k.Kind == "i" {
				id = "i:" + k.I.String()
			}
			if k.Kind == "f" || k.Kind == "b" {
				continue
			}
			if k.Kind == "s" {
				if n, err := strconv.ParseInt(strings.TrimSpace(k.S), 10, 64); err == nil || t.K.Units != nil {
					if t.K.T == "int" || t.K.T == "enumInt" {
						if err != nil || t.K.Units != nil {
							continue
						}
						// an integer key as a document spells it ("02", "+1", " 7"): one key per number
						id = "i:" + strconv.FormatInt(n, 10)
						g.count("map:int-key-as-text")
					}
				}
			}
			if k.Kind == "i" && (t.K.T == "str" || t.K.T == "enumStr") {
				id = "s:" + k.I.String()
			}
			if seen[id] {
				continue
			}
			seen[id] = true
			if k.Kind != "s" {
				allStr = false
			}
			if !(k.Kind == "i" && k.IK == "int64") {
				allI64 = false
			}
			m.M = append(m.M, [2]*Val{k, g.Value(t.V, env, depth+1)})
		}
		if allStr && g.p(0.5) {
			m.MK = "string"
		} else if allI64 && len(m.M) > 0 && g.p(0.5) {
			m.MK = "int64"
		}
		return m
	case "obj":
		return g.objectValue(t, env, depth)
	case "oneOf":
		m := t.Members[g.R.Intn(len(t.Members))]
		mt := m.Ty
		for mt.T == "ref" {
			mt = env[mt.ID]
		}
		g.noShorthand = true
		v := g.objectValue(mt, env, depth)
		g.noShorthand = false
		if v.Kind != "m" {
			v = StrAny()
		}
		var d *Val
		if t.IntKey {
			n, _ := strconv.ParseInt(m.Key, 10, 64)
			d = g.intRep(n, nil)
			if d.Kind == "b" || d.Kind == "f" {
				d = Int("int64", n)
			}
		} else {
			d = Str(m.Key)
		}
		if g.p(0.06) {
			d = Str("nope")
		}
		// replace or add the discriminator
		var kvs [][2]*Val
		for _, kv := range v.M {
			if !(kv[0].Kind == "s" && kv[0].S == t.Disc) {
				kvs = append(kvs, kv)
			}
		}
		if !g.p(0.05) {
			kvs = append(kvs, [2]*Val{Str(t.Disc), d})
		}
		v.M = kvs
		return v
	case "ref":
		if o, ok := env[t.ID]; ok {
			return g.Value(o, env, depth+1)
		}
		return Nil()
	case "scope":
		env2 := Env{}
		for _, o := range t.Objs {
			env2[o.ID] = o.Ty
		}
		return g.Value(env2[t.Root], env2, depth)
	case "any":
		return g.AnyValue(depth)
	}
	panic("harness: Value: bad type " + t.T)
}

func (g *Gen) sizeValue(min, max *string) int64 {
	lo, hi := optI(min, 0), optI(max, 3)
	if max == nil && min != nil {
		hi = lo + 2
	}
	if min == nil && max != nil && hi < lo {
		lo = hi
	}
	if g.p(0.25) {
		n := []int64{lo, hi, lo - 1, hi + 1}[g.R.Intn(4)]
		if n < 0 {
			n = 0
		}
		return n
	}
	if hi < lo {
		return lo
	}
	return lo + int64(g.R.Intn(int(hi-lo+1)))
}

func (g *Gen) objectValue(t *Ty, env Env, depth int) *Val {
	if depth > 6 {
		// deep recursion through references: stop supplying optional properties
		m := StrAny()
		for _, np := range t.Props {
			if np.P.Required && np.P.Ty.T != "ref" {
				m.M = append(m.M, [2]*Val{Str(np.Name), g.Value(np.P.Ty, env, depth+1)})
			}
		}
		return m
	}
	if len(t.Props) == 1 && !g.noShorthand && g.p(0.2) {
		// single-property shorthand
		return g.Value(t.Props[0].P.Ty, env, depth+1)
	}
	m := &Val{Kind: "m", MK: "string", MVA: true}
	if g.p(0.4) {
		m.MK = "any"
	}
	for _, np := range t.Props {
		p := np.P
		supply := p.Required || g.p(0.55)
		if p.Required && g.p(0.05) {
			supply = false
		}
		if p.Ty.T == "ref" && depth > 3 && !p.Required {
			supply = false
		}
		if supply {
			m.M = append(m.M, [2]*Val{Str(np.Name), g.Value(p.Ty, env, depth+1)})
		}
	}
	if g.p(0.04) {
		m.M = append(m.M, [2]*Val{Str("zz"), Int("int64", 1)})
	}
	g.R.Shuffle(len(m.M), func(i, j int) { m.M[i], m.M[j] = m.M[j], m.M[i] })
	return m
}

// AnyValue returns a value of the decoder-producible domain the any-schema is meant for.
func (g *Gen) AnyValue(depth int) *Val {
	if depth > 4 || g.p(0.5) {
		switch g.R.Intn(6) {
		case 0:
			return g.intRep(g.smallInt(), nil)
		case 1:
			return F64(g.floatValue(&Ty{T: "float"}))
		case 2:
			return Str(stringPool[g.R.Intn(len(stringPool))])
		case 3:
			return Bool(g.p(0.5))
		case 4:
			return Int("int64", g.smallInt())
		default:
			return Uint("uint64", uint64(g.R.Intn(100)))
		}
	}
	if g.p(0.08) {
		// a statically typed slice whose element type is a DEFINED scalar type ([]MyStr, []MyInt64, ...: what
		// []time.Duration is to a caller): each element denotes its native value, as a lone named scalar does
		mk := []func() *Val{
			func() *Val { return Named(Str(stringPool[g.R.Intn(len(stringPool))])) },
			func() *Val { return Named(Int("int64", g.smallInt())) },
			func() *Val { return Named(F64(float64(g.smallInt()) / 2)) },
			func() *Val { return Named(Bool(g.p(0.5))) },
		}[g.R.Intn(4)]
		l := &Val{Kind: "l", LT: "named"}
		for i, n := 0, 1+g.R.Intn(3); i < n; i++ {
			l.L = append(l.L, mk())
		}
		g.count("any:named-slice")
		return l
	}
	if g.p(0.5) {
		n := g.R.Intn(4)
		l := &Val{Kind: "l"}
		first := g.AnyValue(depth + 1)
		for i := 0; i < n; i++ {
			if i == 0 || g.p(0.1) {
				l.L = append(l.L, g.AnyValue(depth+1))
			} else {
				// mostly homogeneous
				c := *first
				l.L = append(l.L, &c)
			}
		}
		return l
	}
	n := g.R.Intn(4)
	m := &Val{Kind: "m", MK: "any", MVA: true}
	strKeys := g.p(0.7)
	if strKeys && g.p(0.5) {
		m.MK = "string"
	}
	seen := map[string]bool{}
	for i := 0; i < n; i++ {
		var k *Val
		if strKeys {
			k = Str(propNames[g.R.Intn(len(propNames))])
		} else {
			k = Int("int64", int64(g.R.Intn(10)))
		}
		id := k.S
		if k.Kind == "i" {
			id = k.I.String()
		}
		if seen[id] {
			continue
		}
		seen[id] = true
		m.M = append(m.M, [2]*Val{k, g.AnyValue(depth + 1)})
	}
	if !strKeys && g.p(0.4) {
		m.MK = "int64"
	}
	return m
}

// RandomVal returns a grammar-free value: anything a decoder or a Go caller could hand over.
func (g *Gen) RandomVal(depth int) *Val {
	if depth > 3 || g.p(0.55) {
		switch g.R.Intn(16) {
		case 0:
			return Nil()
		case 1:
			return Bool(g.p(0.5))
		case 2:
			return g.intRep(g.smallInt(), nil)
		case 3:
			return Int("int64", []int64{math.MinInt64, math.MaxInt64, 0, -1, 1 << 53}[g.R.Intn(5)])
		case 4:
			return Uint("uint64", []uint64{math.MaxUint64, 1 << 63, (1 << 63) - 1, 0}[g.R.Intn(4)])
		case 5:
			return F64([]float64{math.NaN(), math.Inf(1), math.Inf(-1), 0, 1.5, -2, 1e300, 9.223372036854775807e18, -9.223372036854775808e18, 4.5e18}[g.R.Intn(10)])
		case 6:
			return F32([]float32{0, 1, 2.5, float32(math.Inf(1)), 16777216}[g.R.Intn(5)])
		case 7, 8:
			return Str(stringPool[g.R.Intn(len(stringPool))])
		case 9:
			return Bytes([]byte(g.pick("", "a", "abc", "5")))
		case 10:
			return Opaque(g.R.Intn(NOpaque))
		case 11:
			inner := []*Val{Str("a"), Str("5"), Int("int64", 1), Int("int", 2), Uint("uint8", 1), Bool(true), F64(1), F32(1), Int("int32", 65), Uint("uint64", 3)}
			return Named(inner[g.R.Intn(len(inner))])
		case 12:
			return Regex(g.pick("^a$", "x+"))
		case 13:
			return Str(g.pick("9223372036854775807", "9223372036854775808", "-9223372036854775808", "1e3", "0x10", "1_000", "NaN", "Inf", "1.0"))
		default:
			return Int("int64", g.smallInt())
		}
	}
	if g.p(0.5) {
		n := g.R.Intn(4)
		l := &Val{Kind: "l"}
		for i := 0; i < n; i++ {
			l.L = append(l.L, g.RandomVal(depth+1))
		}
		return l
	}
	n := g.R.Intn(4)
	shapes := [][2]any{{"any", true}, {"string", true}, {"int64", true}, {"string", false}, {"other", true}, {"nstr", true}}
	sh := shapes[g.R.Intn(len(shapes))]
	m := &Val{Kind: "m", MK: sh[0].(string), MVA: sh[1].(bool)}
	seen := map[string]bool{}
	for i := 0; i < n; i++ {
		var k *Val
		switch m.MK {
		case "string":
			k = Str(g.pick("a", "b", "c", "_type", "kind", "5"))
		case "int64":
			k = Int("int64", int64(g.R.Intn(6)))
		case "other":
			k = Bool(g.p(0.5))
		case "nstr":
			k = Named(Str(g.pick("a", "b", "c", "_type", "kind", "5")))
		default:
			switch g.R.Intn(6) {
			case 0:
				k = Int("int64", int64(g.R.Intn(6)))
			case 1:
				k = Uint("uint64", uint64(g.R.Intn(6)))
			case 2:
				k = Named(Str("a"))
			case 3:
				k = Bool(true)
			default:
				k = Str(g.pick("a", "b", "c", "_type", "kind", "5"))
			}
		}
		b, _ := k.MarshalJSON()
		if seen[string(b)] {
			continue
		}
		seen[string(b)] = true
		var e *Val
		if m.MVA {
			e = g.RandomVal(depth + 1)
		} else {
			e = Str(stringPool[g.R.Intn(len(stringPool))])
		}
		m.M = append(m.M, [2]*Val{k, e})
	}
	return m
}
