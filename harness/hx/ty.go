package hx

import (
	"encoding/json"
	"fmt"
	"math"
	"regexp"
	"strconv"

	"go.flow.arcalot.io/pluginsdk/schema"
)

// Units is the JSON form of a units definition (Lean: Arca.Units).
type Units struct {
	Base  [4]string  `json:"base"`
	Mults []UnitMult `json:"mults"`
}

type UnitMult struct {
	M     int64
	Names [4]string
}

func (u UnitMult) MarshalJSON() ([]byte, error) {
	return json.Marshal([]any{strconv.FormatInt(u.M, 10), u.Names})
}

// Default is a property default: JSON text and what encoding/json makes of it.
type Default struct {
	Text string   `json:"text"`
	D1   *Wrapped `json:"d1"`
	D2   *Wrapped `json:"d2"`
}

// Wrapped distinguishes "decodes to nil" from "does not decode".
type Wrapped struct {
	V *Val `json:"v"`
}

type Prop struct {
	Ty            *Ty      `json:"ty"`
	Required      bool     `json:"required,omitempty"`
	RequiredIf    []string `json:"requiredIf,omitempty"`
	RequiredIfNot []string `json:"requiredIfNot,omitempty"`
	Conflicts     []string `json:"conflicts,omitempty"`
	Default       *Default `json:"default,omitempty"`
	Disabled      bool     `json:"disabled,omitempty"`
}

type NamedProp struct {
	Name string
	P    *Prop
}

func (n NamedProp) MarshalJSON() ([]byte, error) { return json.Marshal([]any{n.Name, n.P}) }

type Member struct {
	Key string // decimal for int keys
	Ty  *Ty
}

func (m Member) MarshalJSON() ([]byte, error) { return json.Marshal([]any{m.Key, m.Ty}) }

type NamedObj struct {
	ID string
	Ty *Ty
}

func (n NamedObj) MarshalJSON() ([]byte, error) { return json.Marshal([]any{n.ID, n.Ty}) }

// Ty is the JSON form of a schema (Lean: Arca.Ty).
type Ty struct {
	T       string      `json:"t"`
	Min     *string     `json:"min,omitempty"`
	Max     *string     `json:"max,omitempty"`
	Units   *Units      `json:"units,omitempty"`
	Pat     *string     `json:"pat,omitempty"`
	Vals    []string    `json:"vals,omitempty"`
	Item    *Ty         `json:"item,omitempty"`
	K       *Ty         `json:"k,omitempty"`
	V       *Ty         `json:"v,omitempty"`
	ID      string      `json:"id,omitempty"`
	Props   []NamedProp `json:"props,omitempty"`
	IntKey  bool        `json:"intKey,omitempty"`
	Disc    string      `json:"disc,omitempty"`
	Inlined bool        `json:"inlined,omitempty"`
	Members []Member    `json:"members,omitempty"`
	Objs    []NamedObj  `json:"objs,omitempty"`
	Root    string      `json:"root,omitempty"`
}

func optInt(p *string) *int64 {
	if p == nil {
		return nil
	}
	n, err := strconv.ParseInt(*p, 10, 64)
	if err != nil {
		panic(err)
	}
	return &n
}

func optFloat(p *string) *float64 {
	if p == nil {
		return nil
	}
	b, err := strconv.ParseUint(*p, 16, 64)
	if err != nil {
		panic(err)
	}
	f := math.Float64frombits(b)
	return &f
}

func IntP(n int64) *string     { s := strconv.FormatInt(n, 10); return &s }
func FloatP(f float64) *string { s := fmt.Sprintf("%016x", canonBits(f)); return &s }
func StrP(s string) *string    { return &s }

func (u *Units) Build() *schema.UnitsDefinition {
	if u == nil {
		return nil
	}
	var mults map[int64]*schema.UnitDefinition
	if u.Mults != nil {
		mults = map[int64]*schema.UnitDefinition{}
		for _, m := range u.Mults {
			mults[m.M] = schema.NewUnit(m.Names[0], m.Names[1], m.Names[2], m.Names[3])
		}
	}
	return schema.NewUnits(schema.NewUnit(u.Base[0], u.Base[1], u.Base[2], u.Base[3]), mults)
}

// Build constructs the SDK schema through the public constructors. Objects that appear directly
// as the value of a scope entry become the scope's objects; nothing is shared between calls.
func (t *Ty) Build() schema.Type {
	x := t.build()
	if LitRoute(t) {
		return Relit(x)
	}
	return x
}

func (t *Ty) build() schema.Type {
	switch t.T {
	case "int":
		return schema.NewIntSchema(optInt(t.Min), optInt(t.Max), t.Units.Build())
	case "float":
		return schema.NewFloatSchema(optFloat(t.Min), optFloat(t.Max), t.Units.Build())
	case "str":
		var re *regexp.Regexp
		if t.Pat != nil {
			re = regexp.MustCompile(*t.Pat)
		}
		return schema.NewStringSchema(optInt(t.Min), optInt(t.Max), re)
	case "bool":
		return schema.NewBoolSchema()
	case "pattern":
		return schema.NewPatternSchema()
	case "enumInt":
		vals := map[int64]*schema.DisplayValue{}
		for _, v := range t.Vals {
			n, err := strconv.ParseInt(v, 10, 64)
			if err != nil {
				panic(err)
			}
			vals[n] = nil
		}
		return schema.NewIntEnumSchema(vals, t.Units.Build())
	case "enumStr":
		vals := map[string]*schema.DisplayValue{}
		for _, v := range t.Vals {
			vals[v] = nil
		}
		return schema.NewStringEnumSchema(vals)
	case "list":
		return schema.NewListSchema(t.Item.Build(), optInt(t.Min), optInt(t.Max))
	case "map":
		return schema.NewMapSchema(t.K.Build(), t.V.Build(), optInt(t.Min), optInt(t.Max))
	case "obj":
		return t.BuildObject()
	case "oneOf":
		if t.IntKey {
			members := map[int64]schema.Object{}
			for _, m := range t.Members {
				n, err := strconv.ParseInt(m.Key, 10, 64)
				if err != nil {
					panic(err)
				}
				members[n] = m.Ty.Build().(schema.Object)
			}
			return schema.NewOneOfIntSchema[any](members, t.Disc, t.Inlined)
		}
		members := map[string]schema.Object{}
		for _, m := range t.Members {
			members[m.Key] = m.Ty.Build().(schema.Object)
		}
		return schema.NewOneOfStringSchema[any](members, t.Disc, t.Inlined)
	case "ref":
		return schema.NewRefSchema(t.ID, nil)
	case "scope":
		var root *schema.ObjectSchema
		var others []*schema.ObjectSchema
		for _, o := range t.Objs {
			obj := o.Ty.BuildObject()
			if LitRoute(o.Ty) {
				obj = RelitObject(obj)
			}
			if o.ID == t.Root {
				root = obj
			} else {
				others = append(others, obj)
			}
		}
		return schema.NewScopeSchema(root, others...)
	case "any":
		return schema.NewAnySchema()
	}
	panic("harness: bad Ty " + t.T)
}

func (t *Ty) BuildObject() *schema.ObjectSchema {
	props := map[string]*schema.PropertySchema{}
	for _, np := range t.Props {
		p := np.P
		var def *string
		if p.Default != nil {
			def = StrP(p.Default.Text)
		}
		// every built schema gets its own rule lists (an implementation writing into them must not
		// reach the harness's description of the schema or another instance built from it)
		own := func(l []string) []string {
			if l == nil {
				return nil
			}
			return append(make([]string, 0, len(l)), l...)
		}
		var examples []string
		if n := len(np.Name); n > 0 && np.Name[n-1]%2 == 1 {
			// documentation only: examples never change what a property accepts or how a rejection is reported
			examples = []string{"1", "\"x\"", "{\"a\": [1]}"}
		}
		ps := schema.NewPropertySchema(p.Ty.Build(), nil, p.Required, own(p.RequiredIf), own(p.RequiredIfNot), own(p.Conflicts), def, examples)
		if !p.Disabled && len(np.Name) > 0 && np.Name[0]%3 == 0 {
			// a reason left over on a property that is NOT disabled (a received description may carry
			// `disabled_reason` with `disabled: false`, or without `disabled`): the flag alone decides
			reason := "to be removed in the next release"
			ps.DisabledReason = &reason
		}
		if p.Disabled {
			if len(np.Name) > 0 && np.Name[0]%2 == 0 {
				// disabled without a reason, as a received description may say (`disabled: true` alone)
				ps.Disabled = true
				ps.DisabledReason = nil
			} else {
				ps.Disable("harness")
			}
		}
		props[np.Name] = ps
	}
	return schema.NewObjectSchema(t.ID, props)
}

// MkDefault computes what encoding/json makes of a default text, as the SDK decodes it.
func MkDefault(text string) *Default {
	d := &Default{Text: text}
	var v any
	if err := json.Unmarshal([]byte(text), &v); err == nil {
		d.D1 = &Wrapped{V: Enc(v)}
	}
	var v2 any
	if err := json.Unmarshal([]byte("\""+text+"\""), &v2); err == nil {
		d.D2 = &Wrapped{V: Enc(v2)}
	}
	return d
}

// WalkTy visits t and every schema nested in it.
func (t *Ty) WalkTy(f func(*Ty)) {
	if t == nil {
		return
	}
	f(t)
	t.Item.WalkTy(f)
	t.K.WalkTy(f)
	t.V.WalkTy(f)
	for _, p := range t.Props {
		p.P.Ty.WalkTy(f)
	}
	for _, m := range t.Members {
		m.Ty.WalkTy(f)
	}
	for _, o := range t.Objs {
		o.Ty.WalkTy(f)
	}
}
