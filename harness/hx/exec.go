package hx

import (
	"encoding/json"
	"errors"
	"fmt"

	"go.flow.arcalot.io/pluginsdk/schema"
)

// Case is one line of the protocol.
type Case struct {
	ID     int    `json:"id"`
	Op     string `json:"op"`
	Schema *Ty    `json:"schema,omitempty"`
	V      *Val   `json:"v"`
	Ext    *Ext   `json:"ext,omitempty"`
	Fuel   int    `json:"fuel,omitempty"`
	// harness-side annotations, ignored by the driver
	Cmp  string `json:"cmp,omitempty"`  // "class" (default), "path": also compare constraint flag and path
	Note string `json:"note,omitempty"` // what the generator intended
}

// Result is one canonical observation, in the grammar the driver prints.
type Result struct {
	R    string   `json:"r"` // ok err panic fuel
	V    *Val     `json:"v,omitempty"`
	C    *bool    `json:"c,omitempty"`
	Path []string `json:"path,omitempty"`
	Msg  string   `json:"msg,omitempty"` // diagnostics only, never compared
}

func (r Result) JSON() string {
	b, err := json.Marshal(r)
	if err != nil {
		panic(err)
	}
	return string(b)
}

func ErrResult(err error) Result {
	var c *schema.ConstraintError
	isC := errors.As(err, &c)
	r := Result{R: "err", C: &isC, Msg: err.Error()}
	if isC {
		r.Path = append([]string{}, c.Path...)
	}
	if r.Path == nil {
		r.Path = []string{}
	}
	return r
}

// Guard runs f and maps a panic to the panic result.
func Guard(f func() Result) (res Result) {
	defer func() {
		if r := recover(); r != nil {
			res = Result{R: "panic", Msg: fmt.Sprint(r)}
		}
	}()
	return f()
}

// RunOpRaw executes one schema operation of the SDK (not guarded) and also returns the raw output.
func RunOpRaw(op string, s schema.Type, v any) (Result, any) {
	switch op {
	case "U":
		out, err := s.Unserialize(v)
		if err != nil {
			return ErrResult(err), nil
		}
		return Result{R: "ok", V: Enc(out)}, out
	case "V":
		if err := s.Validate(v); err != nil {
			return ErrResult(err), nil
		}
		return Result{R: "ok", V: Nil()}, nil
	case "S":
		out, err := s.Serialize(v)
		if err != nil {
			return ErrResult(err), nil
		}
		return Result{R: "ok", V: Enc(out)}, out
	case "C":
		if err := s.ValidateCompatibility(v); err != nil {
			return ErrResult(err), nil
		}
		return Result{R: "ok", V: Nil()}, nil
	}
	panic("harness: bad op " + op)
}

// RunOp executes one schema operation of the SDK under recover.
func RunOp(op string, s schema.Type, v any) Result {
	return Guard(func() Result { r, _ := RunOpRaw(op, s, v); return r })
}
