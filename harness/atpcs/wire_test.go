package atpcs

import (
	"testing"

	"github.com/fxamacker/cbor/v2"
	"go.flow.arcalot.io/pluginsdk/atp"
	"go.flow.arcalot.io/pluginsdk/schema"
)

func TestBadKinds(t *testing.T) {
	for _, k := range append([]string{"-"}, BadKinds...) {
		var h atp.HelloMessage
		if err := cbor.Unmarshal(HelloBytesKind(3, k), &h); err != nil {
			t.Fatal(err)
		}
		var uerr error
		func() {
			defer func() {
				if r := recover(); r != nil {
					t.Errorf("%s: UnserializeSchema panics: %v", k, r)
				}
			}()
			_, uerr = schema.UnserializeSchema(h.Schema)
		}()
		ok, where := ScopesOK(h.Schema)
		t.Logf("%-18s UnserializeSchema err=%v | ScopesOK=%v %s", k, uerr != nil, ok, where)
		if (k == "-") != (uerr == nil) {
			t.Errorf("%s: UnserializeSchema verdict unexpected: %v", k, uerr)
		}
		if k != "steps" && (k == "-") != ok {
			t.Errorf("%s: ScopesOK verdict unexpected", k)
		}
	}
}
