// Package atpcs holds what the `atpclient` harness sub-command and the session driver binary
// (cmd/atpclientsession, built against an instrumented copy of atp/client.go) share: the session
// script language, the job/result records, the wire helpers of the scripted fake server, the
// reference classification of a (possibly damaged) server-to-client byte stream, and the translation
// of a recorded event log into labels of the Lean model `ArcaModel/Model/AtpClient.lean`.
package atpcs

// DOp is one operation of the director (the code that uses the client).
//
//	rs              call ReadSchema (synchronously)
//	exec R To From  start Execute for run R in its own goroutine (To/From: pass signal channels)
//	join R          wait for that Execute to return
//	sig R SR        send a signal carrying run ID SR into R's signalsToStep channel (Unenc > 0: its
//	                data holds a value the CBOR encoder refuses, so the write fails before any byte)
//	csig R          close R's signalsToStep channel
//	close           call Close synchronously; aclose: in a goroutine; jclose: wait for it
//	await N         wait until the server has consumed N client messages
//	awaitws R       wait until the server has consumed the work-start of run R
//	awaitwritten N  wait until N writes of the server have completed (on the unbuffered pipe: have
//	                been read by the client)
//	awaitexecs N    wait until N Execute calls have been started (see exec's Reissue)
//	sleep N         wait N milliseconds
//	open R          open the gate named R ("consumer:<run>", "write")
//	mark N          tell the server script that the director got this far (server: expectmark N)
//	awaitsent N     wait until the client has decoded N server items (N-th "dec" event)
type DOp struct {
	Op   string `json:"op"`
	R    string `json:"r,omitempty"`
	SR   string `json:"sr,omitempty"`
	To   bool   `json:"to,omitempty"`
	From bool   `json:"from,omitempty"`
	N    int    `json:"n,omitempty"`
	// exec only: Sid is the step ID of the work-start ("" = the plugin's step "s", "-" = an EMPTY step
	// ID, anything else is sent as it is); Bad: the input is one the step's schema rejects
	Sid string `json:"sid,omitempty"`
	Bad bool   `json:"bad,omitempty"`
	// exec only: Pre signals (for the run itself) are already queued in a buffered signalsToStep
	// channel when Execute is called
	Pre int `json:"pre,omitempty"`
	// exec only: Hold: the consumer of this run's signalsFromStep channel does not start receiving
	// before the director opens the gate "consumer:<run>" (a caller that is slow to pick signals up)
	Hold bool `json:"hold,omitempty"`
	// exec only: Reissue: when this run's signalsFromStep channel is closed (the moment its result is
	// stored) the consumer calls Execute with the same run ID again, once
	Reissue bool `json:"reissue,omitempty"`
	// exec only: Unenc: the input holds a value CBOR cannot encode (func, chan, complex): the
	// work-start fails in the encoder, before a single byte is written; the connection stays healthy
	Unenc int `json:"unenc,omitempty"`
	// exec only: Answer: the (single) consumer of signalsFromStep answers every emitted signal by
	// sending a signal on signalsToStep before it receives again (both channels unbuffered)
	Answer bool `json:"answer,omitempty"`
}

// SOp is one operation of the scripted server.
//
//	expect N     wait until N client messages have been consumed (cumulative)
//	expectws R   wait until the work-start of run R has been consumed
//	expectwsn R N / doneifn R N X  wait for the N-th work-start of run R (or the director's mark 1);
//	             answer it if it came
//	expectdone   wait until client-done has been consumed
//	expectdonelong  the same, but like the real server: silent, output open, for as long as it takes
//	             (bounded by 9 s, well beyond the director's timeout for a call)
//	expectsig N  wait until N signal messages have been consumed
//	hello [R]    send the hello message (version / schema of the session); R: a flavour of schema
//	             that fails to unserialize (atpcs.BadKinds)
//	done R X     work-done for run R with output "o<X>"
//	sig R        a signal emitted by run R
//	err R SF VF  an error message
//	unk R        a message with an unknown ID
//	sigasdone R / errasdone R    a work-done frame carrying a signal / error payload (type flip)
//	doneassig R X / doneaserr R X  a signal / error frame carrying a work-done payload
//	done1 X      ATP v1 bare work-done
//	sleep N      do nothing for N milliseconds (a step that takes its time)
//	garbage      malformed bytes
//	eof          end the server-to-client stream
type SOp struct {
	Op string `json:"op"`
	R  string `json:"r,omitempty"`
	X  int    `json:"x,omitempty"`
	SF bool   `json:"sf,omitempty"`
	VF bool   `json:"vf,omitempty"`
	N  int    `json:"n,omitempty"`
	// done / done1 only: the debug_logs text of the work-done message
	Logs string `json:"logs,omitempty"`
}

// Session is one scripted conversation.
type Session struct {
	Name      string `json:"name"`
	Ver       int64  `json:"ver"`       // version in the hello message
	BadSchema bool   `json:"badschema"` // hello carries a schema that fails to unserialize
	Healthy   bool   `json:"healthy"`   // peer and transport are correct: C06 applies
	Dir       []DOp  `json:"dir"`
	Srv       []SOp  `json:"srv"`
	// Backpressure > 0: the scripted server reacts like the real one to a signal that arrives before
	// the work-start of its run: its read loop queues an "unknown step" report (a non-fatal error
	// message) on a channel of this capacity and a second goroutine writes the reports to the
	// client; when the channel is full the read loop stops reading until the client has consumed
	// reports (atp/server.go: workDone has capacity 3).
	Backpressure int `json:"backpressure,omitempty"`
	// V1Strict: the scripted ATP v1 server handles one step at a time, like a v1 plugin: it reads the
	// next work-start only after it has written the work-done of the previous one
	V1Strict bool `json:"v1strict,omitempty"`
	// DelayFn/DelayMs: every job of this session delays the first statement of that function of
	// client.go (resolved to a yield point by the harness)
	DelayFn string `json:"delayfn,omitempty"`
	DelayMs int    `json:"delayms,omitempty"`
	// Marker is copied into the detail of every finding of this session (known-finding matching)
	Marker string `json:"marker,omitempty"`
}

// Delay delays every hit (up to Max) of an instrumentation point.
type Delay struct {
	Point int `json:"p"`
	Ms    int `json:"ms"`
	Max   int `json:"max"`
}

// Fault damages the server-to-client byte stream at an absolute offset.
type Fault struct {
	Kind string `json:"kind"` // cut | ioerr | xor | set
	Off  int    `json:"off"`
	Val  byte   `json:"val"`
}

// Job is one run of a session under one schedule perturbation.
type Job struct {
	ID        int     `json:"id"`
	Session   Session `json:"session"`
	Delays    []Delay `json:"delays,omitempty"`
	Transport string  `json:"transport"` // pipe | buf
	ChunkSeed int64   `json:"chunkseed"`
	Fault     *Fault  `json:"fault,omitempty"`
	// WriteFailAfter >= 0: the client-to-server writer fails from the (n+1)-th write on
	WriteFailAfter int `json:"wfail"`
	// WriteFailOnce: only that one write (number WriteFailAfter+1) fails, later writes succeed
	WriteFailOnce bool `json:"wfailonce,omitempty"`
	// WriteFailDeliver: the first failing write is a write whose bytes DO reach the peer; it then
	// stays pending until the director opens the gate "write" and returns an error (a write side
	// that fails independently: the peer already acts on the message the client believes lost)
	WriteFailDeliver bool `json:"wfaildeliver,omitempty"`
	// PreHello: before the session, ANOTHER client in the same process reads a hello whose schema is
	// damaged in this flavour (and must reject it); package-level state it leaves behind is shared
	PreHello  string `json:"prehello,omitempty"`
	TimeoutMs int    `json:"timeout_ms"`
}

// Snap is the abstract client state at the end of a critical section.
type Snap struct {
	Flag    bool        `json:"flag"`
	Done    bool        `json:"done"`
	Entries []SnapEntry `json:"entries"`
	Sigs    []string    `json:"sigs"`
}

type SnapEntry struct {
	Run   string `json:"run"`
	State int    `json:"st"` // 0 pending, 1 ok, 2 err
	Out   string `json:"out,omitempty"`
}

// Ev is one entry of the recorded log, in global order.
type Ev struct {
	Seq int    `json:"seq"`
	G   int64  `json:"g"`  // goroutine
	K   string `json:"k"`  // kind
	Fn  string `json:"fn"` // function of atp/client.go, or harness op
	P   int    `json:"p"`  // instrumentation point
	// kind specific
	Snap   *Snap  `json:"snap,omitempty"`
	Run    string `json:"run,omitempty"`
	Msg    string `json:"msg,omitempty"` // message kind
	Err    bool   `json:"err,omitempty"`
	ErrS   string `json:"errs,omitempty"`
	Ticket int    `json:"t,omitempty"`
	Out    string `json:"out,omitempty"` // payload key
	To     bool   `json:"to,omitempty"`
	From   bool   `json:"from,omitempty"`
	SF     bool   `json:"sf,omitempty"`
	VF     bool   `json:"vf,omitempty"`
	N      int    `json:"n,omitempty"`
	Items  []Item `json:"items,omitempty"`
}

// Item is one item of the server-to-client stream at message level (reference classification).
type Item struct {
	// Raw CBOR item, or a sticky fault
	Kind string `json:"kind"` // raw | eof | ioerr | garbage
	Raw  []byte `json:"raw,omitempty"`
	// the session driver's judgement of a hello item (made in the disposable driver process, under a
	// watchdog: loading a schema touches package-level state of the SDK)
	HelloJudged bool  `json:"hj,omitempty"`
	HelloVer    int64 `json:"hv,omitempty"`
	HelloOK     bool  `json:"hok,omitempty"`
}

// JobResult is what the session driver reports for one job.
type JobResult struct {
	ID       int            `json:"id"`
	Events   []Ev           `json:"events"`
	Verdict  string         `json:"verdict"` // ok | hang | panic | closehang | leak | harness
	Problems []Problem      `json:"problems,omitempty"`
	Hits     map[string]int `json:"hits"` // point -> hits
	Ms       int64          `json:"ms"`
	SrvBytes int            `json:"srvbytes"`
	// Dirty: goroutines of the client outlived the session; the driver process must not be reused
	Dirty bool `json:"dirty,omitempty"`
}

// Problem is a direct failure of C06/C08 observed on the implementation.
type Problem struct {
	Prop string `json:"prop"`
	What string `json:"what"`
	Run  string `json:"run,omitempty"`
}
