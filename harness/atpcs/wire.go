package atpcs

import (
	"bytes"
	"context"
	"encoding/hex"
	"errors"
	"fmt"
	"io"
	"reflect"
	"strings"

	"github.com/fxamacker/cbor/v2"
	"go.flow.arcalot.io/pluginsdk/atp"
	"go.flow.arcalot.io/pluginsdk/schema"
)

// ---- what the scripted server writes -------------------------------------------------------------

type stepIn struct {
	Name  string `json:"name"`
	Count int64  `json:"count"`
	Flag  bool   `json:"flag"`
}
type stepOut struct {
	Message string `json:"message"`
}
type sigData struct {
	Note  string `json:"note"`
	Level int64  `json:"level"`
}

func strp(s string) *string { return &s }

// defaults on non-string properties: the JSON text of a default is only decoded when the schema is
// loaded, so a hello can carry one that cannot be decoded
var stepInScope = schema.NewScopeSchema(
	schema.NewStructMappedObjectSchema[stepIn]("Input", map[string]*schema.PropertySchema{
		"name":  schema.NewPropertySchema(schema.NewStringSchema(nil, nil, nil), nil, true, nil, nil, nil, nil, nil),
		"count": schema.NewPropertySchema(schema.NewIntSchema(nil, nil, nil), nil, false, nil, nil, nil, strp("12345"), nil),
		"flag":  schema.NewPropertySchema(schema.NewBoolSchema(), nil, false, nil, nil, nil, strp("true"), nil),
	}),
)

func sigScope() *schema.ScopeSchema {
	return schema.NewScopeSchema(
		schema.NewStructMappedObjectSchema[sigData]("SigData", map[string]*schema.PropertySchema{
			"note":  schema.NewPropertySchema(schema.NewStringSchema(nil, nil, nil), nil, true, nil, nil, nil, nil, nil),
			"level": schema.NewPropertySchema(schema.NewIntSchema(nil, nil, nil), nil, false, nil, nil, nil, strp("7"), nil),
		}),
	)
}

// the recorded plugin: one step with a signal handler and a signal emitter
var tinySchema = schema.NewCallableSchema(
	schema.NewCallableStepWithSignals[any, stepIn](
		"s",
		stepInScope,
		map[string]*schema.StepOutputSchema{
			"success": schema.NewStepOutputSchema(
				schema.NewScopeSchema(
					schema.NewStructMappedObjectSchema[stepOut]("Output", map[string]*schema.PropertySchema{
						"message": schema.NewPropertySchema(schema.NewStringSchema(nil, nil, nil), nil, true, nil, nil, nil, nil, nil),
					}),
				), nil, false),
		},
		map[string]schema.CallableSignal{
			"sg": schema.NewCallableSignal[any, sigData]("sg", sigScope(), nil, func(context.Context, any, sigData) {}),
		},
		map[string]*schema.SignalSchema{
			"em": schema.NewSignalSchema("em", sigScope(), nil),
		},
		nil,
		nil,
		func(_ context.Context, _ any, in stepIn) (string, any) { return "success", stepOut{in.Name} },
	),
)

// BadKinds are the flavours of "a schema that fails to unserialize" (Session.BadKind).
var BadKinds = []string{"steps", "default-int", "default-bool", "handler-default", "emitter-default", "emitter-noroot", "emitter-wrongroot", "emitter-dangling", "output-noroot"}

func dig(v any, path ...string) map[string]any {
	m := v.(map[string]any)
	for _, k := range path {
		m = m[k].(map[string]any)
	}
	return m
}

// goodSchema is the description of the recorded plugin as plain maps (through CBOR, as on the wire).
func goodSchema() map[string]any {
	s, err := tinySchema.SelfSerialize()
	if err != nil {
		panic(err)
	}
	dm, err := cbor.DecOptions{DefaultMapType: reflect.TypeOf(map[string]any(nil))}.DecMode()
	if err != nil {
		panic(err)
	}
	var out map[string]any
	if err := dm.Unmarshal(mustEnc(s), &out); err != nil {
		panic(err)
	}
	return out
}

// BadSchemaDesc damages the description in one place.
func BadSchemaDesc(kind string) any {
	if kind == "" || kind == "steps" {
		return map[string]any{"steps": "this is not a steps map"}
	}
	d := goodSchema()
	step := dig(d, "steps", "s")
	setDefault := func(scope map[string]any, obj, prop, val string) {
		dig(scope, "objects", obj, "properties", prop)["default"] = val
	}
	switch kind {
	case "default-int":
		setDefault(dig(step, "input"), "Input", "count", "12x45")
	case "default-bool":
		setDefault(dig(step, "input"), "Input", "flag", "trux")
	case "handler-default":
		setDefault(dig(step, "signal_handlers", "sg", "data_schema"), "SigData", "level", "7x")
	case "emitter-default":
		setDefault(dig(step, "signal_emitters", "em", "data_schema"), "SigData", "level", "7x")
	case "emitter-noroot":
		delete(dig(step, "signal_emitters", "em", "data_schema", "objects"), "SigData")
	case "emitter-wrongroot":
		dig(step, "signal_emitters", "em", "data_schema")["root"] = "Other"
	case "emitter-dangling":
		dig(step, "signal_emitters", "em", "data_schema", "objects", "SigData", "properties", "note")["type"] =
			map[string]any{"type_id": "ref", "id": "NoSuchObject"}
	case "output-noroot":
		delete(dig(step, "outputs", "success", "schema", "objects"), "Output")
	default:
		panic("unknown bad schema kind " + kind)
	}
	return d
}

// HelloBytes is the hello message of a session.
func HelloBytes(ver int64, badSchema bool) []byte {
	if badSchema {
		return HelloBytesKind(ver, "steps")
	}
	return HelloBytesKind(ver, "-")
}

// HelloBytesKind is the hello message with the schema damaged as BadKind says ("-": intact).
func HelloBytesKind(ver int64, kind string) []byte {
	var sch any
	if kind == "-" {
		sch = goodSchema()
	} else {
		sch = BadSchemaDesc(kind)
	}
	return mustEnc(atp.HelloMessage{Version: ver, Schema: sch})
}

// JudgeHello classifies a raw item as a hello message: decodes, version, usable schema.
func JudgeHello(raw []byte) (decodes bool, ver int64, ok bool) {
	mi := Classify(Item{Kind: "raw", Raw: raw}, "hello")
	if mi.K != "hello" {
		return false, 0, false
	}
	return true, mi.Ver, mi.OK
}

// ScopesOK judges a received schema description independently of UnserializeSchema: every scope
// description in it (step inputs, output schemas, data schemas of signal handlers AND emitters) is
// loaded on its own with schema.UnserializeScope; the first rejected one is named.
func ScopesOK(desc any) (ok bool, where string) {
	defer func() {
		if r := recover(); r != nil {
			ok, where = false, fmt.Sprint("panic: ", r)
		}
	}()
	top, isMap := desc.(map[any]any)
	if !isMap {
		return false, "schema is not a map"
	}
	steps, isMap := top["steps"].(map[any]any)
	if !isMap {
		return false, "steps is not a map"
	}
	check := func(where string, d any) (bool, string) {
		if _, err := schema.UnserializeScope(d); err != nil {
			return false, where + ": " + err.Error()
		}
		return true, ""
	}
	for sid, sv := range steps {
		st, isMap := sv.(map[any]any)
		if !isMap {
			return false, fmt.Sprint("step ", sid, " is not a map")
		}
		if ok, w := check(fmt.Sprint("input of step ", sid), st["input"]); !ok {
			return false, w
		}
		if outs, isMap := st["outputs"].(map[any]any); isMap {
			for oid, ov := range outs {
				om, isMap := ov.(map[any]any)
				if !isMap {
					return false, fmt.Sprint("output ", oid, " is not a map")
				}
				if ok, w := check(fmt.Sprint("output ", oid, " of step ", sid), om["schema"]); !ok {
					return false, w
				}
			}
		}
		for _, key := range []string{"signal_handlers", "signal_emitters"} {
			sigs, isMap := st[key].(map[any]any)
			if !isMap {
				continue
			}
			for gid, gv := range sigs {
				gm, isMap := gv.(map[any]any)
				if !isMap {
					return false, fmt.Sprint(key, " ", gid, " is not a map")
				}
				if ok, w := check(fmt.Sprint("data schema of ", key, " ", gid, " of step ", sid), gm["data_schema"]); !ok {
					return false, w
				}
			}
		}
	}
	return true, ""
}

func mustEnc(v any) []byte {
	b, err := cbor.Marshal(v)
	if err != nil {
		panic(err)
	}
	return b
}

// ErrText is the text of scripted error messages. The letters are CBOR text-string headers with
// 2/4/8-byte lengths: a reader that starts in the middle of it waits for gigabytes.
const ErrText = "zzzz{{{{zzzzyyyyzzzz{{{{zzzzzzzzzzzzzzzz{{{{zzzz"

// LongErrTexts are error texts of 1100-3000 bytes: multi-byte characters (far fewer characters than
// bytes), and ASCII control characters of the same byte lengths.
var LongErrTexts = map[string]string{
	"ja":   strings.Repeat("エラー: ステップが失敗しました。スタックトレース→", 22),                  // ~1600 bytes, ~600 characters
	"ru":   strings.Repeat("ошибка выполнения шага: трассировка стека; ", 36), // ~2900 bytes
	"mix":  strings.Repeat("a", 700) + strings.Repeat("語", 140),               // 1120 bytes, 840 characters
	"ctl":  strings.Repeat("\x01\x02\x1b[0m\t", 160),                          // 1120 bytes of controls
	"ctl3": strings.Repeat("\x7f\x00\x1f", 1000),                              // 3000 bytes
}

func errText(o SOp) string {
	if t, ok := LongErrTexts[o.Logs]; ok {
		return t
	}
	return ErrText
}

// MsgBytes is the wire form of one scripted server message.
func MsgBytes(o SOp, ver int64, badSchema bool) []byte {
	switch o.Op {
	case "hello":
		if o.R != "" {
			return HelloBytesKind(ver, o.R) // a flavour of bad schema
		}
		return HelloBytes(ver, badSchema)
	case "done":
		return mustEnc(atp.RuntimeMessage{MessageID: atp.MessageTypeWorkDone, RunID: o.R,
			MessageData: atp.WorkDoneMessage{StepID: "s", OutputID: "success", OutputData: fmt.Sprintf("o%d", o.X), DebugLogs: o.Logs}})
	case "sig":
		return mustEnc(atp.RuntimeMessage{MessageID: atp.MessageTypeSignal, RunID: o.R,
			MessageData: atp.SignalMessage{SignalID: "sg", Data: "d"}})
	case "err":
		return mustEnc(atp.RuntimeMessage{MessageID: atp.MessageTypeError, RunID: o.R,
			MessageData: atp.ErrorMessage{Error: errText(o), StepFatal: o.SF, ServerFatal: o.VF}})
	case "unk":
		return mustEnc(atp.RuntimeMessage{MessageID: 9, RunID: o.R, MessageData: nil})
	// frames whose payload belongs to another message type (what a flipped message ID produces)
	case "sigasdone":
		return mustEnc(atp.RuntimeMessage{MessageID: atp.MessageTypeWorkDone, RunID: o.R,
			MessageData: atp.SignalMessage{SignalID: "sg", Data: "d"}})
	case "errasdone":
		return mustEnc(atp.RuntimeMessage{MessageID: atp.MessageTypeWorkDone, RunID: o.R,
			MessageData: atp.ErrorMessage{Error: "e", StepFatal: o.SF, ServerFatal: o.VF}})
	case "doneassig":
		return mustEnc(atp.RuntimeMessage{MessageID: atp.MessageTypeSignal, RunID: o.R,
			MessageData: atp.WorkDoneMessage{StepID: "s", OutputID: "success", OutputData: fmt.Sprintf("o%d", o.X)}})
	case "doneaserr":
		return mustEnc(atp.RuntimeMessage{MessageID: atp.MessageTypeError, RunID: o.R,
			MessageData: atp.WorkDoneMessage{StepID: "s", OutputID: "success", OutputData: fmt.Sprintf("o%d", o.X)}})
	case "garbage":
		return []byte{0xff, 0xff, 0xff}
	case "done1":
		return mustEnc(atp.WorkDoneMessage{StepID: "s", OutputID: "success", OutputData: fmt.Sprintf("o%d", o.X), DebugLogs: o.Logs})
	}
	return nil
}

// Transcript is the healthy server-to-client byte stream of a session, with message boundaries.
func Transcript(s Session) (stream []byte, bounds []int) {
	for _, o := range s.Srv {
		b := MsgBytes(o, s.Ver, s.BadSchema)
		if b == nil {
			continue
		}
		stream = append(stream, b...)
		bounds = append(bounds, len(stream))
	}
	return
}

// PayloadKey identifies an output (the same function exists in the injected zz_verif.go).
func PayloadKey(outputID string, data any) string {
	em, _ := cbor.CanonicalEncOptions().EncMode()
	b, err := em.Marshal(data)
	if err != nil {
		return outputID + "|!" + err.Error()
	}
	return outputID + "|" + hex.EncodeToString(b)
}

// ---- reference classification of a byte stream --------------------------------------------------

// DecMode is the decoding mode of the client.
func DecMode() cbor.DecMode {
	dm, err := cbor.DecOptions{ExtraReturnErrors: cbor.ExtraDecErrorUnknownField}.DecMode()
	if err != nil {
		panic(err)
	}
	return dm
}

// SplitItem is one CBOR item of a stream (or its terminal fault) with the offset at which a reader
// has seen enough bytes to produce it.
type SplitItem struct {
	Item
	Avail int // number of stream bytes needed
}

// Split cuts a delivered byte stream into well-formed CBOR items followed by its terminal fault.
// endKind is how the stream ends after its last byte: "eof" or "ioerr".
func Split(stream []byte, endKind string) []SplitItem {
	var out []SplitItem
	off := 0
	for off < len(stream) {
		dec := DecMode().NewDecoder(bytes.NewReader(stream[off:]))
		var raw cbor.RawMessage
		err := dec.Decode(&raw)
		if err == nil {
			n := dec.NumBytesRead()
			out = append(out, SplitItem{Item{Kind: "raw", Raw: append([]byte{}, stream[off:off+n]...)}, off + n})
			off += n
			continue
		}
		if errors.Is(err, io.ErrUnexpectedEOF) || errors.Is(err, io.EOF) {
			// truncated item: the reader reports the end of the stream
			out = append(out, SplitItem{Item{Kind: endKind}, len(stream)})
			return out
		}
		// malformed: find the first prefix at which this is detectable
		q := off + 1
		for ; q <= len(stream); q++ {
			e := DecMode().Wellformed(stream[off:q])
			if e != nil && !errors.Is(e, io.ErrUnexpectedEOF) && !errors.Is(e, io.EOF) {
				break
			}
		}
		if q > len(stream) {
			q = len(stream)
		}
		out = append(out, SplitItem{Item{Kind: "garbage"}, q})
		return out
	}
	out = append(out, SplitItem{Item{Kind: endKind}, len(stream)})
	return out
}

// MItem is an item in the vocabulary of the Lean model (JSON form).
type MItem struct {
	K    string `json:"k"` // msg hello v1done bad garbage eof ioerr
	M    *MMsg  `json:"m,omitempty"`
	Ver  int64  `json:"ver,omitempty"`
	OK   bool   `json:"ok,omitempty"`
	X    int    `json:"x,omitempty"`
	XKey string `json:"-"`
}

// MMsg is a runtime message in the vocabulary of the Lean model.
type MMsg struct {
	T    string `json:"t"` // done sig err unk
	R    int    `json:"r"`
	X    *int   `json:"x,omitempty"` // done: payload number, nil = data does not decode
	Good bool   `json:"good,omitempty"`
	SF   bool   `json:"sf,omitempty"`
	VF   bool   `json:"vf,omitempty"`
	RunS string `json:"-"`
	XKey string `json:"-"`
}

// Classify decodes one raw item the way the given reader of the client does, into a FRESH value
// (reference semantics: nothing is inherited from earlier messages). Outer frame and inner payload
// are both decoded with the client's strict mode (an unknown field is a decoding error), as the
// client does since commit 1454f2e: the payload of another message type (a signal frame whose ID
// was flipped to work-done, say) is NOT an intact work-done message.
// ctx: "loop" (DecodedRuntimeMessage), "hello" (HelloMessage), "v1" (WorkDoneMessage).
func Classify(it Item, ctx string) MItem {
	if it.Kind != "raw" {
		return MItem{K: it.Kind}
	}
	dm := DecMode()
	switch ctx {
	case "hello":
		var h atp.HelloMessage
		if err := dm.Unmarshal(it.Raw, &h); err != nil {
			return MItem{K: "bad"}
		}
		if it.HelloJudged {
			return MItem{K: "hello", Ver: it.HelloVer, OK: it.HelloOK}
		}
		// usable = the SDK loads it AND every scope description in it loads on its own (the second
		// judgement does not go through UnserializeSchema's own walk over the steps)
		ok := false
		func() {
			defer func() { _ = recover() }()
			_, err := schema.UnserializeSchema(h.Schema)
			ok = err == nil
		}()
		if ok {
			ok, _ = ScopesOK(h.Schema)
		}
		return MItem{K: "hello", Ver: h.Version, OK: ok}
	case "v1":
		var d atp.WorkDoneMessage
		if err := dm.Unmarshal(it.Raw, &d); err != nil {
			return MItem{K: "bad"}
		}
		return MItem{K: "v1done", XKey: PayloadKey(d.OutputID, d.OutputData)}
	}
	var m atp.DecodedRuntimeMessage
	if err := dm.Unmarshal(it.Raw, &m); err != nil {
		return MItem{K: "bad"}
	}
	mm := &MMsg{RunS: m.RunID}
	switch m.MessageID {
	case atp.MessageTypeWorkDone:
		mm.T = "done"
		var d atp.WorkDoneMessage
		if err := dm.Unmarshal(m.RawMessageData, &d); err == nil {
			mm.XKey = PayloadKey(d.OutputID, d.OutputData)
		} else {
			mm.XKey = ""
		}
	case atp.MessageTypeSignal:
		mm.T = "sig"
		var sm atp.SignalMessage
		mm.Good = dm.Unmarshal(m.RawMessageData, &sm) == nil
	case atp.MessageTypeError:
		mm.T = "err"
		// like the client: a decoding error is logged and whatever fields did decode are used
		var em atp.ErrorMessage
		_ = dm.Unmarshal(m.RawMessageData, &em)
		mm.SF, mm.VF = em.StepFatal, em.ServerFatal
	default:
		mm.T = "unk"
	}
	return MItem{K: "msg", M: mm}
}

// DoneDecodes reports whether the data of a work-done item decodes (XKey is only meaningful then).
func DoneDecodes(it Item) bool {
	var m atp.DecodedRuntimeMessage
	if err := DecMode().Unmarshal(it.Raw, &m); err != nil {
		return false
	}
	var d atp.WorkDoneMessage
	return DecMode().Unmarshal(m.RawMessageData, &d) == nil
}
