package atpcs

import (
	"fmt"
	"math/rand"
)

func run(i int) string { return fmt.Sprintf("r%d", i) }

func hs(name string, ver int64, dir []DOp, srv []SOp) Session {
	d := append([]DOp{{Op: "rs"}}, dir...)
	s := append([]SOp{{Op: "expect", N: 1}, {Op: "hello"}}, srv...)
	return Session{Name: name, Ver: ver, Healthy: true, Dir: d, Srv: s}
}

func perms(n int) [][]int {
	if n == 0 {
		return [][]int{{}}
	}
	var out [][]int
	for _, p := range perms(n - 1) {
		for i := 0; i <= len(p); i++ {
			q := append(append(append([]int{}, p[:i]...), n), p[i:]...)
			out = append(out, q)
		}
	}
	return out
}

// HealthySessions are the C06 histories: 1..4 executes serial / overlapping / staggered, signals in
// both directions, error messages of every kind, Close at various points, ATP v1.
func HealthySessions(rng *rand.Rand, thorough bool) []Session {
	var out []Session
	// serial
	for n := 1; n <= 4; n++ {
		var d []DOp
		var s []SOp
		for i := 1; i <= n; i++ {
			d = append(d, DOp{Op: "exec", R: run(i)}, DOp{Op: "join", R: run(i)})
			s = append(s, SOp{Op: "expectws", R: run(i)}, SOp{Op: "done", R: run(i), X: i})
		}
		d = append(d, DOp{Op: "close"})
		s = append(s, SOp{Op: "expectdone"})
		out = append(out, hs(fmt.Sprintf("serial-%d", n), 3, d, s))
	}
	// serial, same run ID again
	out = append(out, hs("serial-reuse", 3,
		[]DOp{{Op: "exec", R: "r1"}, {Op: "join", R: "r1"}, {Op: "exec", R: "r1"}, {Op: "joinall"}, {Op: "close"}},
		[]SOp{{Op: "expectws", R: "r1"}, {Op: "done", R: "r1", X: 1}, {Op: "expect", N: 3}, {Op: "done", R: "r1", X: 2}, {Op: "expectdone"}}))
	// overlapping: all work-starts first, answers in every order
	for n := 2; n <= 4; n++ {
		ps := perms(n)
		if n == 4 && !thorough {
			rng.Shuffle(len(ps), func(i, j int) { ps[i], ps[j] = ps[j], ps[i] })
			ps = ps[:4]
		}
		for _, p := range ps {
			var d []DOp
			var s []SOp
			name := fmt.Sprintf("overlap-%d-", n)
			for i := 1; i <= n; i++ {
				d = append(d, DOp{Op: "exec", R: run(i)})
				s = append(s, SOp{Op: "expectws", R: run(i)})
			}
			for _, i := range p {
				s = append(s, SOp{Op: "done", R: run(i), X: i})
				name += fmt.Sprint(i)
			}
			d = append(d, DOp{Op: "joinall"}, DOp{Op: "close"})
			s = append(s, SOp{Op: "expectdone"})
			out = append(out, hs(name, 3, d, s))
		}
	}
	// overlapping, each answered as soon as its work-start arrives
	for n := 2; n <= 4; n++ {
		var d []DOp
		var s []SOp
		for i := 1; i <= n; i++ {
			d = append(d, DOp{Op: "exec", R: run(i)})
			s = append(s, SOp{Op: "expectws", R: run(i)}, SOp{Op: "done", R: run(i), X: i})
		}
		d = append(d, DOp{Op: "joinall"}, DOp{Op: "close"})
		s = append(s, SOp{Op: "expectdone"})
		out = append(out, hs(fmt.Sprintf("eager-%d", n), 3, d, s))
	}
	// staggered: the next Execute starts when the previous answer has been decoded (its caller may
	// not have collected it yet, the loop may be about to exit)
	for n := 2; n <= 3; n++ {
		var d []DOp
		var s []SOp
		for i := 1; i <= n; i++ {
			d = append(d, DOp{Op: "exec", R: run(i)}, DOp{Op: "awaitsent", N: i + 1})
			s = append(s, SOp{Op: "expectws", R: run(i)}, SOp{Op: "done", R: run(i), X: i})
		}
		d = append(d, DOp{Op: "joinall"}, DOp{Op: "close"})
		s = append(s, SOp{Op: "expectdone"})
		out = append(out, hs(fmt.Sprintf("staggered-%d", n), 3, d, s))
	}
	// signals both ways
	sigSrv := []SOp{{Op: "expectws", R: "r1"}, {Op: "expectsig", N: 2}, {Op: "sig", R: "r1"}, {Op: "sig", R: "r1"}, {Op: "done", R: "r1", X: 1}, {Op: "expectdone"}}
	out = append(out, hs("signals-closed", 3,
		[]DOp{{Op: "exec", R: "r1", To: true, From: true}, {Op: "sig", R: "r1", SR: "r1"}, {Op: "sig", R: "r1", SR: "r1"}, {Op: "join", R: "r1"}, {Op: "csig", R: "r1"}, {Op: "close"}}, sigSrv))
	out = append(out, hs("signals-unclosed", 3,
		[]DOp{{Op: "exec", R: "r1", To: true, From: true}, {Op: "sig", R: "r1", SR: "r1"}, {Op: "sig", R: "r1", SR: "r1"}, {Op: "join", R: "r1"}, {Op: "close"}}, sigSrv))
	out = append(out, hs("signals-closed-early", 3,
		[]DOp{{Op: "exec", R: "r1", To: true, From: true}, {Op: "sig", R: "r1", SR: "r1"}, {Op: "sig", R: "r1", SR: "r1"}, {Op: "csig", R: "r1"}, {Op: "join", R: "r1"}, {Op: "close"}}, sigSrv))
	out = append(out, hs("signals-nofrom", 3,
		[]DOp{{Op: "exec", R: "r1", To: true}, {Op: "sig", R: "r1", SR: "r1"}, {Op: "sig", R: "r1", SR: "r1"}, {Op: "join", R: "r1"}, {Op: "close"}}, sigSrv))
	out = append(out, hs("signals-blank", 3,
		[]DOp{{Op: "exec", R: "r1", To: true, From: true}, {Op: "await", N: 2}, {Op: "sig", R: "r1", SR: ""}, {Op: "join", R: "r1"}, {Op: "close"}},
		[]SOp{{Op: "expectws", R: "r1"}, {Op: "sig", R: "r1"}, {Op: "done", R: "r1", X: 1}, {Op: "expectdone"}}))
	out = append(out, hs("signals-two-runs", 3,
		[]DOp{{Op: "exec", R: "r1", To: true, From: true}, {Op: "exec", R: "r2", To: true, From: true},
			{Op: "sig", R: "r1", SR: "r1"}, {Op: "sig", R: "r2", SR: "r2"}, {Op: "joinall"}, {Op: "csig", R: "r2"}, {Op: "close"}},
		[]SOp{{Op: "expectws", R: "r1"}, {Op: "expectws", R: "r2"}, {Op: "expectsig", N: 2}, {Op: "sig", R: "r2"}, {Op: "sig", R: "r1"},
			{Op: "done", R: "r2", X: 2}, {Op: "sig", R: "r1"}, {Op: "done", R: "r1", X: 1}, {Op: "expectdone"}}))
	// error messages
	two := []DOp{{Op: "exec", R: "r1"}, {Op: "exec", R: "r2"}, {Op: "joinall"}}
	out = append(out, hs("err-stepfatal-run", 3, append(append([]DOp{}, two...), DOp{Op: "close"}),
		[]SOp{{Op: "expectws", R: "r1"}, {Op: "expectws", R: "r2"}, {Op: "err", R: "r1", SF: true}, {Op: "done", R: "r2", X: 2}, {Op: "expectdone"}}))
	out = append(out, hs("err-stepfatal-norun", 3, append(append([]DOp{}, two...), DOp{Op: "exec", R: "r3"}, DOp{Op: "join", R: "r3"}, DOp{Op: "close"}),
		[]SOp{{Op: "expectws", R: "r1"}, {Op: "expectws", R: "r2"}, {Op: "err", R: "", SF: true}, {Op: "expectws", R: "r3"}, {Op: "done", R: "r3", X: 3}, {Op: "expectdone"}}))
	out = append(out, hs("err-serverfatal", 3, append(append([]DOp{}, two...), DOp{Op: "exec", R: "r3"}, DOp{Op: "join", R: "r3"}, DOp{Op: "close"}),
		[]SOp{{Op: "expectws", R: "r1"}, {Op: "expectws", R: "r2"}, {Op: "err", R: "", SF: true, VF: true}, {Op: "eof"}}))
	out = append(out, hs("err-serverfatal-one", 3, []DOp{{Op: "exec", R: "r1"}, {Op: "join", R: "r1"}, {Op: "close"}},
		[]SOp{{Op: "expectws", R: "r1"}, {Op: "err", R: "r1", VF: true}, {Op: "eof"}}))
	out = append(out, hs("err-nonfatal", 3, []DOp{{Op: "exec", R: "r1"}, {Op: "join", R: "r1"}, {Op: "close"}},
		[]SOp{{Op: "expectws", R: "r1"}, {Op: "err", R: "r1"}, {Op: "unk", R: "r1"}, {Op: "done", R: "r1", X: 1}, {Op: "expectdone"}}))
	// unsolicited messages after the last answer: they are read (ahead) by a loop that is about to end
	out = append(out, hs("late-nonfatal", 3,
		[]DOp{{Op: "exec", R: "r1"}, {Op: "join", R: "r1"}, {Op: "exec", R: "r2"}, {Op: "join", R: "r2"}, {Op: "exec", R: "r3"}, {Op: "join", R: "r3"}, {Op: "close"}},
		[]SOp{{Op: "expectws", R: "r1"}, {Op: "done", R: "r1", X: 1}, {Op: "err", R: "r1"}, {Op: "expectws", R: "r2"}, {Op: "done", R: "r2", X: 2}, {Op: "err", R: "r2"}, {Op: "unk", R: "r2"},
			{Op: "expectws", R: "r3"}, {Op: "done", R: "r3", X: 3}, {Op: "expectdone"}}))
	// Close at various points
	out = append(out, hs("close-only", 3, []DOp{{Op: "close"}}, []SOp{{Op: "expectdone"}}))
	out = append(out, Session{Name: "close-noschema", Ver: 3, Healthy: true, Dir: []DOp{{Op: "close"}}, Srv: nil})
	out = append(out, hs("close-pending", 3,
		[]DOp{{Op: "exec", R: "r1"}, {Op: "await", N: 2}, {Op: "aclose"}, {Op: "join", R: "r1"}, {Op: "jclose"}},
		[]SOp{{Op: "expectws", R: "r1"}, {Op: "expectdone"}, {Op: "done", R: "r1", X: 1}}))
	out = append(out, hs("close-pending-2", 3,
		[]DOp{{Op: "exec", R: "r1"}, {Op: "exec", R: "r2", To: true}, {Op: "await", N: 3}, {Op: "aclose"}, {Op: "joinall"}, {Op: "jclose"}},
		[]SOp{{Op: "expectws", R: "r1"}, {Op: "expectws", R: "r2"}, {Op: "done", R: "r2", X: 2}, {Op: "expectdone"}, {Op: "done", R: "r1", X: 1}}))
	out = append(out, hs("close-race", 3,
		[]DOp{{Op: "exec", R: "r1"}, {Op: "aclose"}, {Op: "joinall"}, {Op: "jclose"}},
		[]SOp{{Op: "expectwsd", R: "r1"}, {Op: "doneif", R: "r1", X: 1}, {Op: "expectdone"}}))
	out = append(out, hs("close-race-2", 3,
		[]DOp{{Op: "exec", R: "r1", To: true}, {Op: "exec", R: "r2"}, {Op: "aclose"}, {Op: "joinall"}, {Op: "jclose"}},
		[]SOp{{Op: "expectwsd", R: "r1"}, {Op: "doneif", R: "r1", X: 1}, {Op: "expectwsd", R: "r2"}, {Op: "doneif", R: "r2", X: 2}, {Op: "expectdone"}}))
	// Signals racing with Close, on signalsToStep channels the caller leaves OPEN (supported: the
	// library's own "Unclosed" test; Close ends the signal writers through the context). The director
	// hands a signal to the writer goroutine (the unbuffered send returns when the writer has taken
	// it) and calls Close at once: depending on the schedule the signal is written before client-done,
	// or the write loses the race - the server has closed its input - and FAILS on a healthy
	// connection (model: `wSend w false` once the server got client-done); the writer must then end.
	out = append(out, hs("sigclose-inflight", 3,
		[]DOp{{Op: "exec", R: "r1", To: true, From: true}, {Op: "await", N: 2}, {Op: "sig", R: "r1", SR: "r1"}, {Op: "aclose"}, {Op: "join", R: "r1"}, {Op: "jclose"}},
		[]SOp{{Op: "expectws", R: "r1"}, {Op: "expectdone"}, {Op: "done", R: "r1", X: 1}}))
	out = append(out, hs("sigclose-answered", 3,
		[]DOp{{Op: "exec", R: "r1", To: true}, {Op: "join", R: "r1"}, {Op: "sig", R: "r1", SR: "r1"}, {Op: "aclose"}, {Op: "jclose"}},
		[]SOp{{Op: "expectws", R: "r1"}, {Op: "done", R: "r1", X: 1}, {Op: "expectdone"}}))
	out = append(out, hs("sigclose-2-runs", 3,
		[]DOp{{Op: "exec", R: "r1", To: true}, {Op: "exec", R: "r2", To: true, From: true}, {Op: "await", N: 3}, {Op: "sig", R: "r1", SR: "r1"}, {Op: "sig", R: "r2", SR: "r2"},
			{Op: "aclose"}, {Op: "joinall"}, {Op: "jclose"}},
		[]SOp{{Op: "expectws", R: "r1"}, {Op: "expectws", R: "r2"}, {Op: "sig", R: "r2"}, {Op: "done", R: "r2", X: 2}, {Op: "expectdone"}, {Op: "done", R: "r1", X: 1}}))
	out = append(out, hs("sigclose-2-signals", 3,
		[]DOp{{Op: "exec", R: "r1", To: true}, {Op: "exec", R: "r2"}, {Op: "await", N: 3}, {Op: "sig", R: "r1", SR: "r1"}, {Op: "sig", R: "r1", SR: "r1"},
			{Op: "aclose"}, {Op: "joinall"}, {Op: "jclose"}},
		[]SOp{{Op: "expectws", R: "r1"}, {Op: "expectws", R: "r2"}, {Op: "expectdone"}, {Op: "done", R: "r1", X: 1}, {Op: "done", R: "r2", X: 2}}))
	out = append(out, hs("sigclose-queued", 3,
		[]DOp{{Op: "exec", R: "r1", To: true, Pre: 2}, {Op: "awaitws", R: "r1"}, {Op: "aclose"}, {Op: "join", R: "r1"}, {Op: "jclose"}},
		[]SOp{{Op: "expectws", R: "r1"}, {Op: "expectdone"}, {Op: "done", R: "r1", X: 1}}))
	// Re-run of the same run ID at delivery time. An entry exists from the registration until its
	// caller has COLLECTED the result, not merely until the result is stored: a second Execute with
	// that run ID issued in between must be refused as a duplicate (or, once the first call has
	// collected, be a run of its own), and both calls must return. The second call is issued (a) by
	// the director as soon as the answer has been decoded, (b) by the consumer of signalsFromStep when
	// that channel is closed - which the client does in the very critical section that stores the
	// result. The scripted server answers a second work-start if one comes.
	out = append(out, hs("rerun-at-delivery", 3,
		[]DOp{{Op: "exec", R: "r1"}, {Op: "awaitsent", N: 2}, {Op: "exec", R: "r1"}, {Op: "join", R: "r1"}, {Op: "mark", N: 1}, {Op: "joinall"}, {Op: "close"}},
		[]SOp{{Op: "expectws", R: "r1"}, {Op: "done", R: "r1", X: 1}, {Op: "expectwsn", R: "r1", N: 2}, {Op: "doneifn", R: "r1", N: 2, X: 2}, {Op: "expectdone"}}))
	out = append(out, hs("rerun-reissue", 3,
		[]DOp{{Op: "exec", R: "r1", From: true, Reissue: true}, {Op: "awaitexecs", N: 2}, {Op: "joinall"}, {Op: "mark", N: 1}, {Op: "close"}},
		[]SOp{{Op: "expectws", R: "r1"}, {Op: "sig", R: "r1"}, {Op: "done", R: "r1", X: 1}, {Op: "expectwsn", R: "r1", N: 2}, {Op: "doneifn", R: "r1", N: 2, X: 2}, {Op: "expectdone"}}))
	out = append(out, hs("rerun-reissue-overlap", 3,
		[]DOp{{Op: "exec", R: "r2"}, {Op: "exec", R: "r1", From: true, Reissue: true}, {Op: "awaitexecs", N: 3}, {Op: "joinall"}, {Op: "mark", N: 1}, {Op: "close"}},
		[]SOp{{Op: "expectws", R: "r2"}, {Op: "expectws", R: "r1"}, {Op: "done", R: "r1", X: 1}, {Op: "expectwsn", R: "r1", N: 2}, {Op: "doneifn", R: "r1", N: 2, X: 3},
			{Op: "done", R: "r2", X: 2}, {Op: "expectdone"}}))
	// An input that cannot be encoded (func, chan, complex, nested): Execute registers, starts the read
	// loop, then fails in the CBOR encoder before a byte is written and takes its entry back. The
	// connection stays healthy and the read loop stays alive with nothing pending: it ends on the
	// server's end of stream, which the server only produces after client-done. The scripted server,
	// like the real one, keeps its output open and silent until it has read client-done.
	{
		bad := func(r string, k int) DOp { return DOp{Op: "exec", R: r, Unenc: k} }
		ok := func(r string) []DOp { return []DOp{{Op: "exec", R: r}, {Op: "join", R: r}} }
		out = append(out, hs("unenc-close", 3,
			[]DOp{bad("r1", 1), {Op: "join", R: "r1"}, {Op: "close"}},
			[]SOp{{Op: "expectdonelong"}}))
		out = append(out, hs("unenc-after-ok", 3,
			append(ok("r1"), bad("r2", 2), DOp{Op: "join", R: "r2"}, DOp{Op: "close"}),
			[]SOp{{Op: "expectws", R: "r1"}, {Op: "done", R: "r1", X: 1}, {Op: "expectdonelong"}}))
		out = append(out, hs("unenc-twice", 3,
			[]DOp{bad("r1", 3), {Op: "join", R: "r1"}, bad("r2", 4), {Op: "join", R: "r2"}, {Op: "close"}},
			[]SOp{{Op: "expectdonelong"}}))
		out = append(out, hs("unenc-then-ok", 3,
			append([]DOp{bad("r1", 1), {Op: "join", R: "r1"}}, append(ok("r2"), DOp{Op: "close"})...),
			[]SOp{{Op: "expectws", R: "r2"}, {Op: "done", R: "r2", X: 2}, {Op: "expectdonelong"}}))
		out = append(out, hs("unenc-overlap", 3,
			[]DOp{{Op: "exec", R: "r1"}, {Op: "awaitws", R: "r1"}, bad("r2", 1), {Op: "join", R: "r2"}, {Op: "mark", N: 1}, {Op: "joinall"},
				bad("r3", 2), {Op: "join", R: "r3"}, {Op: "close"}},
			[]SOp{{Op: "expectws", R: "r1"}, {Op: "expectmark", N: 1}, {Op: "done", R: "r1", X: 1}, {Op: "expectdonelong"}}))
		out = append(out, hs("unenc-signals", 3,
			[]DOp{{Op: "exec", R: "r1", To: true, From: true, Unenc: 1}, {Op: "join", R: "r1"}, {Op: "close"}},
			[]SOp{{Op: "expectdonelong"}}))
	}
	// A caller that answers every emitted signal: ONE consumer goroutine receives from signalsFromStep
	// and, before it receives again, sends an answer on signalsToStep (both unbuffered). The plugin
	// emits k signals right after the work-start, waits for the answers, then finishes. The consumer
	// depends on the signal writer goroutine taking its answer, the read loop (which hands signals
	// over WHILE HOLDING THE CLIENT MUTEX) depends on the consumer - so the writer goroutine must
	// never need the client mutex on its way to (or between) taking signals.
	for _, k := range []int{2, 3, 4} {
		sv := []SOp{{Op: "expectws", R: "r1"}}
		for i := 0; i < k; i++ {
			sv = append(sv, SOp{Op: "sig", R: "r1"})
		}
		sv = append(sv, SOp{Op: "expectsig", N: k}, SOp{Op: "done", R: "r1", X: 1}, SOp{Op: "expectdone"})
		out = append(out, hs(fmt.Sprintf("sigecho-%d", k), 3,
			[]DOp{{Op: "exec", R: "r1", To: true, From: true, Answer: true}, {Op: "join", R: "r1"}, {Op: "close"}}, sv))
	}
	out = append(out, hs("sigecho-2-runs", 3,
		[]DOp{{Op: "exec", R: "r1", To: true, From: true, Answer: true}, {Op: "exec", R: "r2", To: true, From: true, Answer: true}, {Op: "joinall"}, {Op: "exec", R: "r3"}, {Op: "join", R: "r3"}, {Op: "close"}},
		[]SOp{{Op: "expectws", R: "r1"}, {Op: "sig", R: "r1"}, {Op: "sig", R: "r1"}, {Op: "expectws", R: "r2"}, {Op: "sig", R: "r2"}, {Op: "sig", R: "r1"}, {Op: "sig", R: "r2"},
			{Op: "expectsig", N: 5}, {Op: "done", R: "r2", X: 2}, {Op: "done", R: "r1", X: 1}, {Op: "expectws", R: "r3"}, {Op: "done", R: "r3", X: 3}, {Op: "expectdone"}}))
	// duplicate and blank run IDs
	out = append(out, hs("duplicate-run", 3,
		[]DOp{{Op: "exec", R: "r1"}, {Op: "await", N: 2}, {Op: "exec", R: "r1", To: true}, {Op: "join", R: "r1"}, {Op: "mark", N: 1}, {Op: "joinall"}, {Op: "close"}},
		[]SOp{{Op: "expectws", R: "r1"}, {Op: "expectmark", N: 1}, {Op: "done", R: "r1", X: 1}, {Op: "expectdone"}}))
	out = append(out, hs("blank-run", 3,
		[]DOp{{Op: "exec", R: ""}, {Op: "exec", R: "r1"}, {Op: "joinall"}, {Op: "close"}},
		[]SOp{{Op: "expectws", R: "r1"}, {Op: "done", R: "r1", X: 1}, {Op: "expectdone"}}))
	// a mixture
	out = append(out, hs("mixed-3", 3,
		[]DOp{{Op: "exec", R: "r1", To: true, From: true}, {Op: "exec", R: "r2"}, {Op: "sig", R: "r1", SR: "r1"}, {Op: "exec", R: "r3", From: true},
			{Op: "joinall"}, {Op: "exec", R: "r4"}, {Op: "join", R: "r4"}, {Op: "close"}},
		[]SOp{{Op: "expectws", R: "r1"}, {Op: "expectws", R: "r2"}, {Op: "sig", R: "r1"}, {Op: "err", R: "r2", SF: true}, {Op: "expectws", R: "r3"},
			{Op: "sig", R: "r3"}, {Op: "done", R: "r3", X: 3}, {Op: "expectsig", N: 1}, {Op: "done", R: "r1", X: 1}, {Op: "err", R: "r1"},
			{Op: "expectws", R: "r4"}, {Op: "done", R: "r4", X: 4}, {Op: "expectdone"}}))
	// Work-starts the real server accepts from the wire but cannot run. Its replies, recorded from
	// RunATPServer (atp/server.go handleWorkStartMessage / runStep): (a) empty step ID -> exactly one
	// error message {step_fatal, run ID ""}; (b) unknown step ID and (c) input rejected by the step's
	// schema -> one error message {step_fatal, that run ID}. Nothing else follows, and the server keeps
	// its output open and silent until client-done: only the client's own handling of that one
	// message can end the Execute.
	type mal struct {
		name string
		dop  DOp
		rep  func(r string) SOp
	}
	mals := []mal{
		{"emptystep", DOp{Op: "exec", Sid: "-"}, func(string) SOp { return SOp{Op: "err", R: "", SF: true} }},
		{"unknownstep", DOp{Op: "exec", Sid: "nosuch"}, func(r string) SOp { return SOp{Op: "err", R: r, SF: true} }},
		{"badinput", DOp{Op: "exec", Bad: true}, func(r string) SOp { return SOp{Op: "err", R: r, SF: true} }},
	}
	for _, m := range mals {
		ex := func(r string) DOp { d := m.dop; d.R = r; return d }
		// alone
		out = append(out, hs("mal-"+m.name+"-alone", 3,
			[]DOp{ex("r1"), {Op: "join", R: "r1"}, {Op: "close"}},
			[]SOp{{Op: "expectws", R: "r1"}, m.rep("r1"), {Op: "expectdonelong"}}))
		// serial, after a successful run and before another one
		out = append(out, hs("mal-"+m.name+"-serial", 3,
			[]DOp{{Op: "exec", R: "r1"}, {Op: "join", R: "r1"}, ex("r2"), {Op: "join", R: "r2"}, {Op: "exec", R: "r3"}, {Op: "join", R: "r3"}, {Op: "close"}},
			[]SOp{{Op: "expectws", R: "r1"}, {Op: "done", R: "r1", X: 1}, {Op: "expectws", R: "r2"}, m.rep("r2"),
				{Op: "expectws", R: "r3"}, {Op: "done", R: "r3", X: 3}, {Op: "expectdonelong"}}))
		// overlapping with one / two healthy runs that are answered afterwards. (For (a) the healthy
		// runs are started once the malformed one has returned: the client fans a step-fatal error
		// without run ID out to every run waiting at that moment, which would take them along.)
		if m.name == "emptystep" {
			out = append(out, hs("mal-"+m.name+"-then-1", 3,
				[]DOp{ex("r2"), {Op: "join", R: "r2"}, {Op: "exec", R: "r1"}, {Op: "joinall"}, {Op: "close"}},
				[]SOp{{Op: "expectws", R: "r2"}, m.rep("r2"), {Op: "expectws", R: "r1"}, {Op: "done", R: "r1", X: 1}, {Op: "expectdonelong"}}))
			out = append(out, hs("mal-"+m.name+"-then-2", 3,
				[]DOp{ex("r3"), {Op: "join", R: "r3"}, {Op: "exec", R: "r1"}, {Op: "exec", R: "r2"}, {Op: "joinall"}, {Op: "close"}},
				[]SOp{{Op: "expectws", R: "r3"}, m.rep("r3"), {Op: "expectws", R: "r1"}, {Op: "expectws", R: "r2"},
					{Op: "done", R: "r2", X: 2}, {Op: "done", R: "r1", X: 1}, {Op: "expectdonelong"}}))
			// ... and the overlap proper: the runs waiting at that moment get the error too, the
			// server's later answers for them find no entry; everybody returns
			out = append(out, hs("mal-"+m.name+"-overlap-2", 3,
				[]DOp{{Op: "exec", R: "r1"}, {Op: "exec", R: "r2"}, {Op: "await", N: 3}, ex("r3"), {Op: "joinall"}, {Op: "close"}},
				[]SOp{{Op: "expectws", R: "r1"}, {Op: "expectws", R: "r2"}, {Op: "expectws", R: "r3"}, m.rep("r3"),
					{Op: "done", R: "r2", X: 2}, {Op: "done", R: "r1", X: 1}, {Op: "expectdonelong"}}))
		} else {
			out = append(out, hs("mal-"+m.name+"-overlap-1", 3,
				[]DOp{{Op: "exec", R: "r1"}, ex("r2"), {Op: "joinall"}, {Op: "close"}},
				[]SOp{{Op: "expectws", R: "r1"}, {Op: "expectws", R: "r2"}, m.rep("r2"), {Op: "done", R: "r1", X: 1}, {Op: "expectdonelong"}}))
			out = append(out, hs("mal-"+m.name+"-overlap-2", 3,
				[]DOp{{Op: "exec", R: "r1"}, ex("r3"), {Op: "exec", R: "r2"}, {Op: "joinall"}, {Op: "close"}},
				[]SOp{{Op: "expectws", R: "r1"}, {Op: "expectws", R: "r3"}, {Op: "expectws", R: "r2"}, m.rep("r3"),
					{Op: "done", R: "r2", X: 2}, {Op: "done", R: "r1", X: 1}, {Op: "expectdonelong"}}))
		}
	}
	// Debug logs in the work-done message (the library's own server always sends none): every result
	// passes through the client's handling of that text. Line ends of every kind: "\n", "\r\n", a
	// progress line redrawn with a bare "\r", old Mac line ends, "\r\r\n", a text that ends in "\r",
	// blank lines, a last line without line end, nothing but line ends.
	{
		logs := []string{
			"one line\n",
			"first\nsecond\n\n\nlast without line end",
			"dos line\r\nanother\r\n",
			"progress 10%\rprogress 50%\rprogress 100%\ndone\n",
			"old mac\rline ends\r",
			"ends in a carriage return\r",
			"double\r\r\nreturn\n",
			"\r",
			"\n\r\n\r",
			"  \t \r  \n",
		}
		// v3, one run per text, serial
		var d []DOp
		var sv []SOp
		for i, l := range logs {
			r := run(i + 1)
			d = append(d, DOp{Op: "exec", R: r}, DOp{Op: "join", R: r})
			sv = append(sv, SOp{Op: "expectws", R: r}, SOp{Op: "done", R: r, X: i + 1, Logs: l})
		}
		d = append(d, DOp{Op: "close"})
		sv = append(sv, SOp{Op: "expectdone"})
		out = append(out, hs("logs-serial", 3, d, sv))
		// v3, single runs with the texts that matter most on their own
		for i, l := range []string{logs[3], logs[5], logs[6]} {
			out = append(out, hs(fmt.Sprintf("logs-single-%d", i+1), 3,
				[]DOp{{Op: "exec", R: "r1"}, {Op: "join", R: "r1"}, {Op: "close"}},
				[]SOp{{Op: "expectws", R: "r1"}, {Op: "done", R: "r1", X: 1, Logs: l}, {Op: "expectdone"}}))
		}
		// v3, overlapping: the run with the awkward logs is answered first; the others must still
		// get their results and Close must return
		out = append(out, hs("logs-overlap", 3,
			[]DOp{{Op: "exec", R: "r1"}, {Op: "exec", R: "r2", From: true}, {Op: "exec", R: "r3"}, {Op: "joinall"}, {Op: "close"}},
			[]SOp{{Op: "expectws", R: "r1"}, {Op: "expectws", R: "r2"}, {Op: "expectws", R: "r3"}, {Op: "done", R: "r2", X: 2, Logs: logs[3]},
				{Op: "done", R: "r3", X: 3, Logs: logs[1]}, {Op: "done", R: "r1", X: 1, Logs: logs[4]}, {Op: "expectdone"}}))
		// ATP v1
		out = append(out, hs("logs-v1", 1,
			[]DOp{{Op: "exec", R: "r1"}, {Op: "join", R: "r1"}, {Op: "exec", R: "r2"}, {Op: "join", R: "r2"}, {Op: "exec", R: "r3"}, {Op: "join", R: "r3"}, {Op: "close"}},
			[]SOp{{Op: "expect", N: 2}, {Op: "done1", X: 1, Logs: logs[2]}, {Op: "expect", N: 3}, {Op: "done1", X: 2, Logs: logs[3]},
				{Op: "expect", N: 4}, {Op: "done1", X: 3, Logs: logs[5]}}))
	}
	// ATP v1 with overlapping Executes against a plugin that runs one step at a time (it reads the
	// next work-start only after it has written the previous work-done). Which caller gets which
	// result is not defined in v1; every Execute must return.
	for _, k := range []int{2, 3, 5} {
		var d []DOp
		var sv []SOp
		for i := 1; i <= k; i++ {
			d = append(d, DOp{Op: "exec", R: run(i)})
			sv = append(sv, SOp{Op: "expect", N: i + 1}, SOp{Op: "done1", X: i})
		}
		d = append(d, DOp{Op: "joinall"}, DOp{Op: "close"})
		ss := hs(fmt.Sprintf("v1-overlap-%d", k), 1, d, sv)
		ss.V1Strict = true
		out = append(out, ss)
	}
	// Signals for run IDs that were never started, sent through the still open signalsToStep channel
	// of an Execute that has returned (the client keeps serving it). The server answers each with a
	// non-fatal report and, like the library's server, stops reading once 4-5 reports are unread. No
	// execution is in flight, so nobody reads - until the next Execute, which must start reading
	// before it writes its work-start.
	{
		d := []DOp{{Op: "exec", R: "r1", To: true}, {Op: "join", R: "r1"}}
		for i := 0; i < 6; i++ {
			d = append(d, DOp{Op: "sig", R: "r1", SR: fmt.Sprintf("ghost%d", i)})
		}
		d = append(d, DOp{Op: "exec", R: "r2"}, DOp{Op: "join", R: "r2"}, DOp{Op: "close"})
		ss := hs("ghost-signals-then-execute", 3, d,
			[]SOp{{Op: "expectws", R: "r1"}, {Op: "done", R: "r1", X: 1}, {Op: "expectws", R: "r2"}, {Op: "done", R: "r2", X: 2}, {Op: "expectdonelong"}})
		ss.Backpressure = 3
		out = append(out, ss)
	}
	// ATP v1
	out = append(out, hs("v1-serial-1", 1, []DOp{{Op: "exec", R: "r1"}, {Op: "join", R: "r1"}, {Op: "close"}},
		[]SOp{{Op: "expect", N: 2}, {Op: "done1", X: 1}}))
	out = append(out, hs("v1-serial-2", 1, []DOp{{Op: "exec", R: "r1", To: true}, {Op: "join", R: "r1"}, {Op: "exec", R: "r2"}, {Op: "join", R: "r2"}, {Op: "close"}},
		[]SOp{{Op: "expect", N: 2}, {Op: "done1", X: 1}, {Op: "expect", N: 3}, {Op: "done1", X: 2}}))
	return out
}

// FaultJob is a C08 job with its class.
type FaultJob struct {
	Job   Job
	Class string
}

func unhealthy(s Session, name string) Session {
	s.Healthy = false
	s.Name = name
	return s
}

// faultBases are the recorded transcripts that get damaged.
func faultBases() []Session {
	var out []Session
	out = append(out, unhealthy(hs("", 3,
		[]DOp{{Op: "exec", R: "r1"}, {Op: "join", R: "r1"}, {Op: "exec", R: "r2"}, {Op: "join", R: "r2"}, {Op: "close"}},
		[]SOp{{Op: "expectws", R: "r1"}, {Op: "done", R: "r1", X: 1}, {Op: "expectws", R: "r2"}, {Op: "done", R: "r2", X: 2}, {Op: "expectdone"}}), "f-serial-2"))
	out = append(out, unhealthy(hs("", 3,
		[]DOp{{Op: "exec", R: "r1", To: true, From: true}, {Op: "exec", R: "r2", From: true}, {Op: "sig", R: "r1", SR: "r1"}, {Op: "joinall"}, {Op: "csig", R: "r1"}, {Op: "close"}},
		[]SOp{{Op: "expectws", R: "r1"}, {Op: "expectws", R: "r2"}, {Op: "sig", R: "r1"}, {Op: "err", R: "r2"}, {Op: "done", R: "r1", X: 1}, {Op: "sig", R: "r2"}, {Op: "done", R: "r2", X: 2}, {Op: "expectdone"}}), "f-overlap-2-signals"))
	out = append(out, unhealthy(hs("", 3,
		[]DOp{{Op: "exec", R: "r1"}, {Op: "exec", R: "r2"}, {Op: "exec", R: "r3"}, {Op: "joinall"}, {Op: "exec", R: "r4"}, {Op: "join", R: "r4"}, {Op: "close"}},
		[]SOp{{Op: "expectws", R: "r1"}, {Op: "expectws", R: "r2"}, {Op: "expectws", R: "r3"}, {Op: "done", R: "r3", X: 3}, {Op: "err", R: "r2", SF: true}, {Op: "done", R: "r1", X: 1},
			{Op: "expectws", R: "r4"}, {Op: "done", R: "r4", X: 4}, {Op: "expectdone"}}), "f-overlap-3-error"))
	// "resubmitted run": run r1 is waiting for its result when r1 is submitted again; the second
	// Execute is refused ("duplicate run ID": it registers nothing and must remove nothing), and only
	// then does the stream deliver the result - or break. The first Execute must still be released.
	out = append(out, unhealthy(hs("", 3,
		[]DOp{{Op: "exec", R: "r1", From: true}, {Op: "awaitws", R: "r1"}, {Op: "exec", R: "r1", To: true, From: true}, {Op: "join", R: "r1"}, {Op: "mark", N: 1},
			{Op: "joinall"}, {Op: "exec", R: "r2"}, {Op: "join", R: "r2"}, {Op: "close"}},
		[]SOp{{Op: "expectws", R: "r1"}, {Op: "expectmark", N: 1}, {Op: "sig", R: "r1"}, {Op: "done", R: "r1", X: 1},
			{Op: "expectws", R: "r2"}, {Op: "done", R: "r2", X: 2}, {Op: "expectdone"}}), "f-resubmit"))
	// Close while two runs are pending; after client-done the server still delivers an intact message
	// that does not complete the last pending run (the answer of the other one); only then does the
	// stream deliver the rest - or break. The read loop must keep reading for the pending run.
	out = append(out, unhealthy(hs("", 3,
		[]DOp{{Op: "exec", R: "r1"}, {Op: "exec", R: "r2"}, {Op: "awaitws", R: "r1"}, {Op: "awaitws", R: "r2"}, {Op: "aclose"}, {Op: "joinall"}, {Op: "jclose"}},
		[]SOp{{Op: "expectws", R: "r1"}, {Op: "expectws", R: "r2"}, {Op: "expectdone"}, {Op: "done", R: "r1", X: 1}, {Op: "err", R: "r2"}, {Op: "done", R: "r2", X: 2}}), "f-close-pending"))
	// results that carry debug logs: a text ending in a line end, one without a final line end, one of
	// several lines; a damaged byte at the end of the text (or in its length) takes the final line
	// end away while the message stays well-formed
	out = append(out, unhealthy(hs("", 3,
		[]DOp{{Op: "exec", R: "r1"}, {Op: "join", R: "r1"}, {Op: "exec", R: "r2"}, {Op: "exec", R: "r3"}, {Op: "joinall"}, {Op: "close"}},
		[]SOp{{Op: "expectws", R: "r1"}, {Op: "done", R: "r1", X: 1, Logs: "first line\nsecond line\n"},
			{Op: "expectws", R: "r2"}, {Op: "expectws", R: "r3"}, {Op: "done", R: "r3", X: 3, Logs: "no line end at all"},
			{Op: "done", R: "r2", X: 2, Logs: "a\r\nb\n\nlast line without line end"}, {Op: "expectdone"}}), "f-logs"))
	out = append(out, unhealthy(hs("", 1,
		[]DOp{{Op: "exec", R: "r1"}, {Op: "join", R: "r1"}, {Op: "exec", R: "r2"}, {Op: "join", R: "r2"}, {Op: "close"}},
		[]SOp{{Op: "expect", N: 2}, {Op: "done1", X: 1, Logs: "v1 log line\n"}, {Op: "expect", N: 3}, {Op: "done1", X: 2, Logs: "v1 without line end"}}), "f-logs-v1"))
	// error messages with long texts of multi-byte characters (1100-3000 bytes, far fewer characters),
	// and of ASCII controls: a warning, a step-fatal error, a server-fatal error
	out = append(out, unhealthy(hs("", 3,
		[]DOp{{Op: "exec", R: "r1"}, {Op: "exec", R: "r2"}, {Op: "exec", R: "r3"}, {Op: "joinall"}, {Op: "exec", R: "r4"}, {Op: "join", R: "r4"}, {Op: "close"}},
		[]SOp{{Op: "expectws", R: "r1"}, {Op: "expectws", R: "r2"}, {Op: "expectws", R: "r3"}, {Op: "err", R: "r1", Logs: "ja"}, {Op: "err", R: "r2", Logs: "ctl"},
			{Op: "done", R: "r1", X: 1}, {Op: "err", R: "r2", SF: true, Logs: "ru"}, {Op: "err", R: "r3", Logs: "mix"}, {Op: "err", R: "r3", Logs: "ctl3"}, {Op: "done", R: "r3", X: 3},
			{Op: "expectws", R: "r4"}, {Op: "err", R: "", SF: true, VF: true, Logs: "ja"}, {Op: "eof"}}), "f-long-errors"))
	// results nobody waits for: a result repeated after its run has ended, results and step-fatal
	// errors for run IDs that were never started, before and between the real answers
	out = append(out, unhealthy(hs("", 3,
		[]DOp{{Op: "exec", R: "r1"}, {Op: "join", R: "r1"}, {Op: "exec", R: "r2"}, {Op: "exec", R: "r3"}, {Op: "joinall"}, {Op: "close"}},
		[]SOp{{Op: "expectws", R: "r1"}, {Op: "done", R: "ghost", X: 9}, {Op: "done", R: "r1", X: 1}, {Op: "done", R: "r1", X: 1},
			{Op: "expectws", R: "r2"}, {Op: "expectws", R: "r3"}, {Op: "err", R: "phantom", SF: true}, {Op: "done", R: "r3", X: 3}, {Op: "done", R: "r1", X: 1},
			{Op: "sig", R: "ghost"}, {Op: "done", R: "r2", X: 2}, {Op: "expectdone"}}), "f-late-result"))
	out = append(out, unhealthy(hs("", 1, []DOp{{Op: "exec", R: "r1"}, {Op: "join", R: "r1"}, {Op: "exec", R: "r2"}, {Op: "join", R: "r2"}, {Op: "close"}},
		[]SOp{{Op: "expect", N: 2}, {Op: "done1", X: 1}, {Op: "expect", N: 3}, {Op: "done1", X: 2}}), "f-v1-serial-2"))
	return out
}

// FaultJobs are the C08 histories: every recorded transcript cut / failing / corrupted at byte
// offsets (thorough: every offset; quick: around every message boundary plus a random sample),
// unsupported versions, a schema that does not unserialize, a failing write side.
func FaultJobs(rng *rand.Rand, thorough bool) []FaultJob {
	var out []FaultJob
	n := 0
	tr := func() string {
		n++
		if n%2 == 0 {
			return "buf"
		}
		return "pipe"
	}
	for _, base := range faultBases() {
		stream, bounds := Transcript(base)
		offs := map[int]bool{}
		if thorough {
			for i := range stream {
				offs[i] = true
			}
		} else {
			for _, b := range append([]int{0}, bounds...) {
				for d := -2; d <= 4; d++ {
					if b+d >= 0 && b+d < len(stream) {
						offs[b+d] = true
					}
				}
			}
			for i := 0; i < 30; i++ {
				offs[rng.Intn(len(stream))] = true
			}
			// inside the runtime messages (after the hello) more densely
			if len(bounds) > 1 {
				for i := 0; i < 40; i++ {
					offs[bounds[0]+rng.Intn(len(stream)-bounds[0])] = true
				}
			}
		}
		for off := range stream {
			if !offs[off] {
				continue
			}
			out = append(out, FaultJob{Job{Session: base, Transport: tr(), ChunkSeed: rng.Int63(), WriteFailAfter: -1, TimeoutMs: 1500,
				Fault: &Fault{Kind: "cut", Off: off}}, "c08-cut"})
			// read errors: a plain error value, one that claims Timeout()/Temporary() (expired read
			// deadline), and one more kind in rotation (see readErrValue of the session driver); every
			// one of them is returned again by every later Read
			for _, v := range []byte{0, 1, byte(2 + off%4)} {
				out = append(out, FaultJob{Job{Session: base, Transport: tr(), ChunkSeed: rng.Int63(), WriteFailAfter: -1, TimeoutMs: 1500,
					Fault: &Fault{Kind: "ioerr", Off: off, Val: v}}, "c08-ioerr"})
			}
			vals := []Fault{{Kind: "xor", Val: 0x01}, {Kind: "xor", Val: 0x80}, {Kind: "xor", Val: 0x20}, {Kind: "set", Val: 0xff}}
			if thorough {
				vals = append(vals, Fault{Kind: "xor", Val: 0x02}, Fault{Kind: "xor", Val: 0x04}, Fault{Kind: "set", Val: 0x00}, Fault{Kind: "xor", Val: 0x1f})
			}
			for _, v := range vals {
				f := v
				f.Off = off
				out = append(out, FaultJob{Job{Session: base, Transport: tr(), ChunkSeed: rng.Int63(), WriteFailAfter: -1, TimeoutMs: 1500,
					Fault: &f}, "c08-corrupt"})
			}
		}
	}
	// the undamaged transcripts as well (for "resubmitted run": the result is simply delivered)
	for _, base := range faultBases() {
		for _, t := range []string{"pipe", "buf"} {
			out = append(out, FaultJob{Job{Session: base, Transport: t, ChunkSeed: rng.Int63(), WriteFailAfter: -1, TimeoutMs: 1500}, "c08-intact"})
		}
	}
	// unsupported versions, bad schema
	b0 := faultBases()[0]
	for _, v := range []int64{0, 2, 4, 99, -1} {
		s := b0
		s.Ver = v
		s.Name = fmt.Sprintf("f-version-%d", v)
		out = append(out, FaultJob{Job{Session: s, Transport: tr(), WriteFailAfter: -1, TimeoutMs: 1500}, "c08-version"})
	}
	withHello := func(base Session, kind, name string) Session {
		s := base
		s.Srv = append([]SOp{}, base.Srv...)
		for i := range s.Srv {
			if s.Srv[i].Op == "hello" {
				s.Srv[i].R = kind
			}
		}
		s.Name = name
		return s
	}
	// a schema that fails to unserialize, in every flavour: not a map at all; an undecodable default
	// of a non-string property (step input, signal handler data, signal EMITTER data); a scope without
	// its root object, with the root under another key, with a dangling reference - placed in an
	// emitter's data schema and in an output schema
	for _, k := range BadKinds {
		for _, t := range []string{"pipe", "buf"} {
			out = append(out, FaultJob{Job{Session: withHello(b0, k, "f-badschema-"+k), Transport: t, ChunkSeed: rng.Int63(), WriteFailAfter: -1, TimeoutMs: 1500}, "c08-schema"})
		}
	}
	// two sessions in one process: first another client rejects a hello with an undecodable default,
	// then this session - intact and under each fault kind - must behave as ever
	{
		stream, bounds := Transcript(b0)
		faults := []*Fault{nil, {Kind: "cut", Off: bounds[0] / 2}, {Kind: "cut", Off: bounds[1] - 2}, {Kind: "ioerr", Off: bounds[0] + 5, Val: 1},
			{Kind: "xor", Off: bounds[0] + 2, Val: 0x80}, {Kind: "set", Off: len(stream) - 3, Val: 0xff}}
		n2 := 0
		for _, pre := range []string{"default-int", "default-bool", "emitter-default"} {
			for _, f := range faults {
				n2++
				s := b0
				s.Name = "f-second-session"
				out = append(out, FaultJob{Job{Session: s, Transport: []string{"pipe", "buf"}[n2%2], ChunkSeed: rng.Int63(), WriteFailAfter: -1, TimeoutMs: 1500,
					Fault: f, PreHello: pre}, "c08-twosessions"})
			}
		}
	}
	// the write side fails independently (server-to-client side healthy, or damaged as well)
	bases := faultBases()
	for bi, base := range bases[:3] {
		maxW := 5
		if bi == 1 {
			maxW = 6
		}
		for w := 0; w <= maxW; w++ {
			s := base
			s.Name = base.Name + "-wfail"
			out = append(out, FaultJob{Job{Session: s, Transport: tr(), ChunkSeed: rng.Int63(), WriteFailAfter: w, TimeoutMs: 2000}, "c08-wfail"})
			stream, _ := Transcript(base)
			out = append(out, FaultJob{Job{Session: s, Transport: tr(), ChunkSeed: rng.Int63(), WriteFailAfter: w, TimeoutMs: 2000,
				Fault: &Fault{Kind: "cut", Off: rng.Intn(len(stream))}}, "c08-wfail"})
		}
	}
	// REGRESSION WITNESS (runs in every tier): frames whose message ID does not fit their payload, as a
	// single flipped ID byte produces. A work-done frame with a signal or error payload must fail
	// that run (before commit 1454f2e the lenient payload decode turned it into an empty SUCCESS);
	// a signal / error frame with a work-done payload must be dropped, the real answer still counts.
	for _, t := range []string{"pipe", "buf"} {
		out = append(out, FaultJob{Job{Session: unhealthy(hs("", 3,
			[]DOp{{Op: "exec", R: "r1", From: true}, {Op: "exec", R: "r2", From: true}, {Op: "joinall"}, {Op: "exec", R: "r3"}, {Op: "join", R: "r3"}, {Op: "close"}},
			[]SOp{{Op: "expectws", R: "r1"}, {Op: "expectws", R: "r2"}, {Op: "sigasdone", R: "r1"}, {Op: "doneassig", R: "r2", X: 7}, {Op: "done", R: "r2", X: 2},
				{Op: "expectws", R: "r3"}, {Op: "errasdone", R: "r3", SF: true}, {Op: "expectdone"}}), "f-typeflip-done"),
			Transport: t, ChunkSeed: rng.Int63(), WriteFailAfter: -1, TimeoutMs: 1500}, "c08-typeflip"})
		out = append(out, FaultJob{Job{Session: unhealthy(hs("", 3,
			[]DOp{{Op: "exec", R: "r1"}, {Op: "exec", R: "r2"}, {Op: "joinall"}, {Op: "close"}},
			[]SOp{{Op: "expectws", R: "r1"}, {Op: "expectws", R: "r2"}, {Op: "doneaserr", R: "r1", X: 8}, {Op: "errasdone", R: "r2"}, {Op: "done", R: "r1", X: 1}, {Op: "expectdone"}}), "f-typeflip-err"),
			Transport: t, ChunkSeed: rng.Int63(), WriteFailAfter: -1, TimeoutMs: 1500}, "c08-typeflip"})
	}
	// "slow signal consumer": the server emits a signal for a pending run while the caller does not
	// pick signals up (the read loop is parked in its send to signalsFromStep); meanwhile the stream
	// ends / fails / turns to garbage, or the result arrives, or Close is called, or - the one case
	// in which ANOTHER goroutine closes that channel - the run's own work-start write is reported as
	// failed (after its bytes reached the server) and Execute cleans up. Then the consumer is released.
	// Ordering is through the pipes and director-controlled pauses only: the director waits until
	// the server's write of the signal has completed, pauses 60 ms (the read loop is in the send by
	// then), lets the event happen, pauses again, opens the consumer's gate.
	{
		type variant struct {
			name  string
			after []SOp // server, after the signal
			dir   []DOp // director, between the two pauses
			fault func(bounds []int) *Fault
			wfail bool
		}
		vs := []variant{
			{name: "eof", after: []SOp{{Op: "eof"}}},
			{name: "ioerr", after: []SOp{{Op: "done", R: "r1", X: 1}}, fault: func(b []int) *Fault { return &Fault{Kind: "ioerr", Off: b[1] + 3} }},
			{name: "garbage", after: []SOp{{Op: "garbage"}}},
			{name: "done", after: []SOp{{Op: "done", R: "r1", X: 1}}},
			{name: "close", after: []SOp{{Op: "expectdone"}, {Op: "done", R: "r1", X: 1}}, dir: []DOp{{Op: "aclose"}}},
			{name: "wfail", after: []SOp{{Op: "expectmarklong", N: 1}}, dir: []DOp{{Op: "open", R: "write"}}, wfail: true},
		}
		for _, v := range vs {
			d := []DOp{{Op: "exec", R: "r1", From: true, Hold: true}, {Op: "awaitwritten", N: 2}, {Op: "sleep", N: 60}}
			d = append(d, v.dir...)
			d = append(d, DOp{Op: "sleep", N: 60}, DOp{Op: "open", R: "consumer:r1"}, DOp{Op: "join", R: "r1"})
			if v.name == "close" {
				d = append(d, DOp{Op: "jclose"})
			} else {
				d = append(d, DOp{Op: "close"})
			}
			d = append(d, DOp{Op: "mark", N: 1})
			sv := append([]SOp{{Op: "expectws", R: "r1"}, {Op: "sig", R: "r1"}}, v.after...)
			ss := unhealthy(hs("", 3, d, sv), "f-sigslow-"+v.name)
			_, bounds := Transcript(ss)
			reps := 1
			if v.wfail {
				reps = 3
			}
			for rep := 0; rep < reps; rep++ {
				for _, t := range []string{"pipe", "buf"} {
					j := Job{Session: ss, Transport: t, ChunkSeed: rng.Int63(), WriteFailAfter: -1, TimeoutMs: 2000}
					if v.fault != nil {
						j.Fault = v.fault(bounds)
					}
					if v.wfail {
						j.WriteFailAfter = 1 // the start-output message gets through, the work-start is the late failure
						j.WriteFailDeliver = true
					}
					out = append(out, FaultJob{j, "c08-sigslow"})
				}
			}
		}
	}
	// "one failed signal write": ATP v3, a signalsToStep channel that the caller LEAVES OPEN (Close
	// ends the signal writer through the context), exactly one signal whose write fails - its data
	// holds a value the CBOR encoder refuses, or that one write of the transport fails - while every
	// later write (client-done in particular) succeeds; then Close. The signal writer goroutine must
	// end after the failed write (model: `wSend w false`), or Close waits for it for ever. With a
	// healthy stream and with the stream ending / failing at various offsets.
	{
		mk := func(name string, unenc int) Session {
			return unhealthy(hs("", 3,
				[]DOp{{Op: "exec", R: "r1", To: true, From: true}, {Op: "awaitws", R: "r1"}, {Op: "sig", R: "r1", SR: "r1", Unenc: unenc}, {Op: "mark", N: 1},
					{Op: "join", R: "r1"}, {Op: "exec", R: "r2"}, {Op: "join", R: "r2"}, {Op: "close"}},
				[]SOp{{Op: "expectws", R: "r1"}, {Op: "expectmark", N: 1}, {Op: "sig", R: "r1"}, {Op: "done", R: "r1", X: 1},
					{Op: "expectws", R: "r2"}, {Op: "done", R: "r2", X: 2}, {Op: "expectdone"}}), name)
		}
		unencS := mk("f-sigfail-unencodable", 1)
		onceS := mk("f-sigfail-one-write", 0)
		pendS := unhealthy(hs("", 3,
			[]DOp{{Op: "exec", R: "r1", To: true}, {Op: "exec", R: "r2", To: true}, {Op: "awaitws", R: "r1"}, {Op: "awaitws", R: "r2"},
				{Op: "sig", R: "r1", SR: "r1", Unenc: 1}, {Op: "sig", R: "r2", SR: "r2"}, {Op: "aclose"}, {Op: "joinall"}, {Op: "jclose"}},
			[]SOp{{Op: "expectws", R: "r1"}, {Op: "expectws", R: "r2"}, {Op: "expectdone"}, {Op: "done", R: "r2", X: 2}, {Op: "done", R: "r1", X: 1}}), "f-sigfail-close-pending")
		_, bounds := Transcript(unencS)
		faults := []*Fault{nil, {Kind: "cut", Off: bounds[0] + 2}, {Kind: "cut", Off: bounds[1]}, {Kind: "cut", Off: bounds[2] - 3},
			{Kind: "ioerr", Off: bounds[1] + 4, Val: 0}, {Kind: "ioerr", Off: bounds[2], Val: 1}, {Kind: "xor", Off: bounds[1] + 1, Val: 0x80}}
		for _, f := range faults {
			for _, t := range []string{"pipe", "buf"} {
				out = append(out, FaultJob{Job{Session: unencS, Transport: t, ChunkSeed: rng.Int63(), WriteFailAfter: -1, TimeoutMs: 1500, Fault: f}, "c08-sigfail"})
				// writes: 1 start-output, 2 work-start r1, 3 the signal (fails, only that one), 4 ...
				out = append(out, FaultJob{Job{Session: onceS, Transport: t, ChunkSeed: rng.Int63(), WriteFailAfter: 2, WriteFailOnce: true, TimeoutMs: 1500, Fault: f}, "c08-sigfail"})
			}
		}
		for _, t := range []string{"pipe", "buf"} {
			out = append(out, FaultJob{Job{Session: pendS, Transport: t, ChunkSeed: rng.Int63(), WriteFailAfter: -1, TimeoutMs: 1500}, "c08-sigfail"})
		}
	}
	// the write side fails while the peer stays silent and keeps its output open until Close is over
	silent := Session{Name: "f-wfail-silent", Ver: 3,
		Dir: []DOp{{Op: "rs"}, {Op: "exec", R: "r1"}, {Op: "join", R: "r1"}, {Op: "close"}, {Op: "mark", N: 1}},
		Srv: []SOp{{Op: "expect", N: 1}, {Op: "hello"}, {Op: "expectmarklong", N: 1}}}
	leak := Session{Name: "f-wfail-leak", Ver: 3,
		Dir: []DOp{{Op: "rs"}, {Op: "exec", R: "r1"}, {Op: "await", N: 2}, {Op: "exec", R: "r2"}, {Op: "join", R: "r2"}, {Op: "mark", N: 1},
			{Op: "join", R: "r1"}, {Op: "close"}, {Op: "mark", N: 2}},
		Srv: []SOp{{Op: "expect", N: 1}, {Op: "hello"}, {Op: "expectws", R: "r1"}, {Op: "expectmark", N: 1}, {Op: "done", R: "r1", X: 1}, {Op: "expectmarklong", N: 2}}}
	for _, t := range []string{"pipe", "buf"} {
		out = append(out, FaultJob{Job{Session: silent, Transport: t, WriteFailAfter: 1, TimeoutMs: 3000}, "c08-wfail"})
		out = append(out, FaultJob{Job{Session: leak, Transport: t, WriteFailAfter: 2, TimeoutMs: 3000}, "c08-wfail"})
	}
	return out
}

// SlowSessions (thorough tier): Close is called from another goroutine 200 ms into a run that takes
// the server 6 s. Close does not cancel the run: it must wait - without a bound - until the read loop
// has delivered the result; when it returns nil no goroutine started by the client may be left.
func SlowSessions() []Session {
	return []Session{hs("close-early-slow-run", 3,
		[]DOp{{Op: "exec", R: "r1", To: true, From: true}, {Op: "awaitws", R: "r1"}, {Op: "sleep", N: 200}, {Op: "aclose"}, {Op: "join", R: "r1"}, {Op: "jclose"}},
		[]SOp{{Op: "expectws", R: "r1"}, {Op: "expectdone"}, {Op: "sleep", N: 6000}, {Op: "sig", R: "r1"}, {Op: "done", R: "r1", X: 1}})}
}

// MarkerWriterNeedsMutex marks the findings of SignalEchoWitnesses.
const MarkerWriterNeedsMutex = "signal-writer-needs-client-mutex"

// SignalEchoWitnesses: the sigecho history with the start of the signal writer goroutine
// (executeWriteLoop's first statement) held back for 100 ms, deterministically: emitted signal 1
// reaches the consumer, the consumer blocks sending its answer (the writer is not receiving yet),
// the read loop takes the client mutex and blocks handing over emitted signal 2, the writer
// arrives at its opening `c.mutex.Lock()` - and nobody moves again.
func SignalEchoWitnesses() []Session {
	var out []Session
	for _, s := range HealthySessions(rand.New(rand.NewSource(1)), false) {
		if s.Name == "sigecho-2" || s.Name == "sigecho-3" {
			s.Name += "-late-writer"
			s.DelayFn = "executeWriteLoop"
			s.DelayMs = 100
			s.Marker = MarkerWriterNeedsMutex
			out = append(out, s)
		}
	}
	return out
}

// MarkerWriteUnderMutex marks the findings of the sessions below.
const MarkerWriteUnderMutex = "mutex-held-across-blocking-write"

// BackpressureSessions are deterministic witnesses of one hazard: client.sendCBOR writes to the
// client-to-server stream while holding the client mutex. On an unbuffered transport that write lasts
// until the server reads, and the library's own server stops reading while it cannot get rid of its
// reports (its read loop blocks on the full workDone channel, capacity 3, while its report writer
// waits for the client to read). Here N Executes each pass a signalsToStep channel with one signal
// already queued; Execute starts the goroutine that forwards the signal before it registers the run,
// and the registration is held back (DelayFn), so all N signals reach the server before any
// work-start and each draws an "unknown step with run ID" report. With N >= 6: report 1 is being
// written (nobody reads: no read loop yet), reports 2-4 sit in the queue, the server's read loop
// blocks on report 5 - and the sixth forwarder blocks in its write HOLDING THE CLIENT MUTEX, which
// every Execute then needs to register. Nothing moves again.
func BackpressureSessions() []Session {
	var out []Session
	mk := func(name string, n, pre int) Session {
		var d []DOp
		var sv []SOp
		for i := 1; i <= n; i++ {
			d = append(d, DOp{Op: "exec", R: run(i), To: true, Pre: pre})
			sv = append(sv, SOp{Op: "expectws", R: run(i)})
		}
		for i := 1; i <= n; i++ {
			sv = append(sv, SOp{Op: "done", R: run(i), X: i})
		}
		d = append(d, DOp{Op: "joinall"}, DOp{Op: "close"})
		sv = append(sv, SOp{Op: "expectdonelong"})
		ss := hs(name, 3, d, sv)
		ss.Backpressure = 3
		ss.DelayFn = "prepareResultChannels"
		ss.DelayMs = 100
		ss.Marker = MarkerWriteUnderMutex
		return ss
	}
	out = append(out, mk("backpressure-6x1", 6, 1))
	out = append(out, mk("backpressure-3x2", 3, 2))
	return out
}
