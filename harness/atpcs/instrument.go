package atpcs

import (
	"bytes"
	"fmt"
	"go/ast"
	"go/format"
	"go/parser"
	"go/token"
	"strconv"
)

// Point is one instrumentation point: a statement of atp/client.go.
type Point struct {
	ID   int    `json:"id"`
	Fn   string `json:"fn"`
	Line int    `json:"line"`
	Kind string `json:"kind"`
}

type instr struct {
	fset   *token.FileSet
	points []Point
	recv   string // receiver name of the current method ("" for plain functions)
	fn     string
}

// Instrument rewrites the source of atp/client.go:
//   - `verifYield(<id>)` before every statement of every function body (also in function literals),
//   - `<recv>.verifCS(fn, id)` before every `<x>.mutex.Unlock()`, also deferred ones (the abstract
//     state at the end of the critical section), `<recv>.verifWait(fn, id)` before `.condition.Wait()`,
//   - `if err := X.Decode(&v); C` becomes `if err := X.Decode(&v); verifDecoded(fn, id, &v, err) && (C)`,
//     and a statement `err := X.Decode(&v)` is followed by `verifDecoded(fn, id, &v, err)`,
//   - `return X.Encode(m)` becomes `verifEncBegin(fn, id, m); return verifEncEnd(fn, id, X.Encode(m))`,
//   - `go f()` becomes `t := verifSpawn(fn, id); go func() { verifBorn(t); defer verifDied(t); f() }()`.
//
// The functions called are defined in SupportFile, which is added to the package by the overlay.
func Instrument(src []byte, filename string) ([]byte, []Point, error) {
	in := &instr{fset: token.NewFileSet()}
	f, err := parser.ParseFile(in.fset, filename, src, parser.SkipObjectResolution)
	if err != nil {
		return nil, nil, err
	}
	f.Comments = nil
	f.Doc = nil
	for _, d := range f.Decls {
		fd, ok := d.(*ast.FuncDecl)
		if !ok || fd.Body == nil {
			if gd, ok := d.(*ast.GenDecl); ok {
				gd.Doc = nil
			}
			continue
		}
		fd.Doc = nil
		in.fn = fd.Name.Name
		in.recv = ""
		if fd.Recv != nil && len(fd.Recv.List) == 1 && len(fd.Recv.List[0].Names) == 1 {
			if st, ok := fd.Recv.List[0].Type.(*ast.StarExpr); ok {
				if id, ok := st.X.(*ast.Ident); ok && id.Name == "client" {
					in.recv = fd.Recv.List[0].Names[0].Name
				}
			}
		}
		fd.Body.List = in.block(fd.Body.List)
	}
	var buf bytes.Buffer
	if err := format.Node(&buf, token.NewFileSet(), f); err != nil {
		return nil, nil, err
	}
	out := append([]byte("//go:build verif\n\n"), buf.Bytes()...)
	return out, in.points, nil
}

func (in *instr) newPoint(st ast.Stmt) int {
	id := len(in.points) + 1
	in.points = append(in.points, Point{ID: id, Fn: in.fn, Line: in.fset.Position(st.Pos()).Line,
		Kind: fmt.Sprintf("%T", st)[5:]})
	return id
}

func lit(n int) ast.Expr      { return &ast.BasicLit{Kind: token.INT, Value: strconv.Itoa(n)} }
func str(s string) ast.Expr   { return &ast.BasicLit{Kind: token.STRING, Value: strconv.Quote(s)} }
func ident(s string) ast.Expr { return ast.NewIdent(s) }

func call(fn ast.Expr, args ...ast.Expr) *ast.CallExpr { return &ast.CallExpr{Fun: fn, Args: args} }

func (in *instr) recvCall(method string, id int) ast.Stmt {
	return &ast.ExprStmt{X: call(&ast.SelectorExpr{X: ident(in.recv), Sel: ast.NewIdent(method)}, str(in.fn), lit(id))}
}

// isSel reports whether e is a call of the form <...>.<a>.<b>() and returns it.
func isSelCall(e ast.Expr, a, b string) bool {
	c, ok := e.(*ast.CallExpr)
	if !ok {
		return false
	}
	s, ok := c.Fun.(*ast.SelectorExpr)
	if !ok || s.Sel.Name != b {
		return false
	}
	s2, ok := s.X.(*ast.SelectorExpr)
	return ok && s2.Sel.Name == a
}

func methodCall(e ast.Expr, name string) (*ast.CallExpr, bool) {
	c, ok := e.(*ast.CallExpr)
	if !ok {
		return nil, false
	}
	s, ok := c.Fun.(*ast.SelectorExpr)
	if !ok || s.Sel.Name != name {
		return nil, false
	}
	return c, true
}

func (in *instr) block(list []ast.Stmt) []ast.Stmt {
	var out []ast.Stmt
	for _, st := range list {
		if _, isCase := st.(*ast.CaseClause); isCase {
			out = append(out, in.stmt(st, 0)...)
			continue
		}
		if _, isComm := st.(*ast.CommClause); isComm {
			out = append(out, in.stmt(st, 0)...)
			continue
		}
		id := in.newPoint(st)
		out = append(out, &ast.ExprStmt{X: call(ident("verifYield"), lit(id))})
		out = append(out, in.stmt(st, id)...)
	}
	return out
}

// lits instruments the bodies of function literals inside an expression / simple statement.
func (in *instr) lits(n ast.Node) {
	if n == nil {
		return
	}
	ast.Inspect(n, func(x ast.Node) bool {
		if fl, ok := x.(*ast.FuncLit); ok {
			fl.Body.List = in.block(fl.Body.List)
			return false
		}
		return true
	})
}

func (in *instr) stmt(st ast.Stmt, id int) []ast.Stmt {
	switch s := st.(type) {
	case *ast.BlockStmt:
		s.List = in.block(s.List)
	case *ast.IfStmt:
		in.lits(s.Init)
		in.lits(s.Cond)
		// decode pattern
		if as, ok := s.Init.(*ast.AssignStmt); ok && len(as.Rhs) == 1 && len(as.Lhs) == 1 {
			if c, ok := methodCall(as.Rhs[0], "Decode"); ok && len(c.Args) == 1 {
				if errID, ok := as.Lhs[0].(*ast.Ident); ok {
					s.Cond = &ast.BinaryExpr{
						X:  call(ident("verifDecoded"), str(in.fn), lit(id), c.Args[0], ident(errID.Name)),
						Op: token.LAND,
						Y:  &ast.ParenExpr{X: s.Cond},
					}
				}
			}
		}
		s.Body.List = in.block(s.Body.List)
		if s.Else != nil {
			switch e := s.Else.(type) {
			case *ast.BlockStmt:
				e.List = in.block(e.List)
			case *ast.IfStmt:
				in.stmt(e, id)
			}
		}
	case *ast.ForStmt:
		in.lits(s.Init)
		in.lits(s.Cond)
		in.lits(s.Post)
		s.Body.List = in.block(s.Body.List)
	case *ast.RangeStmt:
		in.lits(s.X)
		s.Body.List = in.block(s.Body.List)
	case *ast.SwitchStmt:
		in.lits(s.Init)
		in.lits(s.Tag)
		s.Body.List = in.block(s.Body.List)
	case *ast.TypeSwitchStmt:
		s.Body.List = in.block(s.Body.List)
	case *ast.SelectStmt:
		s.Body.List = in.block(s.Body.List)
	case *ast.CaseClause:
		s.Body = in.block(s.Body)
	case *ast.CommClause:
		s.Body = in.block(s.Body)
	case *ast.LabeledStmt:
		r := in.stmt(s.Stmt, id)
		if len(r) == 1 {
			s.Stmt = r[0]
		}
	case *ast.ExprStmt:
		in.lits(s.X)
		if in.recv != "" && isSelCall(s.X, "mutex", "Unlock") {
			return []ast.Stmt{in.recvCall("verifCS", id), s}
		}
		if in.recv != "" && isSelCall(s.X, "condition", "Wait") {
			return []ast.Stmt{in.recvCall("verifWait", id), s}
		}
	case *ast.DeferStmt:
		if in.recv != "" && isSelCall(s.Call, "mutex", "Unlock") {
			body := &ast.BlockStmt{List: []ast.Stmt{in.recvCall("verifCS", id), &ast.ExprStmt{X: s.Call}}}
			s.Call = call(&ast.FuncLit{Type: &ast.FuncType{Params: &ast.FieldList{}}, Body: body})
			return []ast.Stmt{s}
		}
		in.lits(s.Call)
	case *ast.ReturnStmt:
		for _, r := range s.Results {
			in.lits(r)
		}
		if len(s.Results) == 1 {
			if c, ok := methodCall(s.Results[0], "Encode"); ok && len(c.Args) == 1 {
				begin := &ast.ExprStmt{X: call(ident("verifEncBegin"), str(in.fn), lit(id), c.Args[0])}
				s.Results[0] = call(ident("verifEncEnd"), str(in.fn), lit(id), c)
				return []ast.Stmt{begin, s}
			}
		}
	case *ast.GoStmt:
		tv := fmt.Sprintf("verifT%d", id)
		spawn := &ast.AssignStmt{Lhs: []ast.Expr{ident(tv)}, Tok: token.DEFINE,
			Rhs: []ast.Expr{call(ident("verifSpawn"), str(in.fn), lit(id))}}
		born := &ast.ExprStmt{X: call(ident("verifBorn"), ident(tv))}
		died := &ast.DeferStmt{Call: call(ident("verifDied"), ident(tv))}
		if fl, ok := s.Call.Fun.(*ast.FuncLit); ok && len(s.Call.Args) == 0 {
			fl.Body.List = append([]ast.Stmt{born, died}, in.block(fl.Body.List)...)
		} else {
			in.lits(s.Call)
			inner := &ast.ExprStmt{X: s.Call}
			s.Call = call(&ast.FuncLit{Type: &ast.FuncType{Params: &ast.FieldList{}},
				Body: &ast.BlockStmt{List: []ast.Stmt{born, died, inner}}})
		}
		return []ast.Stmt{spawn, s}
	case *ast.AssignStmt:
		for _, r := range s.Rhs {
			in.lits(r)
		}
		// `err := X.Decode(&v)` as a statement of its own
		if len(s.Rhs) == 1 && len(s.Lhs) == 1 {
			if c, ok := methodCall(s.Rhs[0], "Decode"); ok && len(c.Args) == 1 {
				if errID, ok := s.Lhs[0].(*ast.Ident); ok && errID.Name != "_" {
					return []ast.Stmt{s, &ast.ExprStmt{X: call(ident("verifDecoded"), str(in.fn), lit(id), c.Args[0], ident(errID.Name))}}
				}
			}
		}
	case *ast.DeclStmt, *ast.IncDecStmt, *ast.SendStmt, *ast.BranchStmt, *ast.EmptyStmt:
	}
	return []ast.Stmt{st}
}

// SupportFile is added to package atp (build tag verif) next to the instrumented client.go.
const SupportFile = `//go:build verif

package atp

import (
	"encoding/hex"
	"sort"
	"sync/atomic"

	"github.com/fxamacker/cbor/v2"
)

// VerifEntry is the abstract form of one result entry.
type VerifEntry struct {
	Run   string
	State int // 0 pending, 1 ok, 2 err
	Out   string
}

// VerifSnap is the abstract client state (taken while the mutex is held).
type VerifSnap struct {
	Flag    bool
	Done    bool
	Entries []VerifEntry
	Sigs    []string
}

// VerifEvent is what the instrumented client reports.
type VerifEvent struct {
	K      string // cs wait dec encb ence spawn born died
	Fn     string
	P      int
	Snap   *VerifSnap
	Ticket int
	Err    error
	Value  any
}

var verifYieldHook atomic.Pointer[func(int)]
var verifEventHook atomic.Pointer[func(VerifEvent)]
var verifTickets atomic.Int64

// VerifSetHooks installs the hooks (nil removes them).
func VerifSetHooks(yield func(int), event func(VerifEvent)) {
	if yield == nil {
		verifYieldHook.Store(nil)
	} else {
		verifYieldHook.Store(&yield)
	}
	if event == nil {
		verifEventHook.Store(nil)
	} else {
		verifEventHook.Store(&event)
	}
}

func verifYield(p int) {
	if h := verifYieldHook.Load(); h != nil {
		(*h)(p)
	}
}

func verifEmit(e VerifEvent) {
	if h := verifEventHook.Load(); h != nil {
		(*h)(e)
	}
}

// VerifPayloadKey identifies an output.
func VerifPayloadKey(outputID string, data any) string {
	em, _ := cbor.CanonicalEncOptions().EncMode()
	b, err := em.Marshal(data)
	if err != nil {
		return outputID + "|!" + err.Error()
	}
	return outputID + "|" + hex.EncodeToString(b)
}

func (c *client) verifSnapshot() *VerifSnap {
	s := &VerifSnap{Flag: c.readLoopRunning, Done: c.done}
	for run, e := range c.runningStepResultEntries {
		ve := VerifEntry{Run: run}
		if e.result != nil {
			if e.result.Error != nil {
				ve.State = 2
			} else {
				ve.State = 1
				ve.Out = VerifPayloadKey(e.result.OutputID, e.result.OutputData)
			}
		}
		s.Entries = append(s.Entries, ve)
	}
	sort.Slice(s.Entries, func(i, j int) bool { return s.Entries[i].Run < s.Entries[j].Run })
	for run := range c.runningStepEmittedSignalChannels {
		s.Sigs = append(s.Sigs, run)
	}
	sort.Strings(s.Sigs)
	return s
}

func (c *client) verifCS(fn string, p int) {
	verifEmit(VerifEvent{K: "cs", Fn: fn, P: p, Snap: c.verifSnapshot()})
}

func (c *client) verifWait(fn string, p int) {
	verifEmit(VerifEvent{K: "wait", Fn: fn, P: p, Snap: c.verifSnapshot()})
}

func verifDecoded(fn string, p int, v any, err error) bool {
	verifEmit(VerifEvent{K: "dec", Fn: fn, P: p, Value: v, Err: err})
	return true
}

func verifEncBegin(fn string, p int, m any) {
	verifEmit(VerifEvent{K: "encb", Fn: fn, P: p, Value: m})
}

func verifEncEnd(fn string, p int, err error) error {
	verifEmit(VerifEvent{K: "ence", Fn: fn, P: p, Err: err})
	return err
}

func verifSpawn(fn string, p int) int {
	t := int(verifTickets.Add(1))
	verifEmit(VerifEvent{K: "spawn", Fn: fn, P: p, Ticket: t})
	return t
}

func verifBorn(t int) { verifEmit(VerifEvent{K: "born", Ticket: t}) }
func verifDied(t int) { verifEmit(VerifEvent{K: "died", Ticket: t}) }
`
