package atpcs

import (
	"fmt"
	"sort"
)

// Label is one label of the Lean model in JSON form (see Model/DispatchAtpClient.lean).
type Label = map[string]any

type trRole struct {
	kind string // caller closer rs loop writer ignore
	tid  int
	run  string
	// caller
	registeredEarly bool
	touched         bool
	// loop
	handling bool
	// writer
	wstate string // init select gone
}

type translator struct {
	job     Job
	evs     []Ev
	pinned  bool
	runs    map[string]int
	outs    map[string]int
	roles   map[int64]*trRole
	tickets map[int]*trRole // spawn ticket -> role of the goroutine to be born
	spawnFn map[int]string
	labels  []Label
	nextC   int
	wClosed map[string]bool
	wBlank  map[string]bool
	ctxOf   []string
	itemIdx int
}

func (t *translator) run(s string) int {
	if s == "" {
		return 0
	}
	if n, ok := t.runs[s]; ok {
		return n
	}
	n := len(t.runs) + 1
	t.runs[s] = n
	return n
}

func (t *translator) out(key string) int {
	if n, ok := t.outs[key]; ok {
		return n
	}
	n := len(t.outs) + 1
	t.outs[key] = n
	return n
}

func (t *translator) post(s *Snap) any {
	if s == nil {
		return nil
	}
	type ent struct {
		r, st, x int
	}
	var es []ent
	for _, e := range s.Entries {
		x := 0
		if e.State == 1 {
			x = t.out(e.Out)
		}
		es = append(es, ent{t.run(e.Run), e.State, x})
	}
	sort.Slice(es, func(i, j int) bool { return es[i].r < es[j].r })
	entries := make([][]int, 0, len(es))
	for _, e := range es {
		entries = append(entries, []int{e.r, e.st, e.x})
	}
	sigs := make([]int, 0, len(s.Sigs))
	for _, r := range s.Sigs {
		sigs = append(sigs, t.run(r))
	}
	sort.Ints(sigs)
	return map[string]any{"flag": s.Flag, "done": s.Done, "entries": entries, "sigs": sigs}
}

func (t *translator) emit(l Label, snap *Snap) {
	if snap != nil {
		l["post"] = t.post(snap)
	}
	t.labels = append(t.labels, l)
}

// after finds the next event of goroutine g after index i with the given kind (and function).
func (t *translator) after(i int, g int64, kind, fn string) *Ev {
	for k := i + 1; k < len(t.evs); k++ {
		e := &t.evs[k]
		if e.G == g && e.K == kind && (fn == "" || e.Fn == fn) {
			return e
		}
		if e.G == g && (e.K == "ret" || e.K == "died") {
			return nil
		}
	}
	return nil
}

func (t *translator) mitem(it Item) map[string]any {
	ctx := "loop"
	if t.itemIdx < len(t.ctxOf) && t.ctxOf[t.itemIdx] != "" {
		ctx = t.ctxOf[t.itemIdx]
	}
	t.itemIdx++
	mi := Classify(it, ctx)
	m := map[string]any{"k": mi.K}
	switch mi.K {
	case "hello":
		m["ver"] = mi.Ver
		m["ok"] = mi.OK
	case "v1done":
		m["x"] = t.out(mi.XKey)
	case "msg":
		mm := map[string]any{"t": mi.M.T, "r": t.run(mi.M.RunS)}
		switch mi.M.T {
		case "done":
			if DoneDecodes(it) {
				mm["x"] = t.out(mi.M.XKey)
			} else {
				mm["x"] = nil
			}
		case "sig":
			mm["good"] = mi.M.Good
		case "err":
			mm["sf"] = mi.M.SF
			mm["vf"] = mi.M.VF
		}
		m["m"] = mm
	}
	return m
}

// contexts determines, by following the client's own decode events, which reader consumes which item.
func (t *translator) contexts() {
	var items []Item
	for _, e := range t.evs {
		if e.K == "srvwrite" || e.K == "srvclose" {
			items = append(items, e.Items...)
		}
	}
	t.ctxOf = make([]string, len(items))
	idx := 0
	for _, e := range t.evs {
		if e.K != "dec" || idx >= len(items) {
			continue
		}
		ctx := "loop"
		switch e.Fn {
		case "ReadSchema":
			ctx = "hello"
		case "getResultV1":
			ctx = "v1"
		}
		if t.ctxOf[idx] == "" {
			t.ctxOf[idx] = ctx
		}
		if items[idx].Kind == "raw" {
			idx++
		}
	}
	// never consumed: the hello position by protocol, the rest as runtime messages
	for i := range t.ctxOf {
		if t.ctxOf[i] == "" {
			if i == 0 && len(t.job.Session.Dir) > 0 && t.job.Session.Dir[0].Op == "rs" {
				t.ctxOf[i] = "hello"
			} else if t.job.Session.Ver == 1 {
				t.ctxOf[i] = "v1"
			} else {
				t.ctxOf[i] = "loop"
			}
		}
	}
}

// writerStarted: the writer's opening check ("is the client closed?") is a critical section of its
// own in some versions of client.go (then it is emitted there) and a lock-free look at the context in
// others (then nothing is observed): in that case the step is emitted before the writer's first
// observed action.
func (t *translator) writerStarted(r *trRole) {
	if r.wstate == "init" {
		t.emit(Label{"l": "wCheck", "w": r.tid}, nil)
		r.wstate = "select"
	}
}

// writerExit emits the step by which a writer that sits in its select leaves.
func (t *translator) writerExit(r *trRole) {
	t.writerStarted(r)
	if r.wstate != "select" {
		return
	}
	switch {
	case t.wBlank[r.run]:
		t.emit(Label{"l": "wRecv", "w": r.tid, "r": 0}, nil)
	case t.wClosed[r.run]:
		t.emit(Label{"l": "wClosed", "w": r.tid}, nil)
	default:
		t.emit(Label{"l": "wCancel", "w": r.tid}, nil)
	}
	r.wstate = "gone"
}

func (t *translator) flushWriters() {
	var ws []*trRole
	for _, r := range t.tickets {
		if r.kind == "writer" && (r.wstate == "select" || r.wstate == "init") {
			ws = append(ws, r)
		}
	}
	sort.Slice(ws, func(i, j int) bool { return ws[i].tid < ws[j].tid })
	for _, r := range ws {
		t.writerExit(r)
	}
}

// Translate maps a recorded history to labels of the Lean model. Every atomic step of the client is
// observed (critical sections through their snapshots, blocking I/O through decode/encode events),
// so the result is one label sequence; `post` carries the abstract client state the implementation
// had at the end of the critical section, which the model state must equal.
func Translate(job Job, evs []Ev, pinned bool) ([]Label, error) {
	t := &translator{job: job, evs: evs, pinned: pinned, runs: map[string]int{}, outs: map[string]int{},
		roles: map[int64]*trRole{}, tickets: map[int]*trRole{}, spawnFn: map[int]string{},
		wClosed: map[string]bool{}, wBlank: map[string]bool{}}
	t.contexts()
	var firstErr error
	fail := func(f string, a ...any) {
		if firstErr == nil {
			firstErr = fmt.Errorf(f, a...)
		}
	}
	sendLabel := func(r *trRole, e *Ev, ok bool, snap *Snap) {
		switch r.kind {
		case "caller":
			r.touched = true
			t.emit(Label{"l": "cSend", "c": r.tid, "ok": ok}, snap)
		case "writer":
			t.writerStarted(r)
			t.emit(Label{"l": "wRecv", "w": r.tid, "r": t.run(e.Run)}, nil)
			t.emit(Label{"l": "wSend", "w": r.tid, "ok": ok}, snap)
			if !ok {
				r.wstate = "gone"
			}
		case "closer":
			t.emit(Label{"l": "clSend", "ok": ok}, snap)
		case "rs":
			t.emit(Label{"l": "rsSend", "ok": ok}, snap)
		}
	}
	// pending encode per goroutine: the message being written
	encMsg := map[int64]*Ev{}
	for i := range evs {
		e := &evs[i]
		r := t.roles[e.G]
		switch e.K {
		case "call":
			switch e.Fn {
			case "Execute":
				t.nextC++
				r = &trRole{kind: "caller", tid: 100 + t.nextC, run: e.Run}
				t.roles[e.G] = r
				t.emit(Label{"l": "call", "c": r.tid, "r": t.run(e.Run), "to": e.To, "from": e.From}, nil)
			case "ReadSchema":
				t.roles[e.G] = &trRole{kind: "rs"}
				t.emit(Label{"l": "rsCall"}, nil)
			case "Close":
				t.roles[e.G] = &trRole{kind: "closer"}
				t.emit(Label{"l": "clCall"}, nil)
				t.emit(Label{"l": "clCancel"}, nil)
			}
		case "ret":
			if r == nil {
				continue
			}
			if len(e.ErrS) >= 6 && e.ErrS[:6] == "panic:" {
				delete(t.roles, e.G)
				continue
			}
			switch e.Fn {
			case "Execute":
				if !r.touched && r.run == "" {
					t.emit(Label{"l": "cReject", "c": r.tid}, nil)
				}
				if e.Err {
					t.emit(Label{"l": "cRet", "c": r.tid, "res": "err"}, nil)
				} else {
					t.emit(Label{"l": "cRet", "c": r.tid, "res": map[string]any{"ok": t.out(e.Out)}}, nil)
				}
			case "ReadSchema":
				t.emit(Label{"l": "rsRet", "ok": !e.Err}, nil)
			case "Close":
				if !e.Err {
					// Close returned from wg.Wait(): every writer has finished, even if its last
					// event (logged after its wg.Done) comes later in the log
					t.flushWriters()
				}
				t.emit(Label{"l": "clEnd", "ok": !e.Err}, nil)
			}
			delete(t.roles, e.G)
		case "spawn":
			t.spawnFn[e.Ticket] = e.Fn
			switch {
			case r != nil && r.kind == "caller" && e.Fn == "Execute":
				r.touched = true
				if t.tickets[e.Ticket] == nil {
					// (code without a critical section around the wait-group Add: the spawn is the step)
					w := &trRole{kind: "writer", tid: 1000 + e.Ticket, run: r.run, wstate: "init"}
					t.tickets[e.Ticket] = w
					t.emit(Label{"l": "cSpawnW", "c": r.tid, "w": w.tid}, nil)
				}
			case r != nil && r.kind == "caller" && e.Fn == "prepareResultChannels":
				// The new loop runs from the go statement on, before the registering critical section
				// is left. Nothing else can enter a critical section in between, so the registration
				// is linearised here (its snapshot is the one taken at the unlock).
				t.tickets[e.Ticket] = &trRole{kind: "loop", tid: 1000 + e.Ticket}
				r.touched = true
				var snap *Snap
				if cs := t.after(i, e.G, "cs", "prepareResultChannels"); cs != nil {
					snap = cs.Snap
				}
				t.emit(Label{"l": "cRegister", "c": r.tid, "lo": 1000 + e.Ticket}, snap)
				r.registeredEarly = true
			default:
				t.tickets[e.Ticket] = &trRole{kind: "ignore"}
			}
		case "born":
			if nr := t.tickets[e.Ticket]; nr != nil {
				t.roles[e.G] = nr
			} else {
				t.roles[e.G] = &trRole{kind: "ignore"}
			}
		case "died":
			if r != nil && r.kind == "writer" {
				t.writerExit(r)
			}
			delete(t.roles, e.G)
		case "dsig":
			if e.Msg == "" {
				t.wBlank[e.Run] = true
			}
		case "dcsig":
			t.wClosed[e.Run] = true
		case "cs":
			if r == nil {
				fail("critical section of %s (event %d) on a goroutine with no role", e.Fn, e.Seq)
				continue
			}
			switch r.kind {
			case "caller":
				r.touched = true
				switch e.Fn {
				case "Execute":
					// the critical section that adds the signal writer to the wait group (or refuses,
					// when the client is closed); the writer's identity is known at the go statement
					if e.Snap != nil && e.Snap.Done {
						t.emit(Label{"l": "cSpawnW", "c": r.tid, "w": 0}, e.Snap)
					} else if sp := t.after(i, e.G, "spawn", "Execute"); sp != nil {
						w := &trRole{kind: "writer", tid: 1000 + sp.Ticket, run: r.run, wstate: "init"}
						t.tickets[sp.Ticket] = w
						t.emit(Label{"l": "cSpawnW", "c": r.tid, "w": w.tid}, e.Snap)
					} else {
						fail("critical section of Execute (event %d) without a following go statement", e.Seq)
					}
				case "prepareResultChannels":
					if r.registeredEarly {
						r.registeredEarly = false
					} else {
						t.emit(Label{"l": "cRegister", "c": r.tid, "lo": nil}, e.Snap)
					}
				case "sendCBOR":
				case "removeResultChannels":
					t.emit(Label{"l": "cAbandon", "c": r.tid}, e.Snap)
				case "getResultV2":
					t.emit(Label{"l": "cTake", "c": r.tid}, e.Snap)
				default:
					fail("unknown critical section %s of an Execute call (event %d): the model has no step for it", e.Fn, e.Seq)
				}
			case "closer":
				switch e.Fn {
				case "Close":
					t.emit(Label{"l": "clMark"}, e.Snap)
				case "sendCBOR":
				default:
					fail("unknown critical section %s of Close (event %d)", e.Fn, e.Seq)
				}
			case "rs":
				if e.Fn != "sendCBOR" {
					fail("unknown critical section %s of ReadSchema (event %d)", e.Fn, e.Seq)
				}
			case "loop":
				switch e.Fn {
				case "handleWorkDoneMessage", "handleSignalMessage", "handleErrorMessage", "sendErrorToAll", "sendErrorToAllAndStopReading":
					t.emit(Label{"l": "lDeliver", "t": r.tid}, e.Snap)
					r.handling = false
				case "hasEntriesRemaining":
					if r.handling {
						t.emit(Label{"l": "lDeliver", "t": r.tid}, nil)
						r.handling = false
					}
					t.emit(Label{"l": "lCheck", "t": r.tid}, e.Snap)
				case "executeReadLoop":
					// only the pre-repair code has a critical section of its own here: the deferred flag clear
					t.emit(Label{"l": "lExit", "t": r.tid}, e.Snap)
				default:
					fail("unknown critical section %s of the read loop (event %d)", e.Fn, e.Seq)
				}
			case "writer":
				switch e.Fn {
				case "executeWriteLoop":
					t.emit(Label{"l": "wCheck", "w": r.tid}, e.Snap)
					r.wstate = "select"
					if e.Snap != nil && e.Snap.Done {
						// found the client closed: the same as leaving the select through the
						// cancelled context at once
						t.emit(Label{"l": "wCancel", "w": r.tid}, nil)
						r.wstate = "gone"
					}
				case "sendCBOR":
				default:
					fail("unknown critical section %s of a signal writer (event %d)", e.Fn, e.Seq)
				}
			}
		case "wait":
			if r != nil && r.kind == "caller" && e.Fn == "getResultV2" {
				t.emit(Label{"l": "cWait", "c": r.tid}, e.Snap)
			} else {
				fail("condition wait in %s (event %d) outside an Execute call", e.Fn, e.Seq)
			}
		case "dec":
			if r == nil {
				continue
			}
			saw := map[string]any{"err": e.Err}
			if !e.Err && e.Msg == "rt" {
				saw["r"] = t.run(e.Run)
				saw["id"] = e.N
			}
			switch {
			case r.kind == "rs":
				t.emit(Label{"l": "rsRead", "saw": saw}, nil)
			case r.kind == "loop":
				t.emit(Label{"l": "lRead", "t": r.tid, "saw": saw}, nil)
				r.handling = true
			case r.kind == "caller" && e.Fn == "getResultV1":
				t.emit(Label{"l": "cReadV1", "c": r.tid, "saw": saw}, nil)
			default:
				fail("decode in %s (event %d) by a goroutine of kind %s", e.Fn, e.Seq, r.kind)
			}
		case "encb":
			if r == nil {
				continue
			}
			encMsg[e.G] = e
			end := t.after(i, e.G, "ence", "")
			if end != nil && !end.Err {
				var snap *Snap
				if cs := t.after(i, e.G, "cs", "sendCBOR"); cs != nil {
					snap = cs.Snap
				}
				sendLabel(r, e, true, snap)
			}
		case "ence":
			if r == nil {
				continue
			}
			if e.Err {
				var snap *Snap
				if cs := t.after(i, e.G, "cs", "sendCBOR"); cs != nil {
					snap = cs.Snap
				}
				b := encMsg[e.G]
				if b == nil {
					b = e
				}
				sendLabel(r, b, false, snap)
			}
			delete(encMsg, e.G)
		case "latewrite":
			// the transport lets the bytes of this write through and will report it as failed
			if b := encMsg[e.G]; b != nil {
				m := map[string]any{"t": b.Msg, "r": t.run(b.Run)}
				t.emit(Label{"l": "envLate", "m": m}, nil)
			}
		case "srvrecv":
			t.emit(Label{"l": "sRecv", "msg": e.Msg}, nil)
		case "srvwrite", "srvclose":
			for _, it := range e.Items {
				mi := t.mitem(it)
				switch {
				case mi["k"] == "eof":
					t.emit(Label{"l": "sEof"}, nil)
				case job.Session.Healthy && mi["k"] == "msg":
					t.emit(Label{"l": "sSend", "m": mi["m"]}, nil)
				default:
					t.emit(Label{"l": "envPut", "it": mi}, nil)
				}
			}
		}
	}
	return t.labels, firstErr
}
