//go:build !verif

// Command atpclientsession only exists with the build tag `verif` (see main.go); it needs the
// instrumented copy of atp/client.go that `harness atpclient` injects through `go build -overlay`.
package main

import (
	"fmt"
	"os"
)

func main() {
	fmt.Fprintln(os.Stderr, "atpclientsession: build with -tags verif and the overlay written by `harness atpclient`")
	os.Exit(2)
}
