//go:build verif

// Command atpclientsession is the session driver of the `atpclient` harness sub-command. It is built
// with `-tags verif -overlay ...` against an instrumented copy of atp/client.go (see
// harness/atpcs/instrument.go) and runs scripted sessions of the real client against a scripted
// in-process server. Jobs come as JSON lines on stdin, results go as JSON lines to stdout.
package main

import (
	"bufio"
	"bytes"
	"context"
	"encoding/json"
	"errors"
	"fmt"
	"io"
	"math/rand"
	"net"
	"os"
	"runtime"
	"strconv"
	"strings"
	"sync"
	"sync/atomic"
	"syscall"
	"time"

	"github.com/fxamacker/cbor/v2"
	"go.flow.arcalot.io/pluginsdk/atp"
	"go.flow.arcalot.io/pluginsdk/schema"
	"harness/atpcs"
)

func goid() int64 {
	var buf [64]byte
	n := runtime.Stack(buf[:], false)
	// "goroutine 123 ["
	s := string(buf[10:n])
	i := strings.IndexByte(s, ' ')
	g, _ := strconv.ParseInt(s[:i], 10, 64)
	return g
}

type recorder struct {
	mu  sync.Mutex
	evs []atpcs.Ev
}

func (r *recorder) add(e atpcs.Ev) int {
	g := goid()
	r.mu.Lock()
	defer r.mu.Unlock()
	e.Seq = len(r.evs)
	e.G = g
	r.evs = append(r.evs, e)
	return e.Seq
}

func (r *recorder) count(kind string) int {
	r.mu.Lock()
	defer r.mu.Unlock()
	n := 0
	for _, e := range r.evs {
		if e.K == kind {
			n++
		}
	}
	return n
}

// ---- transports ------------------------------------------------------------------------------------

type bufPipe struct {
	mu     sync.Mutex
	cond   *sync.Cond
	buf    []byte
	werr   error // reader sees this after the buffer drains
	rdone  bool  // reader side closed: writes fail
	rng    *rand.Rand
	wholes bool
}

func newBufPipe(seed int64) *bufPipe {
	b := &bufPipe{rng: rand.New(rand.NewSource(seed))}
	b.cond = sync.NewCond(&b.mu)
	return b
}

func (b *bufPipe) Write(p []byte) (int, error) {
	b.mu.Lock()
	defer b.mu.Unlock()
	if b.rdone {
		return 0, io.ErrClosedPipe
	}
	if b.werr != nil {
		return 0, io.ErrClosedPipe
	}
	b.buf = append(b.buf, p...)
	b.cond.Broadcast()
	return len(p), nil
}

func (b *bufPipe) CloseWithError(err error) error {
	if err == nil {
		err = io.EOF
	}
	b.mu.Lock()
	if b.werr == nil {
		b.werr = err
	}
	b.cond.Broadcast()
	b.mu.Unlock()
	return nil
}

func (b *bufPipe) CloseRead() {
	b.mu.Lock()
	b.rdone = true
	b.cond.Broadcast()
	b.mu.Unlock()
}

func (b *bufPipe) Read(p []byte) (int, error) {
	b.mu.Lock()
	defer b.mu.Unlock()
	for len(b.buf) == 0 {
		if b.werr != nil {
			return 0, b.werr
		}
		if b.rdone {
			return 0, io.ErrClosedPipe
		}
		b.cond.Wait()
	}
	n := len(b.buf)
	if n > len(p) {
		n = len(p)
	}
	// arbitrary chunking: sometimes everything that is there (coalescing), sometimes a few bytes
	switch b.rng.Intn(4) {
	case 0:
	case 1:
		n = 1 + b.rng.Intn(n)
	case 2:
		if n > 3 {
			n = 1 + b.rng.Intn(3)
		}
	default:
		if n > 40 {
			n = 20 + b.rng.Intn(n-20)
		}
	}
	copy(p, b.buf[:n])
	b.buf = b.buf[n:]
	return n, nil
}

type wcloser interface {
	io.Writer
	CloseWithError(error) error
}

// faultWriter applies the job's fault to the server-to-client byte stream and remembers what was
// delivered.
type faultWriter struct {
	mu        sync.Mutex
	w         wcloser
	fault     *atpcs.Fault
	off       int
	delivered []byte
	ends      []int // delivered length after each Write call
	closed    string
	closedAt  int // index of the Write call during which the fault ended the stream (-1: by close)
}

func (f *faultWriter) Write(p []byte) (int, error) {
	f.mu.Lock()
	if f.closed != "" {
		f.ends = append(f.ends, len(f.delivered))
		f.mu.Unlock()
		return len(p), nil // the script goes on; nothing reaches the client any more
	}
	q := append([]byte{}, p...)
	cut := -1
	if f.fault != nil {
		rel := f.fault.Off - f.off
		if rel >= 0 && rel < len(q) {
			switch f.fault.Kind {
			case "xor":
				q[rel] ^= f.fault.Val
			case "set":
				q[rel] = f.fault.Val
			case "cut", "ioerr":
				cut = rel
			}
		}
	}
	f.off += len(p)
	if cut >= 0 {
		q = q[:cut]
	}
	f.delivered = append(f.delivered, q...)
	f.ends = append(f.ends, len(f.delivered))
	f.mu.Unlock()
	if len(q) > 0 {
		if _, err := f.w.Write(q); err != nil {
			return 0, err
		}
	}
	if cut >= 0 {
		f.mu.Lock()
		f.closedAt = len(f.ends) - 1
		f.mu.Unlock()
		if f.fault.Kind == "ioerr" {
			f.close("ioerr")
		} else {
			f.close("eof")
		}
	}
	return len(p), nil
}

func (f *faultWriter) isClosed() bool {
	f.mu.Lock()
	defer f.mu.Unlock()
	return f.closed != ""
}

func (f *faultWriter) close(kind string) {
	f.mu.Lock()
	if f.closed != "" {
		f.mu.Unlock()
		return
	}
	f.closed = kind
	f.mu.Unlock()
	if kind == "ioerr" {
		_ = f.w.CloseWithError(readErrValue(f.fault))
	} else {
		_ = f.w.CloseWithError(nil)
	}
}

// readErrValue is the error every Read returns from the fault on (sticky). Val selects the VALUE:
// a plain error, errors that claim Timeout() and Temporary() (an expired read deadline: *net.OpError
// and *os.PathError around os.ErrDeadlineExceeded, context.DeadlineExceeded), a closed pipe, a
// connection reset.
func readErrValue(f *atpcs.Fault) error {
	v := byte(0)
	if f != nil {
		v = f.Val
	}
	switch v % 6 {
	case 1:
		return &net.OpError{Op: "read", Net: "unix", Err: os.ErrDeadlineExceeded}
	case 2:
		return &os.PathError{Op: "read", Path: "|0", Err: os.ErrDeadlineExceeded}
	case 3:
		return context.DeadlineExceeded
	case 4:
		return io.ErrClosedPipe
	case 5:
		return syscall.ECONNRESET
	}
	return errors.New("injected read error")
}

// gates are opened by the director (op "open").
type gates struct {
	mu sync.Mutex
	m  map[string]chan struct{}
}

func (g *gates) get(name string) chan struct{} {
	g.mu.Lock()
	defer g.mu.Unlock()
	if g.m == nil {
		g.m = map[string]chan struct{}{}
	}
	c, ok := g.m[name]
	if !ok {
		c = make(chan struct{})
		g.m[name] = c
	}
	return c
}

func (g *gates) open(name string) {
	c := g.get(name)
	g.mu.Lock()
	defer g.mu.Unlock()
	select {
	case <-c:
	default:
		close(c)
	}
}

func (g *gates) wait(name string, d time.Duration) {
	select {
	case <-g.get(name):
	case <-time.After(d):
	}
}

type failingWriter struct {
	w       io.Writer
	after   int
	n       atomic.Int64
	deliver bool
	once    bool
	gates   *gates
	rec     *recorder
}

func (f *failingWriter) Write(p []byte) (int, error) {
	if f.after >= 0 {
		k := int(f.n.Add(1))
		if k == f.after+1 && f.deliver {
			// the bytes get out, the write is reported as failed - later
			f.rec.add(atpcs.Ev{K: "latewrite"})
			_, _ = f.w.Write(p)
			f.gates.wait("write", 5*time.Second)
			return 0, errors.New("injected write error (after delivery)")
		}
		if k == f.after+1 || (k > f.after && !f.once) {
			return 0, errors.New("injected write error")
		}
	}
	return f.w.Write(p)
}

type chanRW struct {
	io.Reader
	io.Writer
}

func (chanRW) Close() error { return nil }

// ---- the scripted server ---------------------------------------------------------------------------

type server struct {
	rec      *recorder
	mu       sync.Mutex
	cond     *sync.Cond
	nMsgs    int
	nSigs    int
	ws       map[string]bool
	wsn      map[string]int
	gotDone  bool
	readEnd  bool
	giveUp   time.Duration
	stopped  bool
	fw       *faultWriter
	mark     int
	gaveUp   bool
	wmu      sync.Mutex // one writer at a time on the server-to-client stream (the real encoderMutex)
	nWritten int        // completed writes
	nWs1     int        // v1 work-starts read
	nDone1   int        // v1 work-dones written
	v1strict bool
	reports  chan []byte // queued complaints (the real workDone channel), nil when not modelled
	stop     chan struct{}
}

// write is the only way the server writes to the client: event and write under one lock, so the
// order of the `srvwrite` events is the order of the bytes.
func (s *server) write(w *faultWriter, op, run string, b []byte) {
	s.wmu.Lock()
	defer s.wmu.Unlock()
	s.rec.add(atpcs.Ev{K: "srvwrite", Msg: op, Run: run, N: len(b)})
	_, _ = w.Write(b)
	s.mu.Lock()
	s.nWritten++
	if op == "done1" {
		s.nDone1++
	}
	s.mu.Unlock()
}

// reporter writes the queued complaints, like handleClosure of the real server.
func (s *server) reporter(w *faultWriter) {
	for {
		select {
		case b := <-s.reports:
			s.write(w, "report", "", b)
		case <-s.stop:
			return
		}
	}
}

func (s *server) waitFor(pred func() bool) bool {
	deadline := time.Now().Add(s.giveUp)
	if s.gaveUp {
		deadline = time.Now() // the session has left the script: do not wait again
	}
	ok := s.waitUntil(pred, deadline)
	if !ok {
		s.gaveUp = true
	}
	return ok
}

func (s *server) waitUntil(pred func() bool, deadline time.Time) bool {
	s.mu.Lock()
	defer s.mu.Unlock()
	for !pred() {
		if s.stopped || time.Now().After(deadline) {
			return false
		}
		if s.fw != nil && s.fw.isClosed() {
			return false // nothing can reach the client any more
		}
		// poll: the condition variable has no timed wait
		s.mu.Unlock()
		time.Sleep(200 * time.Microsecond)
		s.mu.Lock()
	}
	return true
}

func (s *server) readLoop(r io.Reader, closeRead func()) {
	dec := cbor.NewDecoder(r)
	for {
		var raw cbor.RawMessage
		if err := dec.Decode(&raw); err != nil {
			s.mu.Lock()
			s.readEnd = true
			s.mu.Unlock()
			return
		}
		kind, run := "other", ""
		var v any
		_ = cbor.Unmarshal(raw, &v)
		if v == nil {
			kind = "start"
		} else {
			var m atp.DecodedRuntimeMessage
			if err := atpcs.DecMode().Unmarshal(raw, &m); err == nil {
				run = m.RunID
				switch m.MessageID {
				case atp.MessageTypeWorkStart:
					kind = "ws"
				case atp.MessageTypeSignal:
					kind = "sig"
				case atp.MessageTypeClientDone:
					kind = "cdone"
				}
			} else {
				var w atp.WorkStartMessage
				if err := atpcs.DecMode().Unmarshal(raw, &w); err == nil {
					kind = "ws1"
				}
			}
		}
		s.rec.add(atpcs.Ev{K: "srvrecv", Msg: kind, Run: run})
		if s.reports != nil && kind == "sig" {
			s.mu.Lock()
			known := s.ws[run]
			s.mu.Unlock()
			if !known {
				// "unknown step with run ID": queue the complaint; when the queue is full the read
				// loop waits here - it does not read on - until the client has consumed reports
				b := atpcs.MsgBytes(atpcs.SOp{Op: "err", R: run}, 3, false)
				select {
				case s.reports <- b:
				case <-s.stop:
					return
				}
			}
		}
		s.mu.Lock()
		s.nMsgs++
		switch kind {
		case "ws":
			s.ws[run] = true
			s.wsn[run]++
		case "sig":
			s.nSigs++
		case "cdone":
			s.gotDone = true
		}
		done := s.gotDone
		s.mu.Unlock()
		if kind == "ws1" && s.v1strict {
			// a v1 plugin runs one step at a time: no further read before this step's result is written
			s.mu.Lock()
			s.nWs1++
			n := s.nWs1
			s.mu.Unlock()
			s.waitUntil(func() bool { return s.nDone1 >= n }, time.Now().Add(20*time.Second))
		}
		if done {
			// like the real server: stop reading, close the input
			closeRead()
			s.mu.Lock()
			s.readEnd = true
			s.mu.Unlock()
			return
		}
	}
}

func (s *server) script(sess atpcs.Session, w *faultWriter) {
	for _, o := range sess.Srv {
		switch o.Op {
		case "expect":
			n := o.N
			if !s.waitFor(func() bool { return s.nMsgs >= n }) {
				s.rec.add(atpcs.Ev{K: "srvgiveup", Msg: "expect", N: n})
			}
		case "expectws":
			r := o.R
			if !s.waitFor(func() bool { return s.ws[r] }) {
				s.rec.add(atpcs.Ev{K: "srvgiveup", Msg: "expectws", Run: r})
			}
		case "expectwsd":
			r := o.R
			s.waitFor(func() bool { return s.ws[r] || s.readEnd })
		case "doneif":
			s.mu.Lock()
			seen := s.ws[o.R]
			s.mu.Unlock()
			if seen {
				oo := o
				oo.Op = "done"
				b := atpcs.MsgBytes(oo, sess.Ver, sess.BadSchema)
				s.write(w, "done", o.R, b)
			}
		case "expectwsn":
			// the N-th work-start of run R - or the director's word (mark) that there will be none
			r, n := o.R, o.N
			s.waitFor(func() bool { return s.wsn[r] >= n || s.mark >= 1 || s.readEnd })
		case "doneifn":
			s.mu.Lock()
			seen := s.wsn[o.R] >= o.N
			s.mu.Unlock()
			if seen {
				oo := o
				oo.Op = "done"
				b := atpcs.MsgBytes(oo, sess.Ver, sess.BadSchema)
				s.write(w, "done", o.R, b)
			}
		case "sleep":
			// a step that takes its time (interruptible by the end of the session)
			s.waitUntil(func() bool { return false }, time.Now().Add(time.Duration(o.N)*time.Millisecond))
		case "expectmark":
			n := o.N
			s.waitFor(func() bool { return s.mark >= n })
		case "expectdonelong":
			s.waitUntil(func() bool { return s.gotDone }, time.Now().Add(14*time.Second))
		case "expectmarklong":
			// a silent peer that keeps its output open (longer than Close's own timeout)
			n := o.N
			s.waitUntil(func() bool { return s.mark >= n }, time.Now().Add(9*time.Second))
		case "expectdone":
			if !s.waitFor(func() bool { return s.gotDone }) {
				s.rec.add(atpcs.Ev{K: "srvgiveup", Msg: "expectdone"})
			}
		case "expectsig":
			n := o.N
			if !s.waitFor(func() bool { return s.nSigs >= n }) {
				s.rec.add(atpcs.Ev{K: "srvgiveup", Msg: "expectsig", N: n})
			}
		case "eof":
			s.rec.add(atpcs.Ev{K: "srvclose"})
			w.close("eof")
		default:
			b := atpcs.MsgBytes(o, sess.Ver, sess.BadSchema)
			if b == nil {
				continue
			}
			s.write(w, o.Op, o.R, b)
		}
	}
	// a peer that is done ends its output
	s.rec.add(atpcs.Ev{K: "srvclose"})
	w.close("eof")
}

// ---- one job ----------------------------------------------------------------------------------------

type execState struct {
	run      string
	to       chan schema.Input
	from     chan schema.Input
	done     chan struct{}
	res      atp.ExecutionResult
	joined   bool
	panicked any
	g        int64 // goroutine that runs the call
	answer   bool  // its consumer sends on `to`: never close that channel under it
}

var hits [4096]atomic.Int64

func runJob(job atpcs.Job) (res atpcs.JobResult) {
	t0 := time.Now()
	res.ID = job.ID
	rec := &recorder{}
	timeout := time.Duration(job.TimeoutMs) * time.Millisecond
	if timeout <= 0 {
		timeout = 3 * time.Second
	}
	for i := range hits {
		hits[i].Store(0)
	}
	var preProblem string
	if job.PreHello != "" {
		preProblem = preSession(job.PreHello, timeout)
	}
	delays := job.Delays
	atp.VerifSetHooks(func(p int) {
		n := hits[p].Add(1)
		for _, d := range delays {
			if d.Point == p && (d.Max <= 0 || int(n) <= d.Max) {
				time.Sleep(time.Duration(d.Ms) * time.Millisecond)
			}
		}
	}, func(e atp.VerifEvent) {
		ev := atpcs.Ev{K: e.K, Fn: e.Fn, P: e.P, Ticket: e.Ticket}
		if e.Snap != nil {
			sn := &atpcs.Snap{Flag: e.Snap.Flag, Done: e.Snap.Done, Sigs: e.Snap.Sigs}
			for _, en := range e.Snap.Entries {
				sn.Entries = append(sn.Entries, atpcs.SnapEntry{Run: en.Run, State: en.State, Out: en.Out})
			}
			ev.Snap = sn
		}
		if e.Err != nil {
			ev.Err = true
			ev.ErrS = e.Err.Error()
		}
		switch e.K {
		case "dec":
			switch v := e.Value.(type) {
			case *atp.DecodedRuntimeMessage:
				ev.Msg = "rt"
				ev.Run = v.RunID
				ev.N = int(v.MessageID)
			case *atp.HelloMessage:
				ev.Msg = "hello"
				ev.N = int(v.Version)
			case *atp.WorkDoneMessage:
				ev.Msg = "done1"
			}
		case "encb":
			switch v := e.Value.(type) {
			case nil:
				ev.Msg = "start"
			case atp.WorkStartMessage:
				ev.Msg = "ws1"
			case atp.RuntimeMessage:
				ev.Run = v.RunID
				switch v.MessageID {
				case atp.MessageTypeWorkStart:
					ev.Msg = "ws"
				case atp.MessageTypeSignal:
					ev.Msg = "sig"
				case atp.MessageTypeClientDone:
					ev.Msg = "cdone"
				default:
					ev.Msg = "other"
				}
			default:
				ev.Msg = "other"
			}
		}
		rec.add(ev)
	})
	defer atp.VerifSetHooks(nil, nil)

	// transports
	var s2cR io.Reader
	var s2cW wcloser
	var c2sR io.Reader
	var c2sW io.Writer
	var closeC2SRead func()
	var cleanup []func()
	if job.Transport == "buf" {
		a := newBufPipe(job.ChunkSeed)
		s2cR, s2cW = a, a
		b := newBufPipe(job.ChunkSeed + 1)
		b.rng = rand.New(rand.NewSource(1)) // the server's own reads need no chunking variety
		c2sR, c2sW = b, b
		closeC2SRead = b.CloseRead
		cleanup = append(cleanup, func() {
			_ = a.CloseWithError(errors.New("harness cleanup"))
			a.CloseRead()
			b.CloseRead()
			_ = b.CloseWithError(nil)
		})
	} else {
		ar, aw := io.Pipe()
		s2cR, s2cW = ar, aw
		br, bw := io.Pipe()
		c2sR, c2sW = br, bw
		closeC2SRead = func() { _ = br.Close() }
		cleanup = append(cleanup, func() {
			_ = aw.CloseWithError(errors.New("harness cleanup"))
			_ = ar.Close()
			_ = br.Close()
			_ = bw.Close()
		})
	}
	fw := &faultWriter{w: s2cW, fault: job.Fault, closedAt: -1}
	gt := &gates{}
	cw := &failingWriter{w: c2sW, after: job.WriteFailAfter, deliver: job.WriteFailDeliver, once: job.WriteFailOnce, gates: gt, rec: rec}
	cli := atp.NewClient(chanRW{s2cR, cw})

	srv := &server{rec: rec, ws: map[string]bool{}, wsn: map[string]int{}, giveUp: timeout / 3, fw: fw}
	srv.cond = sync.NewCond(&srv.mu)
	srv.stop = make(chan struct{})
	srv.v1strict = job.Session.V1Strict
	if job.Session.Backpressure > 0 {
		srv.reports = make(chan []byte, job.Session.Backpressure)
		go srv.reporter(fw)
	}
	srvDone := make(chan struct{})
	go srv.readLoop(c2sR, closeC2SRead)
	go func() { defer close(srvDone); srv.script(job.Session, fw) }()

	problem := func(prop, what, run string) {
		res.Problems = append(res.Problems, atpcs.Problem{Prop: prop, What: what, Run: run})
	}
	prop := "C08"
	if job.Session.Healthy && job.Fault == nil && job.WriteFailAfter < 0 {
		prop = "C06"
	}
	if preProblem != "" {
		problem("C08", preProblem, "")
	}
	verdict := "ok"
	setVerdict := func(v string) {
		if verdict == "ok" {
			verdict = v
		}
	}

	execs := map[string]*execState{}
	var order []*execState
	var closeDone chan struct{}
	var closeErr error
	var closePanic any
	closeCalled := false
	closeLeft := "" // goroutines the client started that still run 100 ms after Close returned nil
	startClose := func() {
		closeCalled = true
		closeDone = make(chan struct{})
		go func() {
			defer close(closeDone)
			defer func() {
				if p := recover(); p != nil {
					closePanic = p
					rec.add(atpcs.Ev{K: "ret", Fn: "Close", Err: true, ErrS: fmt.Sprint("panic: ", p)})
				}
			}()
			rec.add(atpcs.Ev{K: "call", Fn: "Close"})
			closeErr = cli.Close()
			if closeErr == nil {
				// "after Close no goroutine started by the client remains": look at the moment Close
				// returns (a goroutine that has just released the wait group may take a moment to end)
				left := ""
				for i := 0; i < 100; i++ {
					if left = clientSpawned(); left == "" {
						break
					}
					time.Sleep(time.Millisecond)
				}
				closeLeft = left
			}
			e := atpcs.Ev{K: "ret", Fn: "Close"}
			if closeErr != nil {
				e.Err, e.ErrS = true, closeErr.Error()
			}
			rec.add(e)
		}()
	}
	joinClose := func() {
		if closeDone == nil {
			return
		}
		select {
		case <-closeDone:
			if closePanic != nil {
				problem(prop, fmt.Sprint("Close panicked: ", closePanic), "")
				setVerdict("panic")
			}
			if closeLeft != "" {
				problem(prop, "Close returned nil while goroutines started by the client were still running: "+closeLeft, "")
				setVerdict("leak")
			}
		case <-time.After(timeout + 6*time.Second):
			problem(prop, "Close did not return", "")
			setVerdict("closehang")
		}
	}
	join := func(x *execState) {
		if x.joined {
			return
		}
		x.joined = true
		select {
		case <-x.done:
			if x.panicked != nil {
				problem(prop, fmt.Sprint("Execute panicked: ", x.panicked), x.run)
				setVerdict("panic")
			}
		case <-time.After(timeout):
			srv.mu.Lock()
			st := fmt.Sprintf("server consumed %d client messages, read side ended=%v", srv.nMsgs, srv.readEnd)
			srv.mu.Unlock()
			st += fmt.Sprintf(", server has written %d messages, client has decoded %d", rec.count("srvwrite"), rec.count("dec"))
			scriptDone := false
			select {
			case <-srvDone:
				scriptDone = true
			default:
			}
			problem(prop, fmt.Sprintf("Execute did not return within %v (server script finished and stream ended: %v; %s)", timeout, scriptDone, st), x.run)
			setVerdict("hang")
		}
	}

	quit := make(chan struct{}) // closed at the end of the session
	var exMu sync.Mutex
	var startExec func(o atpcs.DOp)
	startExec = func(o atpcs.DOp) {
		x := &execState{run: o.R, done: make(chan struct{})}
		if o.To {
			x.to = make(chan schema.Input, o.Pre)
			for i := 0; i < o.Pre; i++ {
				x.to <- schema.Input{RunID: o.R, ID: "sg", InputData: "d"}
			}
		}
		if o.From {
			x.from = make(chan schema.Input)
			hold := o.Hold
			reissue := o.Reissue
			answer := o.Answer
			x.answer = answer
			toCh := x.to
			go func(ch chan schema.Input) {
				if hold {
					gt.wait("consumer:"+x.run, timeout)
				}
				for sg := range ch {
					rec.add(atpcs.Ev{K: "gotsig", Run: x.run, Msg: sg.RunID + "/" + sg.ID})
					if answer && toCh != nil {
						// answer before receiving again; the send lasts until the writer goroutine takes it
						select {
						case toCh <- schema.Input{RunID: x.run, ID: "sg", InputData: "d"}:
							rec.add(atpcs.Ev{K: "answered", Run: x.run})
						case <-quit:
							return
						}
					}
				}
				rec.add(atpcs.Ev{K: "sigclosed", Run: x.run})
				if reissue {
					// a caller that re-runs the step as soon as its signal channel is closed, i.e. at
					// the moment the result is stored - possibly before the first call has collected it
					startExec(atpcs.DOp{Op: "exec", R: x.run})
				}
			}(x.from)
		}
		exMu.Lock()
		execs[o.R+"#"+strconv.Itoa(len(order))] = x
		execs[o.R] = x
		order = append(order, x)
		exMu.Unlock()
		var toCh <-chan schema.Input
		var fromCh chan<- schema.Input
		if x.to != nil {
			toCh = x.to
		}
		if x.from != nil {
			fromCh = x.from
		}
		stepID := "s"
		switch o.Sid {
		case "":
		case "-":
			stepID = ""
		default:
			stepID = o.Sid
		}
		var input any = map[string]any{"name": "n"}
		if o.Bad {
			input = map[string]any{"nosuchfield": 1}
		}
		switch o.Unenc {
		case 1:
			input = map[string]any{"name": "n", "f": func() {}}
		case 2:
			input = make(chan int)
		case 3:
			input = map[string]any{"name": complex(1, 2)}
		case 4:
			input = []any{"n", map[string]any{"deep": func() {}}}
		}
		started := make(chan struct{})
		go func() {
			defer close(x.done)
			defer func() {
				if p := recover(); p != nil {
					x.panicked = p
					rec.add(atpcs.Ev{K: "ret", Fn: "Execute", Run: x.run, Err: true, ErrS: fmt.Sprint("panic: ", p)})
				}
			}()
			x.g = goid()
			rec.add(atpcs.Ev{K: "call", Fn: "Execute", Run: x.run, To: x.to != nil, From: x.from != nil})
			close(started)
			x.res = cli.Execute(schema.Input{RunID: x.run, ID: stepID, InputData: input}, toCh, fromCh)
			e := atpcs.Ev{K: "ret", Fn: "Execute", Run: x.run}
			if x.res.Error != nil {
				e.Err, e.ErrS = true, x.res.Error.Error()
			} else {
				e.Out = atp.VerifPayloadKey(x.res.OutputID, x.res.OutputData)
			}
			rec.add(e)
		}()
		<-started
	}
	for _, o := range job.Session.Dir {
		if verdict == "hang" || verdict == "closehang" {
			break
		}
		switch o.Op {
		case "rs":
			done := make(chan struct{})
			var perr any
			go func() {
				defer close(done)
				defer func() {
					if p := recover(); p != nil {
						perr = p
						rec.add(atpcs.Ev{K: "ret", Fn: "ReadSchema", Err: true, ErrS: fmt.Sprint("panic: ", p)})
					}
				}()
				rec.add(atpcs.Ev{K: "call", Fn: "ReadSchema"})
				_, err := cli.ReadSchema()
				e := atpcs.Ev{K: "ret", Fn: "ReadSchema"}
				if err != nil {
					e.Err, e.ErrS = true, err.Error()
				}
				rec.add(e)
			}()
			select {
			case <-done:
				if perr != nil {
					problem(prop, fmt.Sprint("ReadSchema panicked: ", perr), "")
					setVerdict("panic")
				}
			case <-time.After(timeout):
				problem(prop, "ReadSchema did not return", "")
				setVerdict("hang")
			}
		case "exec":
			startExec(o)
		case "join":
			exMu.Lock()
			x := execs[o.R]
			exMu.Unlock()
			if x != nil {
				join(x)
			}
		case "joinall":
			for i := 0; ; i++ {
				exMu.Lock()
				if i >= len(order) {
					exMu.Unlock()
					break
				}
				x := order[i]
				exMu.Unlock()
				join(x)
				if verdict == "hang" {
					break // one timeout is enough to know; the others would each cost another
				}
			}
		case "sig":
			if x := execs[o.R]; x != nil && x.to != nil {
				rec.add(atpcs.Ev{K: "dsig", Run: o.R, Msg: o.SR})
				id := "sg"
				var data any = "d"
				if o.Unenc > 0 {
					data = map[string]any{"f": func() {}} // the CBOR encoder refuses it: the write fails locally
				}
				select {
				case x.to <- schema.Input{RunID: o.SR, ID: id, InputData: data}:
				case <-time.After(timeout / 2):
					rec.add(atpcs.Ev{K: "dsigdrop", Run: o.R})
				}
			}
		case "csig":
			if x := execs[o.R]; x != nil && x.to != nil {
				rec.add(atpcs.Ev{K: "dcsig", Run: o.R})
				close(x.to)
				x.to = nil
			}
		case "close":
			startClose()
			joinClose()
		case "aclose":
			startClose()
		case "jclose":
			joinClose()
		case "mark":
			srv.mu.Lock()
			srv.mark = o.N
			srv.mu.Unlock()
		case "awaitwritten":
			n := o.N
			srv.waitFor(func() bool { return srv.nWritten >= n })
		case "sleep":
			time.Sleep(time.Duration(o.N) * time.Millisecond)
		case "open":
			gt.open(o.R)
		case "awaitexecs":
			deadline := time.Now().Add(timeout / 2)
			for time.Now().Before(deadline) {
				exMu.Lock()
				n := len(order)
				exMu.Unlock()
				if n >= o.N {
					break
				}
				time.Sleep(200 * time.Microsecond)
			}
		case "awaitws":
			r := o.R
			srv.waitFor(func() bool { return srv.ws[r] })
		case "await":
			n := o.N
			srv.waitFor(func() bool { return srv.nMsgs >= n })
		case "awaitsent":
			deadline := time.Now().Add(timeout / 2)
			for rec.count("dec") < o.N && time.Now().Before(deadline) {
				time.Sleep(200 * time.Microsecond)
			}
		}
	}
	if verdict == "ok" {
		for _, x := range order {
			join(x)
		}
		joinClose()
	}
	// goroutines of the client left after a normal Close
	if verdict == "ok" && closeCalled && closeErr == nil {
		var left string
		for i := 0; i < 200; i++ {
			left = clientGoroutines()
			if left == "" {
				break
			}
			time.Sleep(time.Millisecond)
		}
		if left != "" {
			problem(prop, "goroutines of the client remain after Close returned nil: "+left, "")
			setVerdict("leak")
		}
	}
	// end of the session: release everything
	srv.mu.Lock()
	srv.stopped = true
	srv.mu.Unlock()
	close(srv.stop)
	close(quit)
	// let the script end the stream itself (it does so at once now, unless it is stuck in a write)
	select {
	case <-srvDone:
	case <-time.After(time.Second):
	}
	// the history ends here: what the teardown below provokes is not part of the session
	rec.mu.Lock()
	evs := append([]atpcs.Ev{}, rec.evs...)
	rec.mu.Unlock()
	for _, c := range cleanup {
		c()
	}
	select {
	case <-srvDone:
	case <-time.After(2 * time.Second):
	}
	for _, x := range order {
		if x.to != nil && !x.answer {
			close(x.to)
		}
	}
	// no goroutine of this session's client may live on into the next job (the hooks are global)
	for i := 0; i < 2000 && clientGoroutines() != ""; i++ {
		time.Sleep(time.Millisecond)
	}
	atp.VerifSetHooks(nil, nil)
	if clientGoroutines() != "" {
		res.Dirty = true
	}

	// attach the message-level view of the delivered stream to the server's write events
	fw.mu.Lock()
	delivered := append([]byte{}, fw.delivered...)
	ends := append([]int{}, fw.ends...)
	endKind := fw.closed
	closedAt := fw.closedAt
	fw.mu.Unlock()
	res.SrvBytes = len(delivered)
	ek := endKind
	if ek == "" {
		ek = "eof"
	}
	items := atpcs.Split(delivered, ek)
	// judge the hello here, in this disposable process and under a watchdog (a leaked lock inside
	// the SDK must not take the harness down with it)
	if len(items) > 0 && items[0].Kind == "raw" {
		type hj struct {
			dec, ok bool
			ver     int64
		}
		ch := make(chan hj, 1)
		raw := items[0].Raw
		go func() {
			d, v, o := atpcs.JudgeHello(raw)
			ch <- hj{d, o, v}
		}()
		select {
		case r := <-ch:
			if r.dec {
				items[0].HelloJudged, items[0].HelloVer, items[0].HelloOK = true, r.ver, r.ok
			}
		case <-time.After(2 * time.Second):
			problem("C08", "loading the schema of the received hello once more in this process does not return (a lock left behind by an earlier ReadSchema?)", "")
			setVerdict("hang")
			var h atp.HelloMessage
			if err := atpcs.DecMode().Unmarshal(raw, &h); err == nil {
				items[0].HelloJudged, items[0].HelloVer, items[0].HelloOK = true, h.Version, false
			}
		}
	}
	wi := 0
	ii := 0
	for k := range evs {
		switch evs[k].K {
		case "srvwrite":
			if wi < len(ends) {
				for ii < len(items) && items[ii].Kind == "raw" && items[ii].Avail <= ends[wi] {
					evs[k].Items = append(evs[k].Items, items[ii].Item)
					ii++
				}
				if ii < len(items) && items[ii].Kind == "garbage" && items[ii].Avail <= ends[wi] {
					evs[k].Items = append(evs[k].Items, items[ii].Item)
					ii++
				}
				if wi == closedAt {
					// the injected fault ended the stream during this write
					for ; ii < len(items); ii++ {
						evs[k].Items = append(evs[k].Items, items[ii].Item)
					}
				}
			}
			wi++
		case "srvclose":
			if endKind != "" && ii < len(items) {
				for ; ii < len(items); ii++ {
					evs[k].Items = append(evs[k].Items, items[ii].Item)
				}
			}
		}
	}
	// direct oracle: a success needs a frame that strictly decodes (outer frame and payload, unknown
	// fields rejected) as a work-done message of the same run - or, for an Execute that took the
	// ATP v1 path, as a bare v1 work-done message
	viaV1 := map[int64]bool{}
	for _, e := range evs {
		if e.K == "dec" && e.Fn == "getResultV1" {
			viaV1[e.G] = true
		}
	}
	intact := map[string]bool{}
	ctx := "loop"
	for i, it := range items {
		if it.Kind != "raw" {
			continue
		}
		if i == 0 {
			continue // the hello
		}
		mi := atpcs.Classify(it.Item, ctx)
		if mi.K == "msg" && mi.M.T == "done" && atpcs.DoneDecodes(it.Item) {
			intact[mi.M.RunS+"\x00"+mi.M.XKey] = true
		}
		if v1 := atpcs.Classify(it.Item, "v1"); v1.K == "v1done" {
			intact["\x00v1\x00"+v1.XKey] = true
		}
	}
	// ReadSchema may only succeed on a hello all of whose scope descriptions load on their own
	// (judged with schema.UnserializeScope, not with the walk UnserializeSchema does itself)
	if len(items) > 0 && items[0].Kind == "raw" {
		for _, e := range evs {
			if e.K == "ret" && e.Fn == "ReadSchema" && !e.Err {
				var h atp.HelloMessage
				if err := atpcs.DecMode().Unmarshal(items[0].Raw, &h); err == nil && items[0].HelloJudged && !items[0].HelloOK && verdict != "hang" {
					if ok, where := atpcs.ScopesOK(h.Schema); !ok {
						problem("C08", "ReadSchema returned a schema and no error for a hello that holds an unusable scope: "+where, "")
						setVerdict("fabricated")
					}
				}
				break
			}
		}
	}
	// every signal a caller received was emitted for its run (a good signal frame of that run in the
	// delivered stream), at most as many as were emitted; a second close of the channel would have
	// killed the process
	emitted := map[string]int{}
	for i, it := range items {
		if it.Kind != "raw" || i == 0 {
			continue
		}
		if mi := atpcs.Classify(it.Item, "loop"); mi.K == "msg" && mi.M.T == "sig" && mi.M.Good {
			emitted[mi.M.RunS]++
		}
	}
	got := map[string]int{}
	for _, e := range evs {
		if e.K == "gotsig" {
			got[e.Run]++
			// (the signal ID is payload: a corrupted byte in it is delivered as it is)
			if !strings.HasPrefix(e.Msg, e.Run+"/") {
				problem(prop, "a caller received a signal that was not emitted for its run: "+e.Msg, e.Run)
			}
		}
	}
	for r, n := range got {
		if n > emitted[r] {
			problem(prop, fmt.Sprintf("a caller received %d signals, %d were emitted for its run", n, emitted[r]), r)
		}
	}
	for _, x := range order {
		select {
		case <-x.done:
		default:
			continue
		}
		if x.panicked != nil || x.res.Error != nil {
			if verdict == "ok" && job.Session.Healthy && job.Fault == nil && job.WriteFailAfter < 0 && strictRun(job.Session, x.run) && x.panicked == nil {
				problem("C05", "Execute failed on a healthy connection although the server answered it: "+x.res.Error.Error(), x.run)
			}
			continue
		}
		key := atp.VerifPayloadKey(x.res.OutputID, x.res.OutputData)
		if verdict == "hang" {
			continue // calls released by the teardown are not part of the recorded history
		}
		if !intact[x.run+"\x00"+key] && !(viaV1[x.g] && intact["\x00v1\x00"+key]) {
			problem(prop, "Execute reported success without a frame that strictly decodes as a work-done message of its run: "+key, x.run)
			setVerdict("fabricated")
		}
	}
	res.Events = evs
	res.Verdict = verdict
	res.Hits = map[string]int{}
	for i := range hits {
		if n := hits[i].Load(); n > 0 {
			res.Hits[strconv.Itoa(i)] = int(n)
		}
	}
	res.Ms = time.Since(t0).Milliseconds()
	return res
}

// preSession lets another client of this process read a hello with a schema damaged in the given
// flavour. It must return an error, in time.
func preSession(kind string, timeout time.Duration) string {
	s2cR, s2cW := io.Pipe()
	c2sR, c2sW := io.Pipe()
	defer func() { _ = s2cW.Close(); _ = c2sW.Close(); _ = s2cR.Close(); _ = c2sR.Close() }()
	go func() {
		var v any
		_ = cbor.NewDecoder(c2sR).Decode(&v)
		_, _ = s2cW.Write(atpcs.HelloBytesKind(3, kind))
	}()
	cli := atp.NewClient(chanRW{s2cR, c2sW})
	type r struct {
		err error
		p   any
	}
	ch := make(chan r, 1)
	go func() {
		defer func() {
			if p := recover(); p != nil {
				ch <- r{p: p}
			}
		}()
		_, err := cli.ReadSchema()
		ch <- r{err: err}
	}()
	select {
	case x := <-ch:
		if x.p != nil {
			return fmt.Sprint("first session: ReadSchema panicked on a hello with a bad schema (", kind, "): ", x.p)
		}
		if x.err == nil {
			return "first session: ReadSchema accepted a hello with a bad schema (" + kind + ")"
		}
	case <-time.After(timeout):
		return "first session: ReadSchema did not return on a hello with a bad schema (" + kind + ")"
	}
	return ""
}

// strictRun: in this session the run must succeed (exactly one work-done, no error message, unique).
func strictRun(s atpcs.Session, run string) bool {
	if run == "" {
		return false
	}
	n := 0
	for _, o := range s.Dir {
		if o.Op == "exec" && o.R == run {
			n++
			if o.Reissue {
				n++ // the run ID is used twice
			}
		}
		if o.Op == "aclose" {
			return false
		}
	}
	if n != 1 {
		return false
	}
	d := 0
	for _, o := range s.Srv {
		// a fatal error for everybody, or a step-fatal error for this run, excuses a failure
		if o.Op == "err" && (o.VF || (o.SF && (o.R == "" || o.R == run))) {
			return false
		}
		if (o.Op == "done" && o.R == run) || o.Op == "done1" {
			d++
		}
	}
	return d >= 1
}

// clientSpawned lists the goroutines that were started by the client (read loop, signal writers,
// the helper of waitWithTimeout) and are still alive.
func clientSpawned() string {
	buf := make([]byte, 1<<20)
	n := runtime.Stack(buf, true)
	var out []string
	for _, g := range bytes.Split(buf[:n], []byte("\n\n")) {
		i := bytes.Index(g, []byte("created by go.flow.arcalot.io/pluginsdk/atp."))
		if i < 0 {
			continue
		}
		l := string(g[i:])
		if j := strings.IndexByte(l, '\n'); j > 0 {
			l = l[:j]
		}
		first := ""
		for _, ln := range strings.Split(string(g), "\n") {
			if strings.Contains(ln, "pluginsdk/atp.") {
				first = strings.TrimSpace(ln)
				break
			}
		}
		if k := strings.IndexByte(first, '('); k > 0 && strings.HasPrefix(first, "go.flow") {
			first = first[:strings.LastIndexByte(first, '(')]
		}
		out = append(out, first+" ["+l+"]")
	}
	return strings.Join(out, "; ")
}

func clientGoroutines() string {
	buf := make([]byte, 1<<20)
	n := runtime.Stack(buf, true)
	var out []string
	for _, g := range bytes.Split(buf[:n], []byte("\n\n")) {
		if bytes.Contains(g, []byte("pluginsdk/atp.(*client)")) || bytes.Contains(g, []byte("pluginsdk/atp.waitWithTimeout")) {
			lines := strings.Split(string(g), "\n")
			fn := ""
			for _, l := range lines {
				if strings.Contains(l, "pluginsdk/atp.") {
					fn = strings.TrimSpace(l)
					break
				}
			}
			out = append(out, fn)
		}
	}
	return strings.Join(out, "; ")
}

func main() {
	in := bufio.NewReaderSize(os.Stdin, 1<<20)
	out := bufio.NewWriterSize(os.Stdout, 1<<20)
	defer out.Flush()
	for {
		line, err := in.ReadBytes('\n')
		if len(bytes.TrimSpace(line)) > 0 {
			var job atpcs.Job
			if e := json.Unmarshal(line, &job); e != nil {
				fmt.Fprintln(os.Stderr, "bad job:", e)
				os.Exit(2)
			}
			fmt.Fprintf(os.Stderr, "JOB %d\n", job.ID)
			r := runJob(job)
			b, _ := json.Marshal(r)
			out.Write(b)
			out.WriteByte('\n')
			out.Flush()
			if r.Dirty || (r.Verdict != "ok" && r.Verdict != "fabricated") {
				// goroutines of the failed session may still be around: start afresh
				os.Exit(3)
			}
		}
		if err != nil {
			return
		}
	}
}
