// Command racestress is the workload of the C13 race search (harness sub-command `race` builds it with
// `go build -race` from the working tree and runs many short-lived processes of it).
//
// One process = a few trials. One trial = one FRESH schema instance (so that first-use paths are raced;
// the first trial of a process also races the first use of the package-level unit definitions and
// meta-schemas), G goroutines (2..16) released together by a barrier, issuing mixed Unserialize /
// Validate / Serialize / ValidateCompatibility / step / units calls, each with arguments of its own;
// then the same calls run one after the other on ANOTHER fresh instance. A call that returns something
// else concurrently than alone is a mismatch; data races are reported by the race detector on stderr.
//
// stdout: one JSON line per trial; stderr: `RACESTRESS trial <n> begin|seq|end` markers around
// whatever the runtime prints.
package main

import (
	"context"
	"encoding/json"
	"flag"
	"fmt"
	"os"
	"strings"
	"sync"

	"go.flow.arcalot.io/pluginsdk/schema"
	"harness/hx"
)

// thunk is one call, bound to the schema instance it was built for; it makes its own argument.
type thunk struct {
	op string
	f  func() string
}

// workload builds a fresh instance and the calls on it. Building twice gives equal calls on two
// independent instances.
type workload struct {
	kind    string
	ty      *hx.Ty // for the record
	rebuilt bool
	build   func() ([]thunk, error)
}

type mismatch struct {
	Call int    `json:"call"`
	Op   string `json:"op"`
	Conc string `json:"conc"`
	Seq  string `json:"seq"`
}

type trialRec struct {
	Trial      int        `json:"trial"`
	Kind       string     `json:"kind"`
	Rebuilt    bool       `json:"rebuilt"`
	Goroutines int        `json:"goroutines"`
	Calls      int        `json:"calls"`
	Ops        []string   `json:"ops"`
	Schema     *hx.Ty     `json:"schema,omitempty"`
	Mismatch   []mismatch `json:"mismatch,omitempty"`
	Panics     int        `json:"panics"`
	Note       string     `json:"note,omitempty"`
}

func guard(f func() string) (res string) {
	defer func() {
		if r := recover(); r != nil {
			res = "panic"
		}
	}()
	return f()
}

func canonOut(x any) string {
	s := hx.Canon(hx.Enc(x))
	if b, err := json.Marshal(x); err == nil {
		s += "|" + string(b)
	}
	return s
}

func class(err error) string {
	if err == nil {
		return "ok"
	}
	return "err"
}

// runOp runs a (possibly composite) operation: U, V, S, C on the raw value; UV / US / UVS feed the
// result of Unserialize to Validate / Serialize.
func runOp(s schema.Type, op string, arg any) string {
	switch op {
	case "U", "UV", "US", "UVS":
		out, err := s.Unserialize(arg)
		if err != nil {
			return "U:err"
		}
		res := "U:ok:" + canonOut(out)
		if strings.Contains(op, "V") {
			res += ";V:" + class(s.Validate(out))
		}
		if strings.Contains(op, "S") {
			ser, err := s.Serialize(out)
			if err != nil {
				res += ";S:err"
			} else {
				res += ";S:ok:" + canonOut(ser)
			}
		}
		return res
	case "V":
		return "V:" + class(s.Validate(arg))
	case "S":
		ser, err := s.Serialize(arg)
		if err != nil {
			return "S:err"
		}
		return "S:ok:" + canonOut(ser)
	case "C":
		return "C:" + class(s.ValidateCompatibility(arg))
	}
	panic("racestress: bad op " + op)
}

var schemaOps = []string{"U", "UV", "US", "UVS", "UVS", "V", "S", "C"}

// valueCalls: k calls of random operations with generated values on schema s of shape t
func valueCalls(g *hx.Gen, t *hx.Ty, k int) []struct {
	op string
	v  *hx.Val
} {
	calls := make([]struct {
		op string
		v  *hx.Val
	}, k)
	for i := range calls {
		calls[i].op = schemaOps[g.R.Intn(len(schemaOps))]
		if g.R.Intn(5) == 0 {
			calls[i].v = g.RandomVal(0)
		} else {
			calls[i].v = g.Value(t, hx.Env{}, 0)
		}
	}
	return calls
}

func hasRef(t *hx.Ty) bool {
	r := false
	t.WalkTy(func(x *hx.Ty) {
		if x.T == "ref" {
			r = true
		}
	})
	return r
}

// ---- workloads --------------------------------------------------------------------------------

// generated schema, built through the constructors
func wlGenerated(g *hx.Gen, k int) workload {
	var t *hx.Ty
	if g.R.Intn(2) == 0 {
		t = g.Scope(0)
	} else {
		t = g.Schema(0, nil)
	}
	calls := valueCalls(g, t, k)
	selfCompat := !hasRef(t) && g.R.Intn(3) == 0
	return workload{kind: "generated", ty: t, build: func() ([]thunk, error) {
		s := t.Build()
		var ts []thunk
		for _, c := range calls {
			c := c
			ts = append(ts, thunk{c.op, func() string { return runOp(s, c.op, c.v.ToGo()) }})
		}
		if selfCompat {
			ts = append(ts, thunk{"Cschema", func() string { return "C:" + class(s.ValidateCompatibility(t.Build())) }})
		}
		return ts, nil
	}}
}

// describableScope: a generated scope that survives SelfSerialize + UnserializeScope (many generated schemas
// do not: typed one-ofs, enum values without display, negative bounds); the last attempt is returned as is
func describableScope(g *hx.Gen) *hx.Ty {
	var t *hx.Ty
	for attempt := 0; attempt < 60; attempt++ {
		t = g.Scope(0)
		ok := guard(func() string {
			desc, err := t.Build().(*schema.ScopeSchema).SelfSerialize()
			if err != nil {
				return "err"
			}
			if _, err := schema.UnserializeScope(desc); err != nil {
				return "err"
			}
			return "ok"
		})
		if ok == "ok" {
			break
		}
	}
	return t
}

// generated scope, rebuilt from its own description
func wlRebuilt(g *hx.Gen, k int) workload {
	t := describableScope(g)
	calls := valueCalls(g, t, k)
	// UnserializeScope links the references and fills the objects' default values; unserializing with the
	// scope meta-schema and linking by hand leaves the defaults to the first use (the lazy path)
	raw := g.R.Intn(2) == 0
	kind := "rebuilt"
	if raw {
		kind = "rebuilt-lazy"
	}
	return workload{kind: kind, ty: t, rebuilt: true, build: func() ([]thunk, error) {
		orig := t.Build().(*schema.ScopeSchema)
		desc, err := orig.SelfSerialize()
		if err != nil {
			return nil, err
		}
		var s *schema.ScopeSchema
		if raw {
			u, err := schema.DescribeScope().Unserialize(desc)
			if err != nil {
				return nil, err
			}
			s = u.(*schema.ScopeSchema)
			s.ApplySelf()
		} else {
			s, err = schema.UnserializeScope(desc)
			if err != nil {
				return nil, err
			}
		}
		var ts []thunk
		for _, c := range calls {
			c := c
			ts = append(ts, thunk{c.op, func() string { return runOp(s, c.op, c.v.ToGo()) }})
		}
		return ts, nil
	}}
}

// wlLoadWhileUsing: some goroutines USE a struct-mapped schema whose unset sub-objects get their defaults
// filled in (three levels), others LOAD descriptions at the same time (every loaded object extracts its defaults
// for the first time): schema values that have nothing to do with each other, used from their very first use.
// Every call returns what it returns in isolation - in particular it returns.
func wlLoadWhileUsing(g *hx.Gen, k int) workload {
	t := describableScope(g)
	def := `{}`
	if g.R.Intn(2) == 0 {
		def = `{"c": "z"}`
	}
	idx := make([]int, k)
	for i := range idx {
		idx[i] = g.R.Intn(len(libTopInputs))
	}
	return workload{kind: "load-while-using", ty: t, build: func() ([]thunk, error) {
		desc, err := t.Build().(*schema.ScopeSchema).SelfSerialize()
		if err != nil {
			return nil, err
		}
		top := schema.NewStructMappedObjectSchema[libTop]("top", libTopProps(def))
		var ts []thunk
		for i := range idx {
			in := libTopInputs[idx[i]]
			if i%2 == 0 {
				ts = append(ts, thunk{"U-struct", func() string {
					r := ""
					for n := 0; n < 40; n++ {
						r = runOp(top, "U", deepCopy(in))
					}
					return r
				}})
			} else {
				ts = append(ts, thunk{"load", func() string {
					return guard(func() string {
						r := ""
						for n := 0; n < 15; n++ {
							s, err := schema.UnserializeScope(deepCopy(desc))
							if err != nil {
								return "err:" + class(err)
							}
							r = runOp(s, "U", map[string]any{})
						}
						return r
					})
				}})
			}
		}
		return ts, nil
	}}
}

// a whole schema (one step) rebuilt by UnserializeSchema; calls go to the step's input and output scopes
func wlSchema(g *hx.Gen, k int) workload {
	tin, tout := describableScope(g), describableScope(g)
	cin, cout := valueCalls(g, tin, (k+1)/2), valueCalls(g, tout, k/2)
	return workload{kind: "schema", ty: tin, rebuilt: true, build: func() ([]thunk, error) {
		step := schema.NewStepSchema("s", tin.Build().(*schema.ScopeSchema),
			map[string]*schema.StepOutputSchema{"out": schema.NewStepOutputSchema(tout.Build().(*schema.ScopeSchema), nil, false)},
			nil, nil, nil)
		desc, err := schema.NewSchema(map[string]*schema.StepSchema{"s": step}).SelfSerialize()
		if err != nil {
			return nil, err
		}
		re, err := schema.UnserializeSchema(desc)
		if err != nil {
			return nil, err
		}
		in := re.StepsValue["s"].Input()
		out := re.StepsValue["s"].Outputs()["out"].Schema()
		var ts []thunk
		for i := 0; i < len(cin) || i < len(cout); i++ {
			if i < len(cin) {
				c := cin[i]
				ts = append(ts, thunk{"in." + c.op, func() string { return runOp(in, c.op, c.v.ToGo()) }})
			}
			if i < len(cout) {
				c := cout[i]
				ts = append(ts, thunk{"out." + c.op, func() string { return runOp(out, c.op, c.v.ToGo()) }})
			}
		}
		return ts, nil
	}}
}

// the meta-schemas themselves under concurrent use: describing and rebuilding scopes of their own
func wlMeta(g *hx.Gen, k int) workload {
	type item struct {
		t *hx.Ty
		v *hx.Val
	}
	items := make([]item, k)
	for i := range items {
		t := g.Scope(0)
		items[i] = item{t, g.Value(t, hx.Env{}, 0)}
	}
	return workload{kind: "meta", ty: items[0].t, build: func() ([]thunk, error) {
		var ts []thunk
		for _, it := range items {
			it := it
			ts = append(ts, thunk{"describe+rebuild", func() string {
				desc, err := it.t.Build().(*schema.ScopeSchema).SelfSerialize()
				if err != nil {
					return "describe:err"
				}
				res := "describe:ok:" + canonOut(desc)
				s, err := schema.UnserializeScope(desc)
				if err != nil {
					return res + ";rebuild:err"
				}
				return res + ";" + runOp(s, "UVS", it.v.ToGo())
			}})
		}
		// the other public accessors of the package-level meta-scopes, used next to the loaders (every
		// third call): whichever of them is the first use in this process must not write what the others read
		for i, it := range items {
			if i%3 != 1 {
				continue
			}
			it := it
			switch (i / 3) % 3 {
			case 0:
				ts[i] = thunk{"describe-step-output", func() string {
					so := schema.NewStepOutputSchema(it.t.Build().(*schema.ScopeSchema), nil, false)
					d, err := schema.DescribeStepOutput().Serialize(so)
					if err != nil {
						return "stepoutput:err"
					}
					back, err := schema.DescribeStepOutput().Unserialize(d)
					return "stepoutput:ok:" + canonOut(d) + ":" + class(err) + fmt.Sprint(back != nil)
				}}
			case 1:
				ts[i] = thunk{"describe-scope-objects", func() string {
					n := len(schema.DescribeScope().Objects()) + len(schema.DescribeStepOutput().Objects()) + len(schema.DescribeSchema().Objects())
					err := schema.DescribeStepOutput().ValidateReferences()
					return fmt.Sprintf("metaobjects:%d:%s", n, class(err))
				}}
			default:
				ts[i] = thunk{"describe-schema", func() string {
					step := schema.NewStepSchema("s", it.t.Build().(*schema.ScopeSchema),
						map[string]*schema.StepOutputSchema{"o": schema.NewStepOutputSchema(it.t.Build().(*schema.ScopeSchema), nil, false)}, nil, nil, nil)
					d, err := schema.NewSchema(map[string]*schema.StepSchema{"s": step}).SelfSerialize()
					if err != nil {
						return "schema:err"
					}
					_, err = schema.UnserializeSchema(d)
					return "schema:ok:" + canonOut(d) + ":" + class(err)
				}}
			}
		}
		return ts, nil
	}}
}

// wlUnitTwins: two units definitions of the same base unit and the same scale whose multiplier units
// are NAMED differently (kB/MB against KiB/MiB), and the package-level UnitBytes next to a
// same-scale definition with other names, first used concurrently. Each definition parses exactly
// its own names. The reference is not a second run (a process-wide table filled by the first
// parse would falsify both runs alike) but the expected answer computed from the definition.
func wlUnitTwins(g *hx.Gen, k int) workload {
	scale := int64(1000 + g.R.Intn(3))
	type def struct {
		names [2]string
		build func() *schema.UnitsDefinition
	}
	mk := func(k1, m1 string) func() *schema.UnitsDefinition {
		return func() *schema.UnitsDefinition {
			return schema.NewUnits(schema.NewUnit("B", "B", "byte", "bytes"), map[int64]*schema.UnitDefinition{
				scale:         schema.NewUnit(k1, k1, k1+"byte", k1+"bytes"),
				scale * scale: schema.NewUnit(m1, m1, m1+"byte", m1+"bytes"),
			})
		}
	}
	defs := []def{{[2]string{"kB", "MB"}, mk("kB", "MB")}, {[2]string{"KiB", "MiB"}, mk("KiB", "MiB")}, {[2]string{"kb", "mb"}, mk("kb", "mb")}}
	type call struct {
		d, names int
		a, b     int64
	}
	cs := make([]call, k)
	for i := range cs {
		cs[i] = call{g.R.Intn(len(defs)), g.R.Intn(len(defs)), int64(1 + g.R.Intn(9)), int64(g.R.Intn(9))}
		if g.R.Intn(2) == 0 {
			cs[i].names = cs[i].d
		}
	}
	builds := 0
	return workload{kind: "unittwins", build: func() ([]thunk, error) {
		builds++
		reference := builds%2 == 0
		built := make([]*schema.UnitsDefinition, len(defs))
		for i, d := range defs {
			built[i] = d.build()
		}
		var ts []thunk
		for _, c := range cs {
			c := c
			text := fmt.Sprintf("%d%s %dB", c.a, defs[c.names].names[0], c.b)
			if c.a%2 == 0 {
				text = fmt.Sprintf("%d%s%d%s", c.a, defs[c.names].names[1], c.b, defs[c.names].names[0])
			}
			ts = append(ts, thunk{"twin.ParseInt", func() string {
				if reference {
					if c.names != c.d {
						return "ParseInt:err:0"
					}
					if c.a%2 == 0 {
						return fmt.Sprintf("ParseInt:ok:%d", c.a*scale*scale+c.b*scale)
					}
					return fmt.Sprintf("ParseInt:ok:%d", c.a*scale+c.b)
				}
				n, err := built[c.d].ParseInt(text)
				return fmt.Sprintf("ParseInt:%s:%d", class(err), n)
			}})
		}
		return ts, nil
	}}
}

type libInner struct {
	A int64  `json:"a"`
	B string `json:"b"`
}

type libOuter struct {
	I libInner  `json:"i"`
	P *libInner `json:"p"`
	N int64     `json:"n"`
	D float64   `json:"d"`
	L []string  `json:"l"`
	M map[string]int64
}

// three levels of struct-mapped objects: the middle one declares no defaults of its own, the innermost
// does; the top-level default of "m" is a map shared by every call
type libMid struct {
	I libInner `json:"i"`
	C string   `json:"c"`
}

type libTop struct {
	M libMid `json:"m"`
	X int64  `json:"x"`
}

func libMidProps() map[string]*schema.PropertySchema {
	return map[string]*schema.PropertySchema{
		"i": prop(schema.NewStructMappedObjectSchema[libInner]("inner", libInnerProps()), nil),
		"c": prop(schema.NewStringSchema(nil, nil, nil), nil),
	}
}

func libTopProps(def string) map[string]*schema.PropertySchema {
	return map[string]*schema.PropertySchema{
		"m": prop(schema.NewStructMappedObjectSchema[libMid]("mid", libMidProps()), schema.PointerTo(def)),
		"x": prop(schema.NewIntSchema(nil, nil, nil), schema.PointerTo(`3`)),
	}
}

var libTopInputs = []any{
	map[string]any{},
	map[string]any{"x": 4},
	map[string]any{"m": map[string]any{"c": "given"}},
	map[string]any{"m": map[string]any{"i": map[string]any{"a": "2kB"}}},
	map[string]any{"m": 5},
}

func prop(t schema.Type, def *string) *schema.PropertySchema {
	return schema.NewPropertySchema(t, nil, false, nil, nil, nil, def, nil)
}

func libInnerProps() map[string]*schema.PropertySchema {
	return map[string]*schema.PropertySchema{
		"a": prop(schema.NewIntSchema(nil, nil, schema.UnitBytes), schema.PointerTo(`"1kB"`)),
		"b": prop(schema.NewStringSchema(nil, nil, nil), schema.PointerTo(`"x"`)),
	}
}

func libOuterProps() map[string]*schema.PropertySchema {
	return map[string]*schema.PropertySchema{
		// a struct-mapped sub-object by value with a default of its own: sub-object defaults are merged in
		"i": prop(schema.NewStructMappedObjectSchema[libInner]("inner", libInnerProps()), schema.PointerTo(`{"a": 7}`)),
		"p": prop(schema.NewRefSchema("inner", nil), nil),
		"n": prop(schema.NewIntSchema(schema.PointerTo(int64(0)), nil, schema.UnitBytes), schema.PointerTo(`"2MB"`)),
		"d": prop(schema.NewFloatSchema(nil, nil, schema.UnitDurationSeconds), schema.PointerTo(`"1m30s"`)),
		"l": prop(schema.NewListSchema(schema.NewStringSchema(nil, schema.PointerTo(int64(5)), nil), nil, nil), nil),
		"M": prop(schema.NewMapSchema(schema.NewStringSchema(nil, nil, nil),
			schema.NewIntSchema(nil, nil, schema.UnitDurationNanoseconds), nil, nil), nil),
	}
}

var libInputs = []any{
	map[string]any{},
	map[string]any{"n": "5MB 3kB", "d": "2H"},
	map[string]any{"i": map[string]any{"a": "3B"}, "l": []any{"a", "b"}},
	map[string]any{"p": map[string]any{"a": 1, "b": "q"}, "M": map[string]any{"k": "5ms", "j": 7}},
	map[string]any{"n": "-1B"},
	map[string]any{"l": []any{"toolong"}},
	map[string]any{"d": "1 parsec"},
	map[string]any{"zz": 1},
	"scalar",
	map[any]any{"n": uint64(12), "d": 1.5},
}

// hand-written schemas over the package-level unit definitions, struct-mapped objects with sub-object
// defaults, references, typed objects, one-of, int enums with units
func wlLibrary(g *hx.Gen, k int) workload {
	variant := g.R.Intn(9)
	idx := make([]int, k)
	ops := make([]string, k)
	for i := range idx {
		idx[i] = g.R.Intn(len(libInputs))
		ops[i] = schemaOps[g.R.Intn(len(schemaOps))]
	}
	return workload{kind: fmt.Sprintf("library%d", variant), build: func() ([]thunk, error) {
		var s schema.Type
		inputs := libInputs
		switch variant {
		case 0: // struct-mapped, inside a scope
			s = schema.NewScopeSchema(
				schema.NewStructMappedObjectSchema[libOuter]("outer", libOuterProps()),
				schema.NewStructMappedObjectSchema[libInner]("inner", libInnerProps()))
		case 1: // the same shape, map-based
			s = schema.NewScopeSchema(schema.NewObjectSchema("outer", libOuterProps()), schema.NewObjectSchema("inner", libInnerProps()))
		case 2: // typed scope / typed object
			s = schema.NewTypedScopeSchema[libOuter](
				schema.NewStructMappedObjectSchema[libOuter]("outer", libOuterProps()),
				schema.NewStructMappedObjectSchema[libInner]("inner", libInnerProps()))
		case 3: // one-of over two members, with units inside
			sc := schema.NewScopeSchema(
				schema.NewObjectSchema("root", map[string]*schema.PropertySchema{
					"x": prop(schema.NewOneOfStringSchema[any](map[string]schema.Object{
						"o": schema.NewRefSchema("outer", nil), "i": schema.NewRefSchema("inner", nil)}, "kind", false), nil),
					"y": prop(schema.NewIntSchema(nil, nil, schema.UnitPercentage), schema.PointerTo(`"5%"`)),
				}),
				schema.NewObjectSchema("outer", libOuterProps()), schema.NewObjectSchema("inner", libInnerProps()))
			s = sc
			inputs = nil
			for _, in := range libInputs {
				if m, ok := in.(map[string]any); ok {
					w := map[string]any{"kind": "o"}
					for kk, vv := range m {
						w[kk] = vv
					}
					inputs = append(inputs, map[string]any{"x": w})
				} else {
					inputs = append(inputs, map[string]any{"x": in, "y": "7 percent"})
				}
			}
		case 5, 6: // three levels of struct-mapped sub-objects; the middle level has no defaults of its own
			def := `{}`
			if variant == 6 {
				def = `{"c": "z"}`
			}
			s = schema.NewStructMappedObjectSchema[libTop]("top", libTopProps(def))
			inputs = libTopInputs
		case 7, 8: // a typed object (embeds ObjectSchema by value; its typed methods have value receivers)
			to := schema.NewTypedObject[libInner]("inner", libInnerProps())
			ins := []any{map[string]any{}, map[string]any{"a": "2kB"}, map[string]any{"b": "q"}, map[string]any{"a": 1, "b": "z"}, map[string]any{"zz": 1}, "scalar"}
			var ts []thunk
			for i := range idx {
				in := ins[idx[i]%len(ins)]
				switch i % 4 {
				case 0:
					ts = append(ts, thunk{"UT", func() string {
						return guard(func() string {
							v, err := to.UnserializeType(deepCopy(in))
							if err != nil {
								return "err:" + class(err)
							}
							if err := to.ValidateType(v); err != nil {
								return "err-validate:" + class(err)
							}
							w, err := to.SerializeType(v)
							if err != nil {
								return "err-serialize:" + class(err)
							}
							return "ok:" + canonOut(w)
						})
					}})
				case 1:
					ts = append(ts, thunk{"Any", func() string {
						return guard(func() string { return runOp(to.Any(), "U", deepCopy(in)) })
					}})
				default:
					op := ops[i]
					ts = append(ts, thunk{op, func() string { return runOp(to, op, deepCopy(in)) }})
				}
			}
			return ts, nil
		default: // enum and map keyed by units
			s = schema.NewMapSchema(
				schema.NewIntEnumSchema(map[int64]*schema.DisplayValue{1024: nil, 1048576: nil}, schema.UnitBytes),
				schema.NewIntSchema(nil, nil, schema.UnitCharacters), nil, nil)
			inputs = []any{
				map[string]any{"1kB": "5 chars", "1MB": 3},
				map[string]any{"2kB": 1},
				map[any]any{int64(1024): "1char"},
				map[string]any{},
				"x",
			}
		}
		var ts []thunk
		for i := range idx {
			op, in := ops[i], inputs[idx[i]%len(inputs)]
			ts = append(ts, thunk{op, func() string { return runOp(s, op, deepCopy(in)) }})
		}
		return ts, nil
	}}
}

// wlCompat: schema-versus-schema compatibility through one shared schema value. The counterparts
// are equal to it, or differ only in an object behind a reference (compatible: a default changed;
// incompatible: a property of another type deep down), so the verdict is decided behind the
// reference every goroutine passes through.
func wlCompat(g *hx.Gen, k int) workload {
	width := 12 + g.R.Intn(30)
	kinds := make([]int, k)
	for i := range kinds {
		kinds[i] = g.R.Intn(4)
	}
	mk := func(variant int) *schema.ScopeSchema {
		leafProps := map[string]*schema.PropertySchema{}
		for i := 0; i < width; i++ {
			var t schema.Type = schema.NewIntSchema(nil, nil, nil)
			if i == 3 || i == 6 {
				// numbers with units, every schema value with a definition of its own (equal definitions, distinct
				// values: what two rebuilt schemas hold); the definitions fill their parser state lazily
				t = schema.NewIntSchema(nil, nil, schema.NewUnits(schema.NewUnit("B", "B", "byte", "bytes"), map[int64]*schema.UnitDefinition{
					1024: schema.NewUnit("kB", "kB", "kilobyte", "kilobytes"), 1048576: schema.NewUnit("MB", "MB", "megabyte", "megabytes")}))
			}
			if i == 9 {
				t = schema.NewFloatSchema(nil, nil, schema.NewUnits(schema.NewUnit("s", "s", "second", "seconds"), map[int64]*schema.UnitDefinition{
					60: schema.NewUnit("m", "m", "minute", "minutes")}))
			}
			if i%3 == 1 {
				t = schema.NewStringSchema(nil, nil, nil)
			}
			if i%3 == 2 {
				t = schema.NewListSchema(schema.NewMapSchema(schema.NewStringSchema(nil, nil, nil), schema.NewBoolSchema(), nil, nil), nil, nil)
			}
			leafProps[fmt.Sprintf("f%02d", i)] = prop(t, nil)
		}
		switch variant {
		case 1: // incompatible: the last field has another type
			leafProps[fmt.Sprintf("f%02d", width-1)] = prop(schema.NewFloatSchema(nil, nil, nil), nil)
		case 2: // incompatible: the first field has another type
			leafProps["f00"] = prop(schema.NewBoolSchema(), nil)
		case 3: // compatible: one more optional field is missing on neither side, a default differs
			d := "3"
			leafProps["f00"] = prop(schema.NewIntSchema(nil, nil, nil), &d)
		}
		return schema.NewScopeSchema(
			schema.NewObjectSchema("root", map[string]*schema.PropertySchema{
				"left":  prop(schema.NewRefSchema("mid", nil), nil),
				"right": prop(schema.NewListSchema(schema.NewRefSchema("leaf", nil), nil, nil), nil),
			}),
			schema.NewObjectSchema("mid", map[string]*schema.PropertySchema{
				"leaf": prop(schema.NewRefSchema("leaf", nil), nil),
				"n":    prop(schema.NewIntSchema(nil, nil, nil), nil),
			}),
			schema.NewObjectSchema("leaf", leafProps))
	}
	builds := 0
	return workload{kind: "compat", build: func() ([]thunk, error) {
		builds++
		// the reference is the verdict the declarations give (equal and default-only variants are compatible,
		// the two retyped ones are not), not a second run: state left behind by parsing through one of two equal
		// schema values would show in both runs alike
		reference := builds%2 == 0
		shared := mk(0)
		others := []*schema.ScopeSchema{mk(0), mk(1), mk(2), mk(3)}
		want := func(kind int) string {
			if kind == 1 || kind == 2 {
				return "C:err"
			}
			return "C:ok"
		}
		var ts []thunk
		for i := 0; i < k; i++ {
			kind := kinds[i]
			o := others[kind]
			if i%4 == 3 {
				// use one side only: numbers written with units go through the lazily built parser of that value
				target := shared
				if i%8 == 7 {
					target = o
				}
				ts = append(ts, thunk{"compat.use", func() string {
					if reference {
						return "U:ok"
					}
					_, err := target.Unserialize(map[string]any{"right": []any{map[string]any{"f03": "2kB", "f06": "1MB 5B"}}})
					return "U:" + class(err)
				}})
				continue
			}
			switch i % 3 {
			case 0:
				ts = append(ts, thunk{"compat.scope", func() string {
					if reference {
						return want(kind)
					}
					return "C:" + class(shared.ValidateCompatibility(o))
				}})
			case 1:
				ts = append(ts, thunk{"compat.object", func() string {
					if reference {
						return want(kind)
					}
					return "C:" + class(shared.Objects()["mid"].ValidateCompatibility(o.Objects()["mid"]))
				}})
			default:
				ts = append(ts, thunk{"compat.reversed", func() string {
					if reference {
						return want(kind)
					}
					return "C:" + class(o.ValidateCompatibility(shared))
				}})
			}
		}
		return ts, nil
	}}
}

func deepCopy(x any) any {
	switch v := x.(type) {
	case map[string]any:
		m := make(map[string]any, len(v))
		for k, e := range v {
			m[k] = deepCopy(e)
		}
		return m
	case map[any]any:
		m := make(map[any]any, len(v))
		for k, e := range v {
			m[k] = deepCopy(e)
		}
		return m
	case []any:
		l := make([]any, len(v))
		for i, e := range v {
			l[i] = deepCopy(e)
		}
		return l
	}
	return x
}

var unitTexts = []string{"5kB", "1MB 3B", "1m30s", "2H", "1d", "7", "5 chars", "3%", "1.5s", "10 ms", "1 μs", "x", "", "9999999999d", "1kilobyte"}

// the unit definitions directly: package-level ones and a fresh generated one
func wlUnits(g *hx.Gen, k int) workload {
	gen := g.GenUnits()
	type c struct {
		which, op int
		n         int64
		text      string
	}
	cs := make([]c, k)
	for i := range cs {
		cs[i] = c{g.R.Intn(6), g.R.Intn(6), g.R.Int63n(1 << uint(g.R.Intn(50)+1)), unitTexts[g.R.Intn(len(unitTexts))]}
		if g.R.Intn(3) == 0 {
			cs[i].text = g.FormatUnits(gen, cs[i].n)
		}
	}
	return workload{kind: "units", build: func() ([]thunk, error) {
		defs := []*schema.UnitsDefinition{schema.UnitBytes, schema.UnitDurationNanoseconds, schema.UnitDurationSeconds,
			schema.UnitCharacters, schema.UnitPercentage, gen.Build()}
		var ts []thunk
		for _, x := range cs {
			x := x
			u := defs[x.which]
			ts = append(ts, thunk{fmt.Sprintf("units%d.%d", x.which, x.op), func() string {
				switch x.op {
				case 0:
					n, err := u.ParseInt(x.text)
					return fmt.Sprintf("ParseInt:%s:%d", class(err), n)
				case 1:
					f, err := u.ParseFloat(x.text)
					return fmt.Sprintf("ParseFloat:%s:%x", class(err), f)
				case 2:
					return u.FormatShortInt(x.n)
				case 3:
					return u.FormatLongInt(x.n)
				case 4:
					return u.FormatShortFloat(float64(x.n) / 4)
				default:
					return u.FormatLongFloat(float64(x.n) / 4)
				}
			}})
		}
		return ts, nil
	}}
}

type stepData struct {
	mu    sync.Mutex
	calls int
}

type stepInput struct {
	Name string `json:"name"`
	Size int64  `json:"size"`
}

type stepOutput struct {
	Msg string `json:"msg"`
}

// step and signal calls on one callable schema, several calls sharing run IDs
func wlSteps(g *hx.Gen, k int) workload {
	type c struct {
		signal bool
		run    int
		in     any
	}
	ins := []any{
		map[string]any{"name": "a"},
		map[string]any{"name": "b", "size": "3kB"},
		map[string]any{"size": "1MB"},
		map[string]any{"name": 5},
		map[string]any{},
		"x",
	}
	cs := make([]c, k)
	for i := range cs {
		cs[i] = c{g.R.Intn(4) == 0, g.R.Intn(3), ins[g.R.Intn(len(ins))]}
	}
	return workload{kind: "steps", build: func() ([]thunk, error) {
		input := schema.NewScopeSchema(schema.NewStructMappedObjectSchema[stepInput]("input", map[string]*schema.PropertySchema{
			"name": prop(schema.NewStringSchema(nil, nil, nil), schema.PointerTo(`"anon"`)),
			"size": prop(schema.NewIntSchema(nil, nil, schema.UnitBytes), schema.PointerTo(`"1kB"`)),
		}))
		output := schema.NewScopeSchema(schema.NewStructMappedObjectSchema[stepOutput]("output", map[string]*schema.PropertySchema{
			"msg": prop(schema.NewStringSchema(nil, nil, nil), nil),
		}))
		sigData := schema.NewScopeSchema(schema.NewObjectSchema("sig", map[string]*schema.PropertySchema{
			"size": prop(schema.NewIntSchema(nil, nil, schema.UnitBytes), schema.PointerTo(`"1B"`)),
		}))
		step := schema.NewCallableStepWithSignals[*stepData, stepInput]("hello", input,
			map[string]*schema.StepOutputSchema{"ok": schema.NewStepOutputSchema(output, nil, false)},
			map[string]schema.CallableSignal{
				"poke": schema.NewCallableSignal[*stepData, map[string]any]("poke", sigData, nil,
					func(_ context.Context, d *stepData, _ map[string]any) {
						d.mu.Lock()
						d.calls++
						d.mu.Unlock()
					}),
			}, nil, nil,
			func() *stepData { return &stepData{} },
			func(_ context.Context, d *stepData, in stepInput) (string, any) {
				d.mu.Lock()
				d.calls++
				d.mu.Unlock()
				return "ok", stepOutput{Msg: fmt.Sprintf("%s:%d", in.Name, in.Size)}
			})
		cs2 := schema.NewCallableSchema(step)
		var ts []thunk
		for _, x := range cs {
			x := x
			run := fmt.Sprintf("run%d", x.run)
			if x.signal {
				ts = append(ts, thunk{"signal", func() string {
					return "signal:" + class(cs2.CallSignal(context.Background(), run, "hello", "poke", deepCopy(x.in)))
				}})
			} else {
				ts = append(ts, thunk{"step", func() string {
					id, out, err := cs2.CallStep(context.Background(), run, "hello", deepCopy(x.in))
					if err != nil {
						return "step:err"
					}
					return "step:" + id + ":" + canonOut(out)
				}})
			}
		}
		return ts, nil
	}}
}

// ---- trial ------------------------------------------------------------------------------------

func runTrial(seed int64, trial int, maxG int, only string, sequential bool) trialRec {
	g := hx.NewGen(seed*1000003 + int64(trial))
	G := 2 + g.R.Intn(maxG-1)
	K := G * (1 + g.R.Intn(4))
	// which workload comes first differs between processes, so every kind of first use gets raced
	makers := []func(*hx.Gen, int) workload{wlGenerated, wlRebuilt, wlLibrary, wlUnits, wlMeta, wlSchema, wlSteps, wlLibrary, wlRebuilt, wlCompat, wlUnitTwins, wlLoadWhileUsing}
	var wl workload
	if only != "" {
		for {
			wl = makers[g.R.Intn(len(makers))](g, K)
			if strings.HasPrefix(wl.kind, only) {
				break
			}
		}
	} else {
		wl = makers[(int(seed%int64(len(makers)))+len(makers)+trial)%len(makers)](g, K)
	}
	rec := trialRec{Trial: trial, Kind: wl.kind, Rebuilt: wl.rebuilt, Goroutines: G, Schema: wl.ty}

	fmt.Fprintf(os.Stderr, "RACESTRESS trial %d begin\n", trial)
	conc, err := wl.build()
	if err != nil {
		// the schema cannot be described / rebuilt (outside C13): run it as built by the constructors
		rec.Note = "rebuild failed: " + err.Error()
		rec.Rebuilt = false
		t := wl.ty
		calls := valueCalls(g, t, K)
		wl = workload{kind: wl.kind + "-fallback", ty: t, build: func() ([]thunk, error) {
			s := t.Build()
			var ts []thunk
			for _, c := range calls {
				c := c
				ts = append(ts, thunk{c.op, func() string { return runOp(s, c.op, c.v.ToGo()) }})
			}
			return ts, nil
		}}
		rec.Kind = wl.kind
		conc, _ = wl.build()
	}
	// make the goroutines collide on first use: with probability 1/2 the first call of every goroutine
	// is the same call
	dup := len(conc) >= G && g.R.Intn(2) == 0
	if dup {
		for j := 1; j < G; j++ {
			conc[j] = conc[0]
		}
	}
	rec.Calls = len(conc)
	for _, t := range conc {
		rec.Ops = append(rec.Ops, t.op)
	}
	resC := make([]string, len(conc))
	if sequential { // control run: the same calls in goroutine order, one after the other
		for j := 0; j < G; j++ {
			for i := j; i < len(conc); i += G {
				resC[i] = guard(conc[i].f)
			}
		}
		G = 0
	}
	var ready, done sync.WaitGroup
	start := make(chan struct{})
	for j := 0; j < G; j++ {
		ready.Add(1)
		done.Add(1)
		go func(j int) {
			defer done.Done()
			ready.Done()
			<-start
			for i := j; i < len(conc); i += G {
				resC[i] = guard(conc[i].f)
			}
		}(j)
	}
	ready.Wait()
	close(start)
	done.Wait()

	fmt.Fprintf(os.Stderr, "RACESTRESS trial %d seq\n", trial)
	seq, err := wl.build()
	if err != nil || len(seq) != len(conc) {
		rec.Note += " second build differs"
		fmt.Fprintf(os.Stderr, "RACESTRESS trial %d end\n", trial)
		return rec
	}
	if dup {
		for j := 1; j < rec.Goroutines; j++ {
			seq[j] = seq[0]
		}
	}
	for i := range seq {
		r := guard(seq[i].f)
		if r == "panic" {
			rec.Panics++
		}
		if r != resC[i] {
			rec.Mismatch = append(rec.Mismatch, mismatch{i, seq[i].op, clip(resC[i]), clip(r)})
		}
	}
	fmt.Fprintf(os.Stderr, "RACESTRESS trial %d end\n", trial)
	return rec
}

func clip(s string) string {
	if len(s) > 400 {
		return s[:400] + "..."
	}
	return s
}

func main() {
	seed := flag.Int64("seed", 1, "process seed")
	trials := flag.Int("trials", 8, "trials in this process")
	maxG := flag.Int("maxg", 16, "maximal number of goroutines")
	only := flag.String("only", "", "only workloads whose kind has this prefix")
	sequential := flag.Bool("sequential", false, "control run: no goroutines, the same calls one after the other")
	flag.Parse()
	enc := json.NewEncoder(os.Stdout)
	for t := 0; t < *trials; t++ {
		rec := runTrial(*seed, t, *maxG, *only, *sequential)
		if err := enc.Encode(rec); err != nil {
			panic(err)
		}
	}
}
