package main

// C09: self-description is faithful. `harness describe -seed S -n N -out DIR`
//
// For every generated scope and plugin schema:
//   DESCRIBE   Go SelfSerialize                      vs model describe
//   REBUILD    Go UnserializeScope/Schema + SelfSerialize again (direct, after CBOR, after YAML,
//              through atp.Client.ReadSchema)        vs model rebuild + describe; and as an oracle
//              the second description must equal the first
//   CBORNORM   one cbor Marshal/Unmarshal            vs model cborNorm
//   U/V/S/C    the REBUILT schema on generated inputs vs the model of the ORIGINAL schema; and as
//              an oracle original and rebuilt schema must agree on every input and operation
// plus a stream of schemas that cannot describe themselves (verdict only).

import (
	"bytes"
	"context"
	"fmt"
	"io"
	"sort"
	"strings"
	"time"

	"github.com/fxamacker/cbor/v2"
	"go.flow.arcalot.io/pluginsdk/atp"
	"go.flow.arcalot.io/pluginsdk/schema"
	"gopkg.in/yaml.v3"
	"harness/hx"
)

const dsFuel = 3000

func dsDescribeCmd(a Args) {
	if a.Replay != "" {
		dsReplay(a)
		return
	}
	s := dsNewSink(a.Out)
	g := hx.NewGen(a.Seed)
	d := &dsGen{g: g, foreign: []string{"ExtA", "ExtB"}}
	n := a.N
	if a.Tier == "thorough" {
		n *= 10
	}
	dsKnownWitnesses(s)
	for _, t := range dsFixedScopes() {
		dsScopeGroupOf(s, d, t)
	}
	dsPluginGroupOf(s, d, dsFixedPlugin())
	dsPluginGroupOf(s, d, dsFixedAliasPlugin())
	for i := 0; i < n; i++ {
		switch {
		case i%7 == 6:
			dsPluginGroup(s, d)
		case i%7 == 5:
			dsUndescribableGroup(s, d)
		case i%7 == 4:
			dsScopeGroup(s, d, true)
		default:
			dsScopeGroup(s, d, false)
		}
	}
	s.close(map[string]any{"generator": g.Stats, "seed": a.Seed})
}

// dsSelfSerialize runs SelfSerialize under recover.
func dsSelfSerialize(f func() (any, error)) (res hx.Result, out any) {
	res = hx.Guard(func() hx.Result {
		v, err := f()
		if err != nil {
			return hx.ErrResult(err)
		}
		out = v
		return dsOK(v)
	})
	return
}

type dsLeg struct {
	name string
	conv func(any) (any, error)
}

func dsYAML(x any) (any, error) {
	b, err := yaml.Marshal(x)
	if err != nil {
		return nil, err
	}
	var out any
	if err := yaml.Unmarshal(b, &out); err != nil {
		return nil, err
	}
	return out, nil
}

var dsLegs = []dsLeg{
	{"direct", func(x any) (any, error) { return x, nil }},
	{"cbor", dsCBOR},
	{"yaml", dsYAML},
}

// dsStats records what a generated schema contains.
func dsStats(s *dsSink, t *dsTy) {
	t.walk(func(x *dsTy) {
		s.count("kind:" + x.T)
		if x.T == "ref" && x.NS != "" {
			s.count("feature:namespaced-ref")
		}
		if x.T == "oneOf" {
			for _, m := range x.Members {
				s.count("feature:oneof-member-" + m.Ty.T)
			}
		}
		if x.Units != nil {
			s.count("feature:units")
		}
		if x.Unenforced {
			s.count("feature:unenforced")
		}
		for _, p := range x.Props {
			if p.P.Disabled && p.P.Default != nil {
				if p.P.DisableLate {
					s.count("feature:default-disabled-after-construction")
				} else {
					s.count("feature:default-disabled-at-declaration")
				}
			}
		}
		for _, p := range x.Props {
			if p.P.Default != nil {
				s.count("feature:default")
			}
			if p.P.Disabled {
				s.count("feature:disabled")
			}
			if p.P.Disp != nil {
				s.count("feature:prop-display")
			}
			if len(p.P.RequiredIf)+len(p.P.RequiredIfNot)+len(p.P.Conflicts) > 0 {
				s.count("feature:presence-rule")
			}
		}
	})
}

// dsScopeGroup: one generated scope through the whole C09 chain.
func dsScopeGroup(s *dsSink, d *dsGen, ns bool) {
	dsScopeGroupOf(s, d, d.scope(ns))
}

// dsFixedScopes are hand-written scopes every run goes through: a defaulted property that is
// disabled - at declaration, and after the scope had been built - next to enabled ones.
func dsFixedScopes() []*dsTy {
	str := func() *dsTy { return &dsTy{T: "str"} }
	mk := func(late bool, reason *string) *dsTy {
		return &dsTy{T: "scope", Root: "A", Objs: []dsNamedObj{{"A", &dsTy{T: "obj", ID: "A", Props: []dsNamedProp{
			{"a", &dsProp{Ty: str(), Default: hx.MkDefault("\"x\""), Disabled: true, DisableLate: late, DisabledReason: reason}},
			{"b", &dsProp{Ty: str()}},
			{"n", &dsProp{Ty: &dsTy{T: "int"}, Default: hx.MkDefault("5")}},
			{"sub", &dsProp{Ty: &dsTy{T: "ref", ID: "B"}}},
		}}}, {"B", &dsTy{T: "obj", ID: "B", Props: []dsNamedProp{
			{"c", &dsProp{Ty: &dsTy{T: "bool"}, Default: hx.MkDefault("true"), Disabled: true, DisableLate: late}},
			{"d", &dsProp{Ty: str()}},
		}}}}}
	}
	// references into another namespace in every position (bound to an older provider first)
	nsAll := &dsTy{T: "scope", Root: "N", Objs: []dsNamedObj{{"N", &dsTy{T: "obj", ID: "N", Props: append(dsNsProps("M"), dsNamedProp{"s", &dsProp{Ty: str()}})}},
		{"M", &dsTy{T: "obj", ID: "M", Props: []dsNamedProp{{"w", &dsProp{Ty: str()}}, {"u", &dsProp{Ty: &dsTy{T: "int"}}}}}}}}
	return []*dsTy{mk(false, nil), mk(true, nil), mk(true, hx.StrP("switched off")), mk(false, hx.StrP("switched off")), nsAll}
}

func dsScopeGroupOf(s *dsSink, d *dsGen, t *dsTy) {
	hasNS := false
	t.walk(func(x *dsTy) {
		if x.T == "ref" && x.NS != "" {
			hasNS = true
		}
	})
	dsStats(s, t)
	var orig *schema.ScopeSchema
	built := hx.Guard(func() hx.Result { orig = t.buildScope(); return hx.Result{R: "ok"} })
	if built.R != "ok" {
		s.count("skipped:constructor-panic")
		return
	}
	res, desc := dsSelfSerialize(orig.SelfSerialize)
	id0 := s.emit(dsCase{Op: "DESCRIBE", DSchema: t, Ext: dsExtOf(dsStringsOf(t)), Note: "scope"}, res)
	if res.R != "ok" {
		s.finding(dsFinding{Prop: "C09", What: "a scope built through the constructors cannot describe itself: " + res.Msg, Cases: []int{id0}, Schema: t})
		return
	}
	first := hx.Canon(hx.Enc(desc))
	var foreign *schema.ScopeSchema
	if hasNS {
		// the original has a history: it was bound to an older provider of the namespace first and
		// is re-bound to the current one; the rebuilt copies only ever see the current one
		foreign = dsForeignScope().buildScope()
		older := dsForeignScopeV1().buildScope()
		rebound := hx.Guard(func() hx.Result {
			orig.ApplyNamespace(older.Objects(), dsForeignNS)
			orig.ApplyNamespace(foreign.Objects(), dsForeignNS)
			if err := orig.ValidateReferences(); err != nil {
				return hx.ErrResult(err)
			}
			return hx.Result{R: "ok"}
		})
		if rebound.R != "ok" {
			s.finding(dsFinding{Prop: "C09", What: "a scope with namespaced references cannot be bound to its namespace: " + rebound.R + " " + rebound.Msg, Cases: []int{id0}, Schema: t})
			return
		}
		s.count("feature:rebound-namespace")
	}
	for _, leg := range dsLegs {
		w, err := leg.conv(desc)
		if err != nil {
			s.finding(dsFinding{Prop: "C09", What: "description does not survive " + leg.name + ": " + err.Error(), Cases: []int{id0}, Schema: t})
			continue
		}
		wv := hx.Enc(w)
		if leg.name == "cbor" {
			s.emit(dsCase{Op: "CBORNORM", V: hx.Enc(desc), Note: "scope description"}, hx.Result{R: "ok", V: wv})
		}
		mode := "scope"
		if hasNS {
			mode = "rawscope" // UnserializeScope rejects references into other namespaces by design
			r := hx.Guard(func() hx.Result {
				if _, err := schema.UnserializeScope(w); err != nil {
					return hx.ErrResult(err)
				}
				return hx.Result{R: "ok"}
			})
			s.emit(dsCase{Op: "REBUILD", Mode: "scope", V: wv, Ext: dsExtOf(wv), JD: dsJD(wv), Fuel: dsFuel, Note: leg.name + ":namespaced"}, r)
			if r.R != "err" {
				s.finding(dsFinding{Prop: "C10", What: "UnserializeScope returned a scope with references it cannot link (" + r.R + ")", Schema: t})
			}
		}
		var rebuilt *schema.ScopeSchema
		r := hx.Guard(func() hx.Result {
			var sc *schema.ScopeSchema
			if hasNS {
				x, err := schema.DescribeScope().Unserialize(w)
				if err != nil {
					return hx.ErrResult(err)
				}
				sc = x.(*schema.ScopeSchema)
			} else {
				var err error
				if sc, err = schema.UnserializeScope(w); err != nil {
					return hx.ErrResult(err)
				}
			}
			again, err := sc.SelfSerialize()
			if err != nil {
				return hx.Result{R: "err", Msg: "second SelfSerialize: " + err.Error()}
			}
			rebuilt = sc
			return dsOK(again)
		})
		id1 := s.emit(dsCase{Op: "REBUILD", Mode: mode, V: wv, Ext: dsExtOf(wv), JD: dsJD(wv), Fuel: dsFuel, Note: leg.name}, r)
		if r.R != "ok" {
			s.finding(dsFinding{Prop: "C09", What: "description is not accepted back (" + leg.name + "): " + r.R + " " + r.Msg, Cases: []int{id0, id1}, Schema: t})
			continue
		}
		second := hx.Canon(r.V)
		if leg.name == "yaml" {
			second = hx.Canon(dsPosZero(r.V))
			if second != hx.Canon(dsPosZero(hx.Enc(desc))) {
				s.finding(dsFinding{Prop: "C09", What: "describe, rebuild (yaml), describe is not a fixed point", Cases: []int{id0, id1}, Schema: t, Detail: []string{first, second}})
			}
		} else if second != first {
			s.finding(dsFinding{Prop: "C09", What: "describe, rebuild (" + leg.name + "), describe is not a fixed point", Cases: []int{id0, id1}, Schema: t, Detail: []string{first, second}})
		}
		if hasNS {
			ok := hx.Guard(func() hx.Result {
				rebuilt.ApplySelf()
				rebuilt.ApplyNamespace(foreign.Objects(), dsForeignNS)
				if err := rebuilt.ValidateReferences(); err != nil {
					return hx.ErrResult(err)
				}
				return hx.Result{R: "ok"}
			})
			if ok.R != "ok" {
				s.finding(dsFinding{Prop: "C09", What: "rebuilt scope cannot be linked like the original: " + ok.Msg, Cases: []int{id1}, Schema: t})
				continue
			}
			// the other order of "apply the namespaces yourself": the provider first, the scope itself last
			var other *schema.ScopeSchema
			rev := hx.Guard(func() hx.Result {
				x, err := schema.DescribeScope().Unserialize(w)
				if err != nil {
					return hx.ErrResult(err)
				}
				other = x.(*schema.ScopeSchema)
				other.ApplyNamespace(foreign.Objects(), dsForeignNS)
				other.ApplySelf()
				if err := other.ValidateReferences(); err != nil {
					return hx.ErrResult(err)
				}
				return hx.Result{R: "ok"}
			})
			s.count("raw-rebuild:namespace-first:" + rev.R)
			if rev.R != "ok" {
				s.finding(dsFinding{Prop: "C09", What: "a scope rebuilt from its description (" + leg.name + ") cannot be linked when the external namespace is applied before the scope itself: " + rev.R + " " + rev.Msg,
					Cases: []int{id1}, Schema: t})
			} else {
				dsBehaviour(s, d, t, orig, other, leg.name+":namespace-first", false)
			}
		}
		for _, problem := range dsLinkProblems(rebuilt) {
			s.finding(dsFinding{Prop: "C09", What: "the scope rebuilt from the description (" + leg.name + ") is not completely linked: " + problem, Cases: []int{id1}, Schema: t})
			// a loader that reports success hands out references that denote their objects (C14)
			s.finding(dsFinding{Prop: "C14", What: "the scope rebuilt from the description (" + leg.name + ") is not completely linked: " + problem, Cases: []int{id1}, Schema: t})
		}
		dsBehaviour(s, d, t, orig, rebuilt, leg.name, !hasNS)
	}
}

// dsBehaviour compares original and rebuilt schema on generated inputs, and (when withModel) the
// rebuilt schema with the model of the original.
func dsBehaviour(s *dsSink, d *dsGen, t *dsTy, orig, rebuilt schema.Type, leg string, withModel bool) {
	ft := t.forget()
	var inputs []*hx.Val
	for i := 0; i < 2; i++ {
		inputs = append(inputs, dsSafeValue(d.g, ft))
	}
	// inputs built from the structure of the schema: everything supplied, only what is required
	// supplied (so that defaults - also those of disabled properties - come into play), nothing
	inputs = append(inputs, dsCoverOpt(d.g, t, map[string]*dsTy{}, map[string]int{}, 0, 0, false),
		dsCoverOpt(d.g, t, map[string]*dsTy{}, map[string]int{}, 1, 0, true), hx.StrAny())
	inputs = append(inputs, d.g.RandomVal(0))
	cmp := func(op string, v *hx.Val, goVal any, useGo bool) (hx.Result, any) {
		arg := func() any {
			if useGo {
				return goVal
			}
			return v.ToGo()
		}
		var raw any
		ro := hx.Guard(func() hx.Result { r, _ := hx.RunOpRaw(op, orig, arg()); return r })
		rr := hx.Guard(func() hx.Result { r, out := hx.RunOpRaw(op, rebuilt, arg()); raw = out; return r })
		id := 0
		if withModel {
			id = s.emit(dsCase{Op: op, Schema: (*dsHxTy)(ft), V: v, Ext: hx.MkExt(ft, v), Fuel: 400, Note: "rebuilt:" + leg}, rr)
		}
		s.count("behaviour:" + op + ":" + rr.R)
		if !dsSame(ro, rr) {
			s.finding(dsFinding{Prop: "C09", What: "rebuilt schema (" + leg + ") behaves differently from the original in " + op, Cases: []int{id}, Schema: t, Input: v, Detail: []string{ro.JSON(), rr.JSON()}})
		}
		if rr.R == "panic" {
			s.finding(dsFinding{Prop: "C10", What: "operation " + op + " on a rebuilt schema panicked: " + rr.Msg, Cases: []int{id}, Schema: t, Input: v})
		}
		return rr, raw
	}
	for i, in := range inputs {
		ru, native := cmp("U", in, nil, false)
		cmp("C", in, nil, false)
		if i == len(inputs)-1 {
			cmp("V", in, nil, false)
			cmp("S", in, nil, false)
		}
		if ru.R == "ok" {
			nv := hx.Enc(native)
			cmp("V", nv, native, true)
			cmp("S", nv, native, true)
		}
	}
}

// ---------------------------------------------------------------------------------------------
// plugin schemas

// dsFakeServer is the plugin side of an ATP connection that only says hello.
type dsFakeServer struct{ r io.Reader }

func (f *dsFakeServer) Read(p []byte) (int, error)  { return f.r.Read(p) }
func (f *dsFakeServer) Write(p []byte) (int, error) { return len(p), nil }
func (f *dsFakeServer) Close() error                { return nil }

// dsReadSchema runs atp.Client.ReadSchema against a server sending the given schema description.
func dsReadSchema(desc any) (*schema.SchemaSchema, error) {
	return dsReadSchemaV(desc, atp.ProtocolVersion)
}

// dsReadSchemaV: the same with a hello message announcing the given protocol version (the client
// supports servers of version 1 and 3; the schema a hello carries does not depend on the version).
func dsReadSchemaV(desc any, version int64) (*schema.SchemaSchema, error) {
	b, err := cbor.Marshal(atp.HelloMessage{Version: version, Schema: desc})
	if err != nil {
		return nil, fmt.Errorf("harness: hello not encodable: %w", err)
	}
	c := atp.NewClient(&dsFakeServer{r: bytes.NewReader(b)})
	return c.ReadSchema()
}

func dsPluginGroup(s *dsSink, d *dsGen) {
	dsPluginGroupOf(s, d, d.plugin())
}

// dsFixedPlugin: steps with signal handlers only, emitters only, both, and none.
func dsFixedPlugin() *dsPlugin {
	sc := func(id string) *dsTy {
		return &dsTy{T: "scope", Root: id, Objs: []dsNamedObj{{id, &dsTy{T: "obj", ID: id, Props: []dsNamedProp{
			{"a", &dsProp{Ty: &dsTy{T: "str", Min: hx.IntP(1)}, Required: true}}, {"b", &dsProp{Ty: &dsTy{T: "int"}}}}}}}}
	}
	sig := func(id string) []dsKeyed[*dsSignal] {
		return []dsKeyed[*dsSignal]{{id, &dsSignal{ID: id, Data: sc("D" + id)}}}
	}
	out := []dsKeyed[*dsOutput]{{"success", &dsOutput{Schema: sc("Out")}}}
	refScope := func(prefix string, recursive bool) *dsTy {
		t := &dsTy{T: "scope", Root: prefix + "Root", Objs: []dsNamedObj{
			{prefix + "Root", &dsTy{T: "obj", ID: prefix + "Root", Props: []dsNamedProp{{"a", &dsProp{Ty: &dsTy{T: "str"}}}, {"n", &dsProp{Ty: &dsTy{T: "int"}}}}}},
			{prefix + "Item", &dsTy{T: "obj", ID: prefix + "Item", Props: []dsNamedProp{{"y", &dsProp{Ty: &dsTy{T: "str"}, Required: true}}, {"z", &dsProp{Ty: &dsTy{T: "bool"}}}}}}}}
		dsAddOwnRefs(t, "item", false)
		if recursive {
			dsAddOwnRefs(t, "next", true)
		}
		return t
	}
	return &dsPlugin{Steps: []dsKeyed[*dsStep]{
		{"handlers-only", &dsStep{ID: "handlers-only", Input: sc("In"), Outputs: out, Handlers: sig("recv")}},
		{"emitters-only", &dsStep{ID: "emitters-only", Input: sc("In"), Outputs: out, Emitters: sig("emit")}},
		{"both", &dsStep{ID: "both", Input: sc("In"), Outputs: out, Handlers: sig("recv"), Emitters: sig("emit")}},
		{"none", &dsStep{ID: "none", Input: sc("In"), Outputs: out}},
		{"emitters-empty-handlers", &dsStep{ID: "emitters-empty-handlers", Input: sc("In"), Outputs: out, Handlers: []dsKeyed[*dsSignal]{}, Emitters: sig("emit")}},
		// handles and emits a signal with the same ID; both data scopes hold references (one recursive)
		{"same-signal-id", &dsStep{ID: "same-signal-id", Input: sc("In"), Outputs: out,
			Handlers: []dsKeyed[*dsSignal]{{"sig", &dsSignal{ID: "sig", Data: refScope("H", false)}}},
			Emitters: []dsKeyed[*dsSignal]{{"sig", &dsSignal{ID: "sig", Data: refScope("E", true)}}}}},
	}}
}

// dsFixedAliasPlugin: step keys that differ from the step IDs - an alias of a step, and two
// generations ("copy", "copy@v1") that share the ID "copy" and have different inputs.
func dsFixedAliasPlugin() *dsPlugin {
	sc := func(id string, prop string, t *dsTy) *dsTy {
		return &dsTy{T: "scope", Root: id, Objs: []dsNamedObj{{id, &dsTy{T: "obj", ID: id, Props: []dsNamedProp{
			{prop, &dsProp{Ty: t, Required: true}}, {"note", &dsProp{Ty: &dsTy{T: "str"}}}}}}}}
	}
	out := []dsKeyed[*dsOutput]{{"success", &dsOutput{Schema: sc("Out", "done", &dsTy{T: "bool"})}}}
	copy0 := &dsStep{ID: "copy", Input: sc("In", "src", &dsTy{T: "str", Min: hx.IntP(1)}), Outputs: out}
	copy1 := &dsStep{ID: "copy", Input: sc("InV1", "count", &dsTy{T: "int", Min: hx.IntP(0)}), Outputs: out}
	move := &dsStep{ID: "move", Input: sc("InMove", "dst", &dsTy{T: "str"}), Outputs: out}
	return &dsPlugin{Steps: []dsKeyed[*dsStep]{{"copy", copy0}, {"copy@v1", copy1}, {"move", move}, {"mv", move}}}
}

// dsHelloViaServer serves the callable schema with the real ATP server and reads the schema with the
// real client.
func dsHelloViaServer(cs *schema.CallableSchema) (*schema.SchemaSchema, error) {
	toServerR, toServerW := io.Pipe()
	fromServerR, fromServerW := io.Pipe()
	ctx, cancel := context.WithCancel(context.Background())
	defer cancel()
	serverDone := make(chan struct{})
	go func() {
		defer close(serverDone)
		atp.RunATPServer(ctx, toServerR, fromServerW, cs)
	}()
	type res struct {
		s   *schema.SchemaSchema
		err error
	}
	ch := make(chan res, 1)
	client := atp.NewClient(&dsPipeChannel{r: fromServerR, w: toServerW})
	go func() {
		sc, err := client.ReadSchema()
		ch <- res{sc, err}
	}()
	var out res
	select {
	case out = <-ch:
	case <-time.After(10 * time.Second):
		out = res{nil, fmt.Errorf("harness: ReadSchema against the real server did not return within 10s")}
	}
	go func() { _ = client.Close() }()
	cancel()
	_ = toServerW.Close()
	_ = fromServerR.Close()
	select {
	case <-serverDone:
	case <-time.After(5 * time.Second):
	}
	return out.s, out.err
}

type dsPipeChannel struct {
	r io.ReadCloser
	w io.WriteCloser
}

func (c *dsPipeChannel) Read(p []byte) (int, error)  { return c.r.Read(p) }
func (c *dsPipeChannel) Write(p []byte) (int, error) { return c.w.Write(p) }
func (c *dsPipeChannel) Close() error                { _ = c.w.Close(); return c.r.Close() }

func dsPluginGroupOf(s *dsSink, d *dsGen, p *dsPlugin) {
	_, scopes := p.scopes()
	for _, sc := range scopes {
		dsStats(s, sc)
	}
	s.count("plugin:schemas")
	var orig *schema.SchemaSchema
	built := hx.Guard(func() hx.Result { orig = p.build(); return hx.Result{R: "ok"} })
	if built.R != "ok" {
		s.count("skipped:constructor-panic")
		return
	}
	res, desc := dsSelfSerialize(orig.SelfSerialize)
	id0 := s.emit(dsCase{Op: "DESCRIBE", DPlugin: p, Ext: dsExtOf(dsStringsOf(p)), Note: "plugin"}, res)
	if res.R != "ok" {
		s.finding(dsFinding{Prop: "C09", What: "a plugin schema built through the constructors cannot describe itself: " + res.Msg, Cases: []int{id0}, Schema: p})
		return
	}
	first := hx.Canon(hx.Enc(desc))
	// the same plugin as a plugin author declares it: callable steps, described by the callable schema
	var callable *schema.CallableSchema
	var callableDesc any
	if p.aliased() {
		s.count("plugin:aliased-step-keys")
	}
	cres := hx.Result{R: "skipped"}
	if !p.aliased() {
		cres = dsCallableDescribe(s, p, first, id0, &callable, &callableDesc)
	}
	_ = cres
	legs := append([]dsLeg{}, dsLegs...)
	legs = append(legs, dsLeg{"hello", dsCBOR}, dsLeg{"hello-v1", dsCBOR})
	if callableDesc != nil {
		legs = append(legs, dsLeg{"callable", func(any) (any, error) { return callableDesc, nil }},
			dsLeg{"server", func(any) (any, error) { return dsCBOR(callableDesc) }})
	}
	dsPluginLegs(s, d, p, orig, desc, first, id0, callable, legs)
}

// dsCallableDescribe: the same plugin as a callable schema must describe itself identically.
func dsCallableDescribe(s *dsSink, p *dsPlugin, first string, id0 int, callableOut **schema.CallableSchema, descOut *any) hx.Result {
	var callable *schema.CallableSchema
	var callableDesc any
	cres := hx.Guard(func() hx.Result {
		callable = p.buildCallable()
		v, err := callable.SelfSerialize()
		if err != nil {
			return hx.ErrResult(err)
		}
		callableDesc = v
		return dsOK(v)
	})
	idc := s.emit(dsCase{Op: "DESCRIBE", DPlugin: p, Ext: dsExtOf(dsStringsOf(p)), Note: "plugin:callable"}, cres)
	if cres.R != "ok" {
		s.finding(dsFinding{Prop: "C09", What: "a callable plugin schema cannot describe itself: " + cres.R + " " + cres.Msg, Cases: []int{idc}, Schema: p})
	} else if hx.Canon(cres.V) != first {
		s.finding(dsFinding{Prop: "C09", What: "the callable schema and the plain schema of the same plugin describe themselves differently", Cases: []int{id0, idc}, Schema: p,
			Detail: []string{first, hx.Canon(cres.V)}})
	}
	*callableOut, *descOut = callable, callableDesc
	return cres
}

func dsPluginLegs(s *dsSink, d *dsGen, p *dsPlugin, orig *schema.SchemaSchema, desc any, first string, id0 int, callable *schema.CallableSchema, legs []dsLeg) {
	for _, leg := range legs {
		w, err := leg.conv(desc)
		if err != nil {
			s.finding(dsFinding{Prop: "C09", What: "description does not survive " + leg.name + ": " + err.Error(), Cases: []int{id0}, Schema: p})
			continue
		}
		wv := hx.Enc(w)
		if leg.name == "cbor" {
			s.emit(dsCase{Op: "CBORNORM", V: hx.Enc(desc), Note: "plugin description"}, hx.Result{R: "ok", V: wv})
		}
		var rebuilt *schema.SchemaSchema
		r := hx.Guard(func() hx.Result {
			var sc *schema.SchemaSchema
			var err error
			if leg.name == "hello" {
				sc, err = dsReadSchema(desc)
			} else if leg.name == "hello-v1" {
				sc, err = dsReadSchemaV(desc, 1)
			} else if leg.name == "server" {
				sc, err = dsHelloViaServer(callable)
			} else {
				sc, err = schema.UnserializeSchema(w)
			}
			if err != nil {
				return hx.ErrResult(err)
			}
			again, err := sc.SelfSerialize()
			if err != nil {
				return hx.Result{R: "err", Msg: "second SelfSerialize: " + err.Error()}
			}
			rebuilt = sc
			return dsOK(again)
		})
		id1 := s.emit(dsCase{Op: "REBUILD", Mode: "schema", V: wv, Ext: dsExtOf(wv), JD: dsJD(wv), Fuel: dsFuel, Note: leg.name}, r)
		if r.R != "ok" {
			s.finding(dsFinding{Prop: "C09", What: "plugin description is not accepted back (" + leg.name + "): " + r.R + " " + r.Msg, Cases: []int{id0, id1}, Schema: p})
			continue
		}
		second, want := hx.Canon(r.V), first
		if leg.name == "yaml" {
			second, want = hx.Canon(dsPosZero(r.V)), hx.Canon(dsPosZero(hx.Enc(desc)))
		}
		if second != want {
			s.finding(dsFinding{Prop: "C09", What: "plugin schema: describe, rebuild (" + leg.name + "), describe is not a fixed point", Cases: []int{id0, id1}, Schema: p, Detail: []string{want, second}})
		}
		// every data scope of the rebuilt schema - inputs, outputs, handler data, emitter data, each on its
		// own - is completely linked: ValidateReferences is nil, every reference is ready
		for k, rst := range rebuilt.StepsValue {
			check := func(label string, sc schema.Type) {
				for _, problem := range dsLinkProblems(sc) {
					s.finding(dsFinding{Prop: "C09", What: "the schema rebuilt from the description (" + leg.name + ") is not completely linked: " + label + " of step " + k + ": " + problem,
						Cases: []int{id1}, Schema: p})
					s.finding(dsFinding{Prop: "C14", What: "the schema rebuilt from the description (" + leg.name + ") is not completely linked: " + label + " of step " + k + ": " + problem,
						Cases: []int{id1}, Schema: p})
				}
			}
			check("input", rst.InputValue)
			for ok, o := range rst.OutputsValue {
				check("output "+ok, o.SchemaValue)
			}
			for hk, h := range rst.SignalHandlersValue {
				check("data of signal handler "+hk, h.DataSchemaValue)
			}
			for ek, e := range rst.SignalEmittersValue {
				check("data of signal emitter "+ek, e.DataSchemaValue)
			}
		}
		// the rebuilt schema has the steps of the original under the same KEYS (a key need not be the ID)
		if len(rebuilt.StepsValue) != len(p.Steps) {
			var keys []string
			for k := range rebuilt.StepsValue {
				keys = append(keys, k)
			}
			sort.Strings(keys)
			s.finding(dsFinding{Prop: "C09", What: fmt.Sprintf("the schema rebuilt from the description (%s) has %d steps %v, the original %d", leg.name, len(keys), keys, len(p.Steps)),
				Cases: []int{id0, id1}, Schema: p})
		}
		// behaviour of every data scope, original vs rebuilt, step by step (by key)
		for _, st := range p.Steps {
			os, rs := orig.StepsValue[st.Key], rebuilt.StepsValue[st.Key]
			if rs == nil {
				s.finding(dsFinding{Prop: "C09", What: "the schema rebuilt from the description (" + leg.name + ") lost step " + st.Key, Cases: []int{id1}, Schema: p})
				continue
			}
			if rs.ID() != st.V.ID {
				s.finding(dsFinding{Prop: "C09", What: fmt.Sprintf("the step under key %s has ID %s in the rebuilt schema (%s), %s in the original", st.Key, rs.ID(), leg.name, st.V.ID), Cases: []int{id1}, Schema: p})
			}
			dsBehaviour(s, d, st.V.Input, os.InputValue, rs.InputValue, leg.name+":input", true)
			for _, o := range st.V.Outputs {
				ro := rs.OutputsValue[o.Key]
				if ro == nil || ro.SchemaValue == nil {
					s.finding(dsFinding{Prop: "C09", What: "the schema rebuilt from the description (" + leg.name + ") lost output " + o.Key + " of step " + st.Key, Cases: []int{id1}, Schema: p})
					continue
				}
				dsBehaviour(s, d, o.V.Schema, os.OutputsValue[o.Key].SchemaValue, ro.SchemaValue, leg.name+":output", true)
			}
			if len(rs.OutputsValue) != len(st.V.Outputs) {
				s.finding(dsFinding{Prop: "C09", What: fmt.Sprintf("step %s has %d outputs in the rebuilt schema (%s), %d in the original", st.Key, len(rs.OutputsValue), leg.name, len(st.V.Outputs)), Cases: []int{id1}, Schema: p})
			}
			// every signal handler and every signal emitter of the ORIGINAL step must be there, with a
			// data schema that behaves like the original's
			for _, h := range st.V.Handlers {
				rh := rs.SignalHandlersValue[h.Key]
				if rh == nil || rh.DataSchemaValue == nil {
					s.finding(dsFinding{Prop: "C09", What: "the schema rebuilt from the description (" + leg.name + ") lost signal handler " + h.Key + " of step " + st.Key, Cases: []int{id1}, Schema: p})
					continue
				}
				dsBehaviour(s, d, h.V.Data, os.SignalHandlersValue[h.Key].DataSchemaValue, rh.DataSchemaValue, leg.name+":handler", true)
			}
			for _, e := range st.V.Emitters {
				re := rs.SignalEmittersValue[e.Key]
				if re == nil || re.DataSchemaValue == nil {
					s.finding(dsFinding{Prop: "C09", What: "the schema rebuilt from the description (" + leg.name + ") lost signal emitter " + e.Key + " of step " + st.Key, Cases: []int{id1}, Schema: p})
					continue
				}
				dsBehaviour(s, d, e.V.Data, os.SignalEmittersValue[e.Key].DataSchemaValue, re.DataSchemaValue, leg.name+":emitter", true)
			}
			if len(rs.SignalHandlersValue) != len(st.V.Handlers) || len(rs.SignalEmittersValue) != len(st.V.Emitters) {
				s.finding(dsFinding{Prop: "C09", What: fmt.Sprintf("the schema rebuilt from the description (%s) has %d handlers and %d emitters in step %s, the original %d and %d",
					leg.name, len(rs.SignalHandlersValue), len(rs.SignalEmittersValue), st.Key, len(st.V.Handlers), len(st.V.Emitters)), Cases: []int{id1}, Schema: p})
			}
		}
	}
}

// ---------------------------------------------------------------------------------------------
// schemas that cannot describe themselves: the verdict of SelfSerialize vs the model's `describable`

func dsUndescribableGroup(s *dsSink, d *dsGen) {
	t := d.scope(false)
	var objs []*dsTy
	var lists, maps, strs, enums, disps, units []*dsTy
	var props []*dsProp
	t.walk(func(x *dsTy) {
		switch x.T {
		case "obj":
			objs = append(objs, x)
			for _, p := range x.Props {
				props = append(props, p.P)
			}
		case "list":
			lists = append(lists, x)
		case "map":
			maps = append(maps, x)
		case "str":
			strs = append(strs, x)
		case "enumInt", "enumStr":
			enums = append(enums, x)
		case "ref":
			disps = append(disps, x)
		}
		if x.Units != nil && (x.T == "int" || x.T == "float" || x.T == "enumInt") {
			units = append(units, x)
		}
	})
	pick := func(n int) int { return d.g.R.Intn(n) }
	fault := ""
	for try := 0; try < 12 && fault == ""; try++ {
		switch pick(9) {
		case 0:
			if len(lists) > 0 {
				lists[pick(len(lists))].Min = hx.IntP(-1)
				fault = "negative list minimum"
			}
		case 1:
			if len(maps) > 0 {
				maps[pick(len(maps))].Max = hx.IntP(-2)
				fault = "negative map maximum"
			}
		case 2:
			if len(strs) > 0 {
				strs[pick(len(strs))].Min = hx.IntP(-3)
				fault = "negative string minimum"
			}
		case 3:
			if len(maps) > 0 {
				m := maps[pick(len(maps))]
				m.K = &dsTy{T: "enumStr", DVals: []dsVal{{"a", &dsDisp{}}}}
				fault = "enum-keyed map"
			}
		case 4:
			if len(props) > 0 {
				props[pick(len(props))].Disp = &dsDisp{Name: hx.StrP("")}
				fault = "empty display name"
			}
		case 5:
			if len(enums) > 0 {
				enums[pick(len(enums))].DVals = nil
				fault = "empty enum"
			}
		case 6:
			if len(objs) > 0 {
				o := objs[pick(len(objs))]
				if len(o.Props) > 0 {
					i := pick(len(o.Props))
					old := o.Props[i].Name
					used := false
					t.walk(func(x *dsTy) {
						if x.T == "oneOf" && x.Disc == old {
							used = true
						}
					})
					if !used {
						o.Props[i].Name = ""
						fault = "empty property name"
					}
				}
			}
		case 7:
			// rename the root object to an ID outside the ID pattern, everywhere
			old, bad := t.Root, "bad id!"
			t.Root = bad
			t.walk(func(x *dsTy) {
				if x.T == "ref" && x.ID == old && x.NS == "" {
					x.ID = bad
				}
			})
			for i := range t.Objs {
				if t.Objs[i].ID == old {
					t.Objs[i].ID = bad
					t.Objs[i].Ty.ID = bad
				}
			}
			fault = "object ID outside the ID pattern"
		case 8:
			if len(units) > 0 {
				u := units[pick(len(units))]
				c := *u.Units
				c.Mults = append(append([]hx.UnitMult{}, c.Mults...), hx.UnitMult{M: int64(-pick(2)), Names: [4]string{"zq", "zqs", "zqlong", "zqlongs"}})
				u.Units = &c
				fault = "non-positive unit multiplier"
			}
		}
	}
	if fault == "" {
		return
	}
	s.count("undescribable:" + fault)
	var orig *schema.ScopeSchema
	built := hx.Guard(func() hx.Result { orig = t.buildScope(); return hx.Result{R: "ok"} })
	if built.R != "ok" {
		s.count("skipped:constructor-panic")
		return
	}
	res, _ := dsSelfSerialize(orig.SelfSerialize)
	id := s.emit(dsCase{Op: "DESCRIBE", DSchema: t, Ext: dsExtOf(dsStringsOf(t)), Note: "undescribable: " + fault}, res)
	if res.R == "panic" {
		s.finding(dsFinding{Prop: "C09", What: "SelfSerialize panicked: " + res.Msg, Cases: []int{id}, Schema: t})
	}
	if res.R == "ok" {
		s.count("undescribable-but-accepted:" + fault)
	}
}

// ---------------------------------------------------------------------------------------------
// known findings: replayed on every run, reported in stats, never as findings

func dsKnownWitnesses(s *dsSink) {
	record := func(id, name string, holds bool, msg string) {
		if holds {
			s.count("known-finding-reproduced:" + id)
			s.finding(dsFinding{Prop: "C09", What: "known finding " + id + ": " + name, Detail: []string{msg}})
		} else {
			s.count("known-finding-NOT-reproduced:" + id)
		}
	}
	prop := func(t schema.Type) map[string]*schema.PropertySchema {
		return map[string]*schema.PropertySchema{"p": schema.NewPropertySchema(t, nil, false, nil, nil, nil, nil, nil)}
	}
	// D27: an enum value with a nil display pointer
	r, _ := dsSelfSerialize(schema.NewScopeSchema(schema.NewObjectSchema("A", prop(schema.NewIntEnumSchema(map[int64]*schema.DisplayValue{-2: nil}, nil)))).SelfSerialize)
	record("D27", "a scope with an enum value whose display pointer is nil (NewIntEnumSchema(map[int64]*DisplayValue{-2: nil}, nil)) cannot self-serialize",
		r.R == "err" && strings.Contains(r.Msg, "Nil value"), r.Msg)
	// D26: typed container schemas
	r, _ = dsSelfSerialize(schema.NewScopeSchema(schema.NewObjectSchema("A", prop(schema.NewTypedListSchema[string](schema.NewStringSchema(nil, nil, nil), nil, nil)))).SelfSerialize)
	record("D26", "a scope with a typed list schema (NewTypedListSchema[string]) cannot self-serialize", r.R == "err", r.Msg)
}
