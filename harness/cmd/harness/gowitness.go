package main

// Witnesses that need Go struct types (no model case) and may kill the process (stack exhaustion):
// each runs in a child process of its own under a watchdog. Regression witnesses of repaired
// defects, run once per `typed` stream.

import (
	"bytes"
	"fmt"
	"os"
	"os/exec"
	"runtime/debug"
	"strings"
	"time"

	"go.flow.arcalot.io/pluginsdk/schema"

	"harness/hx"
)

func init() {
	register("go-witness", func(a Args) { goWitnessChild() })
}

type gwRoot struct {
	Tree map[string]any `json:"tree"`
	N    int64          `json:"n"`
}

// gwRecursiveBelowStruct: a struct-mapped object with an unset, non-pointer property that refers
// to a map-backed object which refers to itself directly (variant 0), through another object
// (variant 1) or through an inline object (variant 2); with and without declared defaults.
type gwNode struct {
	Next  *gwNode `json:"next"`
	Other any     `json:"other"`
	V     int64   `json:"v"`
}

// gwRecursiveStruct: a struct type that contains itself through a pointer (variant 3) or an interface
// field (variant 4), mapped by NewStructMappedObjectSchema[gwNode] (non-pointer T), with or without a
// default on v: an input that leaves the recursive field unset must come back with that field nil.
func gwRecursiveStruct(variant int, withDefaults bool) (string, error) {
	p := func(t schema.Type, def *string) *schema.PropertySchema {
		return schema.NewPropertySchema(t, nil, false, nil, nil, nil, def, nil)
	}
	var d *string
	if withDefaults {
		five := "5"
		d = &five
	}
	props := map[string]*schema.PropertySchema{"v": p(schema.NewIntSchema(nil, nil, nil), d)}
	if variant == 3 {
		props["next"] = p(schema.NewRefSchema("Node", nil), nil)
	} else {
		props["other"] = p(schema.NewRefSchema("Node", nil), nil)
	}
	sc := schema.NewScopeSchema(schema.NewStructMappedObjectSchema[gwNode]("Node", props))
	var out []string
	for _, in := range []any{map[string]any{}, map[string]any{"v": 1}} {
		v, err := sc.Unserialize(in)
		if err != nil {
			return "", fmt.Errorf("a valid input %v is rejected: %w", in, err)
		}
		n, ok := v.(gwNode)
		if !ok || n.Next != nil || n.Other != nil {
			return "", fmt.Errorf("input %v: the recursive field that was not given is not nil: %#v", in, v)
		}
		if err := sc.Validate(v); err != nil {
			return "", fmt.Errorf("Validate rejects what Unserialize returned for %v: %w", in, err)
		}
		if _, err := sc.Serialize(v); err != nil {
			return "", fmt.Errorf("Serialize rejects what Unserialize returned for %v: %w", in, err)
		}
		out = append(out, fmt.Sprint(v))
	}
	if variant == 3 {
		v, err := sc.Unserialize(map[string]any{"v": 1, "next": map[string]any{"v": 2, "next": map[string]any{}}})
		if err != nil {
			return "", fmt.Errorf("a nested valid input is rejected: %w", err)
		}
		n := v.(gwNode)
		if n.Next == nil || n.Next.V != 2 || n.Next.Next == nil || n.Next.Next.Next != nil {
			return "", fmt.Errorf("nested input: wrong value %#v", v)
		}
	}
	return strings.Join(out, " | "), nil
}

func gwRecursiveBelowStruct(variant int, withDefaults bool) (string, error) {
	if variant >= 3 {
		return gwRecursiveStruct(variant, withDefaults)
	}
	p := func(t schema.Type, def *string) *schema.PropertySchema {
		return schema.NewPropertySchema(t, nil, false, nil, nil, nil, def, nil)
	}
	var d *string
	if withDefaults {
		five := "5"
		d = &five
	}
	nodeProps := map[string]*schema.PropertySchema{"v": p(schema.NewIntSchema(nil, nil, nil), d)}
	objs := []*schema.ObjectSchema{}
	switch variant {
	case 0:
		nodeProps["next"] = p(schema.NewRefSchema("node", nil), nil)
	case 1:
		nodeProps["next"] = p(schema.NewRefSchema("other", nil), nil)
		objs = append(objs, schema.NewObjectSchema("other", map[string]*schema.PropertySchema{
			"back": p(schema.NewRefSchema("node", nil), nil), "o": p(schema.NewIntSchema(nil, nil, nil), d)}))
	default:
		nodeProps["inner"] = p(schema.NewObjectSchema("inl", map[string]*schema.PropertySchema{
			"w": p(schema.NewIntSchema(nil, nil, nil), d), "back": p(schema.NewRefSchema("node", nil), nil)}), nil)
	}
	objs = append(objs, schema.NewObjectSchema("node", nodeProps))
	root := schema.NewStructMappedObjectSchema[gwRoot]("root", map[string]*schema.PropertySchema{
		"tree": p(schema.NewRefSchema("node", nil), nil),
		"n":    p(schema.NewIntSchema(nil, nil, nil), nil),
	})
	sc := schema.NewScopeSchema(root, objs...)
	var out []string
	for _, in := range []any{map[string]any{}, map[string]any{"n": 3}, map[string]any{"tree": map[string]any{"v": 1}}} {
		v, err := sc.Unserialize(in)
		if err != nil {
			return "", fmt.Errorf("a valid input %v is rejected: %w", in, err)
		}
		if err := sc.Validate(v); err != nil {
			return "", fmt.Errorf("Validate rejects what Unserialize returned for %v: %w", in, err)
		}
		if _, err := sc.Serialize(v); err != nil {
			return "", fmt.Errorf("Serialize rejects what Unserialize returned for %v: %w", in, err)
		}
		out = append(out, fmt.Sprint(v))
	}
	return strings.Join(out, " | "), nil
}

type gwOptional struct {
	S string   `json:"s"`
	N int64    `json:"n"`
	L []string `json:"l"`
}

// groupStructZeroWitness: the recorded C01 finding (known finding, replayed on every run): an
// OPTIONAL property with a lower bound mapped to a non-pointer struct field. Unserialize of an input
// that omits it succeeds and leaves the field at its zero value; Validate and Serialize of that very
// result then reject it, because an unset non-pointer field reads as set to its zero value.
func groupStructZeroWitness(s *sink) {
	one := int64(1)
	opt := func(t schema.Type) *schema.PropertySchema {
		return schema.NewPropertySchema(t, nil, false, nil, nil, nil, nil, nil)
	}
	type w struct {
		name string
		prop string
		t    schema.Type
	}
	for _, c := range []w{
		{"string with a minimal length", "s", schema.NewStringSchema(&one, nil, nil)},
		{"integer with a minimum", "n", schema.NewIntSchema(&one, nil, nil)},
		{"list with a minimal size", "l", schema.NewListSchema(schema.NewStringSchema(nil, nil, nil), &one, nil)},
	} {
		obj := schema.NewStructMappedObjectSchema[gwOptional]("Opt", map[string]*schema.PropertySchema{c.prop: opt(c.t)})
		r := hx.Guard(func() hx.Result {
			v, err := obj.Unserialize(map[string]any{})
			if err != nil {
				return hx.Result{R: "err", Msg: err.Error()}
			}
			verr := obj.Validate(v)
			_, serr := obj.Serialize(v)
			if verr != nil || serr != nil {
				return hx.Result{R: "ok", Msg: fmt.Sprintf("Validate: %v; Serialize: %v", verr, serr)}
			}
			return hx.Result{R: "ok"}
		})
		s.stats["gowitness:struct-zero"]++
		switch {
		case r.R == "panic":
			s.finding(Finding{Prop: "C04", What: "struct-mapped object with an optional bounded property panicked: " + r.Msg})
		case r.R == "err":
			s.finding(Finding{Prop: "C03", What: "struct-mapped object: an input omitting an optional property is rejected", Detail: []string{c.name, r.Msg}})
		case r.Msg != "":
			s.finding(Finding{Prop: "C01", What: "the result of Unserialize fails Validate / Serialize: optional " + c.name + " on a non-pointer struct field, input {}",
				Detail: []string{"struct-optional-bounded-zero-value", r.Msg}})
		}
	}
}

type GwEmbInner struct {
	X int64  `json:"x"`
	Y string `json:"y"`
	Z int64  `json:"z"`
}

type gwEmbOuter struct {
	*GwEmbInner
	N int64 `json:"n"`
}

type gwHidden struct {
	Owner string `json:"owner"`
}

type gwFile struct {
	*gwHidden
	Name string `json:"name"`
}

type gwDisabled struct {
	Old string `json:"old"`
	N   int64  `json:"n"`
}

// groupStructRepairWitnesses: regression witnesses of two repaired defects of struct mapping
// (c874f9b: fields promoted through an embedded struct pointer; e915fbc: the zero value of a
// disabled property on a non-pointer field was serialized and then refused by Unserialize).
type gwDriver struct {
	Retries int64 `json:"retries"`
	Pool    int64 `json:"pool"`
}

type gwConn struct {
	Driver gwDriver `json:"driver"`
	Host   *string  `json:"host"`
}

type gwService struct {
	Connection gwConn `json:"connection"`
	Replicas   *int64 `json:"replicas"`
}

// gwNamespacedDefaults: the defaults of sub-objects are filled in through references into ANOTHER namespace
// as well, and an object is "the same object" only if it is the same schema value: two scopes may both call
// an object `Connection`. The application's Connection holds (in a plain struct field) a reference to the
// library's Connection, whose defaults do not have valid zero values; the input leaves everything out.
func gwNamespacedDefaults(libID string, wrap string) hx.Result {
	opt := func(t schema.Type, def *string) *schema.PropertySchema {
		return schema.NewPropertySchema(t, nil, false, nil, nil, nil, def, nil)
	}
	three, eight := "3", "8"
	lib := schema.NewScopeSchema(schema.NewStructMappedObjectSchema[gwDriver](libID, map[string]*schema.PropertySchema{
		"retries": opt(schema.NewIntSchema(sp(int64(1)), nil, nil), &three),
		"pool":    opt(schema.NewIntSchema(sp(int64(1)), nil, nil), &eight)}))
	app := schema.NewScopeSchema(
		schema.NewStructMappedObjectSchema[gwService]("Service", map[string]*schema.PropertySchema{
			"connection": opt(schema.NewRefSchema("Connection", nil), nil),
			"replicas":   opt(schema.NewIntSchema(nil, nil, nil), nil)}),
		schema.NewStructMappedObjectSchema[gwConn]("Connection", map[string]*schema.PropertySchema{
			"driver": opt(schema.NewNamespacedRefSchema(libID, "lib", nil), nil),
			"host":   opt(schema.NewStringSchema(nil, nil, nil), nil)}))
	app.ApplyNamespace(lib.Objects(), "lib")
	if err := app.ValidateReferences(); err != nil {
		return hx.Result{R: "err", Msg: "references not linked: " + err.Error()}
	}
	var sch schema.Type = app
	var in any = map[string]any{}
	want := gwService{Connection: gwConn{Driver: gwDriver{Retries: 3, Pool: 8}}}
	unwrap := func(v any) any { return v }
	switch wrap {
	case "list":
		sch = schema.NewListSchema(app, nil, nil)
		in = []any{map[string]any{}}
		unwrap = func(v any) any {
			if l, ok := v.([]gwService); ok && len(l) == 1 {
				return l[0]
			}
			return v
		}
	case "replicas":
		in = map[string]any{"replicas": 3}
		n := int64(3)
		want.Replicas = &n
	}
	v, err := sch.Unserialize(in)
	if err != nil {
		return hx.Result{R: "err", Msg: "valid input rejected: " + err.Error()}
	}
	got, ok := unwrap(v).(gwService)
	if !ok || got.Connection != want.Connection || (got.Replicas == nil) != (want.Replicas == nil) {
		return hx.Result{R: "err", Msg: fmt.Sprintf("the defaults of the library's object were not filled in: got %+v, want %+v", unwrap(v), want)}
	}
	if err := sch.Validate(v); err != nil {
		return hx.Result{R: "err", Msg: "Validate rejects what Unserialize returned: " + err.Error()}
	}
	w, err := sch.Serialize(v)
	if err != nil {
		return hx.Result{R: "err", Msg: "Serialize rejects what Unserialize returned: " + err.Error()}
	}
	v2, err := sch.Unserialize(w)
	if err != nil {
		return hx.Result{R: "err", Msg: "Unserialize rejects the serialized form: " + err.Error()}
	}
	if g2, ok := unwrap(v2).(gwService); !ok || g2.Connection != got.Connection {
		return hx.Result{R: "err", Msg: fmt.Sprintf("Unserialize(Serialize(v)) = %+v differs from v = %+v", v2, v)}
	}
	return hx.Result{R: "ok"}
}

type gwNote string

type gwInvoice struct {
	Number  int64  `json:"number"`
	Comment string `json:"comment"`
}

type gwTicket struct {
	Number  int64  `json:"number"`
	Comment gwNote `json:"comment"`
}

// gwSharedProperty: ONE property value (treat-empty-as-default, a string with a minimum length) declared in two
// struct-mapped objects whose fields have different Go types of the same kind (string and a defined string type).
// Each object is a function of its own declaration: what the other one was used for before must not show.
func gwSharedProperty(first string) hx.Result {
	shared := schema.NewPropertySchema(schema.NewStringSchema(sp(int64(1)), nil, nil), nil, false, nil, nil, nil, nil, nil).TreatEmptyAsDefaultValue()
	num := func() *schema.PropertySchema {
		return schema.NewPropertySchema(schema.NewIntSchema(nil, nil, nil), nil, true, nil, nil, nil, nil, nil)
	}
	invoice := schema.NewStructMappedObjectSchema[gwInvoice]("invoice", map[string]*schema.PropertySchema{"number": num(), "comment": shared})
	ticket := schema.NewStructMappedObjectSchema[gwTicket]("ticket", map[string]*schema.PropertySchema{"number": num(), "comment": shared})
	use := func(name string) error {
		var o *schema.ObjectSchema
		var empty, full any
		if name == "invoice" {
			o, empty, full = invoice, gwInvoice{Number: 7}, gwInvoice{Number: 7, Comment: "paid"}
		} else {
			o, empty, full = ticket, gwTicket{Number: 7}, gwTicket{Number: 7, Comment: "open"}
		}
		for _, v := range []any{full, empty, full, empty} {
			if err := o.Validate(v); err != nil {
				return fmt.Errorf("%s: Validate(%+v): %w", name, v, err)
			}
			w, err := o.Serialize(v)
			if err != nil {
				return fmt.Errorf("%s: Serialize(%+v): %w", name, v, err)
			}
			m, _ := w.(map[string]any)
			if _, has := m["comment"]; has != (v == full) {
				return fmt.Errorf("%s: Serialize(%+v) = %v: the empty comment counts as not set, a given one is written", name, v, w)
			}
			back, err := o.Unserialize(w)
			if err != nil || back != v {
				return fmt.Errorf("%s: Unserialize(Serialize(%+v)) = %+v, %v", name, v, back, err)
			}
		}
		return nil
	}
	order := []string{"invoice", "ticket", "invoice"}
	if first == "ticket" {
		order = []string{"ticket", "invoice", "ticket"}
	}
	for _, name := range order {
		if err := use(name); err != nil {
			return hx.Result{R: "err", Msg: "used in the order " + fmt.Sprint(order) + ": " + err.Error()}
		}
	}
	return hx.Result{R: "ok"}
}

func groupStructRepairWitnesses(s *sink) {
	opt := func(t schema.Type) *schema.PropertySchema {
		return schema.NewPropertySchema(t, nil, false, nil, nil, nil, nil, nil)
	}
	for _, first := range []string{"invoice", "ticket"} {
		first := first
		r := hx.Guard(func() hx.Result { return gwSharedProperty(first) })
		s.stats["gowitness:shared-property"]++
		what := "one treat-empty-as-default property value declared in two struct-mapped objects with fields of different Go types"
		if r.R == "panic" {
			s.finding(Finding{Prop: "C04", What: what + " panicked: " + r.Msg})
		} else if r.R != "ok" {
			s.finding(Finding{Prop: "C12", What: what + ": the answer of one object depends on the calls made on the other: " + r.Msg})
		}
	}
	for _, libID := range []string{"Connection", "DriverConnection", "Service"} {
		for _, wrap := range []string{"", "list", "replicas"} {
			libID, wrap := libID, wrap
			r := hx.Guard(func() hx.Result { return gwNamespacedDefaults(libID, wrap) })
			s.stats["gowitness:namespaced-defaults"]++
			what := fmt.Sprintf("struct-mapped objects across namespaces (library object %q referenced from the application's object \"Connection\", %s)", libID, wrap)
			if r.R == "panic" {
				s.finding(Finding{Prop: "C04", What: what + " panicked: " + r.Msg})
			} else if r.R != "ok" {
				s.finding(Finding{Prop: "C01", What: what + ": " + r.Msg})
				s.finding(Finding{Prop: "C03", What: what + ": " + r.Msg})
				s.finding(Finding{Prop: "C14", What: what + ": " + r.Msg})
			}
		}
	}
	r := hx.Guard(func() hx.Result {
		o := schema.NewStructMappedObjectSchema[gwEmbOuter]("Outer", map[string]*schema.PropertySchema{
			"x": opt(schema.NewIntSchema(nil, nil, nil)), "n": opt(schema.NewIntSchema(nil, nil, nil))})
		v, err := o.Unserialize(map[string]any{"x": 1, "n": 2})
		if err != nil {
			return hx.Result{R: "err", Msg: "valid input rejected: " + err.Error()}
		}
		if out, ok := v.(gwEmbOuter); !ok || out.GwEmbInner == nil || out.X != 1 || out.N != 2 {
			return hx.Result{R: "err", Msg: fmt.Sprintf("wrong value %#v", v)}
		}
		for _, nv := range []any{gwEmbOuter{N: 1}, v, gwEmbOuter{GwEmbInner: &GwEmbInner{X: 4}, N: 3}} {
			if err := o.Validate(nv); err != nil {
				return hx.Result{R: "err", Msg: "Validate: " + err.Error()}
			}
			w, err := o.Serialize(nv)
			if err != nil {
				return hx.Result{R: "err", Msg: "Serialize: " + err.Error()}
			}
			if _, err := o.Unserialize(w); err != nil {
				return hx.Result{R: "err", Msg: "Unserialize(Serialize(v)): " + err.Error()}
			}
		}
		// several properties promoted through the SAME embedded pointer: every one of them survives, whatever
		// order the input map is walked in
		o3 := schema.NewStructMappedObjectSchema[gwEmbOuter]("Outer3", map[string]*schema.PropertySchema{
			"x": opt(schema.NewIntSchema(nil, nil, nil)), "y": opt(schema.NewStringSchema(sp(int64(1)), nil, nil)),
			"z": opt(schema.NewIntSchema(nil, nil, nil)), "n": opt(schema.NewIntSchema(nil, nil, nil))})
		for round := 0; round < 8; round++ {
			in := map[string]any{"x": 1, "y": "ops", "z": 3, "n": 2}
			v3, err := o3.Unserialize(in)
			if err != nil {
				return hx.Result{R: "err", Msg: "valid input rejected: " + err.Error()}
			}
			if out, ok := v3.(gwEmbOuter); !ok || out.GwEmbInner == nil || out.X != 1 || out.Y != "ops" || out.Z != 3 || out.N != 2 {
				return hx.Result{R: "err", Msg: fmt.Sprintf("three properties promoted through one embedded pointer: %v came back as %+v (inner %+v)", in, v3, v3.(gwEmbOuter).GwEmbInner)}
			}
			if err := o3.Validate(v3); err != nil {
				return hx.Result{R: "err", Msg: "Validate rejects what Unserialize returned: " + err.Error()}
			}
		}
		return hx.Result{R: "ok"}
	})
	// the same struct mapped through a POINTER type: Validate and Serialize only read the value they are given
	rp := hx.Guard(func() hx.Result {
		o := schema.NewStructMappedObjectSchema[*gwEmbOuter]("OuterP", map[string]*schema.PropertySchema{
			"x": opt(schema.NewIntSchema(nil, nil, nil)), "n": opt(schema.NewIntSchema(nil, nil, nil))})
		lst := schema.NewListSchema(o, nil, nil)
		v := &gwEmbOuter{N: 1}
		if err := o.Validate(v); err != nil {
			return hx.Result{R: "err", Msg: "Validate: " + err.Error()}
		}
		if v.GwEmbInner != nil {
			return hx.Result{R: "err", Msg: "MODIFIED: Validate allocated the embedded struct inside the value it was given"}
		}
		w, err := o.Serialize(v)
		if err != nil {
			return hx.Result{R: "err", Msg: "Serialize: " + err.Error()}
		}
		if v.GwEmbInner != nil {
			return hx.Result{R: "err", Msg: "MODIFIED: Serialize allocated the embedded struct inside the value it was given"}
		}
		if m, ok := w.(map[string]any); !ok || len(m) != 1 {
			return hx.Result{R: "err", Msg: fmt.Sprintf("Serialize emitted fields that are not set: %v", w)}
		}
		vs := []*gwEmbOuter{{N: 2}, {N: 3}}
		if err := lst.Validate(vs); err != nil {
			return hx.Result{R: "err", Msg: "Validate of a list: " + err.Error()}
		}
		if _, err := lst.Serialize(vs); err != nil {
			return hx.Result{R: "err", Msg: "Serialize of a list: " + err.Error()}
		}
		if vs[0].GwEmbInner != nil || vs[1].GwEmbInner != nil {
			return hx.Result{R: "err", Msg: "MODIFIED: Validate / Serialize of a list allocated embedded structs inside its items"}
		}
		return hx.Result{R: "ok"}
	})
	if rp.R == "panic" {
		s.finding(Finding{Prop: "C04", What: "struct-mapped object over a pointer to a struct with an embedded struct pointer panicked: " + rp.Msg})
	} else if rp.R != "ok" {
		prop := "C01"
		if strings.HasPrefix(rp.Msg, "MODIFIED") {
			prop = "C12"
		}
		s.finding(Finding{Prop: prop, What: "struct-mapped object over a pointer to a struct with an embedded struct pointer: " + rp.Msg})
	}
	// an embedded pointer to an UNEXPORTED struct type cannot be allocated by reflection: a property on a field
	// promoted from it is refused with an error when it is given, and reads as not set
	rh := hx.Guard(func() hx.Result {
		o := schema.NewStructMappedObjectSchema[gwFile]("File", map[string]*schema.PropertySchema{
			"owner": opt(schema.NewStringSchema(nil, nil, nil)), "name": opt(schema.NewStringSchema(nil, nil, nil))})
		if _, err := o.Unserialize(map[string]any{"owner": "ann", "name": "f"}); err == nil {
			return hx.Result{R: "err", Msg: "a field that cannot be set was accepted"}
		}
		v, err := o.Unserialize(map[string]any{"name": "f"})
		if err != nil {
			return hx.Result{R: "err", Msg: "valid input rejected: " + err.Error()}
		}
		if err := o.Validate(v); err != nil {
			return hx.Result{R: "err", Msg: "Validate: " + err.Error()}
		}
		if _, err := o.Serialize(v); err != nil {
			return hx.Result{R: "err", Msg: "Serialize: " + err.Error()}
		}
		lst := schema.NewListSchema(o, nil, nil)
		if _, err := lst.Unserialize([]any{map[string]any{"owner": "ann"}}); err == nil {
			return hx.Result{R: "err", Msg: "a field that cannot be set was accepted (list item)"}
		}
		return hx.Result{R: "ok"}
	})
	if rh.R == "panic" {
		s.finding(Finding{Prop: "C04", What: "struct-mapped object over a struct with an embedded pointer to an unexported struct panicked: " + rh.Msg})
	} else if rh.R != "ok" {
		s.finding(Finding{Prop: "C03", What: "struct-mapped object over a struct with an embedded pointer to an unexported struct: " + rh.Msg})
	}
	s.stats["gowitness:embedded"]++
	if r.R == "panic" {
		s.finding(Finding{Prop: "C04", What: "struct-mapped object over a struct with an embedded struct pointer panicked: " + r.Msg})
	} else if r.R != "ok" {
		s.finding(Finding{Prop: "C01", What: "struct-mapped object over a struct with an embedded struct pointer: " + r.Msg})
	}
	r = hx.Guard(func() hx.Result {
		o := schema.NewStructMappedObjectSchema[gwDisabled]("D", map[string]*schema.PropertySchema{
			"old": opt(schema.NewStringSchema(nil, nil, nil)).Disable("gone"), "n": opt(schema.NewIntSchema(nil, nil, nil))})
		v, err := o.Unserialize(map[string]any{"n": 1})
		if err != nil {
			return hx.Result{R: "err", Msg: "valid input rejected: " + err.Error()}
		}
		if err := o.Validate(v); err != nil {
			return hx.Result{R: "err", Msg: "result of Unserialize fails Validate: " + err.Error()}
		}
		w, err := o.Serialize(v)
		if err != nil {
			return hx.Result{R: "err", Msg: "result of Unserialize fails Serialize: " + err.Error()}
		}
		v2, err := o.Unserialize(w)
		if err != nil {
			return hx.Result{R: "err", Msg: fmt.Sprintf("Unserialize rejects the serialized form %v: %v", w, err)}
		}
		if v2 != v {
			return hx.Result{R: "err", Msg: fmt.Sprintf("Unserialize(Serialize(v)) = %#v differs from v = %#v", v2, v)}
		}
		if _, err := o.Unserialize(map[string]any{"n": 1, "old": "x"}); err == nil {
			return hx.Result{R: "err", Msg: "an input using the disabled property is accepted"}
		}
		return hx.Result{R: "ok"}
	})
	s.stats["gowitness:disabled-zero"]++
	if r.R == "panic" {
		s.finding(Finding{Prop: "C04", What: "struct-mapped object with a disabled property panicked: " + r.Msg})
	} else if r.R != "ok" {
		s.finding(Finding{Prop: "C01", What: "struct-mapped object with a disabled property on a non-pointer field: " + r.Msg})
	}
}

func goWitnessChild() {
	debug.SetMaxStack(64 << 20)
	var variant int
	var defaults bool
	if len(os.Args) > 3 {
		fmt.Sscan(os.Args[2], &variant)
		defaults = os.Args[3] == "defaults"
	}
	r := hx.Guard(func() hx.Result {
		out, err := gwRecursiveBelowStruct(variant, defaults)
		if err != nil {
			return hx.Result{R: "err", Msg: err.Error()}
		}
		return hx.Result{R: "ok", Msg: out}
	})
	fmt.Println(r.R + " " + r.Msg)
}

func groupGoWitnesses(s *sink) {
	if s.stats["gowitness:done"] > 0 {
		return
	}
	s.stats["gowitness:done"]++
	groupStructZeroWitness(s)
	groupStructRepairWitnesses(s)
	for variant := 0; variant < 5; variant++ {
		for _, defaults := range []string{"plain", "defaults"} {
			cmd := exec.Command(os.Args[0], "go-witness", fmt.Sprint(variant), defaults)
			var out bytes.Buffer
			cmd.Stdout = &out
			what := ""
			if err := cmd.Start(); err != nil {
				what = "cannot start the child: " + err.Error()
			} else {
				done := make(chan error, 1)
				go func() { done <- cmd.Wait() }()
				select {
				case err := <-done:
					if err != nil {
						what = "the process died (" + err.Error() + ")"
					}
				case <-time.After(30 * time.Second):
					_ = cmd.Process.Kill()
					what = "no answer within 30s"
				}
			}
			s.stats["gowitness:run"]++
			line := strings.TrimSpace(out.String())
			if what == "" && !strings.HasPrefix(line, "ok") {
				what = line
			}
			if what != "" {
				detail := []string{fmt.Sprintf("variant %d (%s): 0-2 root{tree: ref node} mapped to a struct with a map field, node refers back to itself; 3-4 a struct type containing itself through a pointer / interface field", variant, defaults), what}
				s.finding(Finding{Prop: "C04", What: "Unserialize of a struct-mapped object whose unset property refers to a self-referential map-backed object does not return", Detail: detail})
				s.finding(Finding{Prop: "C14", What: "a self-referential object graph below a struct-mapped object does not work on a finite input", Detail: detail})
			}
		}
	}
}
