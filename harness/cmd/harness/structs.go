package main

import (
	"fmt"
	"reflect"

	"go.flow.arcalot.io/pluginsdk/schema"
	"harness/hx"
)

// Struct-mapped objects are outside the Lean model; this stream evaluates the properties directly
// on the implementation (round trip C01, totality C04, purity / history-freedom C12) for a library
// of struct-mapped schemas with defaults at every nesting level, pointer and value fields,
// treat-empty-as-default, named scalars, slices and maps.

type smInner struct {
	Level int64  `json:"level"`
	Tag   string `json:"tag"`
}

type smSub struct {
	Note  *string `json:"note"`
	Inner smInner `json:"inner"`
	Flag  bool    `json:"flag"`
}

type smName string

type smParent struct {
	Name   string           `json:"name"`
	Sub    smSub            `json:"sub"`
	SubPtr *smSub           `json:"subptr"`
	Count  *int64           `json:"count"`
	Items  []string         `json:"items"`
	M      map[string]int64 `json:"m"`
	Any    any              `json:"any"`
	Kind   smName           `json:"kind"`
	Opt    string           `json:"opt"`
	other  int              //nolint:unused
}

func sp[T any](v T) *T { return &v }

func prop(t schema.Type, required bool, def *string) *schema.PropertySchema {
	return schema.NewPropertySchema(t, nil, required, nil, nil, nil, def, nil)
}

// buildStructSchema returns a FRESH three-level struct-mapped schema. variant selects where
// defaults live.
func buildStructSchema(variant int) *schema.ScopeSchema {
	innerLevelDefault := sp("7")
	subInnerDefault := sp(`{"level":5}`)
	parentSubDefault := sp(`{"flag":true}`)
	if variant%2 == 1 {
		parentSubDefault = nil
	}
	if variant%3 == 2 {
		subInnerDefault = nil
	}
	inner := schema.NewStructMappedObjectSchema[smInner]("Inner", map[string]*schema.PropertySchema{
		"level": prop(schema.NewIntSchema(nil, sp(int64(100)), nil), false, innerLevelDefault),
		"tag":   prop(schema.NewStringSchema(nil, nil, nil), false, sp(`"x"`)),
	})
	sub := schema.NewStructMappedObjectSchema[smSub]("Sub", map[string]*schema.PropertySchema{
		"note":  prop(schema.NewStringSchema(nil, nil, nil), false, nil),
		"inner": prop(schema.NewRefSchema("Inner", nil), false, subInnerDefault),
		"flag":  prop(schema.NewBoolSchema(), false, nil).TreatEmptyAsDefaultValue(),
	})
	parent := schema.NewStructMappedObjectSchema[smParent]("Parent", map[string]*schema.PropertySchema{
		"name":   prop(schema.NewStringSchema(sp(int64(1)), nil, nil), true, nil),
		"sub":    prop(schema.NewRefSchema("Sub", nil), false, parentSubDefault),
		"subptr": prop(schema.NewRefSchema("Sub", nil), false, nil),
		"count":  prop(schema.NewIntSchema(nil, nil, nil), false, nil),
		"items":  prop(schema.NewListSchema(schema.NewStringSchema(nil, nil, nil), nil, nil), false, nil),
		"m":      prop(schema.NewMapSchema(schema.NewStringSchema(nil, nil, nil), schema.NewIntSchema(nil, nil, nil), nil, nil), false, nil),
		"any":    prop(schema.NewAnySchema(), false, nil),
		"kind":   prop(schema.NewTypedStringEnumSchema(map[smName]*schema.DisplayValue{"a": nil, "b": nil}), false, sp(`"a"`)),
		"opt":    prop(schema.NewStringSchema(nil, nil, nil), false, nil).TreatEmptyAsDefaultValue(),
	})
	return schema.NewScopeSchema(parent, sub, inner)
}

func genSubRaw(g *hx.Gen) *hx.Val {
	m := hx.StrAny()
	if g.R.Intn(2) == 0 {
		m.M = append(m.M, [2]*hx.Val{hx.Str("note"), hx.Str("hi")})
	}
	if g.R.Intn(2) == 0 {
		in := hx.StrAny()
		if g.R.Intn(2) == 0 {
			in.M = append(in.M, [2]*hx.Val{hx.Str("level"), hx.Int("int64", int64(g.R.Intn(9)))})
		}
		if g.R.Intn(2) == 0 {
			in.M = append(in.M, [2]*hx.Val{hx.Str("tag"), hx.Str("t")})
		}
		m.M = append(m.M, [2]*hx.Val{hx.Str("inner"), in})
	}
	if g.R.Intn(3) == 0 {
		m.M = append(m.M, [2]*hx.Val{hx.Str("flag"), hx.Bool(g.R.Intn(2) == 0)})
	}
	if g.R.Intn(3) == 0 {
		m.MK = "any"
	}
	return m
}

func genParentRaw(g *hx.Gen) *hx.Val {
	m := hx.StrAny([2]*hx.Val{hx.Str("name"), hx.Str("n")})
	add := func(k string, v *hx.Val) {
		if g.R.Intn(2) == 0 {
			m.M = append(m.M, [2]*hx.Val{hx.Str(k), v})
		}
	}
	add("sub", genSubRaw(g))
	add("subptr", genSubRaw(g))
	add("count", hx.Uint("uint64", uint64(g.R.Intn(5))))
	add("items", hx.List(hx.Str("a"), hx.Str("b")))
	add("m", hx.AnyAny([2]*hx.Val{hx.Str("k"), hx.Int("int64", 3)}))
	add("any", g.AnyValue(2))
	add("kind", hx.Str([]string{"a", "b", "zzz"}[g.R.Intn(3)]))
	add("opt", hx.Str([]string{"", "o"}[g.R.Intn(2)]))
	if g.R.Intn(12) == 0 {
		m.M[0][1] = hx.Str("") // violates min length
	}
	if g.R.Intn(3) == 0 {
		m.MK = "any"
	}
	return m
}

// goCanon renders arbitrary Go values (incl. structs) canonically for equality.
func goCanon(x any) string {
	return fmt.Sprintf("%#v", normalise(reflect.ValueOf(x)))
}

func normalise(v reflect.Value) any {
	if !v.IsValid() {
		return nil
	}
	switch v.Kind() {
	case reflect.Pointer, reflect.Interface:
		if v.IsNil() {
			return nil
		}
		return []any{"&", normalise(v.Elem())}
	case reflect.Struct:
		out := []any{v.Type().String()}
		for i := 0; i < v.NumField(); i++ {
			if v.Type().Field(i).IsExported() {
				out = append(out, v.Type().Field(i).Name, normalise(v.Field(i)))
			}
		}
		return out
	case reflect.Map:
		keys := map[string]any{}
		for _, k := range v.MapKeys() {
			keys[fmt.Sprintf("%#v", normalise(k))] = normalise(v.MapIndex(k))
		}
		return keys // fmt prints maps with sorted keys
	case reflect.Slice, reflect.Array:
		out := []any{}
		for i := 0; i < v.Len(); i++ {
			out = append(out, normalise(v.Index(i)))
		}
		return out
	default:
		return []any{v.Type().String(), v.Interface()}
	}
}

func groupStructs(s *sink, g *hx.Gen) {
	variant := g.R.Intn(6)
	used := buildStructSchema(variant)
	defaultsBefore := goCanon(used.GetDefaults())
	n := 3 + g.R.Intn(6)
	for i := 0; i < n; i++ {
		raw := genParentRaw(g)
		if g.R.Intn(8) == 0 {
			raw = g.RandomVal(0)
		}
		arg := raw.ToGo()
		snap := hx.Canon(hx.Enc(arg))
		type outcome struct {
			r   hx.Result
			val any
		}
		run := func(sc *schema.ScopeSchema, a any) outcome {
			var o outcome
			o.r = hx.Guard(func() hx.Result {
				v, err := sc.Unserialize(a)
				if err != nil {
					return hx.ErrResult(err)
				}
				o.val = v
				return hx.Result{R: "ok"}
			})
			return o
		}
		onUsed := run(used, arg)
		s.stats["structs:U:"+onUsed.r.R]++
		if after := hx.Canon(hx.Enc(arg)); after != snap {
			s.finding(Finding{Prop: "C12", What: "Unserialize of a struct-mapped object modified its argument", Input: raw, Detail: []string{snap, after}})
		}
		if onUsed.r.R == "panic" {
			s.finding(Finding{Prop: "C04", What: "Unserialize of a struct-mapped object panicked: " + onUsed.r.Msg, Input: raw})
			continue
		}
		onFresh := run(buildStructSchema(variant), raw.ToGo())
		if onUsed.r.R != onFresh.r.R || (onUsed.r.R == "ok" && goCanon(onUsed.val) != goCanon(onFresh.val)) {
			s.finding(Finding{Prop: "C12", What: "struct-mapped object: result depends on the calls made before on the same schema instance",
				Input: raw, Detail: []string{fmt.Sprintf("variant %d call %d", variant, i), "used: " + onUsed.r.R + " " + goCanon(onUsed.val), "fresh: " + onFresh.r.R + " " + goCanon(onFresh.val)}})
		}
		if onUsed.r.R != "ok" {
			continue
		}
		v := onUsed.val
		// C01 on the struct value
		chainRes := hx.Guard(func() hx.Result {
			if err := used.Validate(v); err != nil {
				return hx.Result{R: "err", Msg: "result of Unserialize fails Validate: " + err.Error()}
			}
			w, err := used.Serialize(v)
			if err != nil {
				return hx.Result{R: "err", Msg: "result of Unserialize fails Serialize: " + err.Error()}
			}
			v2, err := used.Unserialize(w)
			if err != nil {
				return hx.Result{R: "err", Msg: "serialized form is rejected: " + err.Error()}
			}
			if goCanon(v2) != goCanon(v) {
				return hx.Result{R: "err", Msg: "Unserialize(Serialize(v)) differs from v: " + goCanon(v) + " vs " + goCanon(v2)}
			}
			w2, err := used.Serialize(v2)
			if err != nil || hx.Canon(hx.Enc(w2)) != hx.Canon(hx.Enc(w)) {
				return hx.Result{R: "err", Msg: "Serialize is not idempotent on wire forms"}
			}
			wc, err := cborNorm(w)
			if err != nil {
				return hx.Result{R: "err", Msg: "serialized form is not CBOR-encodable: " + err.Error()}
			}
			v3, err := used.Unserialize(wc)
			if err != nil || goCanon(v3) != goCanon(v) {
				return hx.Result{R: "err", Msg: fmt.Sprintf("Unserialize after CBOR differs from v (%v)", err)}
			}
			return hx.Result{R: "ok"}
		})
		if chainRes.R == "panic" {
			s.finding(Finding{Prop: "C04", What: "struct-mapped object: panic in Validate/Serialize chain: " + chainRes.Msg, Input: raw})
		} else if chainRes.R != "ok" {
			s.finding(Finding{Prop: "C01", What: "struct-mapped object: " + chainRes.Msg, Input: raw, Detail: []string{fmt.Sprintf("variant %d", variant)}})
		}
	}
	if after := goCanon(used.GetDefaults()); after != defaultsBefore {
		s.finding(Finding{Prop: "C12", What: "struct-mapped object: the schema's stored defaults changed after a history of calls", Detail: []string{defaultsBefore, after}})
	}
	// the sub-objects' stored defaults must not change either
	for id, o := range used.Objects() {
		fresh := buildStructSchema(variant).Objects()[id]
		if goCanon(o.GetDefaults()) != goCanon(fresh.GetDefaults()) {
			s.finding(Finding{Prop: "C12", What: "struct-mapped object: the stored defaults of object " + id + " changed after a history of calls",
				Detail: []string{goCanon(fresh.GetDefaults()), goCanon(o.GetDefaults())}})
		}
	}
}
