package main

// Sub-command `atpserverfacts`: regenerates ArcaModel/Gen/AtpServerFacts.lean (`-out <file>`) from
// atp/server.go and schema/schema.go of the working tree (VERIF_REPO, default /repo). Purely
// syntactic (go/ast). The facts are the ones the rules of ArcaModel/Model/AtpServer.lean assume
// for the `repaired` configuration; ArcaModel/Props/C07Facts.lean proves by `decide` that they have
// the assumed values, so a change of the synchronisation structure breaks `lake build`:
//
//   * every Encode on the shared stdout encoder, with its enclosing function, classified as
//     `locked` (inside a function that takes encoderMutex first and releases it by defer - the
//     encode may sit in a goroutine literal the function waits for), `init` (in
//     sendInitialMessagesToClient, which run() calls before the read loop, i.e. before any other
//     writer can exist) or `unguarded`;
//   * every close of / send on workDone with its enclosing function; for a close: whether the
//     statement before it is `wg.Wait()`; for a send: whether the sender is counted in the wait
//     group while it can send (it runs on the read loop's goroutine, which RunATPServer counts
//     before starting it, or inside a `go func` whose start is preceded by `wg.Add(1)` and that
//     calls `wg.Done()` only after the send, directly or through the function it calls);
//   * the channel capacities;
//   * whether the read loop's decode target is declared inside the loop;
//   * whether handleClosure returns (or leaves its loop) only when the channel is closed;
//   * whether the signal goroutine recovers panics, and whether CallSignal checks the signal lookup;
//   * whether sendRuntimeMessage gives up waiting for the encoder after a timeout (then the mutex
//     is released while the Encode may still be running: writer atomicity is an assumption for
//     outputs that stall longer than that);
//   * every access (read, write, delete, range, addr) to every field of atpServerSession that is
//     not a channel, mutex or wait group, with its enclosing function and the goroutine context it
//     runs in: `init` (initializeATPServerSession, called before any `go`), `main` (RunATPServer's
//     own goroutine: handleClosure), `loop` (run() and what it calls, outside `go` literals: the
//     read loop's goroutine) or `spawned` (lexically inside a `go func` literal, or in a function
//     started with `go` / called from such a literal, transitively: runStep, the signal goroutine's
//     body, the closer). A function reached from several contexts lists one entry per context.
//     The model gives `runningSteps` (a plain map, no lock) to the read loop alone.

import (
	"fmt"
	"go/ast"
	"go/parser"
	"go/token"
	"os"
	"path/filepath"
	"sort"
	"strconv"
	"strings"
)

func init() {
	register("atpserverfacts", func(a Args) { atpsFacts(a) })
}

type atpsFactsOut struct {
	encodes        [][2]string // function, guard
	closes         [][2]string // function, "true"/"false" (directly after wg.Wait())
	sends          [][2]string // function, "true"/"false" (counted)
	workDoneCap    int
	runDoneCap     int
	decodeInLoop   bool
	handlerDrains  bool
	sigRecovers    bool
	sigLookupOK    bool
	encodeTimeout  bool
	waitGroupFirst bool // RunATPServer calls wg.Add(1) before `go ... run()`
	fields         [][2]string // unsynchronised fields of atpServerSession: name, type
	accesses       [][4]string // field, kind, function, context
	initFirst      bool // run() calls sendInitialMessagesToClient before runATPReadLoop, nobody else calls it
}

func atpsSel(e ast.Expr) string {
	switch x := e.(type) {
	case *ast.Ident:
		return x.Name
	case *ast.SelectorExpr:
		return atpsSel(x.X) + "." + x.Sel.Name
	case *ast.CallExpr:
		return atpsSel(x.Fun) + "()"
	case *ast.ParenExpr:
		return atpsSel(x.X)
	case *ast.UnaryExpr:
		return x.Op.String() + atpsSel(x.X)
	case *ast.IndexExpr:
		return atpsSel(x.X) + "[]"
	}
	return "?"
}

func atpsIsCall(s ast.Stmt, suffix string) bool {
	es, ok := s.(*ast.ExprStmt)
	if !ok {
		return false
	}
	c, ok := es.X.(*ast.CallExpr)
	return ok && strings.HasSuffix(atpsSel(c.Fun), suffix)
}

func atpsIsDeferCall(s ast.Stmt, suffix string) bool {
	d, ok := s.(*ast.DeferStmt)
	return ok && strings.HasSuffix(atpsSel(d.Call.Fun), suffix)
}

// containsCall reports whether n contains a call whose callee ends in suffix.
func atpsContainsCall(n ast.Node, suffix string) bool {
	found := false
	ast.Inspect(n, func(x ast.Node) bool {
		if c, ok := x.(*ast.CallExpr); ok && strings.HasSuffix(atpsSel(c.Fun), suffix) {
			found = true
		}
		return !found
	})
	return found
}

func atpsContainsSend(n ast.Node) bool {
	found := false
	ast.Inspect(n, func(x ast.Node) bool {
		if s, ok := x.(*ast.SendStmt); ok && strings.HasSuffix(atpsSel(s.Chan), ".workDone") {
			found = true
		}
		return !found
	})
	return found
}

func atpsFacts(a Args) {
	repo := cgRepo()
	fset := token.NewFileSet()
	srv, err := parser.ParseFile(fset, filepath.Join(repo, "atp", "server.go"), nil, 0)
	if err != nil {
		fmt.Fprintln(os.Stderr, "atpserverfacts:", err)
		os.Exit(2)
	}
	sch, err := parser.ParseFile(fset, filepath.Join(repo, "schema", "schema.go"), nil, 0)
	if err != nil {
		fmt.Fprintln(os.Stderr, "atpserverfacts:", err)
		os.Exit(2)
	}
	var out atpsFactsOut
	funcs := map[string]*ast.FuncDecl{}
	for _, d := range srv.Decls {
		if fd, ok := d.(*ast.FuncDecl); ok && fd.Body != nil {
			funcs[fd.Name.Name] = fd
		}
	}
	names := make([]string, 0, len(funcs))
	for n := range funcs {
		names = append(names, n)
	}
	sort.Strings(names)

	// --- functions that only ever run on the read loop's goroutine: reachable from run() through
	// plain calls (not through go statements)
	loopFuncs := map[string]bool{}
	var markLoop func(name string)
	markLoop = func(name string) {
		if loopFuncs[name] {
			return
		}
		fd, ok := funcs[name]
		if !ok {
			return
		}
		loopFuncs[name] = true
		var visit func(n ast.Node) bool
		visit = func(n ast.Node) bool {
			switch x := n.(type) {
			case *ast.GoStmt:
				return false // another goroutine
			case *ast.CallExpr:
				if sel, ok := x.Fun.(*ast.SelectorExpr); ok {
					if _, isFn := funcs[sel.Sel.Name]; isFn {
						markLoop(sel.Sel.Name)
					}
				}
			}
			return true
		}
		ast.Inspect(fd.Body, visit)
	}
	markLoop("run")

	// --- go literals: is the `go` statement preceded by wg.Add(1) in its block, and does the
	// literal call wg.Done() (deferred, or as a statement after everything that can send)?
	type goLit struct {
		fn      string
		lit     *ast.FuncLit
		counted bool
		calls   map[string]bool // methods called directly by the literal
	}
	var goLits []*goLit
	for _, name := range names {
		fd := funcs[name]
		ast.Inspect(fd.Body, func(n ast.Node) bool {
			blk, ok := n.(*ast.BlockStmt)
			if !ok {
				return true
			}
			for i, st := range blk.List {
				g, ok := st.(*ast.GoStmt)
				if !ok {
					continue
				}
				lit, ok := g.Call.Fun.(*ast.FuncLit)
				if !ok {
					continue
				}
				gl := &goLit{fn: name, lit: lit, calls: map[string]bool{}}
				addBefore := false
				for j := 0; j < i; j++ {
					if atpsIsCall(blk.List[j], "wg.Add") {
						addBefore = true
					}
				}
				// Done: deferred first statement, or a plain statement with no send after it
				doneOK := false
				for k, ls := range lit.Body.List {
					if atpsIsDeferCall(ls, "wg.Done") {
						doneOK = true
						break
					}
					if atpsIsCall(ls, "wg.Done") {
						tailSends := false
						for _, later := range lit.Body.List[k+1:] {
							if atpsContainsSend(later) {
								tailSends = true
							}
						}
						doneOK = !tailSends
						break
					}
				}
				gl.counted = addBefore && doneOK
				ast.Inspect(lit.Body, func(x ast.Node) bool {
					if c, ok := x.(*ast.CallExpr); ok {
						if sel, ok := c.Fun.(*ast.SelectorExpr); ok {
							if _, isFn := funcs[sel.Sel.Name]; isFn {
								gl.calls[sel.Sel.Name] = true
							}
						}
					}
					return true
				})
				goLits = append(goLits, gl)
			}
			return true
		})
	}
	// functions called from go literals: counted iff every calling literal is counted and the
	// function is not also reachable on another path
	calledFromLit := map[string][]*goLit{}
	for _, gl := range goLits {
		for c := range gl.calls {
			calledFromLit[c] = append(calledFromLit[c], gl)
		}
	}
	litOf := func(pos token.Pos) *goLit {
		var best *goLit
		for _, gl := range goLits {
			if gl.lit.Pos() <= pos && pos < gl.lit.End() {
				if best == nil || gl.lit.Pos() > best.lit.Pos() {
					best = gl
				}
			}
		}
		return best
	}

	for _, name := range names {
		fd := funcs[name]
		// encoder mutex: first statement Lock, some deferred Unlock
		locked := len(fd.Body.List) > 0 && atpsIsCall(fd.Body.List[0], "encoderMutex.Lock")
		if locked {
			hasDefer := false
			for _, st := range fd.Body.List {
				if atpsIsDeferCall(st, "encoderMutex.Unlock") {
					hasDefer = true
				}
			}
			locked = hasDefer
		}
		ast.Inspect(fd.Body, func(n ast.Node) bool {
			switch x := n.(type) {
			case *ast.CallExpr:
				callee := atpsSel(x.Fun)
				if strings.HasSuffix(callee, "cborStdout.Encode") {
					guard := "unguarded"
					if locked {
						guard = "locked"
					} else if name == "sendInitialMessagesToClient" {
						guard = "init"
					}
					out.encodes = append(out.encodes, [2]string{name, guard})
				}
				if callee == "close" && len(x.Args) == 1 && strings.HasSuffix(atpsSel(x.Args[0]), ".workDone") {
					out.closes = append(out.closes, [2]string{name, "false"}) // refined below
				}
				if callee == "make" && len(x.Args) == 2 {
					if ch, ok := x.Args[0].(*ast.ChanType); ok {
						if lit, ok := x.Args[1].(*ast.BasicLit); ok {
							n, _ := strconv.Atoi(lit.Value)
							switch atpsSel(ch.Value) {
							case "ServerError":
								out.workDoneCap = n
							case "bool":
								out.runDoneCap = n
							}
						}
					}
				}
			case *ast.SendStmt:
				if strings.HasSuffix(atpsSel(x.Chan), ".workDone") {
					counted := false
					if gl := litOf(x.Pos()); gl != nil && gl.fn == name {
						counted = gl.counted
					} else if loopFuncs[name] {
						counted = true
					} else if callers := calledFromLit[name]; len(callers) > 0 {
						counted = true
						for _, gl := range callers {
							if !gl.counted {
								counted = false
							}
						}
					}
					out.sends = append(out.sends, [2]string{name, strconv.FormatBool(counted)})
				}
			}
			return true
		})
		// closes: statement before it in the same block is wg.Wait()
		ast.Inspect(fd.Body, func(n ast.Node) bool {
			blk, ok := n.(*ast.BlockStmt)
			if !ok {
				return true
			}
			for i, st := range blk.List {
				es, ok := st.(*ast.ExprStmt)
				if !ok {
					continue
				}
				c, ok := es.X.(*ast.CallExpr)
				if !ok || atpsSel(c.Fun) != "close" || len(c.Args) != 1 || !strings.HasSuffix(atpsSel(c.Args[0]), ".workDone") {
					continue
				}
				after := i > 0 && atpsIsCall(blk.List[i-1], "wg.Wait")
				for k := range out.closes {
					if out.closes[k][0] == name && out.closes[k][1] == "false" && after {
						out.closes[k][1] = "true"
						break
					}
				}
			}
			return true
		})
	}
	// a deferred close (pinned tree: inside run()'s deferred literal) is found by the walk above as
	// a close in `run` that is not preceded by wg.Wait()

	// --- RunATPServer counts the read loop before starting it
	if fd, ok := funcs["RunATPServer"]; ok {
		added := false
		for _, st := range fd.Body.List {
			if atpsIsCall(st, "wg.Add") {
				added = true
			}
			if g, ok := st.(*ast.GoStmt); ok && atpsContainsCall(g.Call, ".run") {
				out.waitGroupFirst = added
				break
			}
		}
	}

	// --- the hello message is written before the read loop (the only spawner of writers) starts
	if fd, ok := funcs["run"]; ok {
		iInit, iLoop := -1, -1
		for i, st := range fd.Body.List {
			if iInit < 0 && atpsContainsCall(st, ".sendInitialMessagesToClient") {
				iInit = i
			}
			if iLoop < 0 && atpsContainsCall(st, ".runATPReadLoop") {
				iLoop = i
			}
		}
		others := false
		for _, name := range names {
			if name != "run" && atpsContainsCall(funcs[name].Body, ".sendInitialMessagesToClient") {
				others = true
			}
		}
		out.initFirst = iInit >= 0 && iLoop > iInit && !others
	}

	// --- decode target declared inside the loop
	if fd, ok := funcs["runATPReadLoop"]; ok {
		ast.Inspect(fd.Body, func(n ast.Node) bool {
			loop, ok := n.(*ast.ForStmt)
			if !ok {
				return true
			}
			// the Decode call's argument
			var target string
			ast.Inspect(loop.Body, func(x ast.Node) bool {
				if c, ok := x.(*ast.CallExpr); ok && strings.HasSuffix(atpsSel(c.Fun), "cborStdin.Decode") && len(c.Args) == 1 {
					target = strings.TrimPrefix(atpsSel(c.Args[0]), "&")
				}
				return true
			})
			declared := false
			for _, st := range loop.Body.List {
				if ds, ok := st.(*ast.DeclStmt); ok {
					if gd, ok := ds.Decl.(*ast.GenDecl); ok {
						for _, sp := range gd.Specs {
							if vs, ok := sp.(*ast.ValueSpec); ok {
								for _, id := range vs.Names {
									if id.Name == target {
										declared = true
									}
								}
							}
						}
					}
				}
			}
			out.decodeInLoop = target != "" && declared
			return false
		})
	}

	// --- handleClosure leaves its loop only when the channel is closed
	if fd, ok := funcs["handleClosure"]; ok {
		okVar := ""
		ast.Inspect(fd.Body, func(n ast.Node) bool {
			if cc, ok := n.(*ast.CommClause); ok {
				if as, ok := cc.Comm.(*ast.AssignStmt); ok && len(as.Lhs) == 2 && len(as.Rhs) == 1 {
					if u, ok := as.Rhs[0].(*ast.UnaryExpr); ok && u.Op == token.ARROW && strings.HasSuffix(atpsSel(u.X), ".workDone") {
						okVar = atpsSel(as.Lhs[1])
					}
				}
			}
			return true
		})
		exits, guarded := 0, 0
		var walk func(n ast.Node, inGuard bool)
		walk = func(n ast.Node, inGuard bool) {
			ast.Inspect(n, func(x ast.Node) bool {
				switch y := x.(type) {
				case *ast.FuncLit:
					return false
				case *ast.IfStmt:
					g := inGuard
					if u, ok := y.Cond.(*ast.UnaryExpr); ok && u.Op == token.NOT && okVar != "" && atpsSel(u.X) == okVar {
						g = true
					}
					if y.Init != nil {
						walk(y.Init, inGuard)
					}
					walk(y.Body, g)
					if y.Else != nil {
						walk(y.Else, inGuard)
					}
					return false
				case *ast.ReturnStmt:
					exits++
					if inGuard {
						guarded++
					}
				case *ast.BranchStmt:
					if y.Tok == token.BREAK && y.Label != nil {
						exits++
						if inGuard {
							guarded++
						}
					}
				}
				return true
			})
		}
		// only statements inside the for loop count (a return after the loop is unreachable or final)
		ast.Inspect(fd.Body, func(n ast.Node) bool {
			if loop, ok := n.(*ast.ForStmt); ok {
				walk(loop.Body, false)
				return false
			}
			return true
		})
		out.handlerDrains = okVar != "" && exits > 0 && exits == guarded
	}

	// --- signal goroutine recovers
	for _, gl := range goLits {
		if gl.fn == "handleSignalMessage" && atpsContainsCall(gl.lit.Body, "recover") {
			out.sigRecovers = true
		}
	}
	// --- CallSignal checks the lookup of the signal handler
	for _, d := range sch.Decls {
		fd, ok := d.(*ast.FuncDecl)
		if !ok || fd.Name.Name != "CallSignal" || fd.Body == nil {
			continue
		}
		ast.Inspect(fd.Body, func(n ast.Node) bool {
			if as, ok := n.(*ast.AssignStmt); ok && len(as.Lhs) == 2 && len(as.Rhs) == 1 {
				if ix, ok := as.Rhs[0].(*ast.IndexExpr); ok && strings.HasSuffix(atpsSel(ix.X), "SignalHandlers()") {
					out.sigLookupOK = true
				}
			}
			return true
		})
	}
	// --- sendRuntimeMessage waits with a timeout
	if fd, ok := funcs["sendRuntimeMessage"]; ok {
		out.encodeTimeout = atpsContainsCall(fd.Body, "time.After")
	}

	out.fields, out.accesses = atpsFieldAccesses(srv, funcs)

	sort.Slice(out.encodes, func(i, j int) bool { return out.encodes[i][0]+out.encodes[i][1] < out.encodes[j][0]+out.encodes[j][1] })
	sort.Slice(out.closes, func(i, j int) bool { return out.closes[i][0]+out.closes[i][1] < out.closes[j][0]+out.closes[j][1] })
	sort.Slice(out.sends, func(i, j int) bool { return out.sends[i][0]+out.sends[i][1] < out.sends[j][0]+out.sends[j][1] })

	var b strings.Builder
	b.WriteString("/-\n  GENERATED by `harness atpserverfacts` from atp/server.go and schema/schema.go of the working tree.\n  Do not edit; regenerate. Checked against the model's assumptions in ArcaModel/Props/C07Facts.lean.\n-/\n")
	b.WriteString("namespace Arca.Gen.AtpServerFacts\n\n")
	b.WriteString("inductive EncGuard where\n  | locked\n  | init\n  | unguarded\nderiving DecidableEq, Repr\n\n")
	b.WriteString("/-- every `Encode` on the shared stdout encoder: enclosing function, how it is serialised -/\n")
	b.WriteString("def encodes : List (String × EncGuard) := [")
	for i, e := range out.encodes {
		if i > 0 {
			b.WriteString(", ")
		}
		fmt.Fprintf(&b, "(%q, .%s)", e[0], e[1])
	}
	b.WriteString("]\n\n")
	pairs := func(doc, name string, xs [][2]string) {
		fmt.Fprintf(&b, "/-- %s -/\ndef %s : List (String × Bool) := [", doc, name)
		for i, e := range xs {
			if i > 0 {
				b.WriteString(", ")
			}
			fmt.Fprintf(&b, "(%q, %s)", e[0], e[1])
		}
		b.WriteString("]\n\n")
	}
	pairs("every `close(workDone)`: enclosing function, whether the statement before it is `wg.Wait()`", "closes", out.closes)
	pairs("every send on `workDone`: enclosing function, whether the sender is counted in the wait group while it can send", "sends", out.sends)
	fmt.Fprintf(&b, "def workDoneCap : Nat := %d\n", out.workDoneCap)
	fmt.Fprintf(&b, "def runDoneCap : Nat := %d\n", out.runDoneCap)
	fmt.Fprintf(&b, "/-- RunATPServer calls `wg.Add(1)` before it starts `run()` -/\ndef readLoopCountedFirst : Bool := %v\n", out.waitGroupFirst)
	fmt.Fprintf(&b, "/-- run() writes the hello message before it enters the read loop, and nobody else calls sendInitialMessagesToClient -/\ndef helloBeforeReadLoop : Bool := %v\n", out.initFirst)
	fmt.Fprintf(&b, "/-- the read loop's decode target is declared inside the loop -/\ndef decodeTargetInLoop : Bool := %v\n", out.decodeInLoop)
	fmt.Fprintf(&b, "/-- handleClosure leaves its loop only in the branch taken when `workDone` is closed -/\ndef handlerLeavesOnlyWhenClosed : Bool := %v\n", out.handlerDrains)
	fmt.Fprintf(&b, "/-- the signal goroutine recovers panics -/\ndef signalGoroutineRecovers : Bool := %v\n", out.sigRecovers)
	fmt.Fprintf(&b, "/-- CallableSchema.CallSignal looks the signal handler up with the two-value form -/\ndef callSignalChecksLookup : Bool := %v\n", out.sigLookupOK)
	fmt.Fprintf(&b, "/-- sendRuntimeMessage stops waiting for the encoder after a timeout -/\ndef encodeWaitHasTimeout : Bool := %v\n", out.encodeTimeout)
	b.WriteString("\nstructure Access where\n  field : String\n  kind : String\n  fn : String\n  ctx : String\nderiving DecidableEq, Repr\n\n")
	b.WriteString("/-- the fields of atpServerSession that are not a channel, mutex or wait group: name, type -/\n")
	b.WriteString("def sharedFields : List (String × String) := [")
	for i, f := range out.fields {
		if i > 0 {
			b.WriteString(", ")
		}
		fmt.Fprintf(&b, "(%q, %q)", f[0], f[1])
	}
	b.WriteString("]\n\n")
	b.WriteString("/-- those of them that are maps (not even concurrent reads and writes are allowed) -/\ndef mapFields : List String := [")
	nm := 0
	for _, f := range out.fields {
		if strings.HasPrefix(f[1], "map[") {
			if nm > 0 {
				b.WriteString(", ")
			}
			fmt.Fprintf(&b, "%q", f[0])
			nm++
		}
	}
	b.WriteString("]\n\n")
	b.WriteString("/-- every access to such a field: kind (read, write, delete, range, addr), enclosing function, goroutine\n    context (init, main, loop, spawned) -/\n")
	b.WriteString("def accesses : List Access := [")
	for i, x := range out.accesses {
		if i > 0 {
			b.WriteString(",")
		}
		fmt.Fprintf(&b, "\n  ⟨%q, %q, %q, %q⟩", x[0], x[1], x[2], x[3])
	}
	b.WriteString("]\n")
	b.WriteString("\nend Arca.Gen.AtpServerFacts\n")
	if a.Out == "" || a.Out == "." {
		fmt.Print(b.String())
		return
	}
	if err := os.WriteFile(a.Out, []byte(b.String()), 0o644); err != nil {
		fmt.Fprintln(os.Stderr, "atpserverfacts:", err)
		os.Exit(2)
	}
}

// atpsTypeString renders a field type.
func atpsTypeString(e ast.Expr) string {
	switch x := e.(type) {
	case *ast.Ident:
		return x.Name
	case *ast.SelectorExpr:
		return atpsTypeString(x.X) + "." + x.Sel.Name
	case *ast.StarExpr:
		return "*" + atpsTypeString(x.X)
	case *ast.MapType:
		return "map[" + atpsTypeString(x.Key) + "]" + atpsTypeString(x.Value)
	case *ast.ArrayType:
		return "[]" + atpsTypeString(x.Elt)
	case *ast.ChanType:
		return "chan " + atpsTypeString(x.Value)
	case *ast.InterfaceType:
		return "interface"
	case *ast.FuncType:
		return "func"
	}
	return "?"
}

// atpsFieldAccesses lists the unsynchronised fields of atpServerSession and every access to them,
// with the goroutine context of the access.
func atpsFieldAccesses(srv *ast.File, funcs map[string]*ast.FuncDecl) (fields [][2]string, accesses [][4]string) {
	isField := map[string]bool{}
	for _, d := range srv.Decls {
		gd, ok := d.(*ast.GenDecl)
		if !ok {
			continue
		}
		for _, sp := range gd.Specs {
			ts, ok := sp.(*ast.TypeSpec)
			if !ok || ts.Name.Name != "atpServerSession" {
				continue
			}
			st, ok := ts.Type.(*ast.StructType)
			if !ok {
				continue
			}
			for _, f := range st.Fields.List {
				ty := atpsTypeString(f.Type)
				if _, isChan := f.Type.(*ast.ChanType); isChan {
					continue
				}
				switch strings.TrimPrefix(ty, "*") {
				case "sync.Mutex", "sync.RWMutex", "sync.WaitGroup":
					continue
				}
				for _, n := range f.Names {
					isField[n.Name] = true
					fields = append(fields, [2]string{n.Name, ty})
				}
			}
		}
	}
	sort.Slice(fields, func(i, j int) bool { return fields[i][0] < fields[j][0] })

	// is initializeATPServerSession called before the first `go` of RunATPServer?
	initFirst := false
	if fd, ok := funcs["RunATPServer"]; ok {
		for _, st := range fd.Body.List {
			if _, isGo := st.(*ast.GoStmt); isGo {
				break
			}
			if atpsContainsCall(st, "initializeATPServerSession") {
				initFirst = true
			}
		}
	}

	seen := map[[4]string]bool{}
	record := func(field, kind, fn, ctx string) {
		k := [4]string{field, kind, fn, ctx}
		if !seen[k] {
			seen[k] = true
			accesses = append(accesses, k)
		}
	}
	// base returns the field selected by e when e is `x.f`, `x.f[i]`, `(x.f)`, `*x.f` with x an
	// identifier and f one of the fields.
	var base func(e ast.Expr) (*ast.SelectorExpr, bool)
	base = func(e ast.Expr) (*ast.SelectorExpr, bool) {
		switch x := e.(type) {
		case *ast.SelectorExpr:
			if _, ok := x.X.(*ast.Ident); ok && isField[x.Sel.Name] {
				return x, true
			}
		case *ast.IndexExpr:
			return base(x.X)
		case *ast.ParenExpr:
			return base(x.X)
		case *ast.StarExpr:
			return base(x.X)
		}
		return nil, false
	}

	visited := map[string]bool{} // function + "/" + context
	var visitFunc func(name, ctx string)
	var visit func(n ast.Node, fn, ctx string)
	calleeName := func(c *ast.CallExpr) string {
		switch f := c.Fun.(type) {
		case *ast.SelectorExpr:
			if _, ok := funcs[f.Sel.Name]; ok {
				return f.Sel.Name
			}
		case *ast.Ident:
			if _, ok := funcs[f.Name]; ok {
				return f.Name
			}
		}
		return ""
	}
	visit = func(n ast.Node, fn, ctx string) {
		handled := map[*ast.SelectorExpr]bool{}
		ast.Inspect(n, func(x ast.Node) bool {
			switch y := x.(type) {
			case *ast.GoStmt:
				if lit, ok := y.Call.Fun.(*ast.FuncLit); ok {
					litCtx := "spawned"
					if fn == "RunATPServer" && atpsContainsCall(lit.Body, ".run") {
						litCtx = "loop"
					}
					for _, a := range y.Call.Args {
						visit(a, fn, ctx)
					}
					visit(lit.Body, fn, litCtx)
				} else {
					if name := calleeName(y.Call); name != "" {
						visitFunc(name, "spawned")
					}
					for _, a := range y.Call.Args {
						visit(a, fn, ctx)
					}
				}
				return false
			case *ast.AssignStmt:
				for _, l := range y.Lhs {
					if sel, ok := base(l); ok {
						handled[sel] = true
						record(sel.Sel.Name, "write", fn, ctx)
					}
				}
			case *ast.IncDecStmt:
				if sel, ok := base(y.X); ok {
					handled[sel] = true
					record(sel.Sel.Name, "write", fn, ctx)
				}
			case *ast.RangeStmt:
				if sel, ok := base(y.X); ok {
					handled[sel] = true
					record(sel.Sel.Name, "range", fn, ctx)
				}
			case *ast.UnaryExpr:
				if y.Op == token.AND {
					if sel, ok := base(y.X); ok {
						handled[sel] = true
						record(sel.Sel.Name, "addr", fn, ctx)
					}
				}
			case *ast.CallExpr:
				if id, ok := y.Fun.(*ast.Ident); ok && id.Name == "delete" && len(y.Args) == 2 {
					if sel, ok := base(y.Args[0]); ok {
						handled[sel] = true
						record(sel.Sel.Name, "delete", fn, ctx)
					}
				}
				if name := calleeName(y); name != "" {
					visitFunc(name, ctx)
				}
			case *ast.SelectorExpr:
				if _, ok := y.X.(*ast.Ident); ok && isField[y.Sel.Name] && !handled[y] {
					record(y.Sel.Name, "read", fn, ctx)
				}
			}
			return true
		})
	}
	visitFunc = func(name, ctx string) {
		if name == "initializeATPServerSession" && ctx == "main" && initFirst {
			ctx = "init"
		}
		k := name + "/" + ctx
		if visited[k] {
			return
		}
		visited[k] = true
		if fd, ok := funcs[name]; ok {
			visit(fd.Body, name, ctx)
		}
	}
	visitFunc("RunATPServer", "main")
	// functions nobody in this file calls (none today) are listed under the context "unreached"
	var names []string
	for n := range funcs {
		names = append(names, n)
	}
	sort.Strings(names)
	for _, n := range names {
		reached := false
		for k := range visited {
			if strings.HasPrefix(k, n+"/") {
				reached = true
			}
		}
		if !reached && n != "String" {
			visitFunc(n, "unreached")
		}
	}
	sort.Slice(accesses, func(i, j int) bool {
		for k := 0; k < 4; k++ {
			if accesses[i][k] != accesses[j][k] {
				return accesses[i][k] < accesses[j][k]
			}
		}
		return false
	})
	return fields, accesses
}
