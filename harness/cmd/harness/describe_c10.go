package main

// C10: a schema received from a plugin is rejected with an error or fully usable.
// `harness rebuild -seed S -n N -out DIR`
//
// Inputs: single and double structural mutations (delete / retype / rename / duplicate / re-point
// reference / change root / flip the inlining flag / break a default / break a pattern / perturb
// numbers) applied at sampled (thorough: all) nodes of valid generated descriptions of scopes and
// plugin schemas, plus grammar-free random trees and random trees over the meta-schema's field
// names. Each input is given to UnserializeScope / UnserializeSchema / atp.Client.ReadSchema
// (fake server sending the hello message); whatever schema comes back is described again and
// exercised with generated inputs for all four operations.
//
// All of this runs in a re-exec'ed child with a small maximal stack and a per-case timeout: the
// child announces every step before taking it, so a fatal stack overflow or a hang is attributed
// to one case and one operation; the parent then restarts the child after that case.

import (
	"bufio"
	"bytes"
	"encoding/hex"
	"encoding/json"
	"fmt"
	"math"
	"os"
	"os/exec"
	"path/filepath"
	"runtime/debug"
	"sort"
	"strconv"
	"strings"
	"sync"
	"time"

	"github.com/fxamacker/cbor/v2"
	"go.flow.arcalot.io/pluginsdk/atp"
	"go.flow.arcalot.io/pluginsdk/schema"
	"harness/hx"
)

// ---------------------------------------------------------------------------------------------
// mutations on value trees

func dsCopyVal(v *hx.Val) *hx.Val {
	if v == nil {
		return nil
	}
	c := *v
	if v.L != nil {
		c.L = make([]*hx.Val, len(v.L))
		for i, e := range v.L {
			c.L[i] = dsCopyVal(e)
		}
	}
	if v.M != nil {
		c.M = make([][2]*hx.Val, len(v.M))
		for i, kv := range v.M {
			c.M[i] = [2]*hx.Val{dsCopyVal(kv[0]), dsCopyVal(kv[1])}
		}
	}
	if v.N != nil {
		c.N = dsCopyVal(v.N)
	}
	return &c
}

// dsFixNil replaces the nil pointers JSON decoding leaves for `null` by the nil value.
func dsFixNil(v *hx.Val) *hx.Val {
	if v == nil {
		return hx.Nil()
	}
	for i := range v.L {
		v.L[i] = dsFixNil(v.L[i])
	}
	for i := range v.M {
		v.M[i][0], v.M[i][1] = dsFixNil(v.M[i][0]), dsFixNil(v.M[i][1])
	}
	if v.Kind == "n" {
		v.N = dsFixNil(v.N)
	}
	return v
}

// dsSortVal orders map entries canonically so that node paths are stable across runs.
func dsSortVal(v *hx.Val) {
	v.Walk(func(x *hx.Val) {
		if x.Kind == "m" {
			sort.SliceStable(x.M, func(i, j int) bool {
				a, _ := x.M[i][0].MarshalJSON()
				b, _ := x.M[j][0].MarshalJSON()
				return string(a) < string(b)
			})
		}
	})
}

// a mutation site: the container node, the index of the entry / element in it, and the operator
type dsSite struct {
	node *hx.Val
	idx  int
	op   string
}

var dsMetaKeys = []string{"type_id", "id", "root", "objects", "properties", "type", "required", "required_if", "required_if_not",
	"conflicts", "default", "examples", "disabled", "disabled_reason", "display", "name", "description", "icon", "min", "max",
	"units", "pattern", "values", "items", "keys", "types", "discriminator_field_name", "discriminator_inlined", "namespace",
	"id_unenforced", "base_unit", "multipliers", "name_short_singular", "steps", "input", "outputs", "schema", "error",
	"signal_handlers", "signal_emitters", "data_schema"}

var dsTypeIDs = []string{"any", "bool", "enum_integer", "enum_string", "float", "integer", "list", "map", "object", "one_of_int",
	"one_of_string", "pattern", "ref", "scope", "string", "nonsense"}

// dsSites enumerates the mutation sites of a description.
func dsSites(root *hx.Val) []dsSite {
	var out []dsSite
	root.Walk(func(x *hx.Val) {
		switch x.Kind {
		case "m":
			for i, kv := range x.M {
				out = append(out, dsSite{x, i, "delete"}, dsSite{x, i, "retype"}, dsSite{x, i, "rename"}, dsSite{x, i, "duplicate"}, dsSite{x, i, "nil"})
				if kv[0].Kind != "s" {
					out = append(out, dsSite{x, i, "perturb-key"})
					continue
				}
				switch kv[0].S {
				case "id":
					out = append(out, dsSite{x, i, "repoint"})
				case "root":
					out = append(out, dsSite{x, i, "change-root"})
				case "discriminator_inlined":
					out = append(out, dsSite{x, i, "flip"})
				case "discriminator_field_name":
					out = append(out, dsSite{x, i, "change-discriminator"})
				case "default":
					out = append(out, dsSite{x, i, "break-default"})
				case "pattern":
					out = append(out, dsSite{x, i, "break-pattern"})
				case "type_id":
					out = append(out, dsSite{x, i, "change-type"})
				case "namespace":
					out = append(out, dsSite{x, i, "change-namespace"})
				case "required", "disabled", "id_unenforced", "error":
					out = append(out, dsSite{x, i, "flip"})
				case "min", "max":
					out = append(out, dsSite{x, i, "perturb-number"})
				case "type":
					out = append(out, dsSite{x, i, "add-default"})
				}
			}
		case "l":
			for i := range x.L {
				out = append(out, dsSite{x, i, "delete"}, dsSite{x, i, "retype"}, dsSite{x, i, "duplicate"})
			}
		}
	})
	return out
}

// dsRefNodes lists the reference nodes (maps whose type_id is "ref") of a description, in walk order.
func dsRefNodes(root *hx.Val) []*hx.Val {
	var out []*hx.Val
	root.Walk(func(x *hx.Val) {
		if x.Kind != "m" {
			return
		}
		for _, kv := range x.M {
			if kv[0].Kind == "s" && kv[0].S == "type_id" && kv[1].Kind == "s" && kv[1].S == "ref" {
				out = append(out, x)
			}
		}
	})
	return out
}

// dsScopeNodes lists the scope nodes (maps with a string `root` and a map `objects`) of a description,
// in walk order: the top-level scope, nested scopes used as types, the data scopes of plugin schemas.
func dsScopeNodes(root *hx.Val) []*hx.Val {
	var out []*hx.Val
	root.Walk(func(x *hx.Val) {
		if x.Kind != "m" {
			return
		}
		r, o := dsGetField(x, "root"), dsGetField(x, "objects")
		if r != nil && r.Kind == "s" && o != nil && o.Kind == "m" {
			out = append(out, x)
		}
	})
	return out
}

func dsGetField(m *hx.Val, key string) *hx.Val {
	for _, kv := range m.M {
		if kv[0].Kind == "s" && kv[0].S == key {
			return kv[1]
		}
	}
	return nil
}

// dsRootObject returns the description of the root object of a scope node, or nil.
func dsRootObject(scope *hx.Val) *hx.Val {
	r, o := dsGetField(scope, "root"), dsGetField(scope, "objects")
	if r == nil || o == nil {
		return nil
	}
	if ro := dsGetField(o, r.S); ro != nil && ro.Kind == "m" {
		return ro
	}
	return nil
}

// dsMapNodes lists the non-empty map nodes of a description in walk order.
func dsMapNodes(root *hx.Val) []*hx.Val {
	var out []*hx.Val
	root.Walk(func(x *hx.Val) {
		if x.Kind == "m" && len(x.M) > 0 {
			out = append(out, x)
		}
	})
	return out
}

var dsOddKeyNames = []string{"NaN", "+Inf", "1.5", "int64", "uint64", "bool", "nil", "-0"}
var dsOddKeys = []func() *hx.Val{
	func() *hx.Val { return hx.F64(math.NaN()) },
	func() *hx.Val { return hx.F64(math.Inf(1)) },
	func() *hx.Val { return hx.F64(1.5) },
	func() *hx.Val { return hx.Int("int64", -3) },
	func() *hx.Val { return hx.Uint("uint64", 7) },
	func() *hx.Val { return hx.Bool(true) },
	func() *hx.Val { return hx.Nil() },
	func() *hx.Val { return hx.F64(math.Copysign(0, -1)) },
}

// dsCorruptHello encodes the hello message carrying the description and overwrites the first byte of
// one occurrence of `text` (as a CBOR text string: preceded by its header) with 0xb5, which is not
// valid UTF-8 on its own. The message keeps its length and structure.
func dsCorruptHello(desc any, text string, pick func(n int) int) (string, bool) {
	b, err := cbor.Marshal(atp.HelloMessage{Version: atp.ProtocolVersion, Schema: desc})
	if err != nil || len(text) == 0 || len(text) > 23 {
		return "", false
	}
	needle := append([]byte{0x60 | byte(len(text))}, []byte(text)...)
	var at []int
	for i := 0; i+len(needle) <= len(b); i++ {
		if bytes.Equal(b[i:i+len(needle)], needle) {
			at = append(at, i+1)
		}
	}
	if len(at) == 0 {
		return "", false
	}
	b[at[pick(len(at))]] = 0xb5
	return hex.EncodeToString(b), true
}

// dsTextsOf lists the distinct non-empty strings (keys and values) of a description, unit names first.
func dsTextsOf(desc *hx.Val) (unitNames []string, all []string) {
	seenU, seenA := map[string]bool{}, map[string]bool{}
	desc.Walk(func(x *hx.Val) {
		if x.Kind == "s" && x.S != "" && !seenA[x.S] {
			seenA[x.S] = true
			all = append(all, x.S)
		}
		if x.Kind == "m" {
			for _, kv := range x.M {
				if kv[0].Kind == "s" && strings.HasPrefix(kv[0].S, "name_") && kv[1].Kind == "s" && kv[1].S != "" && !seenU[kv[1].S] {
					seenU[kv[1].S] = true
					unitNames = append(unitNames, kv[1].S)
				}
			}
		}
	})
	sort.Strings(unitNames)
	sort.Strings(all)
	return
}

const dsDupIDVariants = 7

// dsDupIDDamage adds to the root object of the scope node an optional property whose type repeats an
// object ID that occurs already (the root's own), with a classic defect inside: an undecodable
// default, or a further nested scope without its root object. Every variant must be rejected at load.
func dsDupIDDamage(scope *hx.Val, variant int) (string, bool) {
	ro := dsRootObject(scope)
	rootID := dsGetField(scope, "root")
	if ro == nil || rootID == nil || rootID.Kind != "s" {
		return "", false
	}
	props := dsGetField(ro, "properties")
	if props == nil || props.Kind != "m" {
		return "", false
	}
	S := hx.Str
	kv := func(k string, v *hx.Val) [2]*hx.Val { return [2]*hx.Val{S(k), v} }
	m := func(kvs ...[2]*hx.Val) *hx.Val { return hx.StrAny(kvs...) }
	opt := kv("required", hx.Bool(false))
	strT := m(kv("type_id", S("string")))
	badDefault := func() *hx.Val { return m(kv("type", m(kv("type_id", S("integer")))), opt, kv("default", S("{"))) }
	plain := func() *hx.Val { return m(kv("type", strT), opt) }
	id := rootID.S
	objF := func(oid string, inner ...[2]*hx.Val) [][2]*hx.Val {
		return [][2]*hx.Val{kv("id", S(oid)), kv("properties", m(append([][2]*hx.Val{kv("k", plain())}, inner...)...))}
	}
	inlineObj := func(oid string, inner ...[2]*hx.Val) *hx.Val {
		return m(append(objF(oid, inner...), kv("type_id", S("object")))...)
	}
	nestedScope := func(oid string, inner ...[2]*hx.Val) *hx.Val {
		return m(kv("type_id", S("scope")), kv("root", S(oid)), kv("objects", m(kv(oid, m(objF(oid, inner...)...)))))
	}
	goneScope := func() *hx.Val { return m(kv("type_id", S("scope")), kv("root", S("Gone")), kv("objects", m())) }
	addProp := func(name string, t *hx.Val) { props.M = append(props.M, kv(name, m(kv("type", t), opt))) }
	switch variant {
	case 0:
		addProp("zz_inline", inlineObj(id, kv("zz_bad", badDefault())))
		return "duplicate-id inline object with an undecodable default", true
	case 1:
		addProp("zz_nested", nestedScope(id, kv("zz_bad", badDefault())))
		return "duplicate-id nested scope root with an undecodable default", true
	case 2:
		addProp("zz_nested", nestedScope(id, kv("sub", m(kv("type", goneScope()), opt))))
		return "duplicate-id nested scope root holding a scope without root object", true
	case 3:
		addProp("zz_s1", inlineObj("Stage", kv("zz_bad", badDefault())))
		addProp("zz_s2", inlineObj("Stage", kv("zz_bad", badDefault())))
		return "duplicate-id sibling inline objects, both with an undecodable default", true
	case 4:
		addProp("zz_list", m(kv("type_id", S("list")), kv("items", inlineObj(id, kv("zz_bad", badDefault())))))
		return "duplicate-id inline object under a list with an undecodable default", true
	case 5:
		addProp("zz_one", m(kv("type_id", S("one_of_string")), kv("discriminator_field_name", S("_t")),
			kv("types", m(kv("a", inlineObj(id, kv("sub", m(kv("type", goneScope()), opt))))))))
		return "duplicate-id one-of member holding a scope without root object", true
	default:
		addProp("zz_s1", nestedScope("Resources", kv("sub", m(kv("type", goneScope()), opt))))
		addProp("zz_s2", nestedScope("Resources", kv("sub", m(kv("type", goneScope()), opt))))
		return "duplicate-id sibling nested scopes, both holding a scope without root object", true
	}
}

// dsSetField sets (or adds) a string-keyed entry of a map node.
func dsSetField(m *hx.Val, key string, v *hx.Val) {
	for i, kv := range m.M {
		if kv[0].Kind == "s" && kv[0].S == key {
			m.M[i][1] = v
			return
		}
	}
	m.M = append(m.M, [2]*hx.Val{hx.Str(key), v})
}

// dsObjectIDs lists the keys of every "objects" map in the description.
func dsObjectIDs(root *hx.Val) []string {
	seen := map[string]bool{}
	root.Walk(func(x *hx.Val) {
		if x.Kind != "m" {
			return
		}
		for _, kv := range x.M {
			if kv[0].Kind == "s" && kv[0].S == "objects" && kv[1].Kind == "m" {
				for _, o := range kv[1].M {
					if o[0].Kind == "s" {
						seen[o[0].S] = true
					}
				}
			}
		}
	})
	out := make([]string, 0, len(seen))
	for s := range seen {
		out = append(out, s)
	}
	sort.Strings(out)
	return out
}

func dsRetyped(g *hx.Gen, old *hx.Val) *hx.Val {
	for {
		var v *hx.Val
		switch g.R.Intn(9) {
		case 0:
			v = hx.Nil()
		case 1:
			v = hx.Int("int64", int64(g.R.Intn(7)-2))
		case 2:
			v = hx.Str([]string{"", "x", "5", "true", "O1", "integer"}[g.R.Intn(6)])
		case 3:
			v = hx.Bool(g.R.Intn(2) == 0)
		case 4:
			v = hx.F64([]float64{1.5, 2, -1}[g.R.Intn(3)])
		case 5:
			v = hx.List()
		case 6:
			v = hx.List(hx.Str("a"), hx.Int("int64", 1))
		case 7:
			v = hx.StrAny()
		default:
			v = hx.AnyAny([2]*hx.Val{hx.Str("type_id"), hx.Str("string")})
		}
		if v.Kind != old.Kind || g.R.Intn(4) == 0 {
			return v
		}
	}
}

// dsApply performs the mutation at the site (on the tree the site points into).
func dsApply(g *hx.Gen, root *hx.Val, s dsSite) string {
	x := s.node
	if x.Kind == "l" {
		switch s.op {
		case "delete":
			x.L = append(append([]*hx.Val{}, x.L[:s.idx]...), x.L[s.idx+1:]...)
		case "retype":
			x.L[s.idx] = dsRetyped(g, x.L[s.idx])
		case "duplicate":
			x.L = append(x.L, dsCopyVal(x.L[s.idx]))
		}
		return s.op + " list element"
	}
	kv := x.M[s.idx]
	key := "?"
	if kv[0].Kind == "s" {
		key = kv[0].S
	} else if kv[0].Kind == "i" {
		key = kv[0].I.String()
	}
	ids := dsObjectIDs(root)
	otherID := func(cur string) string {
		var c []string
		for _, id := range ids {
			if id != cur {
				c = append(c, id)
			}
		}
		c = append(c, "Nope", "", "bad id")
		return c[g.R.Intn(len(c))]
	}
	switch s.op {
	case "delete":
		x.M = append(append([][2]*hx.Val{}, x.M[:s.idx]...), x.M[s.idx+1:]...)
	case "retype":
		x.M[s.idx][1] = dsRetyped(g, kv[1])
	case "nil":
		x.M[s.idx][1] = hx.Nil()
	case "rename":
		nk := dsMetaKeys[g.R.Intn(len(dsMetaKeys))]
		if g.R.Intn(3) == 0 {
			nk = []string{"zz", "", "Nope", "O1", "1"}[g.R.Intn(5)]
		}
		for _, o := range x.M {
			if o[0].Kind == "s" && o[0].S == nk {
				nk = nk + "_"
			}
		}
		x.M[s.idx][0] = hx.Str(nk)
		return "rename " + key + " to " + nk
	case "duplicate":
		nk := key + "2"
		if g.R.Intn(2) == 0 && len(ids) > 0 {
			nk = otherID(key)
		}
		for _, o := range x.M {
			if o[0].Kind == "s" && o[0].S == nk {
				return "duplicate " + key + " (no-op)"
			}
		}
		x.M = append(x.M, [2]*hx.Val{hx.Str(nk), dsCopyVal(kv[1])})
		return "duplicate " + key + " as " + nk
	case "perturb-key":
		nk := []*hx.Val{hx.Int("int64", 0), hx.Int("int64", -3), hx.Str("x"), hx.Int("int64", 1), hx.F64(1.5)}[g.R.Intn(5)]
		nb, _ := nk.MarshalJSON()
		for _, o := range x.M {
			if ob, _ := o[0].MarshalJSON(); string(ob) == string(nb) {
				return "perturb-key (no-op)"
			}
		}
		x.M[s.idx][0] = nk
	case "repoint", "change-root":
		cur := ""
		if kv[1].Kind == "s" {
			cur = kv[1].S
		}
		x.M[s.idx][1] = hx.Str(otherID(cur))
	case "flip":
		if kv[1].Kind == "b" {
			x.M[s.idx][1] = hx.Bool(!kv[1].B)
		} else {
			x.M[s.idx][1] = hx.Bool(true)
		}
	case "change-discriminator":
		x.M[s.idx][1] = hx.Str([]string{"a", "b", "_type", "kind", ""}[g.R.Intn(5)])
	case "break-default":
		x.M[s.idx][1] = hx.Str([]string{"{", "[1,", "nope", "\"unterminated", "{\"a\":}", "", "1e999", "null", "{}", "[[[[[[[[[[]]]]]]]]]]"}[g.R.Intn(10)])
	case "add-default":
		for _, o := range x.M {
			if o[0].Kind == "s" && o[0].S == "default" {
				return "add-default (no-op)"
			}
		}
		x.M = append(x.M, [2]*hx.Val{hx.Str("default"), hx.Str([]string{"{", "{}", "nope", "5", "[]", "\"x\"", "true"}[g.R.Intn(7)])})
	case "break-pattern":
		x.M[s.idx][1] = hx.Str([]string{"a(", "[", "*", "(?P<x", "\\"}[g.R.Intn(5)])
	case "change-type":
		x.M[s.idx][1] = hx.Str(dsTypeIDs[g.R.Intn(len(dsTypeIDs))])
	case "change-namespace":
		x.M[s.idx][1] = hx.Str([]string{"other", "ext", " "}[g.R.Intn(3)])
	case "perturb-number":
		x.M[s.idx][1] = []*hx.Val{hx.Int("int64", -1), hx.Int("int64", 0), hx.Str("5"), hx.Str("1kB"), hx.F64(2.5), hx.Uint("uint64", 1<<63), hx.Str("x")}[g.R.Intn(7)]
	}
	return s.op + " " + key
}

// dsMetaRandom returns a random tree over the meta-schema's field names.
func dsMetaRandom(g *hx.Gen, depth int) *hx.Val {
	if depth > 4 || g.R.Intn(5) == 0 {
		switch g.R.Intn(6) {
		case 0:
			return hx.Str(dsTypeIDs[g.R.Intn(len(dsTypeIDs))])
		case 1:
			return hx.Str([]string{"A", "B", "x", "", "5"}[g.R.Intn(5)])
		case 2:
			return hx.Bool(g.R.Intn(2) == 0)
		case 3:
			return hx.Int("int64", int64(g.R.Intn(5)-1))
		case 4:
			return hx.Nil()
		default:
			return g.RandomVal(2)
		}
	}
	if g.R.Intn(6) == 0 {
		l := &hx.Val{Kind: "l"}
		for i, n := 0, g.R.Intn(3); i < n; i++ {
			l.L = append(l.L, dsMetaRandom(g, depth+1))
		}
		return l
	}
	m := hx.StrAny()
	if g.R.Intn(3) == 0 {
		m = hx.AnyAny()
	}
	seen := map[string]bool{}
	for i, n := 0, 1+g.R.Intn(5); i < n; i++ {
		k := dsMetaKeys[g.R.Intn(len(dsMetaKeys))]
		if g.R.Intn(5) == 0 {
			k = []string{"A", "B", "x", "1"}[g.R.Intn(4)]
		}
		if seen[k] {
			continue
		}
		seen[k] = true
		m.M = append(m.M, [2]*hx.Val{hx.Str(k), dsMetaRandom(g, depth+1)})
	}
	return m
}

// ---------------------------------------------------------------------------------------------
// work items and the child

type dsWork struct {
	ID   int     `json:"id"`
	Mode string  `json:"mode"` // scope | schema | hello | hellobytes
	V    *hx.Val `json:"v"`
	// Raw: for mode hellobytes the CBOR bytes of the hello message (hex), corrupted at the byte level;
	// such messages have no counterpart in the model's value universe (strings there are valid
	// Unicode), so these items are judged by the direct oracle only
	Raw  string `json:"raw,omitempty"`
	Note string `json:"note"`
	Seed int64  `json:"seed"`
}

type dsUse struct {
	Scope  string    `json:"scope"`
	Schema *hx.Ty    `json:"schema"`
	Op     string    `json:"op"`
	V      *hx.Val   `json:"v"`
	Res    hx.Result `json:"res"`
}

// lines the child prints (one JSON object each)
type dsChildLine struct {
	Kind string     `json:"kind"` // start | load | check | use-start | use | done | hang
	ID   int        `json:"id"`
	Load *hx.Result `json:"load,omitempty"`
	Use  *dsUse     `json:"use,omitempty"`
	What string     `json:"what,omitempty"`
}

const dsCaseTimeout = 10 * time.Second

func dsLoad(mode string, w any) (scopes map[string]schema.Type, again any, err error) {
	scopes = map[string]schema.Type{}
	switch mode {
	case "scope":
		sc, err := schema.UnserializeScope(w)
		if err != nil {
			return nil, nil, err
		}
		scopes[""] = sc
		again, err = sc.SelfSerialize()
		if err != nil {
			return scopes, nil, fmt.Errorf("second SelfSerialize: %w", err)
		}
		return scopes, again, nil
	default:
		var sc *schema.SchemaSchema
		if mode == "hello" {
			sc, err = dsReadSchema(w)
		} else if mode == "hello1" {
			sc, err = dsReadSchemaV(w, 1) // a server of protocol version 1 sending the same description
		} else if mode == "hellobytes" {
			sc, err = atp.NewClient(&dsFakeServer{r: bytes.NewReader(w.([]byte))}).ReadSchema()
		} else {
			sc, err = schema.UnserializeSchema(w)
		}
		if err != nil {
			return nil, nil, err
		}
		for k, st := range sc.StepsValue {
			scopes[k+"/input"] = st.InputValue
			for ok, o := range st.OutputsValue {
				scopes[k+"/output/"+ok] = o.SchemaValue
			}
			for hk, h := range st.SignalHandlersValue {
				scopes[k+"/handler/"+hk] = h.DataSchemaValue
			}
			for ek, e := range st.SignalEmittersValue {
				scopes[k+"/emitter/"+ek] = e.DataSchemaValue
			}
		}
		again, err = sc.SelfSerialize()
		if err != nil {
			return scopes, nil, fmt.Errorf("second SelfSerialize: %w", err)
		}
		return scopes, again, nil
	}
}

// dsChild processes the work file from index `from`, printing progress lines.
func dsChild(workPath string, from int) {
	debug.SetMaxStack(48 << 20)
	f, err := os.Open(workPath)
	if err != nil {
		panic(err)
	}
	defer f.Close()
	out := bufio.NewWriter(os.Stdout)
	say := func(l dsChildLine) {
		b, _ := json.Marshal(l)
		out.Write(b)
		out.WriteByte('\n')
		out.Flush()
	}
	sc := bufio.NewScanner(f)
	sc.Buffer(make([]byte, 1<<20), 1<<28)
	idx := -1
	for sc.Scan() {
		idx++
		if idx < from {
			continue
		}
		var w dsWork
		if err := json.Unmarshal(sc.Bytes(), &w); err != nil {
			panic(err)
		}
		w.V = dsFixNil(w.V)
		timer := time.AfterFunc(dsCaseTimeout, func() {
			b, _ := json.Marshal(dsChildLine{Kind: "hang", ID: w.ID})
			os.Stdout.Write(append(b, '\n'))
			os.Exit(3)
		})
		say(dsChildLine{Kind: "start", ID: w.ID})
		var scopes map[string]schema.Type
		var again any
		load := hx.Guard(func() hx.Result {
			var arg any
			if w.Mode == "hellobytes" {
				raw, herr := hex.DecodeString(w.Raw)
				if herr != nil {
					panic(herr)
				}
				arg = raw
			} else {
				arg = w.V.ToGo()
			}
			s, a, err := dsLoad(w.Mode, arg)
			scopes = s
			if err != nil {
				if s != nil {
					return hx.Result{R: "ok", Msg: err.Error()} // loaded, but cannot be described again
				}
				return hx.ErrResult(err)
			}
			again = a
			return dsOK(a)
		})
		say(dsChildLine{Kind: "load", ID: w.ID, Load: &load})
		if load.R == "ok" && again != nil {
			if w.Mode == "hello" || w.Mode == "hello1" {
				// whatever protocol version the hello announces, ReadSchema returns what UnserializeSchema
				// makes of the description the message carries
				cmp := hx.Guard(func() hx.Result {
					c, err := dsCBOR(w.V.ToGo())
					if err != nil {
						return hx.Result{R: "ok", V: hx.Enc(again)}
					}
					sc, err := schema.UnserializeSchema(c)
					if err != nil {
						return hx.ErrResult(err)
					}
					d, err := sc.SelfSerialize()
					if err != nil {
						return hx.ErrResult(err)
					}
					return dsOK(d)
				})
				if cmp.R != "ok" || hx.Canon(cmp.V) != hx.Canon(hx.Enc(again)) {
					say(dsChildLine{Kind: "check", ID: w.ID, What: "ReadSchema (mode " + w.Mode + ") returns another schema than UnserializeSchema of the description the hello message carries (" + cmp.R + ")"})
				}
			}
			dsExercise(w, scopes, again, say)
		}
		timer.Stop()
		say(dsChildLine{Kind: "done", ID: w.ID})
	}
}

// dsExercise runs all four operations on every returned scope with generated inputs.
func dsExercise(w dsWork, scopes map[string]schema.Type, again any, say func(dsChildLine)) {
	g := hx.NewGen(w.Seed)
	trees := map[string]*dsTy{}
	if w.Mode == "scope" {
		if t, err := dsParseScope(again); err == nil {
			trees[""] = t
		}
	} else if p, err := dsParsePlugin(again); err == nil {
		labels, ts := p.scopes()
		for i, l := range labels {
			trees[l] = ts[i]
		}
	}
	labels := make([]string, 0, len(scopes))
	for l := range scopes {
		labels = append(labels, l)
	}
	sort.Strings(labels)
	// EVERY returned data scope - input, each output, each signal handler and each signal emitter,
	// separately - must be completely linked, whether or not an input reaches every part
	for _, l := range labels {
		for _, problem := range dsLinkProblems(scopes[l]) {
			say(dsChildLine{Kind: "check", ID: w.ID, What: "scope " + strconv.Quote(l) + ": " + problem})
		}
	}
	// exercised: signal handlers that share their key with an emitter first, then a seeded selection
	if len(labels) > 5 {
		var first, rest []string
		for _, l := range labels {
			if i := strings.Index(l, "/handler/"); i >= 0 {
				if _, ok := scopes[l[:i]+"/emitter/"+l[i+len("/handler/"):]]; ok {
					first = append(first, l)
					continue
				}
			}
			rest = append(rest, l)
		}
		g.R.Shuffle(len(rest), func(i, j int) { rest[i], rest[j] = rest[j], rest[i] })
		labels = append(first, rest...)[:5]
	}
	for _, l := range labels {
		sc := scopes[l]
		t := trees[l]
		if t == nil {
			say(dsChildLine{Kind: "use", ID: w.ID, What: "description of a returned scope cannot be parsed: " + l})
			continue
		}
		ft := t.forget()
		// the type-directed generator assumes generated schemas (e.g. a one-of has members)
		value := func() (v *hx.Val) {
			defer func() {
				if r := recover(); r != nil {
					v = g.RandomVal(0)
				}
			}()
			return g.Value(ft, hx.Env{}, 0)
		}
		nCover := 3
		inputs := []*hx.Val{}
		for i := 0; i < nCover; i++ {
			inputs = append(inputs, dsCover(g, t, map[string]*dsTy{}, map[string]int{}, i, 0))
		}
		inputs = append(inputs, value(), g.RandomVal(0), hx.Int("int64", 5), hx.StrAny())
		first := true
		run := func(op string, v *hx.Val, goVal any, useGo bool) (hx.Result, any) {
			u := &dsUse{Scope: l, Op: op, V: v}
			if first {
				u.Schema = ft
				first = false
			}
			say(dsChildLine{Kind: "use-start", ID: w.ID, Use: u})
			var raw any
			res := hx.Guard(func() hx.Result {
				arg := goVal
				if !useGo {
					arg = v.ToGo()
				}
				r, out := hx.RunOpRaw(op, sc, arg)
				raw = out
				return r
			})
			say(dsChildLine{Kind: "use", ID: w.ID, Use: &dsUse{Scope: l, Op: op, Res: res}})
			return res, raw
		}
		for i, in := range inputs {
			ru, native := run("U", in, nil, false)
			run("C", in, nil, false)
			if i < nCover || i >= nCover+1 {
				run("V", in, nil, false)
				run("S", in, nil, false)
			}
			if ru.R == "ok" {
				nv := hx.Enc(native)
				run("V", nv, native, true)
				run("S", nv, native, true)
			}
		}
	}
}

// dsLinkProblems checks a returned scope structurally: ValidateReferences must succeed, and every
// reference anywhere in it (objects of every scope, nested scopes, properties, list items, map keys
// and values, one-of members) must be linked.
func dsLinkProblems(sc schema.Type) (problems []string) {
	defer func() {
		if r := recover(); r != nil {
			problems = append(problems, fmt.Sprintf("inspecting the returned schema panicked: %v", r))
		}
	}()
	if err := sc.ValidateReferences(); err != nil {
		problems = append(problems, "ValidateReferences of the returned schema fails: "+err.Error())
	}
	var walk func(t schema.Type, path string)
	walk = func(t schema.Type, path string) {
		switch x := t.(type) {
		case *schema.RefSchema:
			if !x.ObjectReady() {
				problems = append(problems, fmt.Sprintf("unlinked reference to %q in namespace %q at %s", x.ID(), x.Namespace(), path))
			}
		case *schema.ScopeSchema:
			if ro, ok := x.Objects()[x.Root()]; !ok || ro == nil {
				problems = append(problems, fmt.Sprintf("scope at %s has no root object %q", path, x.Root()))
			} else if ro.ID() != x.Root() {
				problems = append(problems, fmt.Sprintf("root object of the scope at %s has ID %q under key %q (RootObject() panics)", path, ro.ID(), x.Root()))
			}
			ids := make([]string, 0, len(x.Objects()))
			for id := range x.Objects() {
				ids = append(ids, id)
			}
			sort.Strings(ids)
			for _, id := range ids {
				walk(x.Objects()[id], path+"/objects/"+id)
			}
		case *schema.ObjectSchema:
			func() {
				defer func() {
					if r := recover(); r != nil {
						problems = append(problems, fmt.Sprintf("the defaults of object %q at %s cannot be extracted: %v", x.ID(), path, r))
					}
				}()
				x.GetDefaults()
			}()
			names := make([]string, 0, len(x.PropertiesValue))
			for n := range x.PropertiesValue {
				names = append(names, n)
			}
			sort.Strings(names)
			for _, n := range names {
				if p := x.PropertiesValue[n]; p != nil && p.TypeValue != nil {
					walk(p.TypeValue, path+"/"+n)
				} else {
					problems = append(problems, "nil property or property type at "+path+"/"+n)
				}
			}
		case *schema.ListSchema:
			walk(x.ItemsValue, path+"/items")
		case *schema.MapSchema[schema.Type, schema.Type]:
			walk(x.KeysValue, path+"/keys")
			walk(x.ValuesValue, path+"/values")
		case *schema.OneOfSchema[string]:
			keys := make([]string, 0, len(x.TypesValue))
			for k := range x.TypesValue {
				keys = append(keys, k)
			}
			sort.Strings(keys)
			for _, k := range keys {
				walk(x.TypesValue[k], path+"/types/"+k)
			}
		case *schema.OneOfSchema[int64]:
			keys := make([]int64, 0, len(x.TypesValue))
			for k := range x.TypesValue {
				keys = append(keys, k)
			}
			sort.Slice(keys, func(i, j int) bool { return keys[i] < keys[j] })
			for _, k := range keys {
				walk(x.TypesValue[k], path+"/types/"+strconv.FormatInt(k, 10))
			}
		}
	}
	walk(sc, "")
	if len(problems) > 4 {
		problems = problems[:4]
	}
	return problems
}

// dsCover builds an input from the structure of the returned schema itself that supplies EVERY
// property of every object it reaches - also of the objects reached through references - so that
// each part of the schema is entered at least once. Objects on the current path are entered at most
// twice (recursive references); `choice` selects which member of each one-of is taken. Scalars come
// from the type-directed generator.
func dsCover(g *hx.Gen, t *dsTy, env map[string]*dsTy, onPath map[string]int, choice int, depth int) *hx.Val {
	return dsCoverOpt(g, t, env, onPath, choice, depth, false)
}

// dsCoverOpt: with requiredOnly, objects get their required, enabled properties only (the rest is
// left to defaults and presence rules).
func dsCoverOpt(g *hx.Gen, t *dsTy, env map[string]*dsTy, onPath map[string]int, choice int, depth int, requiredOnly bool) *hx.Val {
	if t == nil || depth > 12 {
		return hx.StrAny()
	}
	switch t.T {
	case "list":
		return hx.List(dsCoverOpt(g, t.Item, env, onPath, choice, depth+1, requiredOnly))
	case "map":
		k := dsCoverOpt(g, t.K, env, onPath, choice, depth+1, requiredOnly)
		if k.Kind != "s" && k.Kind != "i" { // a Go map key must be hashable; keep strings and integers
			k = hx.Str("k")
		}
		if choice == 2 {
			k = hx.F64(math.NaN()) // as a CBOR or YAML decoder can produce it
		}
		return hx.AnyAny([2]*hx.Val{k, dsCoverOpt(g, t.V, env, onPath, choice, depth+1, requiredOnly)})
	case "obj":
		m := hx.StrAny()
		for _, np := range t.Props {
			if requiredOnly && (!np.P.Required || np.P.Disabled) {
				continue
			}
			m.M = append(m.M, [2]*hx.Val{hx.Str(np.Name), dsCoverOpt(g, np.P.Ty, env, onPath, choice, depth+1, requiredOnly)})
		}
		return m
	case "ref":
		if t.NS == dsForeignNS {
			if o, ok := dsForeignObjs()[t.ID]; ok {
				return dsCoverOpt(g, o, env, onPath, choice, depth+1, requiredOnly)
			}
		}
		o, ok := env[t.ID]
		if !ok || t.NS != "" || onPath[t.ID] >= 2 {
			return hx.StrAny() // nothing known about the target: any map enters the reference
		}
		onPath[t.ID]++
		v := dsCoverOpt(g, o, env, onPath, choice, depth+1, requiredOnly)
		onPath[t.ID]--
		return v
	case "scope":
		env2 := map[string]*dsTy{}
		for _, o := range t.Objs {
			env2[o.ID] = o.Ty
		}
		root, ok := env2[t.Root]
		if !ok {
			return hx.StrAny()
		}
		return dsCoverOpt(g, root, env2, map[string]int{t.Root: 1}, choice, depth+1, requiredOnly)
	case "oneOf":
		if len(t.Members) == 0 {
			return hx.StrAny()
		}
		mb := t.Members[choice%len(t.Members)]
		v := dsCoverOpt(g, mb.Ty, env, onPath, choice, depth+1, requiredOnly)
		if v.Kind != "m" {
			v = hx.StrAny()
		}
		var d *hx.Val = hx.Str(mb.Key)
		if t.IntKey {
			n, _ := strconv.ParseInt(mb.Key, 10, 64)
			d = hx.Int("int64", n)
		}
		dsSetField(v, t.Disc, d)
		v.MK, v.MVA = "string", true
		return v
	}
	// a number with units given as TEXT is parsed with the units' own expression (built on first use)
	if t.Units != nil && (t.T == "int" || t.T == "float" || t.T == "enumInt") {
		switch choice % 3 {
		case 0:
			if t.T == "enumInt" && len(t.DVals) > 0 {
				return hx.Str(t.DVals[0].Val)
			}
			return hx.Str("5")
		case 1:
			return hx.Str("3" + t.Units.Base[0])
		}
	}
	// scalars and `any`: the type-directed generator (it assumes generated schemas)
	var v *hx.Val
	func() {
		defer func() {
			if r := recover(); r != nil {
				v = hx.Str("x")
			}
		}()
		v = g.Value(t.forget(), hx.Env{}, 4)
	}()
	return v
}

// ---------------------------------------------------------------------------------------------
// the parent

func dsRebuildCmd(a Args) {
	if os.Getenv("DS_CONC_WORK") != "" {
		dsConcChild(os.Getenv("DS_CONC_WORK"), os.Getenv("DS_CONC_MODE"))
		return
	}
	if os.Getenv("DS_CHILD_WORK") != "" {
		from, _ := strconv.Atoi(os.Getenv("DS_CHILD_FROM"))
		dsChild(os.Getenv("DS_CHILD_WORK"), from)
		return
	}
	if a.Replay != "" {
		dsReplay(a)
		return
	}
	s := dsNewSink(a.Out)
	g := hx.NewGen(a.Seed)
	d := &dsGen{g: g}
	thorough := a.Tier == "thorough"
	var work []dsWork
	add := func(mode string, v *hx.Val, note string) {
		work = append(work, dsWork{ID: len(work), Mode: mode, V: v, Note: note, Seed: a.Seed*1000003 + int64(len(work))})
	}
	mutants := func(mode string, desc *hx.Val, kind string, singles, doubles int) {
		dsSortVal(desc)
		add(mode, dsCopyVal(desc), kind+": unmutated")
		nSites := len(dsSites(desc))
		s.stats["sites:"+kind] += nSites
		pickSites := func(n int) []int {
			if thorough && n >= nSites {
				out := make([]int, nSites)
				for i := range out {
					out[i] = i
				}
				return out
			}
			out := make([]int, n)
			for i := range out {
				out[i] = g.R.Intn(nSites)
			}
			return out
		}
		if nSites == 0 {
			return
		}
		if thorough {
			// every site of a small description; a sample of a large one (all work items are held in memory, and
			// a plugin schema has thousands of sites: all of them for every description needs tens of gigabytes)
			singles = nSites
			if singles > 120 {
				singles = 120
			}
			doubles *= 10
		}
		for _, si := range pickSites(singles) {
			c := dsCopyVal(desc)
			note := dsApply(g, c, dsSites(c)[si])
			add(mode, c, kind+": "+note)
		}
		// targeted: every reference of the description, at whatever depth (objects other than the root,
		// under lists, maps and one-of members), is in turn moved to a foreign namespace, given an
		// ill-typed namespace, and re-pointed to a missing object
		nRefs := len(dsRefNodes(desc))
		s.stats["refs:"+kind] += nRefs
		refIdx := g.R.Perm(nRefs)
		if !thorough && len(refIdx) > 6 {
			refIdx = refIdx[:6]
		}
		for n, ri := range refIdx {
			c := dsCopyVal(desc)
			node := dsRefNodes(c)[ri]
			var note string
			switch {
			case n%3 == 2:
				dsSetField(node, "id", hx.Str("Nope"))
				note = "ref-dangle"
			case n%6 == 4:
				dsSetField(node, "namespace", []*hx.Val{hx.Int("int64", 7), hx.Nil(), hx.List()}[g.R.Intn(3)])
				note = "ref-namespace-retype"
			default:
				dsSetField(node, "namespace", hx.Str([]string{"other", "ext", " "}[g.R.Intn(3)]))
				note = "ref-namespace"
			}
			add(mode, c, kind+": "+note+" (reference "+strconv.Itoa(ri)+")")
		}
		// targeted: the KEY of an entry of some map node (steps, objects, properties, outputs, one-of
		// types, enum values, multipliers, any struct-like node) is replaced by, or an entry is added
		// under, an oddly typed key as CBOR and YAML decoders produce them
		mapNodes := dsMapNodes(desc)
		s.stats["map-nodes:"+kind] += len(mapNodes)
		for n, mi := range g.R.Perm(len(mapNodes)) {
			if !thorough && n >= 4 {
				break
			}
			c := dsCopyVal(desc)
			node := dsMapNodes(c)[mi]
			ki := g.R.Intn(len(dsOddKeys))
			if n == 0 {
				ki = 0 // NaN at least once per seed description
			}
			key := dsOddKeys[ki]()
			// the odd key must be a NEW key of the node: a Go map cannot hold a key twice (the later entry
			// would silently replace the earlier one), while the model's list of pairs can
			clash := false
			for _, kv := range node.M {
				if hx.Canon(kv[0]) == hx.Canon(key) {
					clash = true
				}
			}
			if clash {
				s.stats["map-nodes:odd-key-already-there"]++
				continue
			}
			node.MK = "any"
			ei := g.R.Intn(len(node.M))
			var note string
			if g.R.Intn(2) == 0 {
				node.M[ei][0] = key
				note = "odd-key-replace"
			} else {
				node.M = append(node.M, [2]*hx.Val{key, dsCopyVal(node.M[ei][1])})
				note = "odd-key-add"
			}
			add(mode, c, kind+": "+note+" "+dsOddKeyNames[ki]+" (map node "+strconv.Itoa(mi)+")")
		}
		// targeted: damage planted in an object whose ID ALSO occurs elsewhere in the same top-level
		// scope (object IDs are unique per scope only): below the first occurrence - an inline object, a
		// nested scope whose root carries the enclosing root's ID, under a list, as a one-of member -
		// and as siblings
		for n, si := range g.R.Perm(len(dsScopeNodes(desc))) {
			if !thorough && n >= 1 {
				break
			}
			for variant := 0; variant < dsDupIDVariants; variant++ {
				c := dsCopyVal(desc)
				if note, ok := dsDupIDDamage(dsScopeNodes(c)[si], variant); ok {
					add(mode, c, kind+": "+note+" (scope "+strconv.Itoa(si)+")")
				}
			}
		}
		// targeted: the root object of every scope of the description (top level, nested scopes, data
		// scopes of steps) gets an ID different from its key - with and without `id_unenforced` -, is
		// merely marked unenforced (stays valid), or has its `id` retyped / renamed away
		nScopes := len(dsScopeNodes(desc))
		s.stats["scopes:"+kind] += nScopes
		scIdx := g.R.Perm(nScopes)
		if !thorough && len(scIdx) > 4 {
			scIdx = scIdx[:4]
		}
		for n, si := range scIdx {
			c := dsCopyVal(desc)
			ro := dsRootObject(dsScopeNodes(c)[si])
			if ro == nil {
				continue
			}
			var note string
			variant := g.R.Intn(5)
			if n == 0 {
				variant = 0 // at least one unenforced root with a differing ID per seed description
			}
			switch variant {
			case 0, 3:
				dsSetField(ro, "id_unenforced", hx.Bool(true))
				dsSetField(ro, "id", hx.Str([]string{"zz", "Other", "O1"}[g.R.Intn(3)]+"x"))
				note = "root-unenforced-id-mismatch"
			case 1:
				dsSetField(ro, "id", hx.Str("zzx"))
				note = "root-id-mismatch"
			case 2:
				dsSetField(ro, "id_unenforced", hx.Bool(true))
				note = "root-unenforced"
			default:
				dsSetField(ro, "id_unenforced", hx.Bool(true))
				if g.R.Intn(2) == 0 {
					dsSetField(ro, "id", hx.Int("int64", 5)) // the string schema reads it as "5"
					note = "root-unenforced-id-retype"
				} else {
					for i, kv := range ro.M {
						if kv[0].Kind == "s" && kv[0].S == "id" {
							ro.M[i][0] = hx.Str("ident")
						}
					}
					note = "root-unenforced-id-rename"
				}
			}
			add(mode, c, kind+": "+note+" (scope "+strconv.Itoa(si)+")")
		}
		for i := 0; i < doubles; i++ {
			c := dsCopyVal(desc)
			n1 := dsApply(g, c, dsSites(c)[g.R.Intn(nSites)])
			sites2 := dsSites(c)
			if len(sites2) == 0 {
				continue
			}
			n2 := dsApply(g, c, sites2[g.R.Intn(len(sites2))])
			add(mode, c, kind+": "+n1+" + "+n2)
		}
	}
	g.MaxDepth = 2
	for i := 0; i < a.N; i++ {
		switch {
		case i%5 == 4:
			p := d.plugin()
			if g.R.Intn(3) == 0 {
				_, scs := p.scopes()
				for _, sc := range scs {
					for _, o := range sc.Objs {
						if o.ID == sc.Root && g.R.Intn(2) == 0 {
							o.Ty.Unenforced = true
						}
					}
				}
			}
			var desc any
			r := hx.Guard(func() hx.Result {
				v, err := p.build().SelfSerialize()
				if err != nil {
					return hx.ErrResult(err)
				}
				desc = v
				return hx.Result{R: "ok"}
			})
			if r.R != "ok" {
				s.count("skipped:seed-not-describable")
				continue
			}
			mode := "schema"
			dv := hx.Enc(desc)
			if i%10 == 9 {
				mode = "hello"
				if i%20 == 19 {
					mode = "hello1"
				}
			}
			mutants(mode, dv, "plugin", 10, 3)
			// the hello message corrupted at the byte level: one text (a unit name if there is one, else
			// any key or value) made invalid UTF-8
			units, all := dsTextsOf(dv)
			for k := 0; k < 3; k++ {
				pool, what := all, "text"
				if len(units) > 0 && k < 2 {
					pool, what = units, "unit name"
				}
				if len(pool) == 0 {
					continue
				}
				text := pool[g.R.Intn(len(pool))]
				if raw, ok := dsCorruptHello(desc, text, g.R.Intn); ok {
					work = append(work, dsWork{ID: len(work), Mode: "hellobytes", V: hx.Nil(), Raw: raw,
						Note: fmt.Sprintf("plugin: invalid UTF-8 in %s %q of the hello message", what, text), Seed: a.Seed*1000003 + int64(len(work))})
				}
			}
		default:
			t := d.scope(false)
			if g.R.Intn(3) == 0 {
				// a root object that does not enforce its ID (also the root of a nested scope, if any)
				t.walk(func(x *dsTy) {
					if x.T == "scope" {
						for _, o := range x.Objs {
							if o.ID == x.Root {
								o.Ty.Unenforced = true
							}
						}
					}
				})
			}
			var desc any
			r := hx.Guard(func() hx.Result {
				v, err := t.buildScope().SelfSerialize()
				if err != nil {
					return hx.ErrResult(err)
				}
				desc = v
				return hx.Result{R: "ok"}
			})
			if r.R != "ok" {
				s.count("skipped:seed-not-describable")
				continue
			}
			mutants("scope", hx.Enc(desc), "scope", 10, 3)
		}
		add("scope", g.RandomVal(0), "random: grammar-free")
		add([]string{"scope", "schema"}[g.R.Intn(2)], dsMetaRandom(g, 0), "random: meta field names")
	}
	dsWitnessesC10(add)
	// fixed: a plugin whose step input has an integer with units; each of the unit names in turn is
	// made invalid UTF-8 inside the CBOR hello message
	{
		unitsT := &dsTy{T: "int", Units: hx.BuiltinUnits["nanoseconds"]}
		in := &dsTy{T: "scope", Root: "In", Objs: []dsNamedObj{{"In", &dsTy{T: "obj", ID: "In", Props: []dsNamedProp{
			{"wait", &dsProp{Ty: unitsT}}, {"ratio", &dsProp{Ty: &dsTy{T: "float", Units: hx.BuiltinUnits["percentage"]}}}, {"x", &dsProp{Ty: &dsTy{T: "str"}}}}}}}}
		out := &dsTy{T: "scope", Root: "Out", Objs: []dsNamedObj{{"Out", &dsTy{T: "obj", ID: "Out"}}}}
		p := &dsPlugin{Steps: []dsKeyed[*dsStep]{{"s", &dsStep{ID: "s", Input: in, Outputs: []dsKeyed[*dsOutput]{{"ok", &dsOutput{Schema: out}}}}}}}
		if desc, err := p.build().SelfSerialize(); err == nil {
			for _, text := range []string{"ms", "nanosecond", "percent", "s", "%", "wait", "In"} {
				if raw, ok := dsCorruptHello(desc, text, func(int) int { return 0 }); ok {
					work = append(work, dsWork{ID: len(work), Mode: "hellobytes", V: hx.Nil(), Raw: raw,
						Note: fmt.Sprintf("witness: invalid UTF-8 in %q of the hello message", text), Seed: a.Seed*1000003 + int64(len(work))})
				}
			}
		}
	}
	for i, w := range dsConcurrentDescriptions(a.Seed, 30) {
		add(w.Mode, w.V, fmt.Sprintf("patterns: description %d with distinct patterns", i))
	}
	// hello mode carries the description over CBOR: values that cannot be encoded cannot be sent
	kept := work[:0]
	for _, w := range work {
		if w.Mode == "hello" || w.Mode == "hello1" {
			if _, err := dsCBOR(w.V.ToGo()); err != nil {
				s.count("skipped:hello-not-encodable")
				continue
			}
		}
		w.ID = len(kept)
		kept = append(kept, w)
	}
	work = kept
	workPath := filepath.Join(a.Out, "work.jsonl")
	wf, err := os.Create(workPath)
	if err != nil {
		panic(err)
	}
	bw := bufio.NewWriterSize(wf, 1<<20)
	for _, w := range work {
		b, _ := json.Marshal(w)
		bw.Write(b)
		bw.WriteByte('\n')
	}
	bw.Flush()
	wf.Close()
	dsSupervise(s, work, workPath)
	dsConcurrencyGroup(s, a)
	s.close(map[string]any{"generator": g.Stats, "seed": a.Seed, "work_items": len(work)})
}

// dsWitnessesC10 adds the fixed inputs of the repaired defects and of the known finding.
func dsWitnessesC10(add func(mode string, v *hx.Val, note string)) {
	S := hx.Str
	kv := func(k string, v *hx.Val) [2]*hx.Val { return [2]*hx.Val{S(k), v} }
	m := func(kvs ...[2]*hx.Val) *hx.Val { return hx.StrAny(kvs...) }
	strT := m(kv("type_id", S("string")))
	prop := func(t *hx.Val, extra ...[2]*hx.Val) *hx.Val {
		return m(append([][2]*hx.Val{kv("type", t)}, extra...)...)
	}
	obj := func(id string, props ...[2]*hx.Val) *hx.Val { return m(kv("id", S(id)), kv("properties", m(props...))) }
	scope := func(root string, objs ...[2]*hx.Val) *hx.Val {
		return m(kv("root", S(root)), kv("objects", m(objs...)))
	}
	ref := func(id string) *hx.Val { return m(kv("type_id", S("ref")), kv("id", S(id))) }
	add("scope", scope("A", kv("A", obj("A", kv("b", prop(ref("Nope"))), kv("c", prop(strT))))), "witness D18: dangling reference")
	add("scope", scope("A", kv("A", obj("A", kv("b", prop(m(kv("type_id", S("integer"))), kv("default", S("{")), kv("required", hx.Bool(false)))), kv("c", prop(strT))))), "witness D18: default is not JSON")
	add("scope", scope("Z", kv("A", obj("A", kv("c", prop(strT))))), "witness D18: missing root")
	add("scope", scope("A", kv("A", obj("B", kv("c", prop(strT))))), "witness D18: root ID differs from its key")
	xobj := func(props ...[2]*hx.Val) *hx.Val {
		o := obj("X", props...)
		o.M = append(o.M, kv("type_id", S("object")))
		return o
	}
	oneof := func(inl bool, member *hx.Val) *hx.Val {
		return m(kv("type_id", S("one_of_string")), kv("discriminator_field_name", S("t")), kv("discriminator_inlined", hx.Bool(inl)), kv("types", m(kv("x", member))))
	}
	add("scope", scope("A", kv("A", obj("A", kv("c", prop(oneof(true, xobj())))))), "witness D18: inlined one-of member without the discriminator")
	add("scope", scope("A", kv("A", obj("A", kv("c", prop(oneof(false, xobj(kv("t", prop(strT))))))))), "witness D18: one-of member declares the discriminator")
	add("scope", scope("A", kv("A", obj("A", kv("b", prop(ref("B"))))), kv("B", obj("B", kv("x", prop(strT)), kv("y", prop(strT))))), "witness D17: references of a rebuilt scope")
	add("scope", scope("A", kv("A", obj("A", kv("i", prop(m(kv("type_id", S("integer")), kv("min", hx.Int("int64", -5)))))))), "witness D16: negative integer bound")
	unit := func(n string) *hx.Val {
		return m(kv("name_short_singular", S(n)), kv("name_short_plural", S(n)), kv("name_long_singular", S(n+"l")), kv("name_long_plural", S(n+"ls")))
	}
	add("scope", scope("A", kv("A", obj("A", kv("c", prop(m(kv("type_id", S("integer")), kv("units", m(kv("base_unit", unit("b")), kv("multipliers", hx.AnyAny([2]*hx.Val{hx.Int("int64", -5), unit("k")}))))))), kv("d", prop(strT))))), "witness: negative unit multiplier")
	// references that cannot be linked, away from the root object: in a non-root object, under a list,
	// under a map, as a one-of member
	nsref := func(id, ns string) *hx.Val {
		return m(kv("type_id", S("ref")), kv("id", S(id)), kv("namespace", S(ns)))
	}
	opt := kv("required", hx.Bool(false))
	child := func(leaf *hx.Val) *hx.Val {
		return scope("Root", kv("Root", obj("Root", kv("child", prop(ref("Child"), opt)), kv("x", prop(strT, opt)))),
			kv("Child", obj("Child", kv("leaf", prop(leaf, opt)), kv("y", prop(strT, opt)))),
			kv("T", obj("T", kv("z", prop(strT, opt)))))
	}
	add("scope", child(nsref("T", "other")), "witness: foreign-namespace reference in a non-root object")
	add("scope", child(m(kv("type_id", S("list")), kv("items", nsref("T", "other")))), "witness: foreign-namespace reference under a list in a non-root object")
	add("scope", child(m(kv("type_id", S("map")), kv("keys", strT), kv("values", nsref("T", "other")))), "witness: foreign-namespace reference under a map in a non-root object")
	add("scope", child(m(kv("type_id", S("one_of_string")), kv("discriminator_field_name", S("t")), kv("types", m(kv("a", nsref("T", "other")))))), "witness: foreign-namespace reference as a one-of member in a non-root object")
	add("scope", child(ref("Nope")), "witness: dangling reference in a non-root object")
	okOut := m(kv("schema", scope("O", kv("O", obj("O")))))
	stepS := m(kv("id", S("s")), kv("input", child(nsref("T", "other"))), kv("outputs", m(kv("ok", okOut))))
	add("schema", m(kv("steps", m(kv("s", stepS)))), "witness: foreign-namespace reference in a non-root object of a step input")
	// a root object that does not enforce its ID still has to carry the ID it is registered under
	// (RootObject() compares unconditionally): top level, nested scope, step input, step output
	unenfRoot := func(key, id string) *hx.Val {
		o := obj(id, kv("x", prop(strT, opt)), kv("y", prop(strT, opt)))
		o.M = append(o.M, kv("id_unenforced", hx.Bool(true)))
		return scope(key, kv(key, o))
	}
	add("scope", unenfRoot("Obj1", "zz"), "witness: unenforced root object whose ID differs from its key")
	add("scope", unenfRoot("Obj1", "Obj1"), "witness: unenforced root object with the matching ID (valid)")
	nested := unenfRoot("Inner", "zz")
	nested.M = append(nested.M, kv("type_id", S("scope")))
	add("scope", scope("A", kv("A", obj("A", kv("sub", prop(nested, opt)), kv("d", prop(strT, opt))))), "witness: unenforced root object with a differing ID in a nested scope")
	stepIn := m(kv("id", S("s")), kv("input", unenfRoot("Obj1", "zz")), kv("outputs", m(kv("ok", okOut))))
	add("schema", m(kv("steps", m(kv("s", stepIn)))), "witness: unenforced root object with a differing ID in a step input")
	stepOut := m(kv("id", S("s")), kv("input", scope("O", kv("O", obj("O")))), kv("outputs", m(kv("ok", m(kv("schema", unenfRoot("Obj1", "zz")))))))
	add("hello", m(kv("steps", m(kv("s", stepOut)))), "witness: unenforced root object with a differing ID in a step output")
	// a signal handler and a signal emitter under the same key: both data schemas must be linked and
	// checked; the handler's needs it (a reference), or is defective
	handlerData := func(itemRef *hx.Val, root string, extra ...[2]*hx.Val) *hx.Val {
		props := append([][2]*hx.Val{kv("item", prop(itemRef, opt)), kv("x", prop(strT, opt))}, extra...)
		return scope(root, kv("Root", obj("Root", props...)), kv("Item", obj("Item", kv("y", prop(strT, opt)), kv("z", prop(strT, opt)))))
	}
	sameKey := func(hdata *hx.Val) *hx.Val {
		sig := func(data *hx.Val) *hx.Val { return m(kv("sig", m(kv("id", S("sig")), kv("data_schema", data)))) }
		st := m(kv("id", S("s")), kv("input", scope("O", kv("O", obj("O")))), kv("outputs", m(kv("ok", okOut))),
			kv("signal_handlers", sig(hdata)), kv("signal_emitters", sig(scope("E",
				kv("E", obj("E", kv("e", prop(strT, opt)), kv("next", prop(ref("E"), opt)), kv("all", prop(m(kv("type_id", S("list")), kv("items", ref("F"))), opt)))),
				kv("F", obj("F", kv("f", prop(strT, opt)), kv("g", prop(strT, opt))))))))
		return m(kv("steps", m(kv("s", st))))
	}
	for _, mode := range []string{"schema", "hello", "hello1"} {
		add(mode, sameKey(handlerData(ref("Item"), "Root")), "witness: handler and emitter share a key; the handler's data schema has a reference (valid)")
		add(mode, sameKey(handlerData(ref("Nope"), "Root")), "witness: handler and emitter share a key; dangling reference in the handler's data schema")
		add(mode, sameKey(handlerData(ref("Item"), "Gone")), "witness: handler and emitter share a key; the handler's data schema has no root object")
		add(mode, sameKey(handlerData(ref("Item"), "Root", kv("q", prop(m(kv("type_id", S("integer"))), opt, kv("default", S("{")))))), "witness: handler and emitter share a key; undecodable default in the handler's data schema")
	}
	// valid: nested scopes (as a property type, under a list, as a one-of member) whose references
	// resolve inside the nested scope; must load and be usable
	inner := func(tag string) *hx.Val {
		sc := scope("I"+tag, kv("I"+tag, obj("I"+tag, kv("leaf", prop(ref("L"+tag), opt)), kv("more", prop(m(kv("type_id", S("list")), kv("items", ref("I"+tag))), opt)))),
			kv("L"+tag, obj("L"+tag, kv("v", prop(strT, opt)), kv("w", prop(strT, opt)))))
		sc.M = append(sc.M, kv("type_id", S("scope")))
		return sc
	}
	add("scope", scope("A", kv("A", obj("A", kv("p", prop(inner("p"), opt)), kv("l", prop(m(kv("type_id", S("list")), kv("items", inner("l"))), opt)),
		kv("o", prop(m(kv("type_id", S("one_of_string")), kv("discriminator_field_name", S("_t")), kv("types", m(kv("a", inner("o"))))), opt))))),
		"valid nested scopes with references to their own objects: unmutated")
	// oddly typed map keys at the map-like nodes of a description
	nanKeyed := func(v *hx.Val) *hx.Val { return hx.AnyAny([2]*hx.Val{hx.F64(math.NaN()), v}) }
	add("scope", m(kv("root", S("NaN")), kv("objects", nanKeyed(obj("NaN", kv("x", prop(strT, opt)), kv("y", prop(strT, opt)))))), "witness: NaN key in `objects`")
	aObj := obj("A")
	aObj.M[1][1] = nanKeyed(prop(strT, opt))
	add("scope", scope("A", kv("A", aObj)), "witness: NaN key in `properties`")
	add("schema", m(kv("steps", nanKeyed(stepS))), "witness: NaN key in `steps`")
	add("hello", m(kv("steps", nanKeyed(stepS))), "witness: NaN key in `steps` (hello)")
	enumT := m(kv("type_id", S("enum_string")), kv("values", hx.AnyAny([2]*hx.Val{hx.F64(math.NaN()), m()}, [2]*hx.Val{S("a"), m()})))
	add("scope", scope("A", kv("A", obj("A", kv("e", prop(enumT, opt)), kv("f", prop(strT, opt))))), "witness: NaN key among string enum values")
	// known finding D13: recursion that does not consume input
	add("scope", scope("A", kv("A", obj("A", kv("n", prop(ref("A"), kv("required", hx.Bool(false)), kv("default", S("{}"))))))), "witness D13: default re-enters its own object")
	add("scope", scope("A", kv("A", obj("A", kv("next", prop(ref("A"), kv("required", hx.Bool(false))))))), "witness D13: single-property object referring to itself")
}

// dsSupervise runs the child over the work list, restarting it after a crash or a hang, and turns
// its progress lines into cases, results and findings.
func dsSupervise(s *dsSink, work []dsWork, workPath string) {
	exe, err := os.Executable()
	if err != nil {
		panic(err)
	}
	from := 0
	restarts := 0
	for from < len(work) {
		cmd := exec.Command(exe, "rebuild")
		cmd.Env = append(os.Environ(), "DS_CHILD_WORK="+workPath, "DS_CHILD_FROM="+strconv.Itoa(from))
		stdout, err := cmd.StdoutPipe()
		if err != nil {
			panic(err)
		}
		var stderr strings.Builder
		cmd.Stderr = &dsTailWriter{sb: &stderr, max: 4000}
		if err := cmd.Start(); err != nil {
			panic(err)
		}
		sc := bufio.NewScanner(stdout)
		sc.Buffer(make([]byte, 1<<20), 1<<28)
		cur := -1 // work item being processed
		var load *hx.Result
		var pending *dsUse // announced, not yet finished
		var ft *hx.Ty
		scopeTy := map[string]*hx.Ty{}
		doneUpTo := from
		loadCase := 0
		finishItem := func() {
			cur, load, pending = -1, nil, nil
			scopeTy = map[string]*hx.Ty{}
		}
		emitLoad := func(w dsWork, r hx.Result) int {
			mode := w.Mode
			v := w.V
			if mode == "hello" || mode == "hello1" {
				mode = "schema"
				if c, err := dsCBOR(w.V.ToGo()); err == nil {
					v = hx.Enc(c)
				}
			}
			s.count("input:" + strings.SplitN(w.Note, ":", 2)[0])
			s.count("load:" + w.Mode + ":" + r.R)
			if strings.Contains(w.Note, ": ") {
				op := strings.Fields(strings.SplitN(w.Note, ": ", 2)[1])[0]
				s.count("mutation:" + op + ":" + r.R)
			}
			return s.emit(dsCase{Op: "REBUILD", Mode: mode, V: v, Ext: dsExtOf(v), JD: dsJD(v), Fuel: dsFuel, Note: w.Note}, r)
		}
		for sc.Scan() {
			var l dsChildLine
			if err := json.Unmarshal(sc.Bytes(), &l); err != nil {
				panic(fmt.Sprintf("harness: bad child line: %v: %s", err, sc.Text()))
			}
			w := work[l.ID]
			switch l.Kind {
			case "start":
				cur = l.ID
			case "load":
				load = l.Load
				r := *l.Load
				if r.R == "ok" && r.V == nil {
					// loaded but cannot describe itself again
					s.finding(dsFinding{Prop: "C09", What: "an accepted description yields a schema that cannot describe itself: " + r.Msg, Input: w.V, Detail: []string{w.Note}})
					r = hx.Result{R: "ok", V: hx.Nil()}
				}
				if w.Mode == "hellobytes" {
					s.count("load:hellobytes:" + r.R)
					loadCase = 0
				} else {
					loadCase = emitLoad(w, r)
				}
				if r.R == "panic" {
					s.finding(dsFinding{Prop: "C10", What: "loading a description panicked (" + w.Mode + "): " + r.Msg, Cases: []int{loadCase}, Input: w.V, Detail: []string{w.Note}})
				}
				if r.R == "err" && strings.HasSuffix(w.Note, ": unmutated") {
					// what SelfSerialize produced for a schema built through the constructors must load
					s.finding(dsFinding{Prop: "C09", What: "a description produced by SelfSerialize is rejected (" + w.Mode + "): " + r.Msg, Cases: []int{loadCase}, Input: w.V, Detail: []string{w.Note}})
				}
			case "use-start":
				pending = l.Use
				if l.Use.Schema != nil {
					scopeTy[l.Use.Scope] = l.Use.Schema
				}
				ft = scopeTy[l.Use.Scope]
			case "use":
				if l.What != "" {
					s.finding(dsFinding{Prop: "C09", What: l.What, Cases: []int{loadCase}, Input: w.V, Detail: []string{w.Note}})
					continue
				}
				u := pending
				pending = nil
				if w.Mode == "hellobytes" {
					s.count("use:hellobytes:" + l.Use.Res.R)
					if l.Use.Res.R == "panic" {
						s.finding(dsFinding{Prop: "C10", What: "operation " + u.Op + " on a schema returned by ReadSchema panicked: " + l.Use.Res.Msg, Schema: (*dsHxTy)(ft), Input: u.V, Detail: []string{w.Note, w.Raw}})
					}
					continue
				}
				id := s.emit(dsCase{Op: u.Op, Schema: (*dsHxTy)(ft), V: u.V, Ext: hx.MkExt(ft, u.V), Fuel: 400, Note: "use of " + w.Note}, l.Use.Res)
				s.count("use:" + u.Op + ":" + l.Use.Res.R)
				if l.Use.Res.R == "panic" {
					s.finding(dsFinding{Prop: "C10", What: "operation " + u.Op + " on a returned schema panicked: " + l.Use.Res.Msg, Cases: []int{loadCase, id}, Schema: (*dsHxTy)(ft), Input: u.V, Detail: []string{w.Note}})
				}
			case "check":
				s.count("link-problem")
				if strings.HasPrefix(l.What, "ReadSchema (") {
					s.finding(dsFinding{Prop: "C09", What: l.What, Cases: []int{loadCase}, Input: w.V, Detail: []string{w.Note}})
					continue
				}
				s.finding(dsFinding{Prop: "C10", What: "a returned schema is not completely linked: " + l.What, Cases: []int{loadCase}, Input: w.V, Detail: []string{w.Note}})
			case "done":
				doneUpTo = l.ID + 1
				finishItem()
			case "hang":
				cur = l.ID
			}
		}
		werr := cmd.Wait()
		if doneUpTo >= len(work) && werr == nil {
			break
		}
		// the child died in the middle of item `cur`
		restarts++
		if cur < 0 {
			panic(fmt.Sprintf("harness: child failed outside of a case: %v\n%s", werr, stderr.String()))
		}
		w := work[cur]
		tail := stderr.String()
		overflow := strings.Contains(tail, "stack overflow") || strings.Contains(tail, "goroutine stack exceeds")
		exit3 := false
		if ee, ok := werr.(*exec.ExitError); ok && ee.ExitCode() == 3 {
			exit3 = true
		}
		switch {
		case load == nil:
			// during load
			r := hx.Result{R: "fuel", Msg: "child died while loading"}
			id := 0
			if w.Mode != "hellobytes" {
				id = emitLoad(w, r)
			}
			what := "loading a description crashed the process"
			if exit3 {
				what = "loading a description did not return within " + dsCaseTimeout.String()
			} else if overflow {
				what = "loading a description overflowed the stack"
			}
			s.finding(dsFinding{Prop: "C10", What: what + " (" + w.Mode + ")", Cases: []int{id}, Input: w.V, Detail: []string{w.Note, dsLastLines(tail, 6)}})
		case pending != nil && w.Mode == "hellobytes":
			s.finding(dsFinding{Prop: "C10", What: "operation " + pending.Op + " on a schema returned by ReadSchema killed the process", Input: pending.V, Detail: []string{w.Note, dsLastLines(tail, 6)}})
		case pending != nil:
			id := s.emit(dsCase{Op: pending.Op, Schema: (*dsHxTy)(ft), V: pending.V, Ext: hx.MkExt(ft, pending.V), Fuel: 400, Note: "use of " + w.Note}, hx.Result{R: "fuel", Msg: "child died"})
			switch {
			case overflow && !exit3:
				// infinite recursion on a finite input: the recursion does not consume input. This is the
				// known finding D13 (single-property shorthand / defaults re-entering through a reference);
				// the model must answer `fuel` for the same case, which the comparison checks.
				s.count("known:D13-stack-overflow-on-use")
				s.count("known:D13:" + pending.Op)
				s.finding(dsFinding{Prop: "C10", What: "known finding D13: operation " + pending.Op + " on a returned schema overflowed the stack (recursion through a reference that does not consume input)",
					Cases: []int{loadCase, id}, Schema: (*dsHxTy)(ft), Input: pending.V, Detail: []string{w.Note}})
			case exit3:
				s.finding(dsFinding{Prop: "C10", What: "operation " + pending.Op + " on a returned schema did not return within " + dsCaseTimeout.String(), Cases: []int{loadCase, id}, Schema: (*dsHxTy)(ft), Input: pending.V, Detail: []string{w.Note}})
			default:
				s.finding(dsFinding{Prop: "C10", What: "operation " + pending.Op + " on a returned schema crashed the process", Cases: []int{loadCase, id}, Schema: (*dsHxTy)(ft), Input: pending.V, Detail: []string{w.Note, dsLastLines(tail, 6)}})
			}
		default:
			s.finding(dsFinding{Prop: "C10", What: "the process died between operations", Cases: []int{loadCase}, Input: w.V, Detail: []string{w.Note, dsLastLines(tail, 6)}})
		}
		from = cur + 1
	}
	s.stats["child-restarts"] = restarts
}

// ---------------------------------------------------------------------------------------------
// concurrent loading: an engine reads the schemas of several plugins at the same time

// dsConcurrentDescriptions returns n small descriptions (scopes and plugin schemas, alternating over
// the three loaders) whose string types carry patterns no other description uses; every seventh
// carries a pattern that does not compile and must be rejected.
func dsConcurrentDescriptions(seed int64, n int) []dsWork {
	S := hx.Str
	kv := func(k string, v *hx.Val) [2]*hx.Val { return [2]*hx.Val{S(k), v} }
	m := func(kvs ...[2]*hx.Val) *hx.Val { return hx.StrAny(kvs...) }
	var out []dsWork
	for i := 0; i < n; i++ {
		scope := func(tag string) *hx.Val {
			var props [][2]*hx.Val
			for j := 0; j < 3; j++ {
				pat := fmt.Sprintf("^c%d_%d%s_%d[a-z]{%d}$", seed, i, tag, j, j+1)
				if i%7 == 6 && j == 1 && tag == "" {
					pat = fmt.Sprintf("(c%d_%d", seed, i)
				}
				props = append(props, kv(fmt.Sprintf("p%d", j), m(kv("type", m(kv("type_id", S("string")), kv("pattern", S(pat)))), kv("required", hx.Bool(false)))))
			}
			props = append(props, kv("re", m(kv("type", m(kv("type_id", S("pattern")))), kv("required", hx.Bool(false)))))
			return m(kv("root", S("A")), kv("objects", m(kv("A", m(kv("id", S("A")), kv("properties", m(props...)))))))
		}
		mode := []string{"scope", "schema", "hello"}[i%3]
		v := scope("")
		if mode != "scope" {
			st := m(kv("id", S("s")), kv("input", v), kv("outputs", m(kv("ok", m(kv("schema", scope("o")))))))
			v = m(kv("steps", m(kv("s", st))))
		}
		out = append(out, dsWork{ID: i, Mode: mode, V: v})
	}
	return out
}

type dsConcResult struct {
	Verdicts []string `json:"verdicts"`
}

// dsConcChild loads every description of the work file - concurrently from 16 goroutines ("par") or
// one after the other ("seq") - and prints the verdicts.
func dsConcChild(path, mode string) {
	f, err := os.Open(path)
	if err != nil {
		panic(err)
	}
	var work []dsWork
	sc := bufio.NewScanner(f)
	sc.Buffer(make([]byte, 1<<20), 1<<28)
	for sc.Scan() {
		var w dsWork
		if err := json.Unmarshal(sc.Bytes(), &w); err != nil {
			panic(err)
		}
		w.V = dsFixNil(w.V)
		work = append(work, w)
	}
	f.Close()
	verdicts := make([]string, len(work))
	load := func(i int) {
		w := work[i]
		r := hx.Guard(func() hx.Result {
			scopes, _, err := dsLoad(w.Mode, w.V.ToGo())
			if err != nil && scopes == nil {
				return hx.ErrResult(err)
			}
			// first use: a pattern-typed property compiles its input as well
			// (many distinct expressions, so that whatever the loaders share between calls is written often)
			for _, sc := range scopes {
				for k := 0; k < 120; k++ {
					if _, err := sc.Unserialize(map[string]any{"re": fmt.Sprintf("^u%d_%d[0-9]+$", i, k)}); err != nil {
						return hx.Result{R: "ok", Msg: "use failed"}
					}
				}
			}
			return hx.Result{R: "ok"}
		})
		verdicts[i] = r.R
	}
	if mode == "seq" {
		for i := range work {
			load(i)
		}
	} else {
		const workers = 16
		var wg sync.WaitGroup
		start := make(chan struct{})
		for g := 0; g < workers; g++ {
			wg.Add(1)
			go func(g int) {
				defer wg.Done()
				<-start
				for i := g; i < len(work); i += workers {
					load(i)
				}
			}(g)
		}
		close(start)
		wg.Wait()
	}
	b, _ := json.Marshal(dsConcResult{Verdicts: verdicts})
	os.Stdout.Write(append(b, '\n'))
}

// dsConcurrencyGroup: the same descriptions loaded concurrently and sequentially, each in a fresh
// process; the verdicts must agree and the concurrent process must survive.
func dsConcurrencyGroup(s *dsSink, a Args) {
	n := 480
	if a.Tier == "thorough" {
		n = 4000
	}
	work := dsConcurrentDescriptions(a.Seed, n)
	path := filepath.Join(a.Out, "concurrent.jsonl")
	wf, err := os.Create(path)
	if err != nil {
		panic(err)
	}
	bw := bufio.NewWriterSize(wf, 1<<20)
	for _, w := range work {
		b, _ := json.Marshal(w)
		bw.Write(b)
		bw.WriteByte('\n')
	}
	bw.Flush()
	wf.Close()
	exe, err := os.Executable()
	if err != nil {
		panic(err)
	}
	runChild := func(mode string) (*dsConcResult, string, error) {
		cmd := exec.Command(exe, "rebuild")
		cmd.Env = append(os.Environ(), "DS_CONC_WORK="+path, "DS_CONC_MODE="+mode)
		var stderr strings.Builder
		cmd.Stderr = &dsTailWriter{sb: &stderr, max: 3000}
		out, err := cmd.Output()
		if err != nil {
			return nil, stderr.String(), err
		}
		var r dsConcResult
		if jerr := json.Unmarshal(out, &r); jerr != nil {
			return nil, stderr.String(), jerr
		}
		return &r, "", nil
	}
	seq, tail, err := runChild("seq")
	if err != nil {
		s.finding(dsFinding{Prop: "C10", What: "loading descriptions one after the other killed the process: " + err.Error(), Detail: []string{dsLastLines(tail, 6)}})
		return
	}
	for _, v := range seq.Verdicts {
		s.count("concurrent:sequential-verdict:" + v)
	}
	rounds := 3
	for round := 0; round < rounds; round++ {
		par, tail, err := runChild("par")
		s.count("concurrent:rounds")
		if err != nil {
			s.finding(dsFinding{Prop: "C10", What: "loading descriptions concurrently (UnserializeScope, UnserializeSchema, ReadSchema from 16 goroutines) killed the process: " + err.Error(),
				Detail: []string{dsLastLines(tail, 6), path}})
			return
		}
		for i := range seq.Verdicts {
			if par.Verdicts[i] != seq.Verdicts[i] {
				s.finding(dsFinding{Prop: "C10", What: fmt.Sprintf("a description is %s when loaded concurrently with others and %s when loaded alone", par.Verdicts[i], seq.Verdicts[i]),
					Input: work[i].V, Detail: []string{work[i].Mode}})
				return
			}
		}
	}
}

type dsTailWriter struct {
	sb  *strings.Builder
	max int
}

func (t *dsTailWriter) Write(p []byte) (int, error) {
	// keep the head of stderr: the fatal error line comes first
	if t.sb.Len() < t.max {
		room := t.max - t.sb.Len()
		if room > len(p) {
			room = len(p)
		}
		t.sb.Write(p[:room])
	}
	return len(p), nil
}

func dsLastLines(s string, n int) string {
	lines := strings.Split(strings.TrimSpace(s), "\n")
	if len(lines) > n {
		lines = lines[:n]
	}
	return strings.Join(lines, " | ")
}
