package main

import (
	"bufio"
	"encoding/json"
	"fmt"
	"go.flow.arcalot.io/pluginsdk/schema"
	"os"
	"path/filepath"
	"regexp"
	"strings"

	"github.com/fxamacker/cbor/v2"
	"harness/hx"
)

// Finding is a direct failure of a property on the implementation.
type Finding struct {
	Prop   string   `json:"prop"`
	What   string   `json:"what"`
	Cases  []int    `json:"cases"`
	Schema *hx.Ty   `json:"schema,omitempty"`
	Input  *hx.Val  `json:"input,omitempty"`
	Detail []string `json:"detail,omitempty"`
}

type sink struct {
	cases, results, findings *bufio.Writer
	files                    []*os.File
	nextID                   int
	stats                    map[string]int
}

func newSink(dir string) *sink {
	s := &sink{stats: map[string]int{}}
	open := func(name string) *bufio.Writer {
		f, err := os.Create(filepath.Join(dir, name))
		if err != nil {
			panic(err)
		}
		s.files = append(s.files, f)
		return bufio.NewWriterSize(f, 1<<20)
	}
	s.cases = open("cases.jsonl")
	s.results = open("go.jsonl")
	s.findings = open("findings.jsonl")
	return s
}

func (s *sink) close() {
	s.cases.Flush()
	s.results.Flush()
	s.findings.Flush()
	for _, f := range s.files {
		f.Close()
	}
}

func (s *sink) finding(f Finding) {
	b, _ := json.Marshal(f)
	s.findings.Write(b)
	s.findings.WriteByte('\n')
	s.stats["finding:"+f.Prop]++
}

// emit runs one operation on a freshly built schema and records case and result.
// goVal, when non-nil, is the actual Go value to pass (its encoding goes to the model).
func (s *sink) emit(op string, t *hx.Ty, v *hx.Val, goVal any, useGo bool, cmp, note string) (hx.Result, int, any) {
	s.nextID++
	id := s.nextID
	c := hx.Case{ID: id, Op: op, Schema: t, V: v, Ext: hx.MkExt(t, v), Fuel: 400, Cmp: cmp, Note: note}
	b, err := json.Marshal(c)
	if err != nil {
		panic(err)
	}
	s.cases.Write(b)
	s.cases.WriteByte('\n')
	var raw any
	var res hx.Result
	// building the schema is part of the guarded region: a constructor panic is reported as such
	res = hx.Guard(func() hx.Result {
		sch := t.Build()
		arg := goVal
		if !useGo {
			arg = v.ToGo()
		}
		r, out := hx.RunOpRaw(op, sch, arg)
		raw = out
		return r
	})
	rb, _ := json.Marshal(res)
	s.results.Write(rb)
	s.results.WriteByte('\n')
	s.stats["op:"+op]++
	s.stats["res:"+op+":"+res.R]++
	return res, id, raw
}

func cborNorm(x any) (any, error) {
	b, err := cbor.Marshal(x)
	if err != nil {
		return nil, err
	}
	var out any
	if err := cbor.Unmarshal(b, &out); err != nil {
		return nil, err
	}
	return out, nil
}

func schemaOps(seed int64, n int, outDir string, streams string, replay string) {
	if err := os.MkdirAll(outDir, 0o755); err != nil {
		panic(err)
	}
	s := newSink(outDir)
	defer s.close()
	if replay != "" {
		replayCases(s, replay)
		writeStats(outDir, s, nil)
		return
	}
	g := hx.NewGen(seed)
	for _, stream := range strings.Split(streams, ",") {
		for i := 0; i < n; i++ {
			switch stream {
			case "valid":
				groupValid(s, g)
			case "random":
				groupRandom(s, g)
			case "scalar":
				groupScalar(s, g)
			case "bounds":
				groupBounds(s, g)
			case "containers":
				groupContainers(s, g)
			case "objects":
				groupObjects(s, g)
			case "corrupt":
				groupCorrupt(s, g)
			case "history":
				groupHistory(s, g)
			case "witness":
				groupRecursionWitness(s, g)
			case "dupkeys":
				groupDupKeys(s, g)
			case "structs":
				groupStructs(s, g)
			case "rules":
				groupRules(s, g)
			case "typed":
				groupTyped(s, g)
			case "rebuilt":
				groupRebuilt(s, g)
			}
		}
	}
	writeStats(outDir, s, g)
}

func writeStats(outDir string, s *sink, g *hx.Gen) {
	st := map[string]any{"harness": s.stats}
	if g != nil {
		st["generator"] = g.Stats
	}
	b, _ := json.MarshalIndent(st, "", " ")
	_ = os.WriteFile(filepath.Join(outDir, "stats.json"), b, 0o644)
}

// groupValid: a generated schema with a mostly-valid raw value; the full C01 chain.
func groupValid(s *sink, g *hx.Gen) {
	t := g.Schema(0, nil)
	r := g.Value(t, hx.Env{}, 0)
	chain(s, t, r, "valid")
}

// patternResultsAreIndependent: what a pattern schema returns is the caller's own compiled expression for the raw
// text: a caller who configures his result (Longest) does not change what the next caller gets for that text.
func patternResultsAreIndependent(s *sink) {
	if s.stats["pattern:independent"] > 0 {
		return
	}
	s.stats["pattern:independent"]++
	for _, c := range [][2]string{{"a|ab", "ab"}, {"foo|foobar", "foobar"}, {"a+?", "aaa"}, {"(a|ab)(c|bcd)", "abcd"}} {
		text, probe := c[0], c[1]
		want := regexp.MustCompile(text).FindString(probe)
		for round := 0; round < 3; round++ {
			var got any
			var err error
			r := hx.Guard(func() hx.Result { got, err = schema.NewPatternSchema().Unserialize(text); return hx.Result{R: "ok"} })
			re, ok := got.(*regexp.Regexp)
			if r.R != "ok" || err != nil || !ok || re == nil {
				s.finding(Finding{Prop: "C02", What: "a pattern schema does not accept the expression " + text, Detail: []string{fmt.Sprint(err), r.Msg}})
				break
			}
			if f := re.FindString(probe); f != want {
				for _, prop := range []string{"C02", "C12"} {
					s.finding(Finding{Prop: prop, What: "the expression a pattern schema returns is not the one its raw text denotes: an earlier caller's configuration of HIS result shows",
						Detail: []string{fmt.Sprintf("text %q on %q: FindString %q, the denoted expression gives %q (call %d for this text)", text, probe, f, want, round+1)}})
				}
				break
			}
			re.Longest() // this caller wants leftmost-longest matches from his own copy
		}
	}
}

func groupScalar(s *sink, g *hx.Gen) {
	patternResultsAreIndependent(s)
	groupStringerEnums(s)
	t := g.Scalar()
	r := g.Value(t, hx.Env{}, 0)
	chain(s, t, r, "scalar")
}

func chain(s *sink, t *hx.Ty, r *hx.Val, note string) {
	argGo := r.ToGo()
	before := hx.Canon(hx.Enc(argGo))
	res, id0, v := s.emit("U", t, r, argGo, true, "class", note)
	if after := hx.Canon(hx.Enc(argGo)); after != before {
		s.finding(Finding{Prop: "C12", What: "Unserialize modified its argument", Cases: []int{id0}, Schema: t, Input: r, Detail: []string{before, after}})
	}
	// determinism under map-order randomisation
	for i := 0; i < 2; i++ {
		again := hx.Guard(func() hx.Result { rr, _ := hx.RunOpRaw("U", t.Build(), r.ToGo()); return rr })
		if again.R != res.R || (res.R == "ok" && hx.Canon(again.V) != hx.Canon(res.V)) {
			s.finding(Finding{Prop: "C12", What: "Unserialize is not deterministic", Cases: []int{id0}, Schema: t, Input: r, Detail: []string{res.JSON(), again.JSON()}})
			break
		}
	}
	s.emit("C", t, r, nil, false, "class", note+":compat-data")
	if res.R == "panic" {
		s.finding(Finding{Prop: "C04", What: "Unserialize panicked: " + res.Msg, Cases: []int{id0}, Schema: t, Input: r})
	}
	if res.R != "ok" {
		return
	}
	venc := hx.Enc(v)
	vres, id1, _ := s.emit("V", t, venc, v, true, "class", note+":validate-own")
	if vres.R != "ok" {
		s.finding(Finding{Prop: "C01", What: "result of Unserialize fails Validate: " + vres.Msg, Cases: []int{id0, id1}, Schema: t, Input: r})
	}
	sres, id2, w := s.emit("S", t, venc, v, true, "class", note+":serialize-own")
	if sres.R != "ok" {
		s.finding(Finding{Prop: "C01", What: "result of Unserialize fails Serialize: " + sres.Msg, Cases: []int{id0, id2}, Schema: t, Input: r})
		return
	}
	wenc := hx.Enc(w)
	ures, id3, v2 := s.emit("U", t, wenc, w, true, "class", note+":unserialize-wire")
	if ures.R != "ok" || hx.Canon(ures.V) != hx.Canon(res.V) {
		s.finding(Finding{Prop: "C01", What: "Unserialize(Serialize(v)) differs from v", Cases: []int{id0, id2, id3}, Schema: t, Input: r, Detail: []string{res.JSON(), ures.JSON()}})
	} else {
		s2, id4, _ := s.emit("S", t, hx.Enc(v2), v2, true, "class", note+":serialize-again")
		if s2.R != "ok" || hx.Canon(s2.V) != hx.Canon(sres.V) {
			s.finding(Finding{Prop: "C01", What: "Serialize is not idempotent on wire forms", Cases: []int{id2, id4}, Schema: t, Input: r, Detail: []string{sres.JSON(), s2.JSON()}})
		}
	}
	// over CBOR exactly as ATP transports it
	wc, err := cborNorm(w)
	if err != nil {
		s.finding(Finding{Prop: "C01", What: "serialized form is not CBOR-encodable: " + err.Error(), Cases: []int{id2}, Schema: t, Input: r})
		return
	}
	cres, id5, v3 := s.emit("U", t, hx.Enc(wc), wc, true, "class", note+":unserialize-cbor")
	if cres.R != "ok" || hx.Canon(cres.V) != hx.Canon(res.V) {
		s.finding(Finding{Prop: "C01", What: "Unserialize after CBOR differs from v", Cases: []int{id0, id2, id5}, Schema: t, Input: r, Detail: []string{res.JSON(), cres.JSON()}})
		return
	}
	s3, id6, _ := s.emit("S", t, hx.Enc(v3), v3, true, "class", note+":serialize-cbor")
	if s3.R != "ok" || hx.Canon(s3.V) != hx.Canon(sres.V) {
		s.finding(Finding{Prop: "C01", What: "Serialize after CBOR round trip differs", Cases: []int{id2, id6}, Schema: t, Input: r, Detail: []string{sres.JSON(), s3.JSON()}})
	}
	chainRebuilt(s, t, r, res, id0)
}

// chainRebuilt: the same round trip on a schema REBUILT from its own description by the meta-schema
// (DescribeScope().Unserialize + ApplySelf), whose lazily filled caches are cold: the very first
// operation on such an instance must behave like every later one and like the constructor-built
// schema. Direct evaluation on the implementation (the model has one behaviour per schema).
func chainRebuilt(s *sink, t *hx.Ty, r *hx.Val, want hx.Result, id0 int) {
	if t.T != "scope" {
		return
	}
	var sc *schema.ScopeSchema
	g := hx.Guard(func() hx.Result {
		orig, ok := t.Build().(*schema.ScopeSchema)
		if !ok {
			return hx.Result{R: "err"}
		}
		d, err := orig.SelfSerialize()
		if err != nil {
			return hx.Result{R: "err"} // not describable (known findings D26/D27 and friends): C09's subject
		}
		// string defaults in the bare (YAML-style, not JSON-quoted) form other SDKs send: same meaning
		bareStringDefaults(d)
		x, err := schema.DescribeScope().Unserialize(d)
		if err != nil {
			return hx.Result{R: "err"}
		}
		sc = x.(*schema.ScopeSchema)
		sc.ApplySelf()
		return hx.Result{R: "ok"}
	})
	if g.R != "ok" || sc == nil {
		s.stats["rebuilt:skipped"]++
		return
	}
	s.stats["rebuilt:run"]++
	describeNow := func() string {
		rr := hx.Guard(func() hx.Result {
			d, err := sc.SelfSerialize()
			if err != nil {
				return hx.Result{R: "err", Msg: err.Error()}
			}
			return hx.Result{R: "ok", V: hx.Enc(d)}
		})
		if rr.R != "ok" {
			return rr.R + ":" + rr.Msg
		}
		return hx.Canon(rr.V)
	}
	before := describeNow()
	var u any
	first := hx.Guard(func() hx.Result { rr, o := hx.RunOpRaw("U", sc, r.ToGo()); u = o; return rr })
	if after := describeNow(); after != before {
		s.finding(Finding{Prop: "C12", What: "the first Unserialize on a schema rebuilt from its description changed the schema's self-description",
			Cases: []int{id0}, Schema: t, Input: r, Detail: []string{before, after}})
	}
	if first.R != want.R || (want.R == "ok" && hx.Canon(first.V) != hx.Canon(want.V)) {
		s.finding(Finding{Prop: "C01", What: "the first Unserialize on a schema rebuilt from its description differs from the constructor-built schema",
			Cases: []int{id0}, Schema: t, Input: r, Detail: []string{"constructor-built: " + want.JSON(), "rebuilt, first call: " + first.JSON()}})
		return
	}
	if first.R != "ok" {
		return
	}
	res := hx.Guard(func() hx.Result {
		if err := sc.Validate(u); err != nil {
			return hx.Result{R: "err", Msg: "result of Unserialize fails Validate: " + err.Error()}
		}
		w, err := sc.Serialize(u)
		if err != nil {
			return hx.Result{R: "err", Msg: "result of Unserialize fails Serialize: " + err.Error()}
		}
		u2, err := sc.Unserialize(w)
		if err != nil {
			return hx.Result{R: "err", Msg: "serialized form is rejected: " + err.Error()}
		}
		if hx.Canon(hx.Enc(u2)) != hx.Canon(hx.Enc(u)) {
			return hx.Result{R: "err", Msg: "Unserialize(Serialize(v)) differs from v"}
		}
		return hx.Result{R: "ok"}
	})
	if res.R != "ok" {
		s.finding(Finding{Prop: "C01", What: "schema rebuilt from its description: " + res.Msg, Cases: []int{id0}, Schema: t, Input: r})
	}
}

// groupRandom: a generated schema against grammar-free values, all four operations (C04).
func groupRandom(s *sink, g *hx.Gen) {
	t := g.Schema(0, nil)
	r := g.RandomVal(0)
	for _, op := range []string{"U", "V", "S", "C"} {
		res, id, _ := s.emit(op, t, r, nil, false, "class", "random")
		if res.R == "panic" {
			s.finding(Finding{Prop: "C04", What: op + " panicked: " + res.Msg, Cases: []int{id}, Schema: t, Input: r})
		}
	}
}

func replayCases(s *sink, path string) {
	f, err := os.Open(path)
	if err != nil {
		panic(err)
	}
	defer f.Close()
	sc := bufio.NewScanner(f)
	sc.Buffer(make([]byte, 1<<20), 1<<26)
	for sc.Scan() {
		line := strings.TrimSpace(sc.Text())
		if line == "" {
			continue
		}
		var c hx.Case
		if err := json.Unmarshal([]byte(line), &c); err != nil {
			fmt.Fprintln(os.Stderr, "replay: bad case line:", err)
			os.Exit(2)
		}
		s.emit(c.Op, c.Schema, c.V, nil, false, c.Cmp, c.Note)
	}
}

// groupRebuilt: describable scopes (retry until SelfSerialize and the loader accept), the round-trip
// chain on the constructor-built schema (with the model) and on a cold instance rebuilt from the
// description (chainRebuilt). Inputs leave properties unset so that defaults are what is exercised.
func groupRebuilt(s *sink, g *hx.Gen) {
	var t *hx.Ty
	ok := false
	for attempt := 0; attempt < 40 && !ok; attempt++ {
		t = g.Scope(0)
		r := hx.Guard(func() hx.Result {
			desc, err := t.Build().(*schema.ScopeSchema).SelfSerialize()
			if err != nil {
				return hx.Result{R: "err"}
			}
			if _, err := schema.UnserializeScope(desc); err != nil {
				return hx.Result{R: "err"}
			}
			return hx.Result{R: "ok"}
		})
		ok = r.R == "ok"
	}
	if !ok {
		s.stats["rebuilt:no-describable-scope"]++
		return
	}
	for i := 0; i < 4; i++ {
		chain(s, t, g.Value(t, hx.Env{}, 0), "rebuilt")
	}
	chain(s, t, hx.StrAny(), "rebuilt:empty")
}

// bareStringDefaults rewrites, in a description, the default `"abc"` (a JSON string literal of plain
// letters) of string-typed properties to the bare text abc, which the SDK accepts by its quoting fallback.
func bareStringDefaults(d any) {
	switch m := d.(type) {
	case map[string]any:
		if ty, ok := m["type"].(map[string]any); ok {
			if def, ok := m["default"].(string); ok && ty["type_id"] == "string" && len(def) >= 2 && def[0] == '"' && def[len(def)-1] == '"' {
				plain := true
				for _, c := range def[1 : len(def)-1] {
					if c < 'a' || c > 'z' {
						plain = false
					}
				}
				if plain {
					m["default"] = def[1 : len(def)-1]
				}
			}
		}
		for _, v := range m {
			bareStringDefaults(v)
		}
	case map[any]any:
		for _, v := range m {
			bareStringDefaults(v)
		}
	case []any:
		for _, v := range m {
			bareStringDefaults(v)
		}
	}
}
