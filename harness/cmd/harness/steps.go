package main

// Sub-command `steps` (property C11): CallStep / CallSignal of generated plugins, and the per-run
// step data.
//
// Streams (flag -streams, default all):
//   calls   generated plugins (1..3 steps; input scope, 1..3 output scopes, 0..2 signal handlers with
//           data scopes; steps built with schema.NewCallableStepWithSignals[any, any], handlers are
//           recording closures that return the scripted output) x
//           step ID known/unknown x raw input valid (type-directed) / random / nil x handler
//           behaviour (declared ID + conforming data, declared ID + non-conforming data (random,
//           nil, raw instead of unserialized, data of another output), undeclared ID, empty ID,
//           panic); the same for signals (known/unknown step and signal IDs, valid/random/nil data,
//           returning/panicking handler). Ops CALLSTEP, CALLSTEP_CALLS, CALLSIGNAL,
//           CALLSIGNAL_CALLS (see lean/ArcaModel/Model/DispatchStep.lean).
//   seq     sequential histories of step and signal calls for several run IDs on ONE step instance
//           with a counting initialiser (or none): which data object every handler saw. Op STEPDATA.
//   stress  the same concurrently: per trial a fresh step, several run IDs, per run one step call
//           and up to 3 signal calls, (a) all released by one barrier, (b) released one by one in
//           every arrival order (all permutations for up to 4 calls) while handlers of earlier
//           calls are still running. No model cases (the scheduler is not an input); judged by the
//           oracle below.
//   race    builds this harness with `go build -race` (source dir: $HARNESS_SRC, default
//           /verif/harness) and runs the stress stream in it; a data race report or a stress
//           finding there is a finding here.
//
// Findings (prop C11) come from an oracle that does not use the model: schemas built a second time
// decide with their own Unserialize / Validate / Serialize what the call must do:
//   - the step handler ran although Unserialize of the input fails, or did not run although it
//     succeeds (and the step exists), or ran twice, or got a value other than Unserialize's result;
//   - success although the returned output ID is undeclared or the data does not satisfy the
//     declared schema, or a failure/other data although both hold;
//   - wrong error type: unknown step must be BadArgumentError, rejected input InvalidInputError,
//     undeclared output ID InvalidOutputError, non-conforming data none of these three;
//   - a panic that is not the scripted handler's own;
//   - step data: more initialiser calls than run IDs that arrived, two handlers of one run seeing
//     different objects, handlers of different runs seeing the same object.
//
// Error classification for go.jsonl uses the dynamic TYPE of the returned error only, except
// where two conditions share a type: BadArgumentError from CallSignal is split into unknown step /
// unknown signal by whether the case's plugin has the step, and InvalidOutputError into undeclared
// / unserializable by whether the ID the handler returned is declared.

import (
	"context"
	"encoding/json"
	"errors"
	"fmt"
	"os"
	"os/exec"
	"path/filepath"
	"runtime"
	"sort"
	"strings"
	"sync"
	"sync/atomic"
	"time"

	"go.flow.arcalot.io/pluginsdk/schema"
	"harness/hx"
)

func init() {
	register("steps", func(a Args) { stepsCmd(a) })
}

// ---------------------------------------------------------------------------------------------
// case forms

type stNamedTy struct {
	ID string
	Ty *hx.Ty
}

func (n stNamedTy) MarshalJSON() ([]byte, error) { return json.Marshal([]any{n.ID, n.Ty}) }

type stStep struct {
	ID      string      `json:"-"`
	Input   *hx.Ty      `json:"input"`
	Outputs []stNamedTy `json:"outputs"`
	Signals []stNamedTy `json:"signals"`
}

type stPlugin []*stStep

func (p stPlugin) MarshalJSON() ([]byte, error) {
	out := make([]any, len(p))
	for i, s := range p {
		out[i] = []any{s.ID, s}
	}
	return json.Marshal(out)
}

func (p stPlugin) find(id string) *stStep {
	for _, s := range p {
		if s.ID == id {
			return s
		}
	}
	return nil
}

func stFind(l []stNamedTy, id string) *hx.Ty {
	for _, n := range l {
		if n.ID == id {
			return n.Ty
		}
	}
	return nil
}

// stBeh is the scripted handler behaviour. Data travels as its encoding; the handler returns the
// Go value itself.
type stBeh struct {
	Kind string  `json:"kind"` // ret panic
	OID  string  `json:"oid"`
	Data *hx.Val `json:"data,omitempty"`
	goV  any
}

type stCase struct {
	ID     int      `json:"id"`
	Op     string   `json:"op"`
	Plugin stPlugin `json:"plugin,omitempty"`
	Step   string   `json:"step"`
	Signal string   `json:"signal,omitempty"`
	V      *hx.Val  `json:"v"`
	Beh    *stBeh   `json:"beh,omitempty"`
	Ext    *hx.Ext  `json:"ext,omitempty"`
	Fuel   int      `json:"fuel,omitempty"`
	// STEPDATA
	HasInit bool    `json:"hasInit,omitempty"`
	Events  [][]any `json:"events,omitempty"`
	// annotations (the comparator prints "schema" and "v" of a differing case)
	Schema *hx.Ty `json:"schema"`
	Note   string `json:"note,omitempty"`
}

type stFinding struct {
	Prop   string   `json:"prop"`
	What   string   `json:"what"`
	Cases  []int    `json:"cases"`
	Detail []string `json:"detail,omitempty"`
}

// ---------------------------------------------------------------------------------------------
// building the real plugin

type stBox struct{ n int64 }

// stRecorder is what the handlers of one built plugin observed.
type stRecorder struct {
	mu        sync.Mutex
	stepIn    []*hx.Val // values the step handler was invoked with
	stepRaw   []any
	sigIn     []*hx.Val
	returned  []string // output IDs the step handler returned
	panicked  bool     // a scripted handler panic happened
	stepData  []any
	initCalls int64
}

func (r *stRecorder) step(in any, data any) {
	r.mu.Lock()
	defer r.mu.Unlock()
	r.stepIn = append(r.stepIn, hx.Enc(in))
	r.stepRaw = append(r.stepRaw, in)
	r.stepData = append(r.stepData, data)
}

func (r *stRecorder) signal(in any, data any) {
	r.mu.Lock()
	defer r.mu.Unlock()
	r.sigIn = append(r.sigIn, hx.Enc(in))
	r.stepData = append(r.stepData, data)
}

// stBuild constructs the SDK objects of a plugin description through the public constructors.
// Every call builds fresh schemas; nothing is shared between two built plugins.
func stBuild(p stPlugin, rec *stRecorder, beh *stBeh, sigPanics bool, hasInit bool) *schema.CallableSchema {
	var steps []schema.CallableStep
	for _, sp := range p {
		outputs := map[string]*schema.StepOutputSchema{}
		for _, o := range sp.Outputs {
			outputs[o.ID] = schema.NewStepOutputSchema(o.Ty.Build().(*schema.ScopeSchema), nil, false)
		}
		var signals map[string]schema.CallableSignal
		if len(sp.Signals) > 0 {
			signals = map[string]schema.CallableSignal{}
			for _, sg := range sp.Signals {
				signals[sg.ID] = schema.NewCallableSignal[any, any](sg.ID, sg.Ty.Build().(*schema.ScopeSchema), nil,
					func(_ context.Context, data any, in any) {
						rec.signal(in, data)
						if sigPanics {
							rec.mu.Lock()
							rec.panicked = true
							rec.mu.Unlock()
							panic("scripted signal handler panic")
						}
					})
			}
		}
		var initializer func() any
		if hasInit {
			initializer = func() any { return &stBox{n: atomic.AddInt64(&rec.initCalls, 1) - 1} }
		}
		steps = append(steps, schema.NewCallableStepWithSignals[any, any](
			sp.ID, sp.Input.Build().(*schema.ScopeSchema), outputs, signals, nil, nil, initializer,
			func(_ context.Context, data any, in any) (string, any) {
				rec.step(in, data)
				if beh == nil || beh.Kind == "panic" {
					rec.mu.Lock()
					rec.panicked = true
					rec.mu.Unlock()
					panic("scripted step handler panic")
				}
				rec.mu.Lock()
				rec.returned = append(rec.returned, beh.OID)
				rec.mu.Unlock()
				return beh.OID, beh.goV
			}))
	}
	return schema.NewCallableSchema(steps...)
}

// stWrap is a schema that contains all the given ones (for the external-function tables).
func stWrap(tys ...*hx.Ty) *hx.Ty {
	w := &hx.Ty{T: "scope", Root: "w0"}
	for i, t := range tys {
		if t != nil {
			w.Objs = append(w.Objs, hx.NamedObj{ID: fmt.Sprintf("w%d", i), Ty: t})
		}
	}
	return w
}

// ---------------------------------------------------------------------------------------------
// generation

type stGen struct {
	g *hx.Gen
	s *sink
}

func (sg *stGen) scope() *hx.Ty {
	return sg.g.Scope(1 + sg.g.R.Intn(2))
}

func (sg *stGen) plugin() stPlugin {
	g := sg.g
	var p stPlugin
	n := 1 + g.R.Intn(3)
	for i := 0; i < n; i++ {
		st := &stStep{ID: fmt.Sprintf("step%d", i), Input: sg.scope()}
		if g.R.Intn(4) == 0 {
			// an input whose root object has exactly one property: the bare value of that property is
			// accepted in place of the map (single-property shorthand)
			leaf := []*hx.Ty{{T: "str"}, {T: "int"}, {T: "bool"}, {T: "list", Item: &hx.Ty{T: "str"}}}[g.R.Intn(4)]
			st.Input = &hx.Ty{T: "scope", Root: "In", Objs: []hx.NamedObj{{ID: "In", Ty: &hx.Ty{T: "obj", ID: "In",
				Props: []hx.NamedProp{{Name: "only", P: &hx.Prop{Ty: leaf, Required: g.R.Intn(2) == 0}}}}}}}
		}
		outNames := []string{"success", "error", "other"}
		for _, name := range outNames[:1+g.R.Intn(3)] {
			st.Outputs = append(st.Outputs, stNamedTy{name, sg.scope()})
		}
		for _, name := range []string{"sigA", "sigB"}[:[]int{0, 1, 1, 2, 2}[g.R.Intn(5)]] {
			st.Signals = append(st.Signals, stNamedTy{name, sg.scope()})
		}
		p = append(p, st)
	}
	return p
}

// rawFor: a raw value for schema t. kind: valid (type-directed, mostly accepted), random, nil.
func (sg *stGen) rawFor(t *hx.Ty) (*hx.Val, string) {
	g := sg.g
	if t.T == "scope" && len(t.Objs) == 1 && len(t.Objs[0].Ty.Props) == 1 && g.R.Intn(2) == 0 {
		leaf := t.Objs[0].Ty.Props[0].P.Ty
		switch leaf.T {
		case "str":
			return []*hx.Val{hx.Str("Arca Lot"), hx.Int("int64", 3), hx.F64(1.5)}[g.R.Intn(3)], "shorthand"
		case "int":
			return []*hx.Val{hx.Int("int64", 3), hx.Str("3"), hx.Uint("uint8", 7), hx.Str("x")}[g.R.Intn(4)], "shorthand"
		case "bool":
			return []*hx.Val{hx.Bool(true), hx.Str("yes"), hx.Int("int64", 0)}[g.R.Intn(3)], "shorthand"
		default:
			return []*hx.Val{hx.List(hx.Str("a"), hx.Str("b")), hx.List()}[g.R.Intn(2)], "shorthand"
		}
	}
	switch r := g.R.Intn(100); {
	case r < 68:
		// type-directed; retried a few times until a separately built schema accepts it
		v := g.Value(t, hx.Env{}, 0)
		for try := 0; try < 5; try++ {
			if _, err, pan := stUnserialize(t, v.ToGo()); err == nil && !pan {
				return v, "valid"
			}
			v = g.Value(t, hx.Env{}, 0)
		}
		return v, "valid-attempt"
	case r < 92:
		return g.RandomVal(0), "random"
	default:
		return hx.Nil(), "nil"
	}
}

func stUnserialize(t *hx.Ty, raw any) (out any, err error, panicked bool) {
	defer func() {
		if r := recover(); r != nil {
			panicked = true
		}
	}()
	out, err = t.Build().Unserialize(raw)
	return
}

// behaviour picks what the scripted handler of step sp returns.
func (sg *stGen) behaviour(sp *stStep) (*stBeh, string) {
	g := sg.g
	conforming := func(t *hx.Ty) (any, bool) {
		for try := 0; try < 4; try++ {
			out, err, pan := stUnserialize(t, g.Value(t, hx.Env{}, 0).ToGo())
			if err == nil && !pan {
				return out, true
			}
		}
		return nil, false
	}
	o := sp.Outputs[g.R.Intn(len(sp.Outputs))]
	mk := func(oid string, v any) *stBeh { return &stBeh{Kind: "ret", OID: oid, Data: hx.Enc(v), goV: v} }
	switch r := g.R.Intn(100); {
	case r < 45:
		if v, ok := conforming(o.Ty); ok {
			return mk(o.ID, v), "declared+conforming"
		}
		return mk(o.ID, map[string]any{}), "declared+empty"
	case r < 55:
		return mk(o.ID, g.RandomVal(0).ToGo()), "declared+random"
	case r < 60:
		return mk(o.ID, nil), "declared+nil"
	case r < 67:
		// the raw (wire) form instead of the unserialized one
		return mk(o.ID, g.Value(o.Ty, hx.Env{}, 0).ToGo()), "declared+raw"
	case r < 74:
		other := sp.Outputs[g.R.Intn(len(sp.Outputs))]
		v, _ := conforming(other.Ty)
		if other.ID == o.ID {
			return mk(o.ID, v), "declared+conforming"
		}
		return mk(o.ID, v), "declared+data-of-other-output"
	case r < 88:
		v, _ := conforming(o.Ty)
		// IDs that are not declared by this step: unknown, empty, wrong case, declared elsewhere only
		ids := []string{"nope", "", "Success", "success ", "other", "error"}
		var cand []string
		for _, id := range ids {
			if stFind(sp.Outputs, id) == nil {
				cand = append(cand, id)
			}
		}
		return mk(cand[g.R.Intn(len(cand))], v), "undeclared"
	default:
		return &stBeh{Kind: "panic"}, "panic"
	}
}

// ---------------------------------------------------------------------------------------------
// one CallStep case

func (sg *stGen) writeCase(c *stCase) int {
	s := sg.s
	s.nextID++
	c.ID = s.nextID
	b, err := json.Marshal(c)
	if err != nil {
		panic(err)
	}
	s.cases.Write(b)
	s.cases.WriteByte('\n')
	s.stats["op:"+c.Op]++
	return c.ID
}

func (sg *stGen) writeResult(op string, r hx.Result) {
	b, _ := json.Marshal(r)
	sg.s.results.Write(b)
	sg.s.results.WriteByte('\n')
	sg.s.stats["res:"+op+":"+r.R]++
}

func (sg *stGen) finding(what string, ids []int, detail ...string) {
	if ids == nil {
		ids = []int{}
	}
	b, _ := json.Marshal(stFinding{Prop: "C11", What: what, Cases: ids, Detail: detail})
	sg.s.findings.Write(b)
	sg.s.findings.WriteByte('\n')
	sg.s.stats["finding:C11"]++
}

func stErrType(err error) string {
	switch err.(type) {
	case schema.BadArgumentError, *schema.BadArgumentError:
		return "BadArgumentError"
	case schema.InvalidInputError, *schema.InvalidInputError:
		return "InvalidInputError"
	case schema.InvalidOutputError, *schema.InvalidOutputError:
		return "InvalidOutputError"
	}
	return "other"
}

func stCalls(vs []*hx.Val) *hx.Val {
	l := &hx.Val{Kind: "l", L: []*hx.Val{}}
	l.L = append(l.L, vs...)
	return l
}

func stCanonList(vs []*hx.Val) string { return hx.Canon(stCalls(vs)) }

func (sg *stGen) callStepCase(p stPlugin, stepID string, raw *hx.Val, beh *stBeh, note string) {
	sp := p.find(stepID)
	var tys []*hx.Ty
	vals := []*hx.Val{raw}
	if sp != nil {
		tys = append(tys, sp.Input)
		for _, o := range sp.Outputs {
			tys = append(tys, o.Ty)
		}
	}
	if beh != nil && beh.Data != nil {
		vals = append(vals, beh.Data)
	}
	// oracle, part 1: what the input schema (built separately) makes of the raw input
	var uOut any
	var uErr error
	var uPanic bool
	if sp != nil {
		uOut, uErr, uPanic = stUnserialize(sp.Input, raw.ToGo())
		if uErr == nil && !uPanic {
			vals = append(vals, hx.Enc(uOut))
		}
	}
	ext := hx.MkExt(stWrap(tys...), vals...)
	c := &stCase{Op: "CALLSTEP", Plugin: p, Step: stepID, V: raw, Beh: beh, Ext: ext, Fuel: 400, Note: note}
	id1 := sg.writeCase(c)
	c2 := *c
	c2.Op = "CALLSTEP_CALLS"
	id2 := sg.writeCase(&c2)
	ids := []int{id1, id2}

	// the implementation (with and without a step-data initialiser: the handler's data is nil then)
	hasInit := sg.g.R.Intn(2) == 0
	rec := &stRecorder{}
	var outID string
	var outData any
	var callErr error
	res := hx.Guard(func() hx.Result {
		cs := stBuild(p, rec, beh, false, hasInit)
		outID, outData, callErr = cs.CallStep(stCtx(sg.g.R.Intn(8)), "run-1", stepID, raw.ToGo())
		if callErr != nil {
			return hx.Result{R: "err", Msg: callErr.Error()}
		}
		return hx.Result{R: "ok"}
	})
	declared := func(oid string) *hx.Ty {
		if sp == nil {
			return nil
		}
		return stFind(sp.Outputs, oid)
	}
	returnedOID, handlerReturned := "", false
	if len(rec.returned) > 0 {
		returnedOID, handlerReturned = rec.returned[len(rec.returned)-1], true
	}
	etype := ""
	switch res.R {
	case "ok":
		res.V = hx.StrAny(
			[2]*hx.Val{hx.Str("calls"), stCalls(rec.stepIn)},
			[2]*hx.Val{hx.Str("data"), hx.Enc(outData)},
			[2]*hx.Val{hx.Str("oid"), hx.Str(outID)})
	case "err":
		etype = stErrType(callErr)
		switch etype {
		case "BadArgumentError":
			res.R = "err-unknown-step"
		case "InvalidInputError":
			res.R = "err-invalid-input"
		case "InvalidOutputError":
			if handlerReturned && declared(returnedOID) != nil {
				res.R = "err-unserializable-output"
			} else {
				res.R = "err-undeclared-output"
			}
		default:
			res.R = "err-invalid-output"
		}
	}
	sg.writeResult("CALLSTEP", res)
	sg.writeResult("CALLSTEP_CALLS", hx.Result{R: "ok", V: stCalls(rec.stepIn)})
	sg.s.stats["step:"+note]++

	// oracle, part 2
	bad := func(what string, detail ...string) {
		sg.finding(what, ids, append([]string{"note=" + note, "result=" + res.R + " " + res.Msg}, detail...)...)
	}
	if res.R == "panic" && !rec.panicked {
		bad("CallStep panicked (not the handler's own panic)")
		return
	}
	if uPanic {
		return // the input schema itself panics on this input: C04's business
	}
	accepted := sp != nil && uErr == nil
	switch {
	case !accepted && len(rec.stepIn) > 0:
		bad("step handler ran although the step does not exist or Unserialize rejects the input")
	case accepted && len(rec.stepIn) == 0:
		bad("step handler did not run although the step exists and Unserialize accepts the input")
	case len(rec.stepIn) > 1:
		bad("step handler ran more than once", fmt.Sprint(len(rec.stepIn)))
	case accepted && hx.Canon(rec.stepIn[0]) != hx.Canon(hx.Enc(uOut)):
		bad("step handler got a value different from Unserialize's result", hx.Canon(rec.stepIn[0]), hx.Canon(hx.Enc(uOut)))
	}
	switch {
	case sp == nil:
		if etype != "BadArgumentError" {
			bad("unknown step ID: expected BadArgumentError", etype)
		}
	case uErr != nil:
		if etype != "InvalidInputError" {
			bad("rejected input: expected InvalidInputError", etype)
		}
	case rec.panicked:
		// the handler's own panic propagates; nothing to demand
	case handlerReturned:
		ot := declared(returnedOID)
		if ot == nil {
			if res.R == "ok" {
				bad("success although the handler returned an undeclared output ID", returnedOID)
			} else if etype != "InvalidOutputError" {
				bad("undeclared output ID: expected InvalidOutputError", etype)
			}
			break
		}
		var vErr, sErr error
		var ser any
		opanic := false
		func() {
			defer func() {
				if r := recover(); r != nil {
					opanic = true
				}
			}()
			osch := ot.Build()
			vErr = osch.Validate(beh.goV)
			ser, sErr = osch.Serialize(beh.goV)
		}()
		if opanic {
			break
		}
		if vErr == nil && sErr == nil {
			if res.R != "ok" {
				bad("failure although the output ID is declared and the data satisfies its schema")
			} else if outID != returnedOID || hx.Canon(hx.Enc(outData)) != hx.Canon(hx.Enc(ser)) {
				bad("success with an output other than the handler's ID and the serialized data",
					outID, hx.Canon(hx.Enc(outData)), hx.Canon(hx.Enc(ser)))
			}
		} else {
			if res.R == "ok" {
				bad("success although the output data does not satisfy the declared schema")
			} else if etype == "BadArgumentError" || etype == "InvalidInputError" {
				bad("non-conforming output data reported with the error type of an unknown step / a rejected input", etype)
			} else if etype == "InvalidOutputError" && vErr != nil {
				bad("non-conforming output data (fails Validate) reported with the error type of an undeclared output ID", etype)
			}
		}
	}
}

func (sg *stGen) callSignalCase(p stPlugin, stepID, sigID string, raw *hx.Val, panics bool, note string) {
	sp := p.find(stepID)
	var dt *hx.Ty
	if sp != nil {
		dt = stFind(sp.Signals, sigID)
	}
	vals := []*hx.Val{raw}
	var uOut any
	var uErr error
	var uPanic bool
	if dt != nil {
		uOut, uErr, uPanic = stUnserialize(dt, raw.ToGo())
		if uErr == nil && !uPanic {
			vals = append(vals, hx.Enc(uOut))
		}
	}
	kind := "ret"
	if panics {
		kind = "panic"
	}
	c := &stCase{Op: "CALLSIGNAL", Plugin: p, Step: stepID, Signal: sigID, V: raw, Beh: &stBeh{Kind: kind},
		Ext: hx.MkExt(stWrap(dt), vals...), Fuel: 400, Note: note}
	id1 := sg.writeCase(c)
	c2 := *c
	c2.Op = "CALLSIGNAL_CALLS"
	id2 := sg.writeCase(&c2)
	ids := []int{id1, id2}

	hasInit := sg.g.R.Intn(2) == 0
	rec := &stRecorder{}
	var callErr error
	res := hx.Guard(func() hx.Result {
		cs := stBuild(p, rec, &stBeh{Kind: "panic"}, panics, hasInit)
		callErr = cs.CallSignal(stCtx(sg.g.R.Intn(8)), "run-1", stepID, sigID, raw.ToGo())
		if callErr != nil {
			return hx.Result{R: "err", Msg: callErr.Error()}
		}
		return hx.Result{R: "ok"}
	})
	etype := ""
	switch res.R {
	case "ok":
		res.V = stCalls(rec.sigIn)
	case "err":
		etype = stErrType(callErr)
		switch etype {
		case "BadArgumentError":
			if sp == nil {
				res.R = "err-unknown-step"
			} else {
				res.R = "err-unknown-signal"
			}
		case "InvalidInputError":
			res.R = "err-invalid-input"
		default:
			res.R = "err-other"
		}
	}
	sg.writeResult("CALLSIGNAL", res)
	sg.writeResult("CALLSIGNAL_CALLS", hx.Result{R: "ok", V: stCalls(rec.sigIn)})
	sg.s.stats["signal:"+note]++

	bad := func(what string, detail ...string) {
		sg.finding(what, ids, append([]string{"note=" + note, "result=" + res.R + " " + res.Msg}, detail...)...)
	}
	if res.R == "panic" && !rec.panicked {
		bad("CallSignal panicked (not the handler's own panic)")
		return
	}
	if len(rec.stepIn) > 0 {
		bad("CallSignal ran the step handler")
	}
	if uPanic {
		return
	}
	accepted := dt != nil && uErr == nil
	switch {
	case !accepted && len(rec.sigIn) > 0:
		bad("signal handler ran although step/signal do not exist or Unserialize rejects the data")
	case accepted && len(rec.sigIn) == 0:
		bad("signal handler did not run although step and signal exist and Unserialize accepts the data")
	case len(rec.sigIn) > 1:
		bad("signal handler ran more than once")
	case accepted && hx.Canon(rec.sigIn[0]) != hx.Canon(hx.Enc(uOut)):
		bad("signal handler got a value different from Unserialize's result")
	}
	switch {
	case dt == nil:
		if etype != "BadArgumentError" {
			bad("unknown step or signal ID: expected BadArgumentError", etype)
		}
	case uErr != nil:
		if etype != "InvalidInputError" {
			bad("rejected signal data: expected InvalidInputError", etype)
		}
	case !rec.panicked:
		if res.R != "ok" {
			bad("signal call failed although step and signal exist and the data is accepted")
		}
	}
}

func (sg *stGen) callsGroup() {
	g := sg.g
	p := sg.plugin()
	pickStep := func() string {
		if g.R.Intn(100) < 12 {
			return []string{"nope", "", "Step0", "step0 ", "step9",
				// IDs a client may send: long, in multi-byte scripts (more than 64 bytes, fewer than 64 characters; a
				// character straddling byte 48 / 64), long ASCII
				"日本語のステップ名はここにあります、とても長い名前です", "шаг-которого-нет-в-этом-плагине-совсем-нет", "😀😀😀😀😀😀😀😀😀😀😀😀😀😀😀😀😀😀😀😀",
				"ééééééééééééééééééééééééééééééééééééééééé", "step-" + strings.Repeat("x", 90), "a" + strings.Repeat("é", 40)}[g.R.Intn(11)]
		}
		return p[g.R.Intn(len(p))].ID
	}
	for i := 0; i < 6; i++ {
		stepID := pickStep()
		sp := p.find(stepID)
		var raw *hx.Val
		var beh *stBeh
		note := "unknown-step"
		if sp != nil {
			var rk, bk string
			raw, rk = sg.rawFor(sp.Input)
			beh, bk = sg.behaviour(sp)
			note = rk + "/" + bk
		} else {
			other := p[g.R.Intn(len(p))]
			raw, _ = sg.rawFor(other.Input)
			beh, _ = sg.behaviour(other)
		}
		sg.callStepCase(p, stepID, raw, beh, note)
	}
	for i := 0; i < 3; i++ {
		stepID := pickStep()
		sp := p.find(stepID)
		sigID := []string{"sigA", "sigB", "sigC", "", "siga", "シグナルの名前がとても長い場合のテストです、長い長い", "сигнал-которого-нет-нигде-в-плагине-вообще", strings.Repeat("é", 41)}[g.R.Intn(8)]
		if sp != nil && len(sp.Signals) > 0 && g.R.Intn(100) < 75 {
			sigID = sp.Signals[g.R.Intn(len(sp.Signals))].ID
		}
		var raw *hx.Val
		note := "unknown-step"
		if sp != nil {
			if dt := stFind(sp.Signals, sigID); dt != nil {
				raw, note = sg.rawFor(dt)
			} else {
				raw, note = g.RandomVal(0), "unknown-signal"
			}
		} else {
			raw = g.RandomVal(0)
		}
		panics := g.R.Intn(100) < 10
		if panics {
			note += "/panic"
		}
		sg.callSignalCase(p, stepID, sigID, raw, panics, note)
	}
}

// ---------------------------------------------------------------------------------------------
// step data: sequential histories (model cases) and concurrent stress (oracle only)

// a fixed small step for the step-data streams: input {name: string(min 1)}, one output, two signals
func stDataPlugin() stPlugin {
	obj := func(id string) *hx.Ty {
		return &hx.Ty{T: "scope", Root: id, Objs: []hx.NamedObj{{ID: id, Ty: &hx.Ty{T: "obj", ID: id, Props: []hx.NamedProp{
			{Name: "name", P: &hx.Prop{Ty: &hx.Ty{T: "str", Min: hx.IntP(1)}, Required: true}},
			{Name: "n", P: &hx.Prop{Ty: &hx.Ty{T: "int"}}},
		}}}}}
	}
	return stPlugin{{ID: "s", Input: obj("in"), Outputs: []stNamedTy{{"success", obj("out")}},
		Signals: []stNamedTy{{"sigA", obj("da")}, {"sigB", obj("db")}}}}
}

type stObs struct {
	who  string // step / signal id
	run  string
	data any
}

// stDataStep builds one step whose handlers report the step data they were given. hold, when
// non-nil, is called inside every handler after recording (used to keep handlers running).
func stDataStep(hasInit bool, initCalls *int64, report func(stObs), hold func()) *schema.CallableSchema {
	p := stDataPlugin()[0]
	mkSig := func(id string, t *hx.Ty) schema.CallableSignal {
		return schema.NewCallableSignal[any, any](id, t.Build().(*schema.ScopeSchema), nil,
			func(_ context.Context, data any, in any) {
				report(stObs{id, in.(map[string]any)["name"].(string), data})
				if hold != nil {
					hold()
				}
			})
	}
	var initializer func() any
	if hasInit {
		initializer = func() any { return &stBox{n: atomic.AddInt64(initCalls, 1) - 1} }
	}
	step := schema.NewCallableStepWithSignals[any, any]("s", p.Input.Build().(*schema.ScopeSchema),
		map[string]*schema.StepOutputSchema{"success": schema.NewStepOutputSchema(p.Outputs[0].Ty.Build().(*schema.ScopeSchema), nil, false)},
		map[string]schema.CallableSignal{"sigA": mkSig("sigA", p.Signals[0].Ty), "sigB": mkSig("sigB", p.Signals[1].Ty)},
		nil, nil, initializer,
		func(_ context.Context, data any, in any) (string, any) {
			report(stObs{"step", in.(map[string]any)["name"].(string), data})
			if hold != nil {
				hold()
			}
			return "success", map[string]any{"name": "done"}
		})
	return schema.NewCallableSchema(step)
}

func stBoxVal(d any) *hx.Val {
	if b, ok := d.(*stBox); ok && b != nil {
		return hx.Int("int64", b.n)
	}
	if d == nil {
		return hx.Nil()
	}
	return hx.Str("?")
}

func (sg *stGen) seqCase() {
	g := sg.g
	hasInit := g.R.Intn(100) < 80
	runs := []string{"r1", "r2", "r3"}[:1+g.R.Intn(3)]
	n := 1 + g.R.Intn(8)
	var events [][]any
	for i := 0; i < n; i++ {
		r := runs[g.R.Intn(len(runs))]
		switch k := g.R.Intn(100); {
		case k < 35:
			events = append(events, []any{"step", r})
		case k < 80:
			events = append(events, []any{"signal", r, []string{"sigA", "sigB"}[g.R.Intn(2)]})
		case k < 87:
			events = append(events, []any{"nocall", r, "badinput-step"})
		case k < 94:
			events = append(events, []any{"nocall", r, "badinput-signal"})
		default:
			events = append(events, []any{"nocall", r, "unknown-signal"})
		}
	}
	id := sg.writeCase(&stCase{Op: "STEPDATA", HasInit: hasInit, Events: events, Note: fmt.Sprintf("runs=%d", len(runs))})

	var initCalls int64
	var obs []stObs
	var inits [][2]any // run the initialiser call happened in, ordinal
	cur := ""
	res := hx.Guard(func() hx.Result {
		var last int64
		cs := stDataStep(hasInit, &initCalls, func(o stObs) { obs = append(obs, o) }, nil)
		seen := &hx.Val{Kind: "l", L: []*hx.Val{}}
		ctx := context.Background()
		for _, e := range events {
			cur = e[1].(string)
			before := len(obs)
			good := map[string]any{"name": cur}
			var err error
			switch e[0].(string) {
			case "step":
				_, _, err = cs.CallStep(ctx, cur, "s", good)
			case "signal":
				err = cs.CallSignal(ctx, cur, "s", e[2].(string), good)
			default:
				switch e[2].(string) {
				case "badinput-step":
					_, _, err = cs.CallStep(ctx, cur, "s", map[string]any{"name": ""})
				case "badinput-signal":
					err = cs.CallSignal(ctx, cur, "s", "sigA", map[string]any{"nme": "x"})
				default:
					err = cs.CallSignal(ctx, cur, "s", "sigZ", good)
				}
				if err == nil {
					return hx.Result{R: "err-unexpected-success"}
				}
				err = nil
			}
			if err != nil {
				return hx.Result{R: "err-unexpected", Msg: err.Error()}
			}
			if now := atomic.LoadInt64(&initCalls); now != last {
				for k := last; k < now; k++ {
					inits = append(inits, [2]any{cur, k})
				}
				last = now
			}
			switch len(obs) - before {
			case 0:
				seen.L = append(seen.L, hx.Str("-"))
			case 1:
				seen.L = append(seen.L, stBoxVal(obs[len(obs)-1].data))
			default:
				seen.L = append(seen.L, hx.Str("many"))
			}
		}
		il := &hx.Val{Kind: "l", L: []*hx.Val{}}
		for _, in := range inits {
			il.L = append(il.L, hx.List(hx.Str(in[0].(string)), hx.Int("int64", in[1].(int64))))
		}
		return hx.Result{R: "ok", V: hx.StrAny([2]*hx.Val{hx.Str("inits"), il}, [2]*hx.Val{hx.Str("seen"), seen})}
	})
	sg.writeResult("STEPDATA", res)
	if res.R != "ok" {
		sg.finding("sequential step/signal history failed: "+res.R+" "+res.Msg, []int{id})
	}
	for _, f := range stJudge(obs, initCalls, hasInit) {
		sg.finding("sequential history: "+f, []int{id})
	}
}

// stJudge is the step-data oracle over the handler observations of ONE step instance.
func stJudge(obs []stObs, initCalls int64, hasInit bool) []string {
	var out []string
	byRun := map[string]any{}
	seenRun := map[string]bool{}
	owner := map[any]string{}
	for _, o := range obs {
		if o.run == "" {
			out = append(out, "handler without run")
			continue
		}
		if !seenRun[o.run] {
			seenRun[o.run] = true
			byRun[o.run] = o.data
		} else if byRun[o.run] != o.data {
			out = append(out, fmt.Sprintf("run %s: %s saw a step data object different from the one an earlier handler of the run saw", o.run, o.who))
		}
		if hasInit {
			if o.data == nil {
				out = append(out, fmt.Sprintf("run %s: %s saw nil step data although the step has an initialiser", o.run, o.who))
				continue
			}
			if r, ok := owner[o.data]; ok && r != o.run {
				out = append(out, fmt.Sprintf("%s of run %s saw the step data of run %s", o.who, o.run, r))
			}
			owner[o.data] = o.run
		} else if o.data != nil {
			out = append(out, "step data without an initialiser")
		}
	}
	if hasInit && int(initCalls) != len(seenRun) {
		out = append(out, fmt.Sprintf("%d initialiser calls for %d run IDs that reached a handler", initCalls, len(seenRun)))
	}
	if !hasInit && initCalls != 0 {
		out = append(out, "initialiser calls without an initialiser")
	}
	sort.Strings(out)
	return out
}

type stCall struct {
	run string
	sig string // "" = the step call
}

func stPermutations(n int) [][]int {
	if n == 0 {
		return [][]int{{}}
	}
	var out [][]int
	for _, p := range stPermutations(n - 1) {
		for i := 0; i <= len(p); i++ {
			q := append(append(append([]int{}, p[:i]...), n-1), p[i:]...)
			out = append(out, q)
		}
	}
	return out
}

// stTrial runs the calls concurrently on a fresh step. ordered: release them one at a time in the
// given order, each only after the previous one has entered its handler (handlers stay running
// until all have entered); otherwise all are released by one barrier.
func stTrial(calls []stCall, order []int, ordered bool, hasInit bool) []string {
	var initCalls int64
	var mu sync.Mutex
	var obs []stObs
	entered := make(chan struct{}, 2*len(calls))
	releaseAll := make(chan struct{})
	cs := stDataStep(hasInit, &initCalls, func(o stObs) {
		mu.Lock()
		obs = append(obs, o)
		mu.Unlock()
		entered <- struct{}{}
	}, func() { <-releaseAll })
	start := make([]chan struct{}, len(calls))
	for i := range start {
		start[i] = make(chan struct{})
	}
	barrier := make(chan struct{})
	var wg sync.WaitGroup
	errs := make(chan string, len(calls))
	for i, c := range calls {
		wg.Add(1)
		go func(i int, c stCall) {
			defer wg.Done()
			defer func() {
				if r := recover(); r != nil {
					errs <- fmt.Sprint("panic: ", r)
					entered <- struct{}{}
				}
			}()
			if ordered {
				<-start[i]
			} else {
				<-barrier
			}
			in := map[string]any{"name": c.run}
			var err error
			if c.sig == "" {
				_, _, err = cs.CallStep(context.Background(), c.run, "s", in)
			} else {
				err = cs.CallSignal(context.Background(), c.run, "s", c.sig, in)
			}
			if err != nil {
				errs <- err.Error()
			}
		}(i, c)
	}
	timeout := time.After(10 * time.Second)
	hung := false
	if ordered {
		for _, i := range order {
			close(start[i])
			select {
			case <-entered:
			case <-timeout:
				hung = true
			}
		}
	} else {
		close(barrier)
		for range calls {
			select {
			case <-entered:
			case <-timeout:
				hung = true
			}
		}
	}
	close(releaseAll)
	wg.Wait()
	close(errs)
	var out []string
	if hung {
		out = append(out, "a call did not reach its handler within 10 s")
	}
	for e := range errs {
		out = append(out, "call failed: "+e)
	}
	if len(obs) != len(calls) {
		out = append(out, fmt.Sprintf("%d handler invocations for %d calls", len(obs), len(calls)))
	}
	return append(out, stJudge(obs, initCalls, hasInit)...)
}

func (sg *stGen) stress(trials int) {
	g := sg.g
	report := func(kind string, calls []stCall, order []int, fs []string) {
		sg.s.stats["stress:"+kind]++
		if len(fs) > 0 {
			sg.finding("concurrent step/signal calls ("+kind+"): "+strings.Join(fs, "; "), nil, fmt.Sprint(calls), fmt.Sprint(order))
		}
	}
	// (b) every arrival order of one run's step call and 1..3 signals, with a second run mixed in
	for nsig := 1; nsig <= 3; nsig++ {
		calls := []stCall{{"r1", ""}}
		for k := 0; k < nsig; k++ {
			calls = append(calls, stCall{"r1", []string{"sigA", "sigB", "sigA"}[k]})
		}
		for _, perm := range stPermutations(len(calls)) {
			report("ordered-1run", calls, perm, stTrial(calls, perm, true, true))
		}
	}
	two := []stCall{{"r1", ""}, {"r2", ""}, {"r1", "sigA"}, {"r2", "sigB"}}
	for _, perm := range stPermutations(len(two)) {
		report("ordered-2runs", two, perm, stTrial(two, perm, true, true))
		report("ordered-2runs-noinit", two, perm, stTrial(two, perm, true, false))
	}
	// (a) barrier release, random mixes
	for t := 0; t < trials; t++ {
		nruns := 1 + g.R.Intn(4)
		var calls []stCall
		for r := 0; r < nruns; r++ {
			run := fmt.Sprintf("r%d", r)
			if g.R.Intn(100) < 85 {
				calls = append(calls, stCall{run, ""})
			}
			for k := g.R.Intn(4); k > 0; k-- {
				calls = append(calls, stCall{run, []string{"sigA", "sigB"}[g.R.Intn(2)]})
			}
		}
		if len(calls) == 0 {
			calls = []stCall{{"r0", "sigA"}}
		}
		g.R.Shuffle(len(calls), func(i, j int) { calls[i], calls[j] = calls[j], calls[i] })
		report("barrier", calls, nil, stTrial(calls, nil, false, g.R.Intn(100) < 85))
	}
}

// race builds the harness with the race detector and runs the stress stream in it.
func (sg *stGen) race(a Args) {
	src := os.Getenv("HARNESS_SRC")
	if src == "" {
		src = "/verif/harness"
	}
	outDir, err := filepath.Abs(a.Out)
	if err != nil {
		outDir = a.Out
	}
	bin := filepath.Join(outDir, "harness-race")
	sub := filepath.Join(outDir, "race")
	build := exec.Command("go", "build", "-race", "-o", bin, "./cmd/harness")
	build.Dir = src
	build.Env = append(os.Environ(), "GOFLAGS=-mod=mod", "GOPROXY=off", "GOSUMDB=off", "GOTOOLCHAIN=local")
	if out, err := build.CombinedOutput(); err != nil {
		sg.s.stats["race:build-failed"]++
		sg.finding("could not build the race-detector harness: "+err.Error(), nil, string(out))
		return
	}
	run := exec.Command(bin, "steps", "-streams", "stress", "-seed", fmt.Sprint(a.Seed), "-tier", a.Tier, "-out", sub)
	run.Env = append(os.Environ(), "GORACE=halt_on_error=0 exitcode=66")
	out, err := run.CombinedOutput()
	sg.s.stats["race:runs"]++
	if strings.Contains(string(out), "DATA RACE") {
		text := string(out)
		if len(text) > 4000 {
			text = text[:4000]
		}
		sg.finding("data race reported while step and signal calls ran concurrently", nil, text)
	} else if err != nil {
		sg.finding("race-detector run of the stress stream failed: "+err.Error(), nil, string(out))
	}
	if b, err := os.ReadFile(filepath.Join(sub, "findings.jsonl")); err == nil {
		for _, line := range strings.Split(strings.TrimSpace(string(b)), "\n") {
			if line == "" {
				continue
			}
			var f stFinding
			if json.Unmarshal([]byte(line), &f) == nil {
				sg.finding("[race build] "+f.What, nil, f.Detail...)
			}
		}
	}
	_ = os.Remove(bin)
}

func stepsCmd(a Args) {
	if err := os.MkdirAll(a.Out, 0o755); err != nil {
		panic(err)
	}
	s := newSink(a.Out)
	defer s.close()
	streams := a.Streams
	if streams == "valid,random" { // the global default of the flag
		streams = "calls,seq,stress,race"
	}
	sg := &stGen{g: hx.NewGen(a.Seed), s: s}
	groups, seqs, trials := a.N, 2*a.N, 300
	if a.Tier == "thorough" {
		groups, seqs, trials = 5*a.N, 10*a.N, 3000
	}
	stStructOutputWitness(s)
	stDecoratedStepWitness(s)
	stRefusedThenSignalWitness(s)
	stInitializerWithoutSignalsWitness(s)
	for _, stream := range strings.Split(streams, ",") {
		switch stream {
		case "calls":
			for i := 0; i < groups; i++ {
				sg.callsGroup()
			}
		case "seq":
			for i := 0; i < seqs; i++ {
				sg.seqCase()
			}
		case "stress":
			sg.stress(trials)
		case "race":
			sg.race(a)
		}
	}
	s.stats["cases"] = s.nextID
	s.stats["gomaxprocs"] = runtime.GOMAXPROCS(0)
	writeStats(a.Out, s, sg.g)
}

type stCtxKey struct{}

// stCtx: the contexts a caller may hand to CallStep / CallSignal. Whether the handler runs depends on
// the step ID and the input only (C11): a context that is already cancelled or past its deadline is
// the handler's business (it receives it), not a reason to skip the handler.
func stCtx(k int) context.Context {
	switch k {
	case 0:
		ctx, cancel := context.WithCancel(context.Background())
		cancel()
		return ctx
	case 1:
		ctx, cancel := context.WithDeadline(context.Background(), time.Unix(1, 0))
		_ = cancel
		return ctx
	case 2:
		ctx, cancel := context.WithTimeout(context.Background(), time.Hour)
		_ = cancel
		return ctx
	case 3:
		return context.WithValue(context.Background(), stCtxKey{}, "v")
	default:
		return context.Background()
	}
}

type stWInput struct {
	Name string `json:"name"`
}

type stWOutput struct {
	Message string `json:"message"`
}

// stStructOutputWitness (oracle-only; struct-mapped step data has no model case): a step whose input
// and output are mapped to Go structs. Declared output ID with data that is NOT a value of the output's
// struct type - in particular the MAP form of a fitting value - is non-conforming data and must be
// reported as such; the typed Call given the raw map of a valid input answers with InvalidInputError,
// it does not hand the map to the handler.
func stStructOutputWitness(s *sink) {
	type ret struct {
		name string
		data any
		ok   bool
	}
	rets := []ret{
		{"the struct", stWOutput{Message: "hi"}, true},
		{"map form of a fitting value", map[string]any{"message": "hi"}, false},
		{"map[any]any form", map[any]any{"message": "hi"}, false},
		{"pointer to the struct", &stWOutput{Message: "hi"}, false},
		{"another struct", stWInput{Name: "x"}, false},
		{"nil", nil, false},
	}
	for _, r := range rets {
		r := r
		calls := 0
		step := schema.NewCallableStep[stWInput]("hello",
			schema.NewScopeSchema(schema.NewStructMappedObjectSchema[stWInput]("in", map[string]*schema.PropertySchema{
				"name": schema.NewPropertySchema(schema.NewStringSchema(nil, nil, nil), nil, true, nil, nil, nil, nil, nil)})),
			map[string]*schema.StepOutputSchema{"success": schema.NewStepOutputSchema(
				schema.NewScopeSchema(schema.NewStructMappedObjectSchema[stWOutput]("out", map[string]*schema.PropertySchema{
					"message": schema.NewPropertySchema(schema.NewStringSchema(nil, nil, nil), nil, true, nil, nil, nil, nil, nil)})), nil, false)},
			nil,
			func(ctx context.Context, in stWInput) (string, any) { calls++; return "success", r.data })
		cs := schema.NewCallableSchema(step)
		var oid string
		var err error
		res := hx.Guard(func() hx.Result {
			oid, _, err = cs.CallStep(context.Background(), "r", "hello", map[string]any{"name": "n"})
			return hx.Result{R: "ok"}
		})
		s.stats["struct-output-witness"]++
		switch {
		case res.R == "panic":
			s.finding(Finding{Prop: "C11", What: "CallStep panicked for a handler returning " + r.name + " for a struct-mapped output: " + res.Msg})
		case calls != 1:
			s.finding(Finding{Prop: "C11", What: fmt.Sprintf("handler invoked %d times for a valid input (struct-mapped step)", calls)})
		case r.ok && (err != nil || oid != "success"):
			s.finding(Finding{Prop: "C11", What: "conforming output of a struct-mapped step rejected", Detail: []string{fmt.Sprint(err)}})
		case !r.ok && err == nil:
			s.finding(Finding{Prop: "C11", What: "handler returned " + r.name + " for a declared output mapped to a struct: the data does not satisfy the output schema, yet CallStep reported success"})
		}
		// the typed entry point given the raw map of a valid input
		res = hx.Guard(func() hx.Result {
			_, _, err = step.Call(context.Background(), "r2", map[string]any{"name": "n"})
			return hx.Result{R: "ok"}
		})
		var inv schema.InvalidInputError
		if res.R == "panic" {
			s.finding(Finding{Prop: "C11", What: "Call of a struct-mapped step given the raw map of a valid input panicked instead of returning InvalidInputError: " + res.Msg})
		} else if !errors.As(err, &inv) {
			s.finding(Finding{Prop: "C11", What: "Call of a struct-mapped step given the raw map of a valid input: expected InvalidInputError", Detail: []string{fmt.Sprint(err)}})
		}
	}
}

// stDecorated is a CallableStep that is not the library's own implementation: it embeds a library-built
// step and post-processes what that step's Call returns (signing, redacting, enriching the output).
// CallableSchema holds CallableStep INTERFACE values, so CallStep itself has to check what comes back.
type stDecorated struct {
	schema.CallableStep
	post func(id string, data any) (string, any, error)
}

func (d stDecorated) Call(ctx context.Context, runID string, data any) (string, any, error) {
	id, out, err := d.CallableStep.Call(ctx, runID, data)
	if err != nil {
		return id, out, err
	}
	return d.post(id, out)
}

// stDecoratedStepWitness (oracle-only): what CallStep makes of a decorated step whose Call returns, for an
// ACCEPTED input and after the handler ran exactly once, a declared output ID with conforming data, a
// declared ID with data that does not satisfy the declared schema (too long, wrong Go type, nil), an
// undeclared ID, or an error of its own. The error type must tell a rejected input (InvalidInputError)
// from everything that went wrong with the output (never InvalidInputError / BadArgumentError).
func stDecoratedStepWitness(s *sink) {
	type ret struct {
		name string
		post func(id string, data any) (string, any, error)
		want string // "ok", "undeclared", "nonconforming", "own"
	}
	own := errors.New("signing service unavailable")
	rets := []ret{
		{"the output as it is", func(id string, d any) (string, any, error) { return id, d, nil }, "ok"},
		{"a conforming replacement", func(id string, d any) (string, any, error) { return id, map[string]any{"message": "signed"}, nil }, "ok"},
		{"a message too long for the output schema", func(id string, d any) (string, any, error) {
			return id, map[string]any{"message": strings.Repeat("x", 40)}, nil
		}, "nonconforming"},
		{"data of the wrong Go type", func(id string, d any) (string, any, error) { return id, "signed", nil }, "nonconforming"},
		{"an undeclared property added", func(id string, d any) (string, any, error) {
			return id, map[string]any{"message": "m", "signature": "s"}, nil
		}, "nonconforming"},
		{"nil data", func(id string, d any) (string, any, error) { return id, nil, nil }, "nonconforming"},
		{"an undeclared output ID", func(id string, d any) (string, any, error) { return "signed", d, nil }, "undeclared"},
		{"the empty output ID", func(id string, d any) (string, any, error) { return "", d, nil }, "undeclared"},
		{"an error of its own", func(id string, d any) (string, any, error) { return "", nil, own }, "own"},
	}
	for _, r := range rets {
		r := r
		calls := 0
		inner := schema.NewCallableStep[any]("greet",
			schema.NewScopeSchema(schema.NewObjectSchema("in", map[string]*schema.PropertySchema{
				"name": schema.NewPropertySchema(schema.NewStringSchema(nil, sp(int64(8)), nil), nil, true, nil, nil, nil, nil, nil)})),
			map[string]*schema.StepOutputSchema{"success": schema.NewStepOutputSchema(
				schema.NewScopeSchema(schema.NewObjectSchema("out", map[string]*schema.PropertySchema{
					"message": schema.NewPropertySchema(schema.NewStringSchema(nil, sp(int64(20)), nil), nil, true, nil, nil, nil, nil, nil)})), nil, false)},
			nil,
			func(ctx context.Context, in any) (string, any) {
				calls++
				return "success", map[string]any{"message": "hi " + in.(map[string]any)["name"].(string)}
			})
		cs := schema.NewCallableSchema(stDecorated{inner, r.post})
		for _, in := range []struct {
			raw      any
			accepted bool
		}{{map[string]any{"name": "ann"}, true}, {map[string]any{"name": "a name that is too long"}, false}} {
			calls = 0
			var oid string
			var data any
			var err error
			res := hx.Guard(func() hx.Result {
				oid, data, err = cs.CallStep(context.Background(), "r", "greet", in.raw)
				return hx.Result{R: "ok"}
			})
			s.stats["decorated-step-witness"]++
			where := fmt.Sprintf("decorated step returning %s, input %v", r.name, in.raw)
			et := stErrType(err)
			bad := func(what string) {
				s.finding(Finding{Prop: "C11", What: what, Detail: []string{where, fmt.Sprintf("output ID %q, data %v, error type %s: %v", oid, data, et, err)}})
			}
			switch {
			case res.R == "panic":
				bad("CallStep panicked: " + res.Msg)
			case !in.accepted:
				if calls != 0 || et != "InvalidInputError" {
					bad(fmt.Sprintf("rejected input: expected InvalidInputError and no handler call, got %d calls", calls))
				}
			case calls != 1:
				bad(fmt.Sprintf("handler invoked %d times for an accepted input", calls))
			case r.want == "ok":
				if err != nil || oid != "success" {
					bad("a declared output ID with conforming data is not returned")
				}
			case err == nil:
				bad("success although the step did not return a declared output ID with conforming data")
			case et == "InvalidInputError" || et == "BadArgumentError":
				bad("a failure on the OUTPUT side of an accepted input is reported with the error type of a rejected input / an unknown step")
			case r.want == "undeclared" && et != "InvalidOutputError":
				bad("undeclared output ID: expected InvalidOutputError")
			case r.want == "own" && !errors.Is(err, own):
				bad("the step's own error is not passed on")
			}
		}
	}
}

// stRefusedThenSignalWitness (oracle-only): a step call that is REFUSED (its input fails the input
// schema's Validate in the typed entry point, or Unserialize in CallStep) leaves the run usable: a signal
// for the same run ID afterwards is delivered and returns, a second step call with a valid input runs the
// handler, and the same in the other order and from several goroutines. Every call returns what it returns
// in isolation - in particular it returns.
func stRefusedThenSignalWitness(s *sink) {
	within := func(what string, f func() error) (error, bool) {
		done := make(chan error, 1)
		go func() {
			var err error
			if r := hx.Guard(func() hx.Result { err = f(); return hx.Result{R: "ok"} }); r.R != "ok" {
				err = fmt.Errorf("panic: %s", r.Msg)
			}
			done <- err
		}()
		select {
		case err := <-done:
			return err, true
		case <-time.After(3 * time.Second):
			for _, prop := range []string{"C11", "C13"} {
				s.finding(Finding{Prop: prop, What: "a call that returns at once in isolation does not return after a refused step call for the same run ID: " + what})
			}
			return nil, false
		}
	}
	for _, order := range []string{"refused,signal,step", "refused,step,signal", "refused,refused,signal", "callstep-refused,signal,step",
		"signal,refused-signal,signal", "step,refused-signal,signal", "signal,callsignal-refused,signal,step", "refused-signal,signal,step"} {
		var stepCalls, sigCalls, inits int64
		var seenMu sync.Mutex
		var seen []any
		saw := func(d any) {
			seenMu.Lock()
			seen = append(seen, d)
			seenMu.Unlock()
		}
		inScope := func() *schema.ScopeSchema {
			return schema.NewScopeSchema(schema.NewObjectSchema("in", map[string]*schema.PropertySchema{
				"name": schema.NewPropertySchema(schema.NewStringSchema(nil, sp(int64(8)), nil), nil, true, nil, nil, nil, nil, nil)}))
		}
		step := schema.NewCallableStepWithSignals[any, any]("s", inScope(),
			map[string]*schema.StepOutputSchema{"success": schema.NewStepOutputSchema(inScope(), nil, false)},
			map[string]schema.CallableSignal{"poke": schema.NewCallableSignal[any, any]("poke", inScope(), nil,
				func(_ context.Context, d any, _ any) { atomic.AddInt64(&sigCalls, 1); saw(d) })},
			nil, nil, func() any { return &stBox{n: atomic.AddInt64(&inits, 1)} },
			func(_ context.Context, d any, in any) (string, any) {
				atomic.AddInt64(&stepCalls, 1)
				saw(d)
				return "success", map[string]any{"name": "done"}
			})
		cs := schema.NewCallableSchema(step)
		ctx := context.Background()
		ok := true
		wantStep, wantSig := int64(0), int64(0)
		for i, op := range strings.Split(order, ",") {
			if !ok {
				break
			}
			what := fmt.Sprintf("order %s, call %d (%s)", order, i+1, op)
			var err error
			switch op {
			case "refused":
				err, ok = within(what, func() error { _, _, e := step.Call(ctx, "run-1", map[string]any{}); return e })
				if ok && stErrType(err) != "InvalidInputError" {
					s.finding(Finding{Prop: "C11", What: "the typed Call given an input that fails the input schema: expected InvalidInputError", Detail: []string{what, fmt.Sprint(err)}})
				}
			case "callstep-refused":
				err, ok = within(what, func() error {
					_, _, e := cs.CallStep(ctx, "run-1", "s", map[string]any{"name": "much too long a name"})
					return e
				})
				if ok && stErrType(err) != "InvalidInputError" {
					s.finding(Finding{Prop: "C11", What: "CallStep with a rejected input: expected InvalidInputError", Detail: []string{what, fmt.Sprint(err)}})
				}
			case "refused-signal":
				// the typed entry point given data that fails the signal's data schema
				err, ok = within(what, func() error {
					return step.CallSignal(ctx, "run-1", "poke", map[string]any{"name": "much too long a name"})
				})
				if ok && stErrType(err) != "InvalidInputError" {
					s.finding(Finding{Prop: "C11", What: "the typed CallSignal given data that fails the signal's schema: expected InvalidInputError", Detail: []string{what, fmt.Sprint(err)}})
				}
			case "callsignal-refused":
				err, ok = within(what, func() error {
					return cs.CallSignal(ctx, "run-1", "s", "poke", map[string]any{"name": "much too long a name"})
				})
				if ok && stErrType(err) != "InvalidInputError" {
					s.finding(Finding{Prop: "C11", What: "CallSignal with rejected data: expected InvalidInputError", Detail: []string{what, fmt.Sprint(err)}})
				}
			case "signal":
				wantSig++
				err, ok = within(what, func() error { return cs.CallSignal(ctx, "run-1", "s", "poke", map[string]any{"name": "x"}) })
				if ok && err != nil {
					s.finding(Finding{Prop: "C11", What: "a valid signal after a refused step call for the same run ID is not delivered", Detail: []string{what, err.Error()}})
				}
			case "step":
				wantStep++
				err, ok = within(what, func() error { _, _, e := cs.CallStep(ctx, "run-1", "s", map[string]any{"name": "ann"}); return e })
				if ok && err != nil {
					s.finding(Finding{Prop: "C11", What: "a valid step call after a refused one for the same run ID fails", Detail: []string{what, err.Error()}})
				}
			}
		}
		s.stats["refused-then-signal-witness"]++
		if ok {
			if n := atomic.LoadInt64(&inits); n > 1 || (n == 0 && len(seen) > 0) {
				s.finding(Finding{Prop: "C11", What: fmt.Sprintf("the step data of one run ID was created %d times (a refused call in between)", n), Detail: []string{order}})
			}
			for _, d := range seen {
				if d != seen[0] {
					s.finding(Finding{Prop: "C11", What: "a handler of the run was handed step data other than the run's first created step data (a refused call in between)", Detail: []string{order}})
					break
				}
			}
		}
		if ok && (atomic.LoadInt64(&stepCalls) != wantStep || atomic.LoadInt64(&sigCalls) != wantSig) {
			s.finding(Finding{Prop: "C11", What: fmt.Sprintf("handlers ran %d (step) / %d (signal) times, expected %d / %d", stepCalls, sigCalls, wantStep, wantSig), Detail: []string{order}})
		}
	}
}

// stInitializerWithoutSignalsWitness (oracle-only): the per-run step data comes from the step's initializer
// whether or not the step has signal handlers (a step that only emits signals, or keeps per-run scratch state):
// it is created exactly once per run ID and is what the step handler receives - through CallStep and through
// the typed Call, for handlers nil, empty, and for pointer and value step data.
func stInitializerWithoutSignalsWitness(s *sink) {
	inScope := func() *schema.ScopeSchema {
		return schema.NewScopeSchema(schema.NewObjectSchema("in", map[string]*schema.PropertySchema{
			"name": schema.NewPropertySchema(schema.NewStringSchema(nil, nil, nil), nil, true, nil, nil, nil, nil, nil)}))
	}
	outs := func() map[string]*schema.StepOutputSchema {
		return map[string]*schema.StepOutputSchema{"success": schema.NewStepOutputSchema(inScope(), nil, false)}
	}
	for _, variant := range []string{"handlers nil", "handlers empty", "emitters only"} {
		var inits int64
		var seen []any
		var handlers map[string]schema.CallableSignal
		var emitters map[string]*schema.SignalSchema
		switch variant {
		case "handlers empty":
			handlers = map[string]schema.CallableSignal{}
		case "emitters only":
			emitters = map[string]*schema.SignalSchema{"progress": schema.NewSignalSchema("progress", inScope(), nil)}
		}
		step := schema.NewCallableStepWithSignals[any, any]("s", inScope(), outs(), handlers, emitters, nil,
			func() any { return &stBox{n: atomic.AddInt64(&inits, 1)} },
			func(_ context.Context, d any, in any) (string, any) {
				seen = append(seen, d)
				return "success", map[string]any{"name": "done"}
			})
		cs := schema.NewCallableSchema(step)
		runs := []string{"run-a", "run-b", "run-c"}
		for i, run := range runs {
			var err error
			r := hx.Guard(func() hx.Result {
				if i%2 == 0 {
					_, _, err = cs.CallStep(context.Background(), run, "s", map[string]any{"name": "x"})
				} else {
					_, _, err = step.Call(context.Background(), run, map[string]any{"name": "x"})
				}
				return hx.Result{R: "ok"}
			})
			if r.R != "ok" || err != nil {
				s.finding(Finding{Prop: "C11", What: "a valid step call on a step with an initializer and no signal handlers fails", Detail: []string{variant, fmt.Sprint(err), r.Msg}})
			}
		}
		s.stats["initializer-without-signals-witness"]++
		if n := atomic.LoadInt64(&inits); n != int64(len(runs)) {
			s.finding(Finding{Prop: "C11", What: fmt.Sprintf("the initializer of a step without signal handlers ran %d times for %d run IDs (the per-run step data is created exactly once per run ID)", n, len(runs)), Detail: []string{variant}})
		}
		for i, d := range seen {
			b, ok := d.(*stBox)
			if !ok || b == nil {
				s.finding(Finding{Prop: "C11", What: "the step handler of a step without signal handlers was not handed the step data its initializer creates", Detail: []string{variant, fmt.Sprintf("call %d got %#v", i+1, d)}})
				break
			}
		}
	}
}
