package main

// Oracle-only stream (part of `typed`): several one-of schemas in ONE process that share Go struct
// types for their members but map them to different discriminator values and give them different
// limits. Every schema is a function of its own declaration only: what another schema instance was
// used for before (a package-level table keyed by Go type, for instance) must not show.
//
// Expected results are computed from the declaration alone: the discriminator a struct type is
// serialized under is the key it was registered with in THAT schema; Validate accepts a struct iff it
// meets THAT schema's limits; Unserialize of {discriminator: k, ...} yields the struct type registered
// under k in THAT schema, and Validate / Serialize accept it (C01).

import (
	"fmt"
	"reflect"

	"go.flow.arcalot.io/pluginsdk/schema"

	"harness/hx"
)

type twTCP struct {
	Host string `json:"host"`
	Port int64  `json:"port"`
}

type twUnix struct {
	Path string `json:"path"`
}

type twPipe struct {
	Name string `json:"name"`
}

type twMember struct {
	key    any // int64 or string
	goType reflect.Type
	obj    func(maxLen int64) *schema.ObjectSchema
	maxLen int64 // limit on the string field in this schema
	field  string
}

func twTCPObj(maxLen int64) *schema.ObjectSchema {
	return schema.NewStructMappedObjectSchema[twTCP]("tcp", map[string]*schema.PropertySchema{
		"host": tyProp(schema.NewStringSchema(nil, sp(maxLen), nil), true),
		"port": tyProp(schema.NewIntSchema(sp(int64(0)), sp(int64(65535)), nil), false),
	})
}

func twUnixObj(maxLen int64) *schema.ObjectSchema {
	return schema.NewStructMappedObjectSchema[twUnix]("unix", map[string]*schema.PropertySchema{
		"path": tyProp(schema.NewStringSchema(nil, sp(maxLen), nil), true),
	})
}

func twPipeObj(maxLen int64) *schema.ObjectSchema {
	return schema.NewStructMappedObjectSchema[twPipe]("pipe", map[string]*schema.PropertySchema{
		"name": tyProp(schema.NewStringSchema(nil, sp(maxLen), nil), true),
	})
}

type twSchema struct {
	name    string
	disc    string
	members []twMember
	build   func() schema.Type
}

func twValue(t reflect.Type, n int) any {
	s := ""
	for i := 0; i < n; i++ {
		s += "x"
	}
	switch t {
	case reflect.TypeOf(twTCP{}):
		return twTCP{Host: s, Port: 80}
	case reflect.TypeOf(twUnix{}):
		return twUnix{Path: s}
	default:
		return twPipe{Name: s}
	}
}

func twSchemas() []twSchema {
	tcp, unix, pipe := reflect.TypeOf(twTCP{}), reflect.TypeOf(twUnix{}), reflect.TypeOf(twPipe{})
	mk := func(name, disc string, intKeys bool, ms []twMember) twSchema {
		return twSchema{name: name, disc: disc, members: ms, build: func() schema.Type {
			if intKeys {
				types := map[int64]schema.Object{}
				for _, m := range ms {
					types[m.key.(int64)] = m.obj(m.maxLen)
				}
				return schema.NewOneOfIntSchema[any](types, disc, false)
			}
			types := map[string]schema.Object{}
			for _, m := range ms {
				types[m.key.(string)] = m.obj(m.maxLen)
			}
			return schema.NewOneOfStringSchema[any](types, disc, false)
		}}
	}
	return []twSchema{
		mk("net", "kind", true, []twMember{{int64(0), tcp, twTCPObj, 8, "host"}, {int64(1), unix, twUnixObj, 8, "path"}}),
		mk("ipc", "kind", true, []twMember{{int64(0), unix, twUnixObj, 64, "path"}, {int64(1), pipe, twPipeObj, 8, "name"}}),
		mk("any", "kind", true, []twMember{{int64(2), tcp, twTCPObj, 64, "host"}, {int64(0), pipe, twPipeObj, 64, "name"}, {int64(1), unix, twUnixObj, 3, "path"}}),
		mk("primary", "type", false, []twMember{{"primary", tcp, twTCPObj, 8, "host"}, {"fallback", unix, twUnixObj, 8, "path"}}),
		mk("swapped", "type", false, []twMember{{"primary", unix, twUnixObj, 64, "path"}, {"fallback", tcp, twTCPObj, 64, "host"}}),
	}
}

func groupOneOfTwins(s *sink, g *hx.Gen) {
	if s.stats["twins:done"] > 0 && g.R.Intn(25) != 0 {
		return
	}
	s.stats["twins:done"]++
	defs := twSchemas()
	built := make([]schema.Type, len(defs))
	for i, d := range defs {
		built[i] = d.build()
	}
	// a random order of use over all (schema, member, length, op) combinations, several rounds: the
	// first use of every struct type happens on a different schema from run to run
	type use struct{ si, mi, n int }
	var uses []use
	for round := 0; round < 2; round++ {
		for si, d := range defs {
			for mi := range d.members {
				for _, n := range []int{1, 5, 20} {
					uses = append(uses, use{si, mi, n})
				}
			}
		}
	}
	g.R.Shuffle(len(uses), func(i, j int) { uses[i], uses[j] = uses[j], uses[i] })
	bad := map[string]int{}
	report := func(prop, what string, detail ...string) {
		bad[prop]++
		if bad[prop] <= 4 {
			s.finding(Finding{Prop: prop, What: what, Detail: detail})
		}
	}
	for _, u := range uses {
		d, m, sch := defs[u.si], defs[u.si].members[u.mi], built[u.si]
		v := twValue(m.goType, u.n)
		where := fmt.Sprintf("one-of %q, member %v (%v), %s of length %d (limit %d)", d.name, m.key, m.goType.Name(), m.field, u.n, m.maxLen)
		wantOK := int64(u.n) <= m.maxLen
		s.stats["twins:calls"]++
		// Validate
		var verr error
		r := hx.Guard(func() hx.Result { verr = sch.Validate(v); return hx.Result{R: "ok"} })
		if r.R != "ok" {
			report("C04", "Validate panicked: "+r.Msg, where)
			continue
		}
		if (verr == nil) != wantOK {
			report("C12", "Validate of a struct value on a one-of does not follow this schema's own declaration (another one-of schema over the same Go types was used in this process)",
				where, fmt.Sprintf("expected accepted=%v, got error %v", wantOK, verr))
		}
		// Serialize
		var ser any
		var serr error
		r = hx.Guard(func() hx.Result { ser, serr = sch.Serialize(v); return hx.Result{R: "ok"} })
		if r.R != "ok" {
			report("C04", "Serialize panicked: "+r.Msg, where)
			continue
		}
		if (serr == nil) != wantOK {
			report("C12", "Serialize of a struct value on a one-of does not follow this schema's own declaration", where,
				fmt.Sprintf("expected accepted=%v, got error %v", wantOK, serr))
			continue
		}
		if serr != nil {
			continue
		}
		sm, ok := ser.(map[string]any)
		if !ok || fmt.Sprint(sm[d.disc]) != fmt.Sprint(m.key) {
			report("C12", "Serialize writes a discriminator this schema does not register the value's type under", where,
				fmt.Sprintf("serialized: %v", ser))
			continue
		}
		// and back: C01
		var back any
		var uerr error
		r = hx.Guard(func() hx.Result { back, uerr = sch.Unserialize(ser); return hx.Result{R: "ok"} })
		if r.R != "ok" || uerr != nil {
			report("C01", "Unserialize rejects what Serialize produced", where, fmt.Sprintf("serialized: %v, error %v %s", ser, uerr, r.Msg))
			continue
		}
		if !reflect.DeepEqual(back, v) {
			report("C01", "Unserialize(Serialize(v)) differs from v", where, fmt.Sprintf("%#v vs %#v", back, v))
			continue
		}
		r = hx.Guard(func() hx.Result { verr = sch.Validate(back); _, serr = sch.Serialize(back); return hx.Result{R: "ok"} })
		if r.R != "ok" || verr != nil || serr != nil {
			report("C01", "Validate / Serialize reject the value Unserialize returned", where, fmt.Sprintf("validate: %v, serialize: %v %s", verr, serr, r.Msg))
		}
	}
	// raw inputs in every schema after all that use
	for si, d := range defs {
		for _, m := range d.members {
			raw := map[string]any{d.disc: m.key, m.field: "ab"}
			where := fmt.Sprintf("one-of %q, raw input %v", d.name, raw)
			var out any
			var uerr error
			r := hx.Guard(func() hx.Result { out, uerr = built[si].Unserialize(raw); return hx.Result{R: "ok"} })
			if r.R != "ok" || uerr != nil {
				report("C03", "a valid one-of input is rejected", where, fmt.Sprintf("%v %s", uerr, r.Msg))
				continue
			}
			if reflect.TypeOf(out) != m.goType {
				report("C03", "one-of dispatch yields another member's type", where, fmt.Sprintf("%T", out))
				continue
			}
			var verr, serr error
			r = hx.Guard(func() hx.Result { verr = built[si].Validate(out); _, serr = built[si].Serialize(out); return hx.Result{R: "ok"} })
			if r.R != "ok" || verr != nil || serr != nil {
				report("C01", "Validate / Serialize reject the value Unserialize returned", where, fmt.Sprintf("validate: %v, serialize: %v %s", verr, serr, r.Msg))
			}
		}
	}
}
