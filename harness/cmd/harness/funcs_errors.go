package main

import (
	"errors"
	"fmt"

	"go.flow.arcalot.io/pluginsdk/schema"
)

// fnErrorIdentityOracle: direct evaluation (no model case) of "calls report faithfully" for handler
// errors of unusual dynamic types: an error that IS a *schema.FunctionCallError (as a handler that
// delegates to another function and propagates its error returns), one that wraps such an error,
// a joined error, an error whose Error() panics is left out. For every well-shaped call the reported
// error must be function-reported and its source must be the very error the handler returned.
func fnErrorIdentityOracle(m *fnRun) {
	inner := schema.NewFunctionCallError(errors.New("incorrect number of args sent to function with ID 'inner'"), false)
	innerReported := schema.NewFunctionCallError(errors.New("inner failed"), true)
	cases := []struct {
		name string
		err  error
	}{
		{"call-error", inner},
		{"reported-call-error", innerReported},
		{"wrapped-call-error", fmt.Errorf("while delegating to inner: %w", inner)},
		{"doubly-wrapped-call-error", fmt.Errorf("outer: %w", fmt.Errorf("middle: %w", inner))},
		{"joined-call-error", errors.Join(errors.New("first"), inner)},
		{"plain", errors.New("plain")},
	}
	str := schema.NewStringSchema(nil, nil, nil)
	for _, c := range cases {
		herr := c.err
		type mk struct {
			shape string
			f     func() (schema.CallableFunction, error)
			args  []any
		}
		mks := []mk{
			{"func() error", func() (schema.CallableFunction, error) {
				return schema.NewCallableFunction("f", []schema.Type{}, nil, true, nil, func() error { return herr })
			}, []any{}},
			{"func(string) (string, error)", func() (schema.CallableFunction, error) {
				return schema.NewCallableFunction("f", []schema.Type{str}, str, true, nil, func(s string) (string, error) { return "", herr })
			}, []any{"a"}},
			{"dynamic func(string) (any, error)", func() (schema.CallableFunction, error) {
				return schema.NewDynamicCallableFunction("f", []schema.Type{str}, nil, func(s string) (any, error) { return nil, herr },
					func(in []schema.Type) (schema.Type, error) { return str, nil })
			}, []any{"a"}},
		}
		for _, k := range mks {
			m.s.stats["oracle:error-identity"]++
			what := fmt.Sprintf("handler %s returning a %s error", k.shape, c.name)
			f, err := k.f()
			if err != nil {
				m.s.finding(Finding{Prop: "C18", What: what + ": constructor rejected a matching handler: " + err.Error()})
				continue
			}
			var callErr error
			var got any
			pmsg, panicked := func() (msg string, p bool) {
				defer func() {
					if r := recover(); r != nil {
						p, msg = true, fmt.Sprint(r)
					}
				}()
				got, callErr = f.Call(k.args)
				return
			}()
			var fe *schema.FunctionCallError
			switch {
			case panicked:
				m.s.finding(Finding{Prop: "C18", What: what + ": Call panicked: " + pmsg})
			case callErr == nil:
				m.s.finding(Finding{Prop: "C18", What: what + ": handler error not reported"})
			case got != nil:
				m.s.finding(Finding{Prop: "C18", What: what + ": Call returned both a value and an error"})
			default:
				// the OUTERMOST error must be the call error describing this call
				fe, _ = callErr.(*schema.FunctionCallError)
				if fe == nil {
					m.s.finding(Finding{Prop: "C18", What: what + ": Call returned an error that is not a FunctionCallError", Detail: []string{callErr.Error()}})
				} else if !fe.IsFunctionReportedError {
					m.s.finding(Finding{Prop: "C18", What: what + ": handler error reported as not function-reported", Detail: []string{callErr.Error()}})
				} else if fe.SourceError != herr {
					m.s.finding(Finding{Prop: "C18", What: what + ": reported error is not the handler's error", Detail: []string{callErr.Error(), herr.Error()}})
				}
			}
		}
	}
}
