// Command harness drives the real SDK (built from /repo's working tree) on generated cases and
// writes (a) the case lines for the Lean driver, (b) the implementation's canonical results,
// (c) direct evaluations of the properties on the implementation ("oracle" findings).
package main

import (
	"flag"
	"fmt"
	"os"
)

// Command is a harness sub-command. Flags common to all are parsed in main.
type Command func(a Args)

// Args are the common flags.
type Args struct {
	Seed    int64
	N       int
	Out     string
	Streams string
	Replay  string
	Tier    string
}

var commands = map[string]Command{}

func register(name string, c Command) { commands[name] = c }

func init() {
	register("schemaops", func(a Args) { schemaOps(a.Seed, a.N, a.Out, a.Streams, a.Replay) })
	register("op-child", func(a Args) { opChild() })
}

func main() {
	if len(os.Args) < 2 {
		fmt.Fprintln(os.Stderr, "usage: harness <schemaops|...> [flags]")
		os.Exit(2)
	}
	cmd := os.Args[1]
	fs := flag.NewFlagSet(cmd, flag.ExitOnError)
	seed := fs.Int64("seed", 1, "PRNG seed")
	n := fs.Int("n", 200, "number of schema/value groups")
	out := fs.String("out", ".", "output directory")
	streams := fs.String("streams", "valid,random", "comma separated case streams")
	replay := fs.String("replay", "", "replay file (a cases.jsonl written earlier): re-run those cases only")
	tier := fs.String("tier", "quick", "quick or thorough")
	_ = fs.Parse(os.Args[2:])
	c, ok := commands[cmd]
	if !ok {
		fmt.Fprintln(os.Stderr, "unknown command", cmd)
		os.Exit(2)
	}
	c(Args{Seed: *seed, N: *n, Out: *out, Streams: *streams, Replay: *replay, Tier: *tier})
}
