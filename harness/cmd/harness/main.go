// Command harness drives the real SDK (built from /repo's working tree) on generated cases and
// writes (a) the case lines for the Lean driver, (b) the implementation's canonical results,
// (c) direct evaluations of the properties on the implementation ("oracle" findings).
package main

import (
	"flag"
	"fmt"
	"os"
)

func main() {
	if len(os.Args) < 2 {
		fmt.Fprintln(os.Stderr, "usage: harness <schemaops|...> [flags]")
		os.Exit(2)
	}
	cmd := os.Args[1]
	fs := flag.NewFlagSet(cmd, flag.ExitOnError)
	seed := fs.Int64("seed", 1, "PRNG seed")
	n := fs.Int("n", 200, "number of schema/value groups")
	out := fs.String("out", ".", "output directory")
	streams := fs.String("streams", "valid,random", "comma separated case streams")
	replay := fs.String("replay", "", "replay file (a cases.jsonl written earlier): re-run those cases only")
	_ = fs.Parse(os.Args[2:])
	switch cmd {
	case "schemaops":
		schemaOps(*seed, *n, *out, *streams, *replay)
	default:
		fmt.Fprintln(os.Stderr, "unknown command", cmd)
		os.Exit(2)
	}
}
