package main

import (
	"bufio"
	"bytes"
	"encoding/json"
	"fmt"
	"math"
	"os"
	"os/exec"
	"runtime/debug"
	"strconv"
	"strings"
	"time"

	"go.flow.arcalot.io/pluginsdk/schema"
	"harness/hx"
)

func init() {
	register("compat", func(a Args) { compatCmd(a) })
	register("compat-child", func(a Args) { compatChild() })
}

// CompatCase is one schema-mode compatibility question: may `Schema2` be used where `Schema` is expected?
type CompatCase struct {
	ID      int    `json:"id"`
	Op      string `json:"op"`
	Schema  *hx.Ty `json:"schema"`
	Schema2 *hx.Ty `json:"schema2"`
	Fuel    int    `json:"fuel,omitempty"`
	Note    string `json:"note,omitempty"`
}

func runCompat(s, o *hx.Ty) hx.Result {
	return hx.Guard(func() hx.Result {
		self := s.Build()
		other := o.Build()
		if err := self.ValidateCompatibility(other); err != nil {
			return hx.ErrResult(err)
		}
		return hx.Result{R: "ok", V: hx.Nil()}
	})
}

// compatChild: one case on stdin, its result on stdout; a stack overflow kills only this process.
func compatChild() {
	debug.SetMaxStack(64 << 20)
	var c CompatCase
	if err := json.NewDecoder(os.Stdin).Decode(&c); err != nil {
		fmt.Fprintln(os.Stderr, err)
		os.Exit(2)
	}
	fmt.Println(runCompat(c.Schema, c.Schema2).JSON())
}

func runCompatIsolated(c CompatCase) hx.Result {
	b, _ := json.Marshal(c)
	cmd := exec.Command(os.Args[0], "compat-child")
	cmd.Stdin = bytes.NewReader(b)
	var out bytes.Buffer
	cmd.Stdout = &out
	done := make(chan error, 1)
	if err := cmd.Start(); err != nil {
		return hx.Result{R: "panic", Msg: err.Error()}
	}
	go func() { done <- cmd.Wait() }()
	select {
	case err := <-done:
		if err != nil {
			return hx.Result{R: "fuel", Msg: "child died: " + err.Error()}
		}
	case <-time.After(20 * time.Second):
		_ = cmd.Process.Kill()
		return hx.Result{R: "fuel", Msg: "timeout"}
	}
	var r hx.Result
	if err := json.Unmarshal(bytes.TrimSpace(out.Bytes()), &r); err != nil {
		return hx.Result{R: "fuel", Msg: "no result from child"}
	}
	return r
}

type compatSink struct {
	*sink
}

func (s *compatSink) emitCompat(self, other *hx.Ty, note string, isolated bool) (hx.Result, int) {
	s.nextID++
	c := CompatCase{ID: s.nextID, Op: "CS", Schema: self, Schema2: other, Fuel: 200, Note: note}
	b, _ := json.Marshal(c)
	s.cases.Write(b)
	s.cases.WriteByte('\n')
	var res hx.Result
	if isolated {
		res = runCompatIsolated(c)
	} else {
		res = runCompat(self, other)
	}
	rb, _ := json.Marshal(res)
	s.results.Write(rb)
	s.results.WriteByte('\n')
	s.stats["compat:"+strings.SplitN(note, ":", 2)[0]+":"+res.R]++
	return res, c.ID
}

func cloneTy(t *hx.Ty) *hx.Ty {
	b, _ := json.Marshal(t)
	var c hx.Ty
	if err := json.Unmarshal(b, &c); err != nil {
		panic(err)
	}
	return &c
}

// recursive reports whether some scope in t has a reference cycle among its objects.
func recursive(t *hx.Ty) bool {
	found := false
	t.WalkTy(func(s *hx.Ty) {
		if s.T != "scope" || found {
			return
		}
		edges := map[string][]string{}
		for _, o := range s.Objs {
			var refs []string
			o.Ty.WalkTy(func(x *hx.Ty) {
				if x.T == "ref" {
					refs = append(refs, x.ID)
				}
			})
			edges[o.ID] = refs
		}
		state := map[string]int{}
		var visit func(string) bool
		visit = func(n string) bool {
			if state[n] == 1 {
				return true
			}
			if state[n] == 2 {
				return false
			}
			state[n] = 1
			for _, m := range edges[n] {
				if visit(m) {
					return true
				}
			}
			state[n] = 2
			return false
		}
		for n := range edges {
			if visit(n) {
				found = true
			}
		}
	})
	return found
}

// sane: every declared range is non-empty (otherwise even the identical pair is "mutually exclusive")
func sane(t *hx.Ty) bool {
	ok := true
	t.WalkTy(func(s *hx.Ty) {
		if s.Min != nil && s.Max != nil {
			if s.T == "float" {
				a := math.Float64frombits(parseHex(*s.Min))
				b := math.Float64frombits(parseHex(*s.Max))
				if a > b {
					ok = false
				}
			} else {
				a, _ := strconv.ParseInt(*s.Min, 10, 64)
				b, _ := strconv.ParseInt(*s.Max, 10, 64)
				if a > b {
					ok = false
				}
			}
		}
	})
	return ok
}

type mutation struct {
	what       string
	mustReject bool
}

// mutate changes ONE feature of t at a position the compatibility check reaches, and says whether
// the result must be rejected as a producer for the original.
func mutate(g *hx.Gen, t *hx.Ty, env map[string]*hx.Ty, depth int) (mutation, bool) {
	descend := g.R.Intn(3) > 0 && depth < 6
	switch t.T {
	case "list":
		if descend {
			if m, ok := mutate(g, t.Item, env, depth+1); ok {
				return m, true
			}
		}
		if t.Max != nil && g.R.Intn(2) == 0 {
			n, _ := strconv.ParseInt(*t.Max, 10, 64)
			t.Min, t.Max = hx.IntP(n+1), hx.IntP(n+5)
			return mutation{"list: size range above the consumer's maximum", true}, true
		}
		*t = hx.Ty{T: "map", K: &hx.Ty{T: "str"}, V: t.Item}
		return mutation{"list replaced by map", true}, true
	case "map":
		if descend {
			if m, ok := mutate(g, t.V, env, depth+1); ok {
				return m, true
			}
		}
		if t.K.T == "str" || t.K.T == "enumStr" {
			t.K = &hx.Ty{T: "int"}
			return mutation{"map: string keys replaced by integer keys", true}, true
		}
		t.K = &hx.Ty{T: "str"}
		return mutation{"map: integer keys replaced by string keys", true}, true
	case "obj":
		if descend && len(t.Props) > 0 {
			p := t.Props[g.R.Intn(len(t.Props))]
			if m, ok := mutate(g, p.P.Ty, env, depth+1); ok {
				return m, true
			}
		}
		switch g.R.Intn(5) {
		case 4:
			for i, p := range t.Props {
				if !p.P.Required {
					t.Props[i].Name = p.Name + "_renamed"
					return mutation{"object: producer has an optional property under another name (one undeclared, one missing)", true}, true
				}
			}
			fallthrough
		case 0:
			t.Props = append(t.Props, hx.NamedProp{Name: "undeclared_extra", P: &hx.Prop{Ty: &hx.Ty{T: "int"}}})
			return mutation{"object: producer carries an undeclared property", true}, true
		case 1:
			for i, p := range t.Props {
				if p.P.Required {
					t.Props = append(t.Props[:i:i], t.Props[i+1:]...)
					return mutation{"object: producer lacks a required property", true}, true
				}
			}
		case 2:
			for i, p := range t.Props {
				if !p.P.Required {
					t.Props = append(t.Props[:i:i], t.Props[i+1:]...)
					return mutation{"object: producer lacks an optional property", false}, true
				}
			}
		}
		t.ID = t.ID + "_other"
		return mutation{"object: different ID", true}, true
	case "oneOf":
		if descend && len(t.Members) > 0 {
			m := t.Members[g.R.Intn(len(t.Members))]
			if mu, ok := mutate(g, m.Ty, env, depth+1); ok {
				return mu, true
			}
		}
		switch g.R.Intn(3) {
		case 0:
			t.Disc = t.Disc + "2"
			for _, m := range t.Members {
				if t.Inlined {
					for i := range m.Ty.Props {
						if m.Ty.Props[i].Name+"2" == t.Disc {
							m.Ty.Props[i].Name = t.Disc
						}
					}
				}
			}
			return mutation{"one-of: different discriminator field", true}, true
		case 1:
			if len(t.Members) > 1 {
				t.Members = t.Members[1:]
				return mutation{"one-of: producer lacks a member", true}, true
			}
		}
		k := "zz9"
		if t.IntKey {
			k = "999"
		}
		extra := &hx.Ty{T: "obj", ID: "Extra"}
		if t.Inlined {
			dt := &hx.Ty{T: "str"}
			if t.IntKey {
				dt = &hx.Ty{T: "int"}
			}
			extra.Props = append(extra.Props, hx.NamedProp{Name: t.Disc, P: &hx.Prop{Ty: dt}})
		}
		t.Members = append(t.Members, hx.Member{Key: k, Ty: extra})
		return mutation{"one-of: producer has an additional member", false}, true
	case "scope":
		for _, o := range t.Objs {
			if o.ID == t.Root {
				env2 := map[string]*hx.Ty{}
				for _, oo := range t.Objs {
					env2[oo.ID] = oo.Ty
				}
				return mutate(g, o.Ty, env2, depth+1)
			}
		}
	case "ref":
		if o, ok := env[t.ID]; ok && depth < 6 {
			return mutate(g, o, env, depth+1)
		}
		return mutation{}, false
	case "int":
		if t.Max != nil && g.R.Intn(2) == 0 {
			n, _ := strconv.ParseInt(*t.Max, 10, 64)
			if n < math.MaxInt64-10 {
				t.Min, t.Max = hx.IntP(n+1), hx.IntP(n+5)
				return mutation{"integer: range above the consumer's maximum", true}, true
			}
		}
		*t = hx.Ty{T: "str"}
		return mutation{"integer replaced by string", true}, true
	case "float":
		*t = hx.Ty{T: "int"}
		return mutation{"float replaced by integer", true}, true
	case "str":
		if t.Min != nil && g.R.Intn(2) == 0 {
			n, _ := strconv.ParseInt(*t.Min, 10, 64)
			if n > 0 {
				t.Min, t.Max = nil, hx.IntP(n-1)
				return mutation{"string: length range below the consumer's minimum", true}, true
			}
		}
		*t = hx.Ty{T: "int"}
		return mutation{"string replaced by integer", true}, true
	case "bool":
		*t = hx.Ty{T: "str"}
		return mutation{"bool replaced by string", true}, true
	case "pattern":
		*t = hx.Ty{T: "str"}
		return mutation{"pattern replaced by string", true}, true
	case "enumInt":
		if g.R.Intn(2) == 0 {
			t.Vals = append(t.Vals, "424242")
			return mutation{"integer enum: producer offers a value outside the consumer's set", true}, true
		}
		if len(t.Vals) > 1 {
			t.Vals = t.Vals[1:]
			return mutation{"integer enum: producer offers fewer values", false}, true
		}
		*t = hx.Ty{T: "enumStr", Vals: []string{"A"}}
		return mutation{"integer enum replaced by string enum", true}, true
	case "enumStr":
		if g.R.Intn(2) == 0 {
			t.Vals = append(t.Vals, "not-a-member")
			return mutation{"string enum: producer offers a value outside the consumer's set", true}, true
		}
		*t = hx.Ty{T: "enumInt", Vals: []string{"65", "5"}}
		return mutation{"string enum replaced by integer enum", true}, true
	}
	return mutation{}, false
}

func compatCmd(a Args) {
	if err := os.MkdirAll(a.Out, 0o755); err != nil {
		panic(err)
	}
	s := &compatSink{newSink(a.Out)}
	defer s.close()
	if a.Replay != "" {
		f, err := os.Open(a.Replay)
		if err != nil {
			panic(err)
		}
		sc := bufio.NewScanner(f)
		sc.Buffer(make([]byte, 1<<20), 1<<26)
		for sc.Scan() {
			var c CompatCase
			if json.Unmarshal(sc.Bytes(), &c) == nil && c.Op == "CS" {
				s.emitCompat(c.Schema, c.Schema2, c.Note, true)
			}
		}
		writeStats(a.Out, s.sink, nil)
		return
	}
	g := hx.NewGen(a.Seed)
	n := a.N
	for i := 0; i < n; i++ {
		compatGroup(s, g)
	}
	boundsMatrix(s)
	exactMatrix(s)
	enumKindMatrix(s)
	enumDisplayMatrix(s)
	oneOfDiscMatrix(s)
	refNameMatrix(s)
	kindMatrix(s)
	for i := 0; i < n/20+2; i++ {
		recursiveGroup(s, g)
	}
	for i := 0; i < n/2+24; i++ {
		historyGroup(s, g)
	}
	writeStats(a.Out, s.sink, g)
}

func compatGroup(s *compatSink, g *hx.Gen) {
	var t *hx.Ty
	for {
		t = g.Schema(0, nil)
		if !recursive(t) {
			break
		}
	}
	isSane := sane(t)
	res, id := s.emitCompat(t, cloneTy(t), "identical", false)
	if res.R == "panic" {
		s.finding(Finding{Prop: "C15", What: "ValidateCompatibility panicked: " + res.Msg, Cases: []int{id}, Schema: t})
		return
	}
	if res.R != "ok" {
		if isSane {
			s.finding(Finding{Prop: "C15", What: "a schema is not compatible with itself: " + res.Msg, Cases: []int{id}, Schema: t})
		}
		return
	}
	// compatible with the schema rebuilt from its own description
	if t.T == "scope" {
		r := hx.Guard(func() hx.Result {
			orig := t.Build().(*schema.ScopeSchema)
			desc, err := orig.SelfSerialize()
			if err != nil {
				return hx.Result{R: "skip"}
			}
			rebuilt, err := schema.UnserializeScope(desc)
			if err != nil {
				return hx.Result{R: "skip"}
			}
			rebuilt.ApplySelf()
			if err := orig.ValidateCompatibility(rebuilt); err != nil {
				return hx.ErrResult(err)
			}
			return hx.Result{R: "ok"}
		})
		s.stats["compat:rebuilt:"+r.R]++
		if r.R == "err" || r.R == "panic" {
			s.finding(Finding{Prop: "C15", What: "a schema is not compatible with the schema rebuilt from its own description: " + r.Msg, Schema: t})
		}
	}
	// single-feature mutants
	for k := 0; k < 4; k++ {
		o := cloneTy(t)
		m, ok := mutate(g, o, map[string]*hx.Ty{}, 0)
		if !ok {
			continue
		}
		// the mutant must itself be a schema the constructors accept (a renamed object may be
		// referenced, a retyped property may be an inlined discriminator)
		if b := hx.Guard(func() hx.Result { o.Build(); return hx.Result{R: "ok"} }); b.R != "ok" {
			s.stats["compat:mutant-not-constructible"]++
			continue
		}
		r, mid := s.emitCompat(t, o, "mutant:"+m.what, false)
		switch {
		case r.R == "panic":
			s.finding(Finding{Prop: "C15", What: "ValidateCompatibility panicked: " + r.Msg, Cases: []int{mid}, Schema: t, Detail: []string{m.what}})
		case m.mustReject && r.R == "ok":
			s.finding(Finding{Prop: "C15", What: "a producer that can never be consumed was accepted (" + m.what + ")", Cases: []int{mid}, Schema: t})
		case !m.mustReject && r.R != "ok" && isSane:
			s.stats["compat:accept-mutant-rejected"]++
		}
	}
	// an unrelated schema (model comparison only)
	u := g.Schema(0, nil)
	if !recursive(u) {
		r, uid := s.emitCompat(t, u, "unrelated", false)
		if r.R == "panic" {
			s.finding(Finding{Prop: "C15", What: "ValidateCompatibility panicked: " + r.Msg, Cases: []int{uid}, Schema: t})
		}
	}
}

// boundsMatrix: all combinations of absent / present bounds on both sides (C15: no nil dereference,
// rejection exactly when the ranges cannot overlap).
func boundsMatrix(s *compatSink) {
	opt := func(present bool, v int64) *string {
		if !present {
			return nil
		}
		return hx.IntP(v)
	}
	mk := func(kind string, mn, mx *string) *hx.Ty {
		switch kind {
		case "int":
			return &hx.Ty{T: "int", Min: mn, Max: mx}
		case "str":
			return &hx.Ty{T: "str", Min: mn, Max: mx}
		case "list":
			return &hx.Ty{T: "list", Item: &hx.Ty{T: "bool"}, Min: mn, Max: mx}
		case "map":
			return &hx.Ty{T: "map", K: &hx.Ty{T: "str"}, V: &hx.Ty{T: "bool"}, Min: mn, Max: mx}
		default:
			var fmn, fmx *string
			if mn != nil {
				n, _ := strconv.ParseInt(*mn, 10, 64)
				fmn = hx.FloatP(float64(n))
			}
			if mx != nil {
				n, _ := strconv.ParseInt(*mx, 10, 64)
				fmx = hx.FloatP(float64(n))
			}
			return &hx.Ty{T: "float", Min: fmn, Max: fmx}
		}
	}
	// other ranges around the consumer's: inside, apart, and TOUCHING it in one point (ranges are inclusive:
	// a maximum equal to the other side's minimum is an overlap); consumers with a proper range and with
	// one exact size / value (min == max)
	ranges := [][2]int64{{2, 5}, {6, 9}, {0, 1}, {4, 7}, {5, 8}, {0, 2}, {5, 5}, {2, 2}, {3, 3}}
	for _, kind := range []string{"int", "str", "list", "map", "float"} {
		for mask := 0; mask < 16; mask++ {
			for _, or := range ranges {
				self := mk(kind, opt(mask&1 != 0, 2), opt(mask&2 != 0, 5))
				other := mk(kind, opt(mask&4 != 0, or[0]), opt(mask&8 != 0, or[1]))
				r, id := s.emitCompat(self, other, "bounds", false)
				// mathematically disjoint?
				lo, hi := int64(math.MinInt64), int64(math.MaxInt64)
				if mask&1 != 0 {
					lo = 2
				}
				if mask&2 != 0 {
					hi = 5
				}
				olo, ohi := int64(math.MinInt64), int64(math.MaxInt64)
				if mask&4 != 0 {
					olo = or[0]
				}
				if mask&8 != 0 {
					ohi = or[1]
				}
				disjoint := olo > hi || ohi < lo
				switch {
				case r.R == "panic":
					s.finding(Finding{Prop: "C15", What: "ValidateCompatibility panicked on a bound combination: " + r.Msg, Cases: []int{id}, Schema: self})
				case disjoint && r.R == "ok":
					s.finding(Finding{Prop: "C15", What: "ranges that cannot overlap were accepted", Cases: []int{id}, Schema: self})
				case !disjoint && r.R != "ok":
					s.finding(Finding{Prop: "C15", What: "overlapping ranges were rejected: " + r.Msg, Cases: []int{id}, Schema: self})
				}
			}
		}
	}
}

// exactMatrix: consumers and producers with one exact size / value (min == max), against themselves,
// against neighbours and against ranges that touch them.
func exactMatrix(s *compatSink) {
	mk := func(kind string, lo, hi int64) *hx.Ty {
		mn, mx := hx.IntP(lo), hx.IntP(hi)
		switch kind {
		case "int":
			return &hx.Ty{T: "int", Min: mn, Max: mx}
		case "str":
			return &hx.Ty{T: "str", Min: mn, Max: mx}
		case "list":
			return &hx.Ty{T: "list", Item: &hx.Ty{T: "bool"}, Min: mn, Max: mx}
		case "map":
			return &hx.Ty{T: "map", K: &hx.Ty{T: "str"}, V: &hx.Ty{T: "bool"}, Min: mn, Max: mx}
		default:
			return &hx.Ty{T: "float", Min: hx.FloatP(float64(lo)), Max: hx.FloatP(float64(hi))}
		}
	}
	rs := [][2]int64{{0, 0}, {1, 1}, {3, 3}, {0, 3}, {3, 6}, {4, 6}, {1, 2}}
	for _, kind := range []string{"int", "str", "list", "map", "float"} {
		for _, a := range rs {
			for _, b := range rs {
				self, other := mk(kind, a[0], a[1]), mk(kind, b[0], b[1])
				if kind == "map" || kind == "list" {
					// also as a property of an object
					self = &hx.Ty{T: "obj", ID: "E", Props: []hx.NamedProp{{Name: "e", P: &hx.Prop{Ty: self}}}}
					other = &hx.Ty{T: "obj", ID: "E", Props: []hx.NamedProp{{Name: "e", P: &hx.Prop{Ty: other}}}}
				}
				r, id := s.emitCompat(self, other, "bounds:exact", false)
				disjoint := b[0] > a[1] || b[1] < a[0]
				switch {
				case r.R == "panic":
					s.finding(Finding{Prop: "C15", What: "ValidateCompatibility panicked on exact bounds: " + r.Msg, Cases: []int{id}, Schema: self})
				case disjoint && r.R == "ok":
					s.finding(Finding{Prop: "C15", What: "ranges that cannot overlap were accepted", Cases: []int{id}, Schema: self})
				case !disjoint && r.R != "ok":
					s.finding(Finding{Prop: "C15", What: fmt.Sprintf("overlapping ranges were rejected (%s [%d,%d] <- [%d,%d]): %s", kind, a[0], a[1], b[0], b[1], r.Msg), Cases: []int{id}, Schema: self})
				}
			}
		}
	}
}

// recursiveGroup: a scope with a reference cycle compared with itself, in a child process.
func recursiveGroup(s *compatSink, g *hx.Gen) {
	var t *hx.Ty
	for i := 0; i < 200; i++ {
		c := g.Scope(0)
		if recursive(c) {
			t = c
			break
		}
	}
	if t == nil {
		return
	}
	// With an empty range somewhere (min > max) the schema is incompatible with itself, and whether that
	// is found before the reference cycle is entered depends on the map iteration order: keep every
	// range non-empty so that the verdict of this witness does not depend on the order.
	dropEmptyRanges(t)
	r, id := s.emitCompat(t, cloneTy(t), "recursive-identical", true)
	if r.R == "fuel" || r.R == "panic" {
		s.finding(Finding{Prop: "C15", What: "ValidateCompatibility does not return a verdict for a recursive scope compared with itself (stack exhaustion)",
			Cases: []int{id}, Schema: t, Detail: []string{"recursive-scope-self-compat", r.Msg}})
	}
}

// dropEmptyRanges removes the upper bound wherever min > max, at every depth.
func dropEmptyRanges(t *hx.Ty) {
	if t == nil {
		return
	}
	if t.Min != nil && t.Max != nil {
		empty := false
		if t.T == "float" {
			lo, hi := math.Float64frombits(parseHex(*t.Min)), math.Float64frombits(parseHex(*t.Max))
			empty = !(lo <= hi)
		} else {
			lo, _ := strconv.ParseInt(*t.Min, 10, 64)
			hi, _ := strconv.ParseInt(*t.Max, 10, 64)
			empty = lo > hi
		}
		if empty {
			t.Max = nil
		}
	}
	dropEmptyRanges(t.Item)
	dropEmptyRanges(t.K)
	dropEmptyRanges(t.V)
	for _, np := range t.Props {
		dropEmptyRanges(np.P.Ty)
	}
	for _, m := range t.Members {
		dropEmptyRanges(m.Ty)
	}
	for _, o := range t.Objs {
		dropEmptyRanges(o.Ty)
	}
}

// enumKindMatrix: string enums against integer enums whose values are the code points of the
// strings (Go converts an integer to a one-rune string, so a sloppy kind check lets them through),
// both directions, at four positions. A different base kind is always incompatible.
func enumKindMatrix(s *compatSink) {
	strSets := [][]string{{"1"}, {"A"}, {"1", "A"}, {"1", "A", "on"}, {"\x05"}}
	intSets := [][]string{{"49"}, {"65"}, {"49", "65"}, {"5"}, {"49", "7"}}
	embed := []func(*hx.Ty) *hx.Ty{
		func(t *hx.Ty) *hx.Ty { return t },
		func(t *hx.Ty) *hx.Ty {
			return &hx.Ty{T: "obj", ID: "E", Props: []hx.NamedProp{{Name: "e", P: &hx.Prop{Ty: t}}}}
		},
		func(t *hx.Ty) *hx.Ty { return &hx.Ty{T: "list", Item: t} },
		func(t *hx.Ty) *hx.Ty { return &hx.Ty{T: "map", K: &hx.Ty{T: "str"}, V: t} },
	}
	for _, ss := range strSets {
		for _, is := range intSets {
			for _, em := range embed {
				se := em(&hx.Ty{T: "enumStr", Vals: ss})
				ie := em(&hx.Ty{T: "enumInt", Vals: is})
				for _, pair := range [][2]*hx.Ty{{se, ie}, {ie, se}} {
					r, id := s.emitCompat(pair[0], pair[1], "enum-kinds", false)
					switch {
					case r.R == "panic":
						s.finding(Finding{Prop: "C15", What: "ValidateCompatibility panicked on enums of different kinds: " + r.Msg, Cases: []int{id}, Schema: pair[0]})
					case r.R == "ok":
						s.finding(Finding{Prop: "C15", What: "an enum of a different base kind was accepted", Cases: []int{id}, Schema: pair[0]})
					}
				}
			}
		}
	}
}

// enumDisplayMatrix: enums whose values carry display names (an attribute the Lean model does not
// have): direct evaluation of the rule the code documents - for every producer value the consumer
// must know it, and the two display names must both be absent or be equal.
func enumDisplayMatrix(s *compatSink) {
	name := func(n string) *schema.DisplayValue {
		if n == "" {
			return nil
		}
		if n == "-" {
			return schema.NewDisplayValue(nil, schema.PointerTo("description only"), nil)
		}
		return schema.NewDisplayValue(schema.PointerTo(n), nil, nil)
	}
	named := func(n string) bool { return n != "" && n != "-" }
	opts := []string{"", "-", "One", "Uno"}
	// consumer: x with display a, y without a name, z named "Zed"; producers: subsets with their own displays,
	// sometimes with a value the consumer does not have. Every pair is evaluated 12 times: the verdict must
	// be the same each time (Go visits the producer's values in random order) and be the expected one.
	type pv struct{ key, disp string }
	producers := func(b string) [][]pv {
		return [][]pv{{{"x", b}}, {{"x", b}, {"y", ""}}, {{"y", ""}, {"x", b}, {"w", ""}}, {{"y", "-"}, {"w", "Dabbelju"}}, {{"z", ""}, {"y", ""}},
			{{"z", "Zed"}, {"y", ""}, {"x", b}}, {{"y", ""}, {"z", "Zett"}}}
	}
	for _, a := range opts {
		consumer := map[string]string{"x": a, "y": "", "z": "Zed"}
		for _, b := range opts {
			for _, prod := range producers(b) {
				for _, kind := range []string{"string", "int"} {
					var self, other schema.Type
					ik := map[string]int64{"x": 1, "y": 2, "z": 3, "w": 4}
					if kind == "string" {
						sm, om := map[string]*schema.DisplayValue{}, map[string]*schema.DisplayValue{}
						for k, d := range consumer {
							sm[k] = name(d)
						}
						for _, p := range prod {
							om[p.key] = name(p.disp)
						}
						self, other = schema.NewStringEnumSchema(sm), schema.NewStringEnumSchema(om)
					} else {
						sm, om := map[int64]*schema.DisplayValue{}, map[int64]*schema.DisplayValue{}
						for k, d := range consumer {
							sm[ik[k]] = name(d)
						}
						for _, p := range prod {
							om[ik[p.key]] = name(p.disp)
						}
						self, other = schema.NewIntEnumSchema(sm, nil), schema.NewIntEnumSchema(om, nil)
					}
					want := true
					for _, p := range prod {
						cd, known := consumer[p.key]
						if !known || named(cd) != named(p.disp) || (named(cd) && cd != p.disp) {
							want = false
						}
					}
					what := fmt.Sprintf("%s enum, consumer %v, producer %v", kind, consumer, prod)
					accepted, rejected := 0, 0
					var lastErr error
					panicked := ""
					for rep := 0; rep < 12; rep++ {
						var err error
						r := hx.Guard(func() hx.Result { err = self.ValidateCompatibility(other); return hx.Result{R: "ok"} })
						s.stats["enum-display"]++
						if r.R == "panic" {
							panicked = r.Msg
							break
						}
						if err == nil {
							accepted++
						} else {
							rejected++
							lastErr = err
						}
					}
					switch {
					case panicked != "":
						s.finding(Finding{Prop: "C15", What: "ValidateCompatibility panicked on enums with display values: " + panicked, Detail: []string{what}})
					case accepted > 0 && rejected > 0:
						s.finding(Finding{Prop: "C15", What: fmt.Sprintf("the verdict on two enums is not deterministic: accepted %d times, rejected %d times", accepted, rejected), Detail: []string{what}})
					case want && rejected > 0:
						s.finding(Finding{Prop: "C15", What: "enums with compatible values and display names were rejected: " + lastErr.Error(), Detail: []string{what}})
					case !want && accepted > 0:
						s.finding(Finding{Prop: "C15", What: "enums with an unknown value or differing display names were accepted", Detail: []string{what}})
					}
				}
			}
		}
	}
	floatRangeMatrix(s)
}

// floatRangeMatrix: float ranges with absent bounds, negative and zero bounds, on both sides: two
// ranges are compatible exactly when they overlap (an absent bound is infinite); in particular every
// non-empty range is compatible with itself.
func floatRangeMatrix(s *compatSink) {
	vals := []*float64{nil, fp(-7.5), fp(-2), fp(-0.25), fp(0), fp(0.5), fp(3)}
	lo := func(p *float64) float64 {
		if p == nil {
			return math.Inf(-1)
		}
		return *p
	}
	hi := func(p *float64) float64 {
		if p == nil {
			return math.Inf(1)
		}
		return *p
	}
	fs := func(p *float64) *string {
		if p == nil {
			return nil
		}
		return hx.FloatP(*p)
	}
	for _, smin := range vals {
		for _, smax := range vals {
			for _, omin := range vals {
				for _, omax := range vals {
					if (smin != nil && smax != nil && *smin > *smax) || (omin != nil && omax != nil && *omin > *omax) {
						continue
					}
					self := &hx.Ty{T: "float", Min: fs(smin), Max: fs(smax)}
					other := &hx.Ty{T: "float", Min: fs(omin), Max: fs(omax)}
					overlap := math.Max(lo(smin), lo(omin)) <= math.Min(hi(smax), hi(omax))
					r, id := s.emitCompat(self, other, "float-ranges", false)
					switch {
					case r.R == "panic":
						s.finding(Finding{Prop: "C15", What: "ValidateCompatibility panicked on float ranges: " + r.Msg, Cases: []int{id}, Schema: self})
					case overlap && r.R != "ok":
						s.finding(Finding{Prop: "C15", What: "overlapping float ranges were rejected: " + r.Msg, Cases: []int{id}, Schema: self})
					case !overlap && r.R == "ok":
						s.finding(Finding{Prop: "C15", What: "float ranges that cannot overlap were accepted", Cases: []int{id}, Schema: self})
					}
				}
			}
		}
	}
}

func fp(f float64) *float64 { return &f }

// oneOfDiscMatrix: one-of schemas compared with one-of schemas on every constructible combination of
// discriminator field name, inlining flag and member-declared fields (members may declare the OTHER
// side's discriminator name as an ordinary property). Decided from the declaration alone: a producer
// one-of on another discriminator field is never compatible; identical one-ofs are.
func oneOfDiscMatrix(s *compatSink) {
	names := []string{"kind", "type"}
	type side struct {
		disc    string
		inlined bool
		extra   []string // ordinary properties the members declare besides x
	}
	var sides []side
	for _, d := range names {
		for _, inl := range []bool{false, true} {
			for _, extra := range [][]string{nil, {"kind"}, {"type"}, {"kind", "type"}} {
				ok := true
				has := false
				for _, e := range extra {
					if e == d {
						has = true
					}
				}
				// the library refuses members that declare a non-inlined discriminator, and wants the
				// inlined one declared
				if inl != has {
					ok = false
				}
				if ok {
					sides = append(sides, side{d, inl, extra})
				}
			}
		}
	}
	mk := func(sd side, intKeys bool) *hx.Ty {
		t := &hx.Ty{T: "oneOf", IntKey: intKeys, Disc: sd.disc, Inlined: sd.inlined}
		for i, k := range []string{"a", "b"} {
			key := k
			dt := &hx.Ty{T: "str"}
			if intKeys {
				key = strconv.Itoa(i)
				dt = &hx.Ty{T: "int"}
			}
			m := &hx.Ty{T: "obj", ID: "M" + k, Props: []hx.NamedProp{{Name: "x", P: &hx.Prop{Ty: &hx.Ty{T: "int"}}}}}
			for _, e := range sd.extra {
				m.Props = append(m.Props, hx.NamedProp{Name: e, P: &hx.Prop{Ty: dt}})
			}
			t.Members = append(t.Members, hx.Member{Key: key, Ty: m})
		}
		return t
	}
	embed := []func(*hx.Ty) *hx.Ty{
		func(t *hx.Ty) *hx.Ty { return t },
		func(t *hx.Ty) *hx.Ty {
			return &hx.Ty{T: "obj", ID: "E", Props: []hx.NamedProp{{Name: "e", P: &hx.Prop{Ty: t}}}}
		},
		func(t *hx.Ty) *hx.Ty { return &hx.Ty{T: "list", Item: t} },
	}
	for _, intKeys := range []bool{false, true} {
		for _, c := range sides {
			for _, p := range sides {
				for _, em := range embed {
					self, other := em(mk(c, intKeys)), em(mk(p, intKeys))
					r, id := s.emitCompat(self, other, "oneof-disc", false)
					s.stats["oneof-disc:"+r.R]++
					switch {
					case r.R == "panic":
						s.finding(Finding{Prop: "C15", What: "ValidateCompatibility panicked on one-of schemas: " + r.Msg, Cases: []int{id}, Schema: self})
					case c.disc != p.disc && r.R == "ok":
						s.finding(Finding{Prop: "C15", What: "a one-of on another discriminator field was accepted", Cases: []int{id}, Schema: self,
							Detail: []string{fmt.Sprintf("consumer on %q (inlined=%v, members declare %v), producer on %q (inlined=%v, members declare %v)",
								c.disc, c.inlined, c.extra, p.disc, p.inlined, p.extra)}})
					case c.disc == p.disc && c.inlined == p.inlined && len(c.extra) == len(p.extra) && r.R != "ok":
						s.finding(Finding{Prop: "C15", What: "a one-of schema is rejected against an identical one", Cases: []int{id}, Schema: self, Detail: []string{r.Msg}})
					}
				}
			}
		}
	}
}

// refNameMatrix (C14): schema-versus-schema compatibility must not change when references are
// replaced by the objects they denote. Two scopes use the same object IDs for objects of different
// shape (an ID identifies an object only within its scope); the reference sits below a property, a
// list, a map, a one-of member, or in a nested scope that shadows the outer object of that name.
// The verdict with references must equal the verdict with the references inlined.
func refNameMatrix(s *compatSink) {
	leaf := func(kind string, extra bool) *hx.Ty {
		t := &hx.Ty{T: "obj", ID: "B", Props: []hx.NamedProp{{Name: "x", P: &hx.Prop{Ty: &hx.Ty{T: kind}}}}}
		if extra {
			t.Props = append(t.Props, hx.NamedProp{Name: "y", P: &hx.Prop{Ty: &hx.Ty{T: "bool"}, Required: true}})
		}
		return t
	}
	type pos struct {
		name string
		at   func(b *hx.Ty) *hx.Ty // the type of root.p given the type standing for B
	}
	positions := []pos{
		{"property", func(b *hx.Ty) *hx.Ty { return b }},
		{"list item", func(b *hx.Ty) *hx.Ty { return &hx.Ty{T: "list", Item: b} }},
		{"map value", func(b *hx.Ty) *hx.Ty { return &hx.Ty{T: "map", K: &hx.Ty{T: "str"}, V: b} }},
		{"list of lists", func(b *hx.Ty) *hx.Ty { return &hx.Ty{T: "list", Item: &hx.Ty{T: "list", Item: b}} }},
		{"one-of member", func(b *hx.Ty) *hx.Ty {
			return &hx.Ty{T: "oneOf", Disc: "kind", Members: []hx.Member{{Key: "b", Ty: b},
				{Key: "c", Ty: &hx.Ty{T: "obj", ID: "C", Props: []hx.NamedProp{{Name: "z", P: &hx.Prop{Ty: &hx.Ty{T: "int"}}}}}}}}
		}},
	}
	scope := func(p pos, b *hx.Ty, refs bool) *hx.Ty {
		var bt *hx.Ty = b
		if refs {
			bt = &hx.Ty{T: "ref", ID: "B"}
		}
		root := &hx.Ty{T: "obj", ID: "A", Props: []hx.NamedProp{{Name: "p", P: &hx.Prop{Ty: p.at(bt)}}, {Name: "n", P: &hx.Prop{Ty: &hx.Ty{T: "int"}}}}}
		objs := []hx.NamedObj{{ID: "A", Ty: root}}
		if refs {
			objs = append(objs, hx.NamedObj{ID: "B", Ty: b})
		}
		return &hx.Ty{T: "scope", Root: "A", Objs: objs}
	}
	shapes := []*hx.Ty{leaf("int", false), leaf("str", false), leaf("int", true), leaf("bool", false)}
	for _, p := range positions {
		for i, bs := range shapes {
			for j, bo := range shapes {
				withRefs, idR := s.emitCompat(scope(p, bs, true), scope(p, bo, true), "ref-names", false)
				inlined, idI := s.emitCompat(scope(p, bs, false), scope(p, bo, false), "ref-names:inlined", false)
				s.stats["ref-names:"+withRefs.R]++
				if withRefs.R != inlined.R {
					s.finding(Finding{Prop: "C14", What: "schema-versus-schema compatibility differs between the tree with references and the tree with the references inlined",
						Cases: []int{idR, idI}, Schema: scope(p, bs, true),
						Detail: []string{fmt.Sprintf("reference below %s; shapes %d vs %d", p.name, i, j), "with references: " + withRefs.JSON(), "inlined: " + inlined.JSON()}})
				}
				// the same with the producer's object inlined only (reference against object)
				mixed, idM := s.emitCompat(scope(p, bs, true), scope(p, bo, false), "ref-names:mixed", false)
				if mixed.R != inlined.R {
					s.finding(Finding{Prop: "C14", What: "schema-versus-schema compatibility differs between a reference and the object it denotes",
						Cases: []int{idM, idI}, Schema: scope(p, bs, true),
						Detail: []string{fmt.Sprintf("reference below %s; shapes %d vs %d", p.name, i, j), "reference vs object: " + mixed.JSON(), "inlined: " + inlined.JSON()}})
				}
			}
		}
	}
	// a nested scope whose own B shadows the outer B
	nested := func(outerB, innerB *hx.Ty, refs bool) *hx.Ty {
		var ib *hx.Ty = innerB
		if refs {
			ib = &hx.Ty{T: "ref", ID: "B"}
		}
		innerRoot := &hx.Ty{T: "obj", ID: "I", Props: []hx.NamedProp{{Name: "q", P: &hx.Prop{Ty: ib}}}}
		innerObjs := []hx.NamedObj{{ID: "I", Ty: innerRoot}}
		if refs {
			innerObjs = append(innerObjs, hx.NamedObj{ID: "B", Ty: innerB})
		}
		inner := &hx.Ty{T: "scope", Root: "I", Objs: innerObjs}
		var ob *hx.Ty = outerB
		if refs {
			ob = &hx.Ty{T: "ref", ID: "B"}
		}
		root := &hx.Ty{T: "obj", ID: "A", Props: []hx.NamedProp{{Name: "sub", P: &hx.Prop{Ty: inner}}, {Name: "own", P: &hx.Prop{Ty: ob}}}}
		objs := []hx.NamedObj{{ID: "A", Ty: root}}
		if refs {
			objs = append(objs, hx.NamedObj{ID: "B", Ty: outerB})
		}
		return &hx.Ty{T: "scope", Root: "A", Objs: objs}
	}
	for i, so := range shapes {
		for j, si := range shapes {
			for k, po := range shapes {
				if k > 1 {
					continue
				}
				withRefs, idR := s.emitCompat(nested(so, si, true), nested(po, shapes[(j+k)%len(shapes)], true), "ref-names:nested", false)
				inlined, idI := s.emitCompat(nested(so, si, false), nested(po, shapes[(j+k)%len(shapes)], false), "ref-names:nested-inlined", false)
				if withRefs.R != inlined.R {
					s.finding(Finding{Prop: "C14", What: "schema-versus-schema compatibility differs between the tree with references and the tree with the references inlined (inner scope shadowing an outer object)",
						Cases: []int{idR, idI}, Schema: nested(so, si, true), Detail: []string{fmt.Sprintf("shapes %d/%d vs %d", i, j, k), withRefs.JSON(), inlined.JSON()}})
				}
			}
		}
	}
}

// kindMatrix: every ordered pair of schema kinds (one simple instance of each), bare and below an
// object property, a list and a map: the verdict is the model's (proved kind-sound); a panic or an
// accepted pair of different base kinds is reported directly.
func kindMatrix(s *compatSink) {
	obj := func(id string) *hx.Ty {
		return &hx.Ty{T: "obj", ID: id, Props: []hx.NamedProp{{Name: "x", P: &hx.Prop{Ty: &hx.Ty{T: "int"}}}}}
	}
	kinds := []struct {
		name string
		base string
		mk   func() *hx.Ty
	}{
		{"int", "int", func() *hx.Ty { return &hx.Ty{T: "int"} }},
		{"float", "float", func() *hx.Ty { return &hx.Ty{T: "float"} }},
		{"string", "str", func() *hx.Ty { return &hx.Ty{T: "str"} }},
		{"bool", "bool", func() *hx.Ty { return &hx.Ty{T: "bool"} }},
		{"pattern", "pattern", func() *hx.Ty { return &hx.Ty{T: "pattern"} }},
		{"enum-string", "str", func() *hx.Ty { return &hx.Ty{T: "enumStr", Vals: []string{"a", "b"}} }},
		{"enum-int", "int", func() *hx.Ty { return &hx.Ty{T: "enumInt", Vals: []string{"1", "2"}} }},
		{"list", "list", func() *hx.Ty { return &hx.Ty{T: "list", Item: &hx.Ty{T: "str"}} }},
		{"map", "map", func() *hx.Ty { return &hx.Ty{T: "map", K: &hx.Ty{T: "str"}, V: &hx.Ty{T: "int"}} }},
		{"object", "obj", func() *hx.Ty { return obj("O") }},
		{"one-of-string", "oneOfS", func() *hx.Ty {
			return &hx.Ty{T: "oneOf", Disc: "kind", Members: []hx.Member{{Key: "a", Ty: obj("MA")}, {Key: "b", Ty: obj("MB")}}}
		}},
		{"one-of-int", "oneOfI", func() *hx.Ty {
			return &hx.Ty{T: "oneOf", IntKey: true, Disc: "kind", Members: []hx.Member{{Key: "0", Ty: obj("MA")}, {Key: "1", Ty: obj("MB")}}}
		}},
		{"any", "any", func() *hx.Ty { return &hx.Ty{T: "any"} }},
	}
	embed := []struct {
		name string
		f    func(*hx.Ty) *hx.Ty
	}{
		{"bare", func(t *hx.Ty) *hx.Ty { return t }},
		{"property", func(t *hx.Ty) *hx.Ty {
			return &hx.Ty{T: "obj", ID: "E", Props: []hx.NamedProp{{Name: "e", P: &hx.Prop{Ty: t}}}}
		}},
		{"list item", func(t *hx.Ty) *hx.Ty { return &hx.Ty{T: "list", Item: t} }},
		{"map value", func(t *hx.Ty) *hx.Ty { return &hx.Ty{T: "map", K: &hx.Ty{T: "str"}, V: t} }},
	}
	for _, c := range kinds {
		for _, p := range kinds {
			for _, em := range embed {
				r, id := s.emitCompat(em.f(c.mk()), em.f(p.mk()), "kinds", false)
				s.stats["kinds:"+r.R]++
				switch {
				case r.R == "panic":
					s.finding(Finding{Prop: "C15", What: "ValidateCompatibility panicked (" + c.name + " <- " + p.name + ", " + em.name + "): " + r.Msg, Cases: []int{id}})
				case r.R == "ok" && c.base != p.base && c.name != "any":
					s.finding(Finding{Prop: "C15", What: "a schema of another base kind was accepted: consumer " + c.name + " <- producer " + p.name + " (" + em.name + ")", Cases: []int{id}})
				case r.R != "ok" && c.name == p.name:
					s.finding(Finding{Prop: "C15", What: "a schema is not compatible with an identical one: " + c.name + " (" + em.name + "): " + r.Msg, Cases: []int{id}})
				}
			}
		}
	}
}

// collectRefs lists the reference schemas below x (through properties, lists, maps, one-of members and
// nested scopes), each once.
func compatCollectRefs(x any, seen map[any]bool, out *[]*schema.RefSchema) {
	if x == nil || seen[x] {
		return
	}
	switch t := x.(type) {
	case *schema.RefSchema:
		seen[x] = true
		*out = append(*out, t)
	case *schema.ScopeSchema:
		seen[x] = true
		for _, o := range t.ObjectsValue {
			compatCollectRefs(o, seen, out)
		}
	case *schema.ObjectSchema:
		seen[x] = true
		for _, p := range t.PropertiesValue {
			compatCollectRefs(p.TypeValue, seen, out)
		}
	case *schema.ListSchema:
		compatCollectRefs(t.ItemsValue, seen, out)
	case *schema.MapSchema[schema.Type, schema.Type]:
		compatCollectRefs(t.KeysValue, seen, out)
		compatCollectRefs(t.ValuesValue, seen, out)
	case *schema.OneOfSchema[string]:
		seen[x] = true
		for _, m := range t.TypesValue {
			compatCollectRefs(m, seen, out)
		}
	case *schema.OneOfSchema[int64]:
		seen[x] = true
		for _, m := range t.TypesValue {
			compatCollectRefs(m, seen, out)
		}
	}
}

// linkState: for every reference, whether it is linked and to which object value.
func linkState(refs []*schema.RefSchema) []any {
	st := make([]any, len(refs))
	for i, r := range refs {
		if r.ObjectReady() {
			st[i] = r.GetObject()
		}
	}
	return st
}

// historyGroup (C12 / C15, oracle-only): the verdict of ValidateCompatibility is a function of the two
// schemas as they are at the time of the call, and the call changes neither of them.
//   - a consumer that has accepted a producer is asked again after that SAME producer value was edited in
//     place through its exported fields (objects and root replaced by those of a single-feature mutant):
//     the verdict must be the one a freshly built pair gives;
//   - the same with the consumer edited in place;
//   - an argument scope whose references are NOT linked yet (objects assembled by hand, ApplySelf not called)
//     is as unlinked after the call as before; a linked argument keeps every link on the same object value.
func historyGroup(s *compatSink, g *hx.Gen) {
	var t *hx.Ty
	for tries := 0; ; tries++ {
		t = g.Scope(0)
		if !recursive(t) && sane(t) {
			break
		}
		if tries > 50 {
			return
		}
	}
	class := func(err error) string {
		if err == nil {
			return "ok"
		}
		return "err"
	}
	verdict := func(c, p schema.Type) (string, string) {
		var err error
		r := hx.Guard(func() hx.Result { err = c.ValidateCompatibility(p); return hx.Result{R: "ok"} })
		if r.R != "ok" {
			return "panic", r.Msg
		}
		if err != nil {
			return class(err), err.Error()
		}
		return "ok", ""
	}
	var consumer, producer *schema.ScopeSchema
	if b := hx.Guard(func() hx.Result {
		consumer = t.Build().(*schema.ScopeSchema)
		producer = cloneTy(t).Build().(*schema.ScopeSchema)
		return hx.Result{R: "ok"}
	}); b.R != "ok" {
		return
	}
	// argument preservation: links of a linked argument
	var refs []*schema.RefSchema
	compatCollectRefs(producer, map[any]bool{}, &refs)
	before := linkState(refs)
	first, _ := verdict(consumer, producer)
	s.stats["history:first:"+first]++
	after := linkState(refs)
	for i := range before {
		if before[i] != after[i] {
			s.finding(Finding{Prop: "C12", What: "ValidateCompatibility changed what a reference of its ARGUMENT is linked to", Schema: t,
				Detail: []string{fmt.Sprintf("reference %q in namespace %q", refs[i].ID(), refs[i].Namespace())}})
			break
		}
	}
	// an argument that is not linked yet stays unlinked
	if len(refs) > 0 {
		var loose *schema.ScopeSchema
		if b := hx.Guard(func() hx.Result {
			objs := map[string]*schema.ObjectSchema{}
			for _, o := range t.Objs {
				objs[o.ID] = cloneTy(o.Ty).BuildObject()
			}
			loose = &schema.ScopeSchema{ObjectsValue: objs, RootValue: t.Root}
			return hx.Result{R: "ok"}
		}); b.R == "ok" {
			var lrefs []*schema.RefSchema
			compatCollectRefs(loose, map[any]bool{}, &lrefs)
			b0 := linkState(lrefs)
			_, _ = verdict(consumer, loose) // whatever it answers (it may refuse or even panic on unlinked references)
			b1 := linkState(lrefs)
			s.stats["history:loose-argument"]++
			for i := range b0 {
				if b0[i] != b1[i] {
					s.finding(Finding{Prop: "C12", What: "ValidateCompatibility linked the references of its ARGUMENT (a scope that was not linked before the call is linked after it)", Schema: t,
						Detail: []string{fmt.Sprintf("reference %q", lrefs[i].ID())}})
					break
				}
			}
		}
	}
	if first != "ok" {
		return
	}
	// verdicts after in-place edits
	for k := 0; k < 6; k++ {
		o := cloneTy(t)
		m, ok := mutate(g, o, map[string]*hx.Ty{}, 0)
		if !ok || o.T != "scope" {
			continue
		}
		var edited, freshC, freshP *schema.ScopeSchema
		if b := hx.Guard(func() hx.Result {
			edited = o.Build().(*schema.ScopeSchema)
			freshC = t.Build().(*schema.ScopeSchema)
			freshP = cloneTy(o).Build().(*schema.ScopeSchema)
			return hx.Result{R: "ok"}
		}); b.R != "ok" {
			continue
		}
		for _, side := range []string{"producer", "consumer"} {
			var want, got, gotMsg string
			if side == "producer" {
				want, _ = verdict(freshC, freshP)
				producer.ObjectsValue, producer.RootValue = edited.ObjectsValue, edited.RootValue
				got, gotMsg = verdict(consumer, producer)
			} else {
				want, _ = verdict(freshP, freshC)
				// the consumer side: a scope that accepted the original producer twin, then edited in place
				c2 := cloneTy(t).Build().(*schema.ScopeSchema)
				p2 := cloneTy(t).Build().(*schema.ScopeSchema)
				if v, _ := verdict(c2, p2); v != "ok" {
					continue
				}
				c2.ObjectsValue, c2.RootValue = edited.ObjectsValue, edited.RootValue
				got, gotMsg = verdict(c2, p2)
			}
			s.stats["history:edited-"+side+":"+want]++
			if got != want {
				s.finding(Finding{Prop: "C15", What: "the verdict for a " + side + " scope that was edited in place after an accepted comparison differs from the verdict for a freshly built pair with the same content",
					Schema: t, Detail: []string{"edit: " + m.what, "fresh pair: " + want, "same values after the edit: " + got + " " + gotMsg}})
				s.finding(Finding{Prop: "C12", What: "ValidateCompatibility depends on an earlier call: the verdict for a " + side + " scope edited in place after an accepted comparison differs from a freshly built pair",
					Schema: t, Detail: []string{"edit: " + m.what, "fresh pair: " + want, "same values after the edit: " + got + " " + gotMsg}})
				return
			}
		}
		// the same edit made INSIDE the producer's object values (their identity is kept: whoever remembers
		// "this object was fine" by its address must look again)
		if b := hx.Guard(func() hx.Result {
			fresh := cloneTy(t).Build().(*schema.ScopeSchema)
			producer.ObjectsValue, producer.RootValue = fresh.ObjectsValue, fresh.RootValue
			return hx.Result{R: "ok"}
		}); b.R == "ok" {
			if v, _ := verdict(consumer, producer); v == "ok" {
				var edited2 *schema.ScopeSchema
				if b := hx.Guard(func() hx.Result { edited2 = cloneTy(o).Build().(*schema.ScopeSchema); return hx.Result{R: "ok"} }); b.R == "ok" {
					for id, eo := range edited2.ObjectsValue {
						if po, ok := producer.ObjectsValue[id]; ok {
							po.PropertiesValue = eo.PropertiesValue
							po.IDUnenforcedValue = eo.IDUnenforcedValue
						} else {
							producer.ObjectsValue[id] = eo
						}
					}
					for id := range producer.ObjectsValue {
						if _, ok := edited2.ObjectsValue[id]; !ok {
							delete(producer.ObjectsValue, id)
						}
					}
					producer.RootValue = edited2.RootValue
					relinked := hx.Guard(func() hx.Result { producer.ApplySelf(); return hx.Result{R: "ok"} })
					if relinked.R == "ok" {
						want, _ := verdict(freshC, freshP)
						got, gotMsg := verdict(consumer, producer)
						s.stats["history:edited-inside-objects:"+want]++
						if got != want {
							for _, prop := range []string{"C15", "C12"} {
								s.finding(Finding{Prop: prop, What: "the verdict for a producer whose OBJECTS were edited in place (same object values, other properties) after an accepted comparison differs from the verdict for a freshly built pair",
									Schema: t, Detail: []string{"edit: " + m.what, "fresh pair: " + want, "same values after the edit: " + got + " " + gotMsg}})
							}
							return
						}
					}
				}
			}
		}
		// restore the producer for the next edit: it must be accepted again
		fresh := cloneTy(t).Build().(*schema.ScopeSchema)
		producer.ObjectsValue, producer.RootValue = fresh.ObjectsValue, fresh.RootValue
		if v, _ := verdict(consumer, producer); v != "ok" {
			return
		}
	}
}
