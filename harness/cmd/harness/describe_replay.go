package main

// Replay of cases written by `describe` / `rebuild` (`-replay <cases.jsonl>`): the implementation
// side of every case is recomputed from the case line alone.

import (
	"bufio"
	"encoding/json"
	"fmt"
	"os"
	"strings"

	"go.flow.arcalot.io/pluginsdk/schema"
	"harness/hx"
)

func dsPair(b []byte, first any, second any) error {
	var a []json.RawMessage
	if err := json.Unmarshal(b, &a); err != nil {
		return err
	}
	if len(a) != 2 {
		return fmt.Errorf("expected a pair, got %s", string(b))
	}
	if err := json.Unmarshal(a[0], first); err != nil {
		return err
	}
	return json.Unmarshal(a[1], second)
}

func (v *dsVal) UnmarshalJSON(b []byte) error       { return dsPair(b, &v.Val, &v.Disp) }
func (n *dsNamedProp) UnmarshalJSON(b []byte) error { n.P = &dsProp{}; return dsPair(b, &n.Name, n.P) }
func (m *dsMember) UnmarshalJSON(b []byte) error    { m.Ty = &dsTy{}; return dsPair(b, &m.Key, m.Ty) }
func (n *dsNamedObj) UnmarshalJSON(b []byte) error  { n.Ty = &dsTy{}; return dsPair(b, &n.ID, n.Ty) }
func (k *dsKeyed[T]) UnmarshalJSON(b []byte) error  { return dsPair(b, &k.Key, &k.V) }

// dsReplay recomputes the implementation's result of every case of the file.
func dsReplay(a Args) {
	s := dsNewSink(a.Out)
	f, err := os.Open(a.Replay)
	if err != nil {
		panic(err)
	}
	defer f.Close()
	sc := bufio.NewScanner(f)
	sc.Buffer(make([]byte, 1<<20), 1<<28)
	for sc.Scan() {
		line := strings.TrimSpace(sc.Text())
		if line == "" {
			continue
		}
		var c dsCase
		if err := json.Unmarshal([]byte(line), &c); err != nil {
			fmt.Fprintln(os.Stderr, "replay: bad case line:", err)
			os.Exit(2)
		}
		c.V = dsFixNil(c.V)
		var res hx.Result
		switch c.Op {
		case "DESCRIBE":
			res = hx.Guard(func() hx.Result {
				var v any
				var err error
				if c.DPlugin != nil {
					v, err = c.DPlugin.build().SelfSerialize()
				} else {
					v, err = c.DSchema.buildScope().SelfSerialize()
				}
				if err != nil {
					return hx.ErrResult(err)
				}
				return dsOK(v)
			})
		case "CBORNORM":
			res = hx.Guard(func() hx.Result {
				v, err := dsCBOR(c.V.ToGo())
				if err != nil {
					return hx.ErrResult(err)
				}
				return dsOK(v)
			})
		case "REBUILD":
			res = hx.Guard(func() hx.Result {
				w := c.V.ToGo()
				var again any
				var err error
				switch c.Mode {
				case "rawscope":
					var x any
					if x, err = schema.DescribeScope().Unserialize(w); err == nil {
						again, err = x.(*schema.ScopeSchema).SelfSerialize()
					}
				case "schema":
					_, again, err = dsLoad("schema", w)
				default:
					_, again, err = dsLoad("scope", w)
				}
				if err != nil {
					return hx.ErrResult(err)
				}
				return dsOK(again)
			})
		default:
			res = hx.Guard(func() hx.Result { r, _ := hx.RunOpRaw(c.Op, (*hx.Ty)(c.Schema).Build(), c.V.ToGo()); return r })
		}
		id := s.emit(c, res)
		if res.R == "panic" {
			s.finding(dsFinding{Prop: "C10", What: "replayed case panicked: " + res.Msg, Cases: []int{id}, Input: c.V})
		}
	}
	s.close(map[string]any{"replay": a.Replay})
}
