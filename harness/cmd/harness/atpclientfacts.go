package main

// Sub-command `atpfacts`: regenerates ArcaModel/Gen/AtpClientFacts.lean from atp/client.go in the
// working tree (`-out <file>`). For every function of client.go it lists the critical sections of
// the client mutex (Lock .. Unlock spans on every path, deferred unlocks included), which shared
// fields each one reads and writes, which client methods it calls, whether it starts a goroutine,
// touches the wait group or blocks (encode, decode, channel send, condition wait) - and the same
// for the code outside any critical section. ArcaModel/Props/C06Facts.lean proves by `decide` that
// these are the facts the model's atomic steps assume.
//
// Purely syntactic (go/ast); the shapes it understands are the ones client.go uses: explicit
// Lock/Unlock pairs with early-return branches, and `defer Unlock`.

import (
	"fmt"
	"go/ast"
	"go/parser"
	"go/printer"
	"go/token"
	"os"
	"path/filepath"
	"sort"
	"strings"
)

func init() {
	register("atpfacts", func(a Args) { atpcFacts(a) })
}

var atpcShared = map[string]bool{
	"readLoopRunning": true, "done": true,
	"runningStepResultEntries": true, "runningStepEmittedSignalChannels": true,
}

type atpcRegion struct {
	Fn       string
	Idx      int // 0 = outside any critical section, 1.. = n-th critical section of the function
	Line     int
	Deferred bool
	Reads    map[string]bool
	Writes   map[string]bool
	Calls    map[string]bool
	Blocks   map[string]bool
	Spawns   bool
	WgAdd    int
}

func newRegion(fn string, idx, line int) *atpcRegion {
	return &atpcRegion{Fn: fn, Idx: idx, Line: line, Reads: map[string]bool{}, Writes: map[string]bool{},
		Calls: map[string]bool{}, Blocks: map[string]bool{}}
}

type atpcWalker struct {
	fset    *token.FileSet
	methods map[string]bool
	regions []*atpcRegion
	fn      string
	outside *atpcRegion
	cur     *atpcRegion // nil = unlocked
	nsec    int
	pending []*ast.FuncLit
}

func (w *atpcWalker) region() *atpcRegion {
	if w.cur != nil {
		return w.cur
	}
	return w.outside
}

func atpcIsMutexCall(e ast.Expr, name string) bool {
	c, ok := e.(*ast.CallExpr)
	if !ok {
		return false
	}
	s, ok := c.Fun.(*ast.SelectorExpr)
	if !ok || s.Sel.Name != name {
		return false
	}
	s2, ok := s.X.(*ast.SelectorExpr)
	return ok && s2.Sel.Name == "mutex"
}

func atpcSharedSel(e ast.Expr) (string, bool) {
	for {
		switch x := e.(type) {
		case *ast.IndexExpr:
			e = x.X
			continue
		case *ast.ParenExpr:
			e = x.X
			continue
		}
		break
	}
	s, ok := e.(*ast.SelectorExpr)
	if !ok {
		return "", false
	}
	if s.Sel.Name == "result" {
		// the result slot of an execution entry (reached through the entries map)
		return "entry.result", true
	}
	if _, ok := s.X.(*ast.Ident); !ok {
		return "", false
	}
	if atpcShared[s.Sel.Name] {
		return s.Sel.Name, true
	}
	return "", false
}

// expr records reads, calls and blocking operations of an expression.
func (w *atpcWalker) expr(e ast.Node) {
	if e == nil {
		return
	}
	ast.Inspect(e, func(n ast.Node) bool {
		switch x := n.(type) {
		case *ast.FuncLit:
			w.pending = append(w.pending, x)
			return false
		case *ast.SelectorExpr:
			if f, ok := atpcSharedSel(x); ok {
				w.region().Reads[f] = true
			}
		case *ast.CallExpr:
			if id, ok := x.Fun.(*ast.Ident); ok && id.Name == "delete" && len(x.Args) == 2 {
				if f, ok := atpcSharedSel(x.Args[0]); ok {
					w.region().Writes[f] = true
				}
			}
			if s, ok := x.Fun.(*ast.SelectorExpr); ok {
				if _, isRecv := s.X.(*ast.Ident); isRecv && w.methods[s.Sel.Name] {
					w.region().Calls[s.Sel.Name] = true
				}
				if s2, ok := s.X.(*ast.SelectorExpr); ok {
					switch {
					case s2.Sel.Name == "wg" && s.Sel.Name == "Add":
						w.region().WgAdd++
					case s2.Sel.Name == "wg" && s.Sel.Name == "Wait":
						w.region().Blocks["wgwait"] = true
					case s2.Sel.Name == "condition" && s.Sel.Name == "Wait":
						w.region().Blocks["condwait"] = true
					case s2.Sel.Name == "condition" && s.Sel.Name == "Signal":
						w.region().Calls["cond.Signal"] = true
					}
				}
				switch s.Sel.Name {
				case "Encode":
					w.region().Blocks["encode"] = true
				case "Decode":
					w.region().Blocks["decode"] = true
				}
			}
		case *ast.UnaryExpr:
			if x.Op == token.ARROW {
				w.region().Blocks["chanrecv"] = true
			}
		}
		return true
	})
}

func atpcTerminates(list []ast.Stmt) bool {
	if len(list) == 0 {
		return false
	}
	switch s := list[len(list)-1].(type) {
	case *ast.ReturnStmt:
		return true
	case *ast.ExprStmt:
		if c, ok := s.X.(*ast.CallExpr); ok {
			if id, ok := c.Fun.(*ast.Ident); ok && id.Name == "panic" {
				return true
			}
		}
	case *ast.BranchStmt:
		return true
	}
	return false
}

func (w *atpcWalker) stmts(list []ast.Stmt) {
	for _, st := range list {
		w.stmt(st)
	}
}

// branch walks a branch body; the lock state after a branch that leaves the function is the state
// before it.
func (w *atpcWalker) branch(list []ast.Stmt) {
	saved := w.cur
	w.stmts(list)
	if atpcTerminates(list) {
		w.cur = saved
	}
}

func (w *atpcWalker) stmt(st ast.Stmt) {
	switch s := st.(type) {
	case *ast.ExprStmt:
		if atpcIsMutexCall(s.X, "Lock") {
			if w.cur == nil {
				w.nsec++
				w.cur = newRegion(w.fn, w.nsec, w.fset.Position(s.Pos()).Line)
				w.regions = append(w.regions, w.cur)
			}
			return
		}
		if atpcIsMutexCall(s.X, "Unlock") {
			w.cur = nil
			return
		}
		w.expr(s.X)
	case *ast.DeferStmt:
		if atpcIsMutexCall(s.Call, "Unlock") {
			if w.cur != nil {
				w.cur.Deferred = true
			}
			return
		}
		w.expr(s.Call)
	case *ast.GoStmt:
		w.region().Spawns = true
		w.expr(s.Call)
	case *ast.AssignStmt:
		for i, l := range s.Lhs {
			if f, ok := atpcSharedSel(l); ok {
				name := f
				if i < len(s.Rhs) && len(s.Lhs) == len(s.Rhs) {
					if id, ok := s.Rhs[i].(*ast.Ident); ok && (id.Name == "true" || id.Name == "false") {
						name = f + "=" + id.Name
					}
				}
				w.region().Writes[name] = true
				if ix, ok := l.(*ast.IndexExpr); ok {
					w.expr(ix.Index)
				}
			} else {
				w.expr(l)
			}
		}
		for _, r := range s.Rhs {
			w.expr(r)
		}
	case *ast.IncDecStmt:
		if f, ok := atpcSharedSel(s.X); ok {
			w.region().Writes[f] = true
		}
	case *ast.SendStmt:
		w.region().Blocks["chansend"] = true
		w.expr(s.Chan)
		w.expr(s.Value)
	case *ast.ReturnStmt:
		for _, r := range s.Results {
			w.expr(r)
		}
	case *ast.DeclStmt:
		w.expr(s.Decl)
	case *ast.BlockStmt:
		w.stmts(s.List)
	case *ast.IfStmt:
		if s.Init != nil {
			w.stmt(s.Init)
		}
		w.expr(s.Cond)
		w.branch(s.Body.List)
		if s.Else != nil {
			switch e := s.Else.(type) {
			case *ast.BlockStmt:
				w.branch(e.List)
			case *ast.IfStmt:
				w.stmt(e)
			}
		}
	case *ast.ForStmt:
		if s.Init != nil {
			w.stmt(s.Init)
		}
		w.expr(s.Cond)
		w.branch(s.Body.List)
	case *ast.RangeStmt:
		w.expr(s.X)
		w.branch(s.Body.List)
	case *ast.SwitchStmt:
		if s.Init != nil {
			w.stmt(s.Init)
		}
		w.expr(s.Tag)
		for _, c := range s.Body.List {
			cc := c.(*ast.CaseClause)
			for _, e := range cc.List {
				w.expr(e)
			}
			w.branch(cc.Body)
		}
	case *ast.TypeSwitchStmt:
		for _, c := range s.Body.List {
			w.branch(c.(*ast.CaseClause).Body)
		}
	case *ast.SelectStmt:
		w.region().Blocks["select"] = true
		for _, c := range s.Body.List {
			cc := c.(*ast.CommClause)
			w.branch(cc.Body)
		}
	case *ast.LabeledStmt:
		w.stmt(s.Stmt)
	}
}

func (w *atpcWalker) function(name string, body *ast.BlockStmt, line int) {
	w.fn = name
	w.outside = newRegion(name, 0, line)
	w.regions = append(w.regions, w.outside)
	w.cur = nil
	w.nsec = 0
	w.pending = nil
	w.stmts(body.List)
	lits := w.pending
	for i, fl := range lits {
		w.function(fmt.Sprintf("%s$%d", name, i+1), fl.Body, w.fset.Position(fl.Pos()).Line)
	}
}

// atpcWait is a place where the client waits for its wait group: `<x>.wg.Wait()` (unbounded) or a
// call of waitWithTimeout (bounded).
type atpcWait struct {
	Fn    string
	Call  string // wg.Wait | waitWithTimeout
	Depth int    // number of enclosing if / for / switch / select bodies
	Cond  string // condition of the innermost enclosing if statement ("" if none)
	// Tail: the statement is the last one of the function body, or directly followed by its final return
	Tail bool
}

func atpcExprString(fset *token.FileSet, e ast.Expr) string {
	var b strings.Builder
	_ = printer.Fprint(&b, fset, e)
	return strings.Join(strings.Fields(b.String()), " ")
}

func atpcWaitCall(e ast.Expr) string {
	c, ok := e.(*ast.CallExpr)
	if !ok {
		return ""
	}
	if id, ok := c.Fun.(*ast.Ident); ok && id.Name == "waitWithTimeout" {
		return "waitWithTimeout"
	}
	if s, ok := c.Fun.(*ast.SelectorExpr); ok && s.Sel.Name == "Wait" {
		if s2, ok := s.X.(*ast.SelectorExpr); ok && s2.Sel.Name == "wg" {
			return "wg.Wait"
		}
		if id, ok := s.X.(*ast.Ident); ok && id.Name == "wg" {
			return "wg.Wait"
		}
	}
	return ""
}

// atpcWaitSites lists the wait sites of a function body (function literals are functions of their
// own, named like the regions: fn$k in source order).
func atpcWaitSites(fset *token.FileSet, name string, body *ast.BlockStmt, out *[]atpcWait) {
	var lits []*ast.FuncLit
	type frame struct{ cond string }
	var walk func(list []ast.Stmt, depth int, cond string, top bool)
	scanExpr := func(n ast.Node, depth int, cond string, tail bool) {
		if n == nil {
			return
		}
		ast.Inspect(n, func(x ast.Node) bool {
			switch y := x.(type) {
			case *ast.FuncLit:
				lits = append(lits, y)
				return false
			case *ast.CallExpr:
				if k := atpcWaitCall(y); k != "" {
					*out = append(*out, atpcWait{Fn: name, Call: k, Depth: depth, Cond: cond, Tail: tail})
				}
			}
			return true
		})
	}
	walk = func(list []ast.Stmt, depth int, cond string, top bool) {
		for i, st := range list {
			tail := false
			if top {
				if i == len(list)-1 {
					tail = true
				} else if i == len(list)-2 {
					_, tail = list[len(list)-1].(*ast.ReturnStmt)
				}
			}
			switch s := st.(type) {
			case *ast.IfStmt:
				for cur := s; cur != nil; {
					if cur.Init != nil {
						scanExpr(cur.Init, depth, cond, false)
					}
					scanExpr(cur.Cond, depth, cond, false)
					walk(cur.Body.List, depth+1, atpcExprString(fset, cur.Cond), false)
					switch e := cur.Else.(type) {
					case *ast.BlockStmt:
						walk(e.List, depth+1, "else: "+atpcExprString(fset, cur.Cond), false)
						cur = nil
					case *ast.IfStmt:
						cur = e
					default:
						cur = nil
					}
				}
			case *ast.BlockStmt:
				walk(s.List, depth, cond, false)
			case *ast.ForStmt:
				walk(s.Body.List, depth+1, cond, false)
			case *ast.RangeStmt:
				walk(s.Body.List, depth+1, cond, false)
			case *ast.SwitchStmt:
				for _, c := range s.Body.List {
					walk(c.(*ast.CaseClause).Body, depth+1, cond, false)
				}
			case *ast.SelectStmt:
				for _, c := range s.Body.List {
					walk(c.(*ast.CommClause).Body, depth+1, cond, false)
				}
			case *ast.ExprStmt:
				scanExpr(s.X, depth, cond, tail)
			default:
				scanExpr(st, depth, cond, false)
			}
		}
	}
	walk(body.List, 0, "", true)
	for i, fl := range lits {
		atpcWaitSites(fset, fmt.Sprintf("%s$%d", name, i+1), fl.Body, out)
	}
}

func atpcKeys(m map[string]bool) []string {
	var out []string
	for k := range m {
		out = append(out, k)
	}
	sort.Strings(out)
	return out
}

func atpcLeanList(xs []string) string {
	var q []string
	for _, x := range xs {
		q = append(q, fmt.Sprintf("%q", x))
	}
	return "[" + strings.Join(q, ", ") + "]"
}

func atpcFacts(a Args) {
	hd := atpcHarnessDir()
	src := os.Getenv("VERIF_ATP_CLIENT_SRC")
	if src == "" {
		src = filepath.Join(atpcRepoDir(hd), "atp", "client.go")
	}
	fset := token.NewFileSet()
	f, err := parser.ParseFile(fset, src, nil, parser.SkipObjectResolution)
	if err != nil {
		fmt.Fprintln(os.Stderr, err)
		os.Exit(1)
	}
	w := &atpcWalker{fset: fset, methods: map[string]bool{}}
	for _, d := range f.Decls {
		if fd, ok := d.(*ast.FuncDecl); ok && fd.Recv != nil {
			w.methods[fd.Name.Name] = true
		}
	}
	for _, d := range f.Decls {
		if fd, ok := d.(*ast.FuncDecl); ok && fd.Body != nil {
			w.function(fd.Name.Name, fd.Body, fset.Position(fd.Pos()).Line)
		}
	}
	var sb strings.Builder
	sb.WriteString("/-\n  GENERATED by `harness atpfacts` from atp/client.go of the working tree - do not edit.\n")
	sb.WriteString("  Critical sections of the client mutex and the shared state each region of code touches.\n")
	sb.WriteString("  `idx = 0`: the code of the function outside any critical section; `idx = n`: its n-th critical section.\n")
	sb.WriteString("  `fn$k` is the k-th function literal (goroutine body / deferred function) inside `fn`.\n-/\n")
	sb.WriteString("namespace Arca.Gen.AtpClientFacts\n\n")
	sb.WriteString("structure Region where\n  fn : String\n  idx : Nat\n  deferredUnlock : Bool\n  reads : List String\n  writes : List String\n  calls : List String\n  blocks : List String\n  spawns : Bool\n  wgAdds : Nat\nderiving DecidableEq, Repr\n\n")
	sb.WriteString("def regions : List Region := [\n")
	first := true
	for _, r := range w.regions {
		if r.Idx == 0 && len(r.Reads) == 0 && len(r.Writes) == 0 && len(r.Calls) == 0 && len(r.Blocks) == 0 && !r.Spawns && r.WgAdd == 0 {
			continue
		}
		if !first {
			sb.WriteString(",\n")
		}
		first = false
		fmt.Fprintf(&sb, "  { fn := %q, idx := %d, deferredUnlock := %v, reads := %s, writes := %s,\n    calls := %s, blocks := %s, spawns := %v, wgAdds := %d }",
			r.Fn, r.Idx, r.Deferred, atpcLeanList(atpcKeys(r.Reads)), atpcLeanList(atpcKeys(r.Writes)),
			atpcLeanList(atpcKeys(r.Calls)), atpcLeanList(atpcKeys(r.Blocks)), r.Spawns, r.WgAdd)
	}
	sb.WriteString("\n]\n\n")
	var waits []atpcWait
	for _, d := range f.Decls {
		if fd, ok := d.(*ast.FuncDecl); ok && fd.Body != nil {
			atpcWaitSites(fset, fd.Name.Name, fd.Body, &waits)
		}
	}
	sb.WriteString("/-- Where the client waits for its wait group: `wg.Wait` (unbounded) or `waitWithTimeout` (bounded);\n")
	sb.WriteString("    `depth`: enclosing if/for/switch/select bodies; `cond`: condition of the innermost enclosing `if`;\n")
	sb.WriteString("    `tail`: last statement of the function, or directly followed by its final `return`. -/\n")
	sb.WriteString("structure WaitSite where\n  fn : String\n  call : String\n  depth : Nat\n  cond : String\n  tail : Bool\nderiving DecidableEq, Repr\n\n")
	sb.WriteString("def waitSites : List WaitSite := [\n")
	for i, ws := range waits {
		if i > 0 {
			sb.WriteString(",\n")
		}
		fmt.Fprintf(&sb, "  { fn := %q, call := %q, depth := %d, cond := %q, tail := %v }", ws.Fn, ws.Call, ws.Depth, ws.Cond, ws.Tail)
	}
	sb.WriteString("\n]\n\n")
	// which mutex fields each function locks (`<x>.<field>.Lock()`), in source order
	sb.WriteString("/-- mutex fields locked by each function of client.go (function literals count for their function) -/\n")
	sb.WriteString("def locks : List (String × List String) := [\n")
	firstLock := true
	for _, d := range f.Decls {
		fd, ok := d.(*ast.FuncDecl)
		if !ok || fd.Body == nil {
			continue
		}
		var names []string
		ast.Inspect(fd.Body, func(n ast.Node) bool {
			if c, ok := n.(*ast.CallExpr); ok {
				if sel, ok := c.Fun.(*ast.SelectorExpr); ok && (sel.Sel.Name == "Lock" || sel.Sel.Name == "RLock") {
					if s2, ok := sel.X.(*ast.SelectorExpr); ok {
						seen := false
						for _, x := range names {
							seen = seen || x == s2.Sel.Name
						}
						if !seen {
							names = append(names, s2.Sel.Name)
						}
					}
				}
			}
			return true
		})
		if len(names) == 0 {
			continue
		}
		if !firstLock {
			sb.WriteString(",\n")
		}
		firstLock = false
		fmt.Fprintf(&sb, "  (%q, %s)", fd.Name.Name, atpcLeanList(names))
	}
	sb.WriteString("\n]\n\n")
	sb.WriteString("/-- methods of `*client` -/\ndef methods : List String := " + atpcLeanList(atpcKeys(w.methods)) + "\n\n")
	sb.WriteString("end Arca.Gen.AtpClientFacts\n")
	out := a.Out
	if out == "" || out == "." {
		out = "AtpClientFacts.lean"
	}
	if st, err := os.Stat(out); err == nil && st.IsDir() {
		out = filepath.Join(out, "AtpClientFacts.lean")
	}
	if err := os.WriteFile(out, []byte(sb.String()), 0o644); err != nil {
		fmt.Fprintln(os.Stderr, err)
		os.Exit(1)
	}
	fmt.Fprintf(os.Stderr, "atpfacts: %d regions written to %s\n", len(w.regions), out)
}
