package main

import (
	"errors"
	"fmt"
	"time"

	"go.flow.arcalot.io/pluginsdk/schema"
)

// fnHistoryOracle: direct evaluation (no model case) of "calls report faithfully" over histories of
// ordinary use around ONE accepted function value:
//
//   - the caller reuses the Go slice it built the declaration in (the next registration in a loop, two
//     parameter lists appended to a common prefix with spare capacity, an edit of the slice Parameters()
//     returned): the verdict on the arguments of a call is a matter between the arguments and the handler the
//     function was accepted with - arguments of the accepted types reach the handler, others are refused as a
//     call-shape error, and nothing panics;
//   - a handler calls a function value again while one of its calls is in progress (recursion, mutual
//     recursion): every call returns.
func fnHistoryOracle(m *fnRun) {
	i64 := schema.NewIntSchema(nil, nil, nil)
	str := schema.NewStringSchema(nil, nil, nil)
	lst := schema.NewListSchema(schema.NewStringSchema(nil, nil, nil), nil, nil)
	bad := func(what string, detail ...string) {
		m.s.finding(Finding{Prop: "C18", What: what, Detail: detail})
	}
	call := func(f schema.CallableFunction, args []any) (res any, err error, panicMsg string) {
		defer func() {
			if r := recover(); r != nil {
				panicMsg = fmt.Sprint(r)
			}
		}()
		res, err = f.Call(args)
		return
	}
	check := func(where string, f schema.CallableFunction, okArgs []any, want any, badArgs []any) {
		m.s.stats["fn:history"]++
		res, err, p := call(f, okArgs)
		switch {
		case p != "":
			bad("Call panicked after the caller reused its parameter slice", where, p)
		case err != nil:
			bad("arguments of the types the function was accepted with are refused after the caller reused its parameter slice", where, err.Error())
		case fmt.Sprint(res) != fmt.Sprint(want):
			bad("wrong result after the caller reused its parameter slice", where, fmt.Sprintf("%v, want %v", res, want))
		}
		_, err, p = call(f, badArgs)
		var fe *schema.FunctionCallError
		switch {
		case p != "":
			bad("Call with arguments of another type panicked (after the caller reused its parameter slice) instead of reporting the call shape", where, p)
		case err == nil:
			bad("arguments that are not of the handler's types were accepted after the caller reused its parameter slice", where)
		default:
			if errors.As(err, &fe) && fe.IsFunctionReportedError {
				bad("a refused argument list is reported as the handler's own error", where, err.Error())
			}
		}
	}
	// 1. the slice is reused for the next registration
	for _, dynamic := range []bool{false, true} {
		params := make([]schema.Type, 1, 4)
		params[0] = str
		var shout schema.CallableFunction
		var err error
		if dynamic {
			shout, err = schema.NewDynamicCallableFunction("shout", params, nil,
				func(s string) (any, error) { return s + "!", nil },
				func([]schema.Type) (schema.Type, error) { return str, nil })
		} else {
			shout, err = schema.NewCallableFunction("shout", params, str, false, nil, func(s string) string { return s + "!" })
		}
		if err != nil {
			bad("constructor rejected a matching handler: " + err.Error())
			continue
		}
		params[0] = i64 // the caller's next registration
		_, _ = schema.NewCallableFunction("double", params, i64, false, nil, func(a int64) int64 { return 2 * a })
		check(fmt.Sprintf("shout(string), dynamic=%v, slice then reused for double(int)", dynamic), shout, []any{"a"}, "a!", []any{int64(1)})
		// 2. the slice Parameters() hands out is edited
		if ps := shout.Parameters(); len(ps) == 1 {
			ps[0] = lst
		}
		check(fmt.Sprintf("shout(string), dynamic=%v, view returned by Parameters() edited", dynamic), shout, []any{"b"}, "b!", []any{[]string{"x"}})
	}
	// 3. two parameter lists appended to one prefix with spare capacity
	prefix := make([]schema.Type, 1, 3)
	prefix[0] = str
	repeat, err1 := schema.NewCallableFunction("repeat", append(prefix, i64), str, false, nil,
		func(s string, n int64) string { return fmt.Sprint(s, n) })
	join, err2 := schema.NewCallableFunction("join", append(prefix, lst), str, false, nil,
		func(s string, l []string) string { return fmt.Sprint(s, len(l)) })
	if err1 != nil || err2 != nil {
		bad("constructor rejected a matching handler", fmt.Sprint(err1), fmt.Sprint(err2))
	} else {
		check("repeat(string, int) built from a prefix that join(string, list) was appended to afterwards", repeat, []any{"ab", int64(2)}, "ab2", []any{"ab", []string{"x"}})
		check("join(string, list[string])", join, []any{"ab", []string{"x", "y"}}, "ab2", []any{"ab", int64(2)})
	}
	// 4. re-entrant calls
	within := func(what string, f func() (any, error), want any) {
		m.s.stats["fn:reentrant"]++
		type out struct {
			v   any
			err error
			p   string
		}
		ch := make(chan out, 1)
		go func() {
			var o out
			defer func() {
				if r := recover(); r != nil {
					o.p = fmt.Sprint(r)
				}
				ch <- o
			}()
			o.v, o.err = f()
		}()
		select {
		case o := <-ch:
			if o.p != "" || o.err != nil || fmt.Sprint(o.v) != fmt.Sprint(want) {
				bad("a re-entrant call does not return the handler's value", what, fmt.Sprintf("got %v, error %v, panic %q; want %v", o.v, o.err, o.p, want))
			}
		case <-time.After(3 * time.Second):
			bad("a call made by a handler while a call of the same function value is in progress does not return", what)
		}
	}
	var factorial schema.CallableFunction
	factorial, err := schema.NewCallableFunction("factorial", []schema.Type{i64}, i64, true, nil, func(n int64) (int64, error) {
		if n <= 1 {
			return 1, nil
		}
		r, err := factorial.Call([]any{n - 1})
		if err != nil {
			return 0, err
		}
		return n * r.(int64), nil
	})
	if err != nil {
		bad("constructor rejected a matching handler: " + err.Error())
	} else {
		within("factorial(1)", func() (any, error) { return factorial.Call([]any{int64(1)}) }, int64(1))
		within("factorial(5), the handler calls factorial", func() (any, error) { return factorial.Call([]any{int64(5)}) }, int64(120))
	}
	var isEven, isOdd schema.CallableFunction
	b := schema.NewBoolSchema()
	isEven, err1 = schema.NewDynamicCallableFunction("isEven", []schema.Type{i64}, nil, func(n int64) (any, error) {
		if n == 0 {
			return true, nil
		}
		return isOdd.Call([]any{n - 1})
	}, func([]schema.Type) (schema.Type, error) { return b, nil })
	isOdd, err2 = schema.NewDynamicCallableFunction("isOdd", []schema.Type{i64}, nil, func(n int64) (any, error) {
		if n == 0 {
			return false, nil
		}
		return isEven.Call([]any{n - 1})
	}, func([]schema.Type) (schema.Type, error) { return b, nil })
	if err1 != nil || err2 != nil {
		bad("constructor rejected a matching handler", fmt.Sprint(err1), fmt.Sprint(err2))
	} else {
		within("isEven(4): isEven -> isOdd -> isEven ...", func() (any, error) { return isEven.Call([]any{int64(4)}) }, true)
		within("isOdd(4)", func() (any, error) { return isOdd.Call([]any{int64(4)}) }, false)
	}
}
