package main

// Self-description (C09) and received descriptions (C10): shared pieces.
//
//   dsTy / dsObj / dsProp  description-level schema tree (Lean: Arca.DTy), built into real SDK
//                          schemas through the public constructors and forgotten into hx.Ty
//   dsDecorate             extends the schemas of hx.Gen with display data, namespaced references,
//                          unenforced IDs, examples, disabled reasons, one-of members that are
//                          references or nested scopes
//   dsParseScope           reads a canonical description (what SelfSerialize returns) back into a dsTy
//   dsSink                 cases.jsonl / go.jsonl / findings.jsonl / stats.json

import (
	"bufio"
	"context"
	"encoding/json"
	"fmt"
	"math"
	"os"
	"path/filepath"
	"regexp"
	"sort"
	"strconv"

	"github.com/fxamacker/cbor/v2"
	"go.flow.arcalot.io/pluginsdk/schema"
	"harness/hx"
)

func init() {
	register("describe", func(a Args) { dsDescribeCmd(a) })
	register("rebuild", func(a Args) { dsRebuildCmd(a) })
	register("metadump", func(a Args) { dsMetaDumpCmd(a) })
}

// ---------------------------------------------------------------------------------------------
// the description-level tree

type dsDisp struct {
	Name *string `json:"name,omitempty"`
	Desc *string `json:"desc,omitempty"`
	Icon *string `json:"icon,omitempty"`
}

type dsVal struct {
	Val  string // decimal for integer enums
	Disp *dsDisp
}

func (v dsVal) MarshalJSON() ([]byte, error) { return json.Marshal([]any{v.Val, v.Disp}) }

type dsProp struct {
	Ty             *dsTy       `json:"ty"`
	Disp           *dsDisp     `json:"disp,omitempty"`
	Required       bool        `json:"required,omitempty"`
	RequiredIf     []string    `json:"requiredIf,omitempty"`
	RequiredIfNot  []string    `json:"requiredIfNot,omitempty"`
	Conflicts      []string    `json:"conflicts,omitempty"`
	Default        *hx.Default `json:"default,omitempty"`
	Examples       []string    `json:"examples,omitempty"`
	Disabled       bool        `json:"disabled,omitempty"`
	DisabledReason *string     `json:"disabledReason,omitempty"`
	// DisableLate: the property is disabled only after the object schema holding it has been
	// constructed (the constructors take their snapshot of the defaults before). Harness-side only:
	// the description, and therefore the model, cannot tell when a property was disabled.
	DisableLate bool `json:"-"`
}

type dsNamedProp struct {
	Name string
	P    *dsProp
}

func (n dsNamedProp) MarshalJSON() ([]byte, error) { return json.Marshal([]any{n.Name, n.P}) }

type dsMember struct {
	Key string
	Ty  *dsTy
}

func (m dsMember) MarshalJSON() ([]byte, error) { return json.Marshal([]any{m.Key, m.Ty}) }

type dsNamedObj struct {
	ID string
	Ty *dsTy // always T == "obj"
}

func (n dsNamedObj) MarshalJSON() ([]byte, error) { return json.Marshal([]any{n.ID, n.Ty}) }

type dsTy struct {
	T          string        `json:"t"`
	Min        *string       `json:"min,omitempty"`
	Max        *string       `json:"max,omitempty"`
	Units      *hx.Units     `json:"units,omitempty"`
	Pat        *string       `json:"pat,omitempty"`
	DVals      []dsVal       `json:"dvals,omitempty"`
	Item       *dsTy         `json:"item,omitempty"`
	K          *dsTy         `json:"k,omitempty"`
	V          *dsTy         `json:"v,omitempty"`
	ID         string        `json:"id,omitempty"`
	Unenforced bool          `json:"unenforced,omitempty"`
	Props      []dsNamedProp `json:"props,omitempty"`
	IntKey     bool          `json:"intKey,omitempty"`
	Disc       string        `json:"disc"`
	Inlined    bool          `json:"inlined,omitempty"`
	Members    []dsMember    `json:"members,omitempty"`
	NS         string        `json:"ns,omitempty"`
	Disp       *dsDisp       `json:"disp,omitempty"`
	Objs       []dsNamedObj  `json:"objs,omitempty"`
	Root       string        `json:"root,omitempty"`
}

type dsSignal struct {
	ID   string  `json:"id"`
	Data *dsTy   `json:"data"`
	Disp *dsDisp `json:"disp,omitempty"`
}

type dsOutput struct {
	Schema *dsTy   `json:"schema"`
	Disp   *dsDisp `json:"disp,omitempty"`
	Error  bool    `json:"error,omitempty"`
}

type dsKeyed[T any] struct {
	Key string
	V   T
}

func (k dsKeyed[T]) MarshalJSON() ([]byte, error) { return json.Marshal([]any{k.Key, k.V}) }

type dsStep struct {
	ID       string               `json:"id"`
	Input    *dsTy                `json:"input"`
	Outputs  []dsKeyed[*dsOutput] `json:"outputs,omitempty"`
	Handlers []dsKeyed[*dsSignal] `json:"handlers,omitempty"`
	Emitters []dsKeyed[*dsSignal] `json:"emitters,omitempty"`
	Disp     *dsDisp              `json:"disp,omitempty"`
}

type dsPlugin struct {
	Steps []dsKeyed[*dsStep] `json:"steps"`
}

// walk visits t and every type nested in it.
func (t *dsTy) walk(f func(*dsTy)) {
	if t == nil {
		return
	}
	f(t)
	t.Item.walk(f)
	t.K.walk(f)
	t.V.walk(f)
	for _, p := range t.Props {
		p.P.Ty.walk(f)
	}
	for _, m := range t.Members {
		m.Ty.walk(f)
	}
	for _, o := range t.Objs {
		o.Ty.walk(f)
	}
}

// scopes lists the data scopes of a plugin schema with a label each.
func (p *dsPlugin) scopes() (labels []string, scopes []*dsTy) {
	for _, st := range p.Steps {
		labels, scopes = append(labels, st.Key+"/input"), append(scopes, st.V.Input)
		for _, o := range st.V.Outputs {
			labels, scopes = append(labels, st.Key+"/output/"+o.Key), append(scopes, o.V.Schema)
		}
		for _, h := range st.V.Handlers {
			labels, scopes = append(labels, st.Key+"/handler/"+h.Key), append(scopes, h.V.Data)
		}
		for _, e := range st.V.Emitters {
			labels, scopes = append(labels, st.Key+"/emitter/"+e.Key), append(scopes, e.V.Data)
		}
	}
	return
}

// ---------------------------------------------------------------------------------------------
// forgetting (Lean: Arca.forget) and building

func (t *dsTy) forget() *hx.Ty {
	if t == nil {
		return nil
	}
	out := &hx.Ty{T: t.T, Min: t.Min, Max: t.Max, Units: t.Units, Pat: t.Pat, ID: t.ID,
		IntKey: t.IntKey, Disc: t.Disc, Inlined: t.Inlined, Root: t.Root}
	for _, v := range t.DVals {
		out.Vals = append(out.Vals, v.Val)
	}
	out.Item, out.K, out.V = t.Item.forget(), t.K.forget(), t.V.forget()
	for _, np := range t.Props {
		p := np.P
		out.Props = append(out.Props, hx.NamedProp{Name: np.Name, P: &hx.Prop{Ty: p.Ty.forget(), Required: p.Required,
			RequiredIf: p.RequiredIf, RequiredIfNot: p.RequiredIfNot, Conflicts: p.Conflicts, Default: p.Default,
			Disabled: p.Disabled}})
	}
	for _, m := range t.Members {
		out.Members = append(out.Members, hx.Member{Key: m.Key, Ty: m.Ty.forget()})
	}
	for _, o := range t.Objs {
		out.Objs = append(out.Objs, hx.NamedObj{ID: o.ID, Ty: o.Ty.forget()})
	}
	return out
}

func (d *dsDisp) build() *schema.DisplayValue {
	if d == nil {
		return nil
	}
	return schema.NewDisplayValue(d.Name, d.Desc, d.Icon)
}

// display returns the untyped nil interface for an absent display.
func (d *dsDisp) display() schema.Display {
	if d == nil {
		return nil
	}
	return d.build()
}

func dsOptInt(p *string) *int64 {
	if p == nil {
		return nil
	}
	n, err := strconv.ParseInt(*p, 10, 64)
	if err != nil {
		panic(err)
	}
	return &n
}

func dsOptFloat(p *string) *float64 {
	if p == nil {
		return nil
	}
	b, err := strconv.ParseUint(*p, 16, 64)
	if err != nil {
		panic(err)
	}
	f := math.Float64frombits(b)
	return &f
}

// build constructs the SDK schema through the public constructors.
func (t *dsTy) build() schema.Type {
	switch t.T {
	case "int":
		return schema.NewIntSchema(dsOptInt(t.Min), dsOptInt(t.Max), t.Units.Build())
	case "float":
		return schema.NewFloatSchema(dsOptFloat(t.Min), dsOptFloat(t.Max), t.Units.Build())
	case "str":
		var re *regexp.Regexp
		if t.Pat != nil {
			re = regexp.MustCompile(*t.Pat)
		}
		return schema.NewStringSchema(dsOptInt(t.Min), dsOptInt(t.Max), re)
	case "bool":
		return schema.NewBoolSchema()
	case "pattern":
		return schema.NewPatternSchema()
	case "any":
		return schema.NewAnySchema()
	case "enumInt":
		vals := map[int64]*schema.DisplayValue{}
		for _, v := range t.DVals {
			n, err := strconv.ParseInt(v.Val, 10, 64)
			if err != nil {
				panic(err)
			}
			vals[n] = v.Disp.build()
		}
		return schema.NewIntEnumSchema(vals, t.Units.Build())
	case "enumStr":
		vals := map[string]*schema.DisplayValue{}
		for _, v := range t.DVals {
			vals[v.Val] = v.Disp.build()
		}
		return schema.NewStringEnumSchema(vals)
	case "list":
		return schema.NewListSchema(t.Item.build(), dsOptInt(t.Min), dsOptInt(t.Max))
	case "map":
		return schema.NewMapSchema(t.K.build(), t.V.build(), dsOptInt(t.Min), dsOptInt(t.Max))
	case "obj":
		return t.buildObject()
	case "oneOf":
		if t.IntKey {
			members := map[int64]schema.Object{}
			for _, m := range t.Members {
				n, err := strconv.ParseInt(m.Key, 10, 64)
				if err != nil {
					panic(err)
				}
				members[n] = m.Ty.build().(schema.Object)
			}
			return schema.NewOneOfIntSchema[any](members, t.Disc, t.Inlined)
		}
		members := map[string]schema.Object{}
		for _, m := range t.Members {
			members[m.Key] = m.Ty.build().(schema.Object)
		}
		return schema.NewOneOfStringSchema[any](members, t.Disc, t.Inlined)
	case "ref":
		return schema.NewNamespacedRefSchema(t.ID, t.NS, t.Disp.display())
	case "scope":
		return t.buildScope()
	}
	panic("harness: bad dsTy " + t.T)
}

func (t *dsTy) buildScope() *schema.ScopeSchema {
	var root *schema.ObjectSchema
	var others []*schema.ObjectSchema
	for _, o := range t.Objs {
		obj := o.Ty.buildObject()
		if o.ID == t.Root && root == nil {
			root = obj
		} else {
			others = append(others, obj)
		}
	}
	return schema.NewScopeSchema(root, others...)
}

func (t *dsTy) buildObject() *schema.ObjectSchema {
	props := map[string]*schema.PropertySchema{}
	for _, np := range t.Props {
		p := np.P
		var def *string
		if p.Default != nil {
			def = hx.StrP(p.Default.Text)
		}
		ps := schema.NewPropertySchema(p.Ty.build(), p.Disp.display(), p.Required, p.RequiredIf, p.RequiredIfNot,
			p.Conflicts, def, p.Examples)
		if !p.DisableLate {
			ps.Disabled = p.Disabled
			ps.DisabledReason = p.DisabledReason
		}
		props[np.Name] = ps
	}
	var o *schema.ObjectSchema
	if t.Unenforced {
		o = schema.NewUnenforcedIDObjectSchema(t.ID, props)
	} else {
		o = schema.NewObjectSchema(t.ID, props)
	}
	// switched off in the finished object, as a user of somebody else's schema would do
	for _, np := range t.Props {
		if p := np.P; p.DisableLate {
			ps := o.Properties()[np.Name]
			if p.Disabled && p.DisabledReason != nil {
				ps.Disable(*p.DisabledReason)
			} else {
				ps.Disabled = p.Disabled
				ps.DisabledReason = p.DisabledReason
			}
		}
	}
	return o
}

func (p *dsPlugin) build() *schema.SchemaSchema {
	sig := func(xs []dsKeyed[*dsSignal]) map[string]*schema.SignalSchema {
		if xs == nil {
			return nil
		}
		m := map[string]*schema.SignalSchema{}
		for _, x := range xs {
			m[x.Key] = schema.NewSignalSchema(x.V.ID, x.V.Data.buildScope(), x.V.Disp.display())
		}
		return m
	}
	steps := map[string]*schema.StepSchema{}
	for _, st := range p.Steps {
		outs := map[string]*schema.StepOutputSchema{}
		for _, o := range st.V.Outputs {
			outs[o.Key] = schema.NewStepOutputSchema(o.V.Schema.buildScope(), o.V.Disp.build(), o.V.Error)
		}
		steps[st.Key] = schema.NewStepSchema(st.V.ID, st.V.Input.buildScope(), outs, sig(st.V.Handlers), sig(st.V.Emitters), st.V.Disp.display())
	}
	return schema.NewSchema(steps).(*schema.SchemaSchema)
}

// buildCallable constructs the same plugin as a CallableSchema: callable steps with callable signal
// handlers (what a plugin author writes and RunATPServer serves).
func (p *dsPlugin) buildCallable() *schema.CallableSchema {
	var steps []schema.CallableStep
	for _, st := range p.Steps {
		outs := map[string]*schema.StepOutputSchema{}
		for _, o := range st.V.Outputs {
			outs[o.Key] = schema.NewStepOutputSchema(o.V.Schema.buildScope(), o.V.Disp.build(), o.V.Error)
		}
		var handlers map[string]schema.CallableSignal
		if st.V.Handlers != nil {
			handlers = map[string]schema.CallableSignal{}
			for _, h := range st.V.Handlers {
				handlers[h.Key] = schema.NewCallableSignal[any, any](h.V.ID, h.V.Data.buildScope(), h.V.Disp.display(),
					func(context.Context, any, any) {})
			}
		}
		var emitters map[string]*schema.SignalSchema
		if st.V.Emitters != nil {
			emitters = map[string]*schema.SignalSchema{}
			for _, e := range st.V.Emitters {
				emitters[e.Key] = schema.NewSignalSchema(e.V.ID, e.V.Data.buildScope(), e.V.Disp.display())
			}
		}
		steps = append(steps, schema.NewCallableStepWithSignals[any, any](st.V.ID, st.V.Input.buildScope(), outs, handlers, emitters,
			st.V.Disp.display(), nil, func(context.Context, any, any) (string, any) { return "success", map[string]any{} }))
	}
	return schema.NewCallableSchema(steps...)
}

// ---------------------------------------------------------------------------------------------
// generation: hx.Gen schemas, decorated

type dsGen struct {
	g       *hx.Gen
	foreign []string // IDs of the objects of the foreign namespace (dsForeignScope)
	nPlain  int
}

const dsForeignNS = "ext"

// dsForeignScope is the scope whose objects the namespaced references of generated schemas name.
func dsForeignScope() *dsTy {
	strP := func(req bool) *dsProp { return &dsProp{Ty: &dsTy{T: "str"}, Required: req} }
	return &dsTy{T: "scope", Root: "ExtA", Objs: []dsNamedObj{
		{"ExtA", &dsTy{T: "obj", ID: "ExtA", Props: []dsNamedProp{{"x", strP(true)}, {"y", &dsProp{Ty: &dsTy{T: "int"}}}}}},
		{"ExtB", &dsTy{T: "obj", ID: "ExtB", Props: []dsNamedProp{{"p", strP(false)}, {"q", strP(false)}}}},
	}}
}

// dsForeignScopeV1 is an OLDER provider of the same namespace: the same object IDs with other limits,
// an additional required property and another default. A scope bound to it first and to
// dsForeignScope afterwards must behave like one bound to dsForeignScope only.
func dsForeignScopeV1() *dsTy {
	return &dsTy{T: "scope", Root: "ExtA", Objs: []dsNamedObj{
		{"ExtA", &dsTy{T: "obj", ID: "ExtA", Props: []dsNamedProp{
			{"x", &dsProp{Ty: &dsTy{T: "str", Max: hx.IntP(0)}, Required: true}},
			{"y", &dsProp{Ty: &dsTy{T: "int", Min: hx.IntP(1000)}, Default: hx.MkDefault("1000")}}}}},
		{"ExtB", &dsTy{T: "obj", ID: "ExtB", Props: []dsNamedProp{
			{"p", &dsProp{Ty: &dsTy{T: "str"}, Required: true}},
			{"q", &dsProp{Ty: &dsTy{T: "int"}}}}}},
	}}
}

// dsForeignObjs: the objects of the current provider by ID (for building inputs that enter
// namespaced references).
func dsForeignObjs() map[string]*dsTy {
	out := map[string]*dsTy{}
	for _, o := range dsForeignScope().Objs {
		out[o.ID] = o.Ty
	}
	return out
}

var dsWords = []string{"Name", "Size of it", "a", "Fruit", "日本", "x y z", "Choice #1", "<svg/>", "ünï", "Z"}

func (d *dsGen) p(x float64) bool { return d.g.R.Float64() < x }

func (d *dsGen) plainID() string {
	d.nPlain++
	return fmt.Sprintf("NsPlain%d", d.nPlain)
}

func (d *dsGen) word() *string { return hx.StrP(dsWords[d.g.R.Intn(len(dsWords))]) }

func (d *dsGen) disp(prob float64) *dsDisp {
	if !d.p(prob) {
		return nil
	}
	out := &dsDisp{}
	if d.p(0.7) {
		out.Name = d.word()
	}
	if d.p(0.4) {
		out.Desc = d.word()
	}
	if d.p(0.2) {
		out.Icon = d.word()
	}
	return out
}

// hasRef reports whether t contains a reference that resolves in the enclosing scope.
func dsHasOuterRef(t *dsTy) bool {
	found := false
	var rec func(t *dsTy)
	rec = func(t *dsTy) {
		if t == nil || found {
			return
		}
		switch t.T {
		case "ref":
			found = true
		case "scope":
			return // references inside resolve in the nested scope
		}
		rec(t.Item)
		rec(t.K)
		rec(t.V)
		for _, p := range t.Props {
			rec(p.P.Ty)
		}
		for _, m := range t.Members {
			rec(m.Ty)
		}
	}
	rec(t)
	return found
}

// decorate converts a generated hx schema. hoist, when non-nil, receives objects that are moved
// into the enclosing scope (one-of members turned into references). ns allows namespaced refs.
func (d *dsGen) decorate(t *hx.Ty, hoist *[]dsNamedObj, ns bool) *dsTy {
	if t == nil {
		return nil
	}
	out := &dsTy{T: t.T, Min: t.Min, Max: t.Max, Units: t.Units, Pat: t.Pat, ID: t.ID, IntKey: t.IntKey,
		Disc: t.Disc, Inlined: t.Inlined, Root: t.Root}
	switch t.T {
	case "enumInt", "enumStr":
		for _, v := range t.Vals {
			dv := d.disp(0.6)
			if dv == nil {
				dv = &dsDisp{} // an enum value always has a display pointer (a nil one cannot be described: D27)
			}
			out.DVals = append(out.DVals, dsVal{v, dv})
		}
	case "list":
		out.Item = d.decorate(t.Item, hoist, ns)
	case "map":
		k := t.K
		// the meta-schema describes integer and string keys only
		switch k.T {
		case "enumInt":
			k = &hx.Ty{T: "int"}
		case "enumStr":
			k = &hx.Ty{T: "str"}
		}
		out.K = d.decorate(k, hoist, ns)
		out.V = d.decorate(t.V, hoist, ns)
	case "obj":
		out.Unenforced = d.p(0.15)
		for _, np := range t.Props {
			p := np.P
			dp := &dsProp{Ty: d.decorate(p.Ty, hoist, ns), Disp: d.disp(0.4), Required: p.Required, RequiredIf: p.RequiredIf,
				RequiredIfNot: p.RequiredIfNot, Conflicts: p.Conflicts, Default: p.Default, Disabled: p.Disabled}
			if d.p(0.2) {
				dp.Examples = []string{"1", "\"two\""}[:1+d.g.R.Intn(2)]
			}
			if !dp.Disabled && dp.Default != nil && dp.Ty.T != "ref" && d.p(0.2) {
				dp.Disabled = true // a defaulted property that is switched off
			}
			if dp.Disabled {
				dp.DisableLate = d.p(0.5)
			}
			if dp.Disabled && d.p(0.6) {
				dp.DisabledReason = d.word()
			}
			if !dp.Disabled && d.p(0.03) {
				dp.DisabledReason = d.word() // a reason without the flag: carried, no effect
			}
			out.Props = append(out.Props, dsNamedProp{np.Name, dp})
		}
		if ns && hoist != nil && len(d.foreign) > 0 && d.p(0.3) && len(out.Props) < 5 {
			// an optional property referring into the foreign namespace
			nsRef := func() *dsTy {
				return &dsTy{T: "ref", ID: d.foreign[d.g.R.Intn(len(d.foreign))], NS: dsForeignNS, Disp: d.disp(0.3)}
			}
			switch d.g.R.Intn(4) {
			case 0:
				out.Props = append(out.Props, dsNamedProp{"nsmap", &dsProp{Ty: &dsTy{T: "map", K: &dsTy{T: "str"}, V: nsRef()}}})
			case 1:
				// a one-of mixing a member from the foreign namespace, an inline object and a reference
				// into the scope itself (a new object of the enclosing scope)
				own := &dsTy{T: "obj", ID: d.plainID(), Props: []dsNamedProp{{"w", &dsProp{Ty: &dsTy{T: "str"}}}, {"u", &dsProp{Ty: &dsTy{T: "int"}}}}}
				*hoist = append(*hoist, dsNamedObj{own.ID, own})
				out.Props = append(out.Props, dsNamedProp{"nsone", &dsProp{Ty: &dsTy{T: "oneOf", Disc: "_kind",
					Members: []dsMember{{"ext", nsRef()}, {"plain", &dsTy{T: "obj", ID: d.plainID(), Props: []dsNamedProp{{"v", &dsProp{Ty: &dsTy{T: "str"}}}}}},
						{"self", &dsTy{T: "ref", ID: own.ID}}}}}})
			case 2:
				out.Props = append(out.Props, dsNamedProp{"nslist", &dsProp{Ty: &dsTy{T: "list", Item: nsRef()}}})
			default:
				out.Props = append(out.Props, dsNamedProp{"nsref", &dsProp{Ty: nsRef()}})
			}
		}
	case "oneOf":
		for _, m := range t.Members {
			mt := d.decorate(m.Ty, hoist, ns)
			if mt.T == "obj" {
				switch {
				case hoist != nil && d.p(0.3):
					// the same object, as an object of the enclosing scope, referenced
					*hoist = append(*hoist, dsNamedObj{mt.ID, mt})
					mt = &dsTy{T: "ref", ID: mt.ID, Disp: d.disp(0.3)}
				case !dsHasOuterRef(mt) && d.p(0.2):
					// the same object as the root of a nested scope
					mt = &dsTy{T: "scope", Root: mt.ID, Objs: []dsNamedObj{{mt.ID, mt}}}
				}
			}
			out.Members = append(out.Members, dsMember{m.Key, mt})
		}
	case "ref":
		out.Disp = d.disp(0.3)
	case "scope":
		var hoisted []dsNamedObj
		for _, o := range t.Objs {
			out.Objs = append(out.Objs, dsNamedObj{o.ID, d.decorate(o.Ty, &hoisted, ns)})
		}
		// objects hoisted out of one-ofs may themselves have hoisted more
		out.Objs = append(out.Objs, hoisted...)
	}
	return out
}

// scope returns a decorated generated scope.
func (d *dsGen) scope(ns bool) *dsTy {
	t := d.decorate(d.g.Scope(0), nil, ns)
	if ns {
		has := false
		t.walk(func(x *dsTy) {
			if x.T == "ref" && x.NS != "" {
				has = true
			}
		})
		if !has {
			// at least one reference into the foreign namespace, in the root object
			for _, o := range t.Objs {
				if o.ID == t.Root {
					o.Ty.Props = append(o.Ty.Props, dsNsProps(t.Root)[d.g.R.Intn(4)])
				}
			}
		}
	}
	return t
}

// dsNsProps: a reference into the foreign namespace as a property, a map value, a one-of member and a
// list item.
func dsNsProps(selfID string) []dsNamedProp {
	ref := func(id string) *dsTy { return &dsTy{T: "ref", ID: id, NS: dsForeignNS} }
	return []dsNamedProp{
		{"nsref", &dsProp{Ty: ref("ExtA")}},
		{"nsmap", &dsProp{Ty: &dsTy{T: "map", K: &dsTy{T: "str"}, V: ref("ExtB")}}},
		{"nsone", &dsProp{Ty: &dsTy{T: "oneOf", Disc: "_kind", Members: []dsMember{{"ext", ref("ExtA")},
			{"plain", &dsTy{T: "obj", ID: "NsPlainFixed", Props: []dsNamedProp{{"v", &dsProp{Ty: &dsTy{T: "str"}}}}}},
			{"self", &dsTy{T: "ref", ID: selfID}}}}}},
		{"nslist", &dsProp{Ty: &dsTy{T: "list", Item: ref("ExtB")}}},
	}
}

func (d *dsGen) plugin() *dsPlugin {
	p := &dsPlugin{}
	ns := 1 + d.g.R.Intn(2)
	for i := 0; i < ns; i++ {
		id := fmt.Sprintf("step-%d", i+1)
		st := &dsStep{ID: id, Input: d.scope(false), Disp: d.disp(0.6)}
		for j, n := 0, 1+d.g.R.Intn(2); j < n; j++ {
			st.Outputs = append(st.Outputs, dsKeyed[*dsOutput]{[]string{"success", "error"}[j], &dsOutput{Schema: d.scope(false), Disp: d.disp(0.5), Error: j == 1}})
		}
		sigs := func(prefix string) []dsKeyed[*dsSignal] {
			if d.p(0.4) {
				return nil
			}
			var out []dsKeyed[*dsSignal]
			for j, n := 0, d.g.R.Intn(3); j < n; j++ {
				sid := fmt.Sprintf("%s_%d", prefix, j)
				out = append(out, dsKeyed[*dsSignal]{sid, &dsSignal{ID: sid, Data: d.scope(false), Disp: d.disp(0.5)}})
			}
			if out == nil {
				out = []dsKeyed[*dsSignal]{}
			}
			return out
		}
		st.Handlers, st.Emitters = sigs("recv"), sigs("emit")
		// the data schema of a handler should need linking: give its root an optional reference
		for _, h := range st.Handlers {
			if d.p(0.6) && len(h.V.Data.Objs) > 0 {
				for _, o := range h.V.Data.Objs {
					if o.ID == h.V.Data.Root && len(o.Ty.Props) >= 1 {
						target := h.V.Data.Objs[d.g.R.Intn(len(h.V.Data.Objs))].ID
						o.Ty.Props = append(o.Ty.Props, dsNamedProp{"item", &dsProp{Ty: &dsTy{T: "ref", ID: target}}})
					}
				}
			}
		}
		// a handler and an emitter may carry the same ID: they live in two independent maps
		if len(st.Handlers) > 0 && d.p(0.5) {
			h := st.Handlers[d.g.R.Intn(len(st.Handlers))]
			e := &dsSignal{ID: h.V.ID, Data: d.scope(false), Disp: d.disp(0.5)}
			// both data scopes need linking: references to objects of their own scope, one of them
			// recursive (the root refers to itself), with different shapes in the two scopes
			dsAddOwnRefs(h.V.Data, "item", false)
			dsAddOwnRefs(e.Data, "next", true)
			if len(st.Emitters) > 0 {
				st.Emitters[0] = dsKeyed[*dsSignal]{h.Key, e}
			} else {
				st.Emitters = []dsKeyed[*dsSignal]{{h.Key, e}}
			}
		}
		p.Steps = append(p.Steps, dsKeyed[*dsStep]{id, st})
	}
	// step KEYS need not be the step IDs (schema.NewSchema takes a map): an alias for a step, or a
	// second generation of a step under another key with the same ID and another input
	if d.p(0.35) {
		base := p.Steps[d.g.R.Intn(len(p.Steps))]
		if d.p(0.5) {
			p.Steps = append(p.Steps, dsKeyed[*dsStep]{base.Key + "@alias", base.V})
		} else {
			other := &dsStep{ID: base.V.ID, Input: d.scope(false), Disp: d.disp(0.5),
				Outputs: []dsKeyed[*dsOutput]{{"success", &dsOutput{Schema: d.scope(false)}}}}
			p.Steps = append(p.Steps, dsKeyed[*dsStep]{base.Key + "@v1", other})
		}
	}
	return p
}

// dsAddOwnRefs gives the root object of a scope an optional reference to an object of the same
// scope (to the root itself when recursive) unless the property exists already.
func dsAddOwnRefs(sc *dsTy, name string, recursive bool) {
	if sc == nil || len(sc.Objs) == 0 {
		return
	}
	for _, o := range sc.Objs {
		if o.ID != sc.Root {
			continue
		}
		for _, p := range o.Ty.Props {
			if p.Name == name {
				return
			}
		}
		target := sc.Objs[len(sc.Objs)-1].ID
		if recursive {
			target = sc.Root
		}
		if len(o.Ty.Props) == 0 {
			// never a single-property object that refers to itself (known finding D13)
			o.Ty.Props = append(o.Ty.Props, dsNamedProp{"pad", &dsProp{Ty: &dsTy{T: "str"}}})
		}
		o.Ty.Props = append(o.Ty.Props, dsNamedProp{name, &dsProp{Ty: &dsTy{T: "ref", ID: target}}})
		if recursive {
			o.Ty.Props = append(o.Ty.Props, dsNamedProp{name + "s", &dsProp{Ty: &dsTy{T: "list", Item: &dsTy{T: "ref", ID: target}}}})
		}
	}
}

// aliased: some step is registered under a key other than its ID (a callable schema cannot express that)
func (p *dsPlugin) aliased() bool {
	for _, st := range p.Steps {
		if st.Key != st.V.ID {
			return true
		}
	}
	return false
}

// ---------------------------------------------------------------------------------------------
// parsing a canonical description (the output of SelfSerialize) back into the tree

type dsParseError struct{ msg string }

func (e dsParseError) Error() string { return e.msg }

func dsFail(format string, a ...any) { panic(dsParseError{fmt.Sprintf(format, a...)}) }

func dsFields(v any) map[string]any {
	switch m := v.(type) {
	case map[string]any:
		return m
	case map[any]any:
		out := map[string]any{}
		for k, e := range m {
			s, ok := k.(string)
			if !ok {
				dsFail("non-string field %v", k)
			}
			out[s] = e
		}
		return out
	}
	dsFail("not an object: %T", v)
	return nil
}

func dsOptStr(m map[string]any, k string) *string {
	v, ok := m[k]
	if !ok {
		return nil
	}
	s, ok := v.(string)
	if !ok {
		dsFail("%s: not a string: %T", k, v)
	}
	return &s
}

func dsStrOr(m map[string]any, k string) string {
	if p := dsOptStr(m, k); p != nil {
		return *p
	}
	return ""
}

func dsBoolOr(m map[string]any, k string) bool {
	v, ok := m[k]
	if !ok {
		return false
	}
	b, ok := v.(bool)
	if !ok {
		dsFail("%s: not a bool: %T", k, v)
	}
	return b
}

func dsAsInt(v any) int64 {
	switch n := v.(type) {
	case int64:
		return n
	case int:
		return int64(n)
	case uint64:
		return int64(n)
	}
	dsFail("not an integer: %T", v)
	return 0
}

func dsOptIntS(m map[string]any, k string) *string {
	v, ok := m[k]
	if !ok {
		return nil
	}
	return hx.IntP(dsAsInt(v))
}

func dsOptFloatS(m map[string]any, k string) *string {
	v, ok := m[k]
	if !ok {
		return nil
	}
	f, ok := v.(float64)
	if !ok {
		dsFail("%s: not a float64: %T", k, v)
	}
	return hx.FloatP(f)
}

func dsStrs(m map[string]any, k string) []string {
	v, ok := m[k]
	if !ok {
		return nil
	}
	l, ok := v.([]any)
	if !ok {
		dsFail("%s: not a list: %T", k, v)
	}
	var out []string
	for _, e := range l {
		s, ok := e.(string)
		if !ok {
			dsFail("%s: element not a string", k)
		}
		out = append(out, s)
	}
	return out
}

// dsEntries returns the entries of a map-typed field sorted by key text.
func dsEntries(m map[string]any, k string) [][2]any {
	v, ok := m[k]
	if !ok {
		return nil
	}
	var out [][2]any
	switch mm := v.(type) {
	case map[any]any:
		for kk, e := range mm {
			out = append(out, [2]any{kk, e})
		}
	case map[string]any:
		for kk, e := range mm {
			out = append(out, [2]any{kk, e})
		}
	default:
		dsFail("%s: not a map: %T", k, v)
	}
	sort.Slice(out, func(i, j int) bool { return fmt.Sprint(out[i][0]) < fmt.Sprint(out[j][0]) })
	return out
}

func dsParseDisp(v any) *dsDisp {
	m := dsFields(v)
	return &dsDisp{Name: dsOptStr(m, "name"), Desc: dsOptStr(m, "description"), Icon: dsOptStr(m, "icon")}
}

func dsOptDisp(m map[string]any) *dsDisp {
	v, ok := m["display"]
	if !ok {
		return nil
	}
	return dsParseDisp(v)
}

func dsParseUnit(v any) [4]string {
	m := dsFields(v)
	return [4]string{dsStrOr(m, "name_short_singular"), dsStrOr(m, "name_short_plural"), dsStrOr(m, "name_long_singular"), dsStrOr(m, "name_long_plural")}
}

func dsOptUnits(m map[string]any) *hx.Units {
	v, ok := m["units"]
	if !ok {
		return nil
	}
	um := dsFields(v)
	u := &hx.Units{Base: dsParseUnit(um["base_unit"])}
	for _, e := range dsEntries(um, "multipliers") {
		u.Mults = append(u.Mults, hx.UnitMult{M: dsAsInt(e[0]), Names: dsParseUnit(e[1])})
	}
	return u
}

func dsParseObjFields(m map[string]any) *dsTy {
	t := &dsTy{T: "obj", ID: dsStrOr(m, "id"), Unenforced: dsBoolOr(m, "id_unenforced")}
	for _, e := range dsEntries(m, "properties") {
		name, ok := e[0].(string)
		if !ok {
			dsFail("property name %v", e[0])
		}
		pm := dsFields(e[1])
		p := &dsProp{Ty: dsParseTy(pm["type"]), Disp: dsOptDisp(pm), Required: dsBoolOr(pm, "required"),
			RequiredIf: dsStrs(pm, "required_if"), RequiredIfNot: dsStrs(pm, "required_if_not"), Conflicts: dsStrs(pm, "conflicts"),
			Examples: dsStrs(pm, "examples"), Disabled: dsBoolOr(pm, "disabled"), DisabledReason: dsOptStr(pm, "disabled_reason")}
		if d := dsOptStr(pm, "default"); d != nil {
			p.Default = hx.MkDefault(*d)
		}
		t.Props = append(t.Props, dsNamedProp{name, p})
	}
	return t
}

func dsParseScopeFields(m map[string]any) *dsTy {
	t := &dsTy{T: "scope", Root: dsStrOr(m, "root")}
	for _, e := range dsEntries(m, "objects") {
		id, ok := e[0].(string)
		if !ok {
			dsFail("object key %v", e[0])
		}
		t.Objs = append(t.Objs, dsNamedObj{id, dsParseObjFields(dsFields(e[1]))})
	}
	return t
}

func dsParseTy(v any) *dsTy {
	m := dsFields(v)
	switch tid := dsStrOr(m, "type_id"); tid {
	case "integer":
		return &dsTy{T: "int", Min: dsOptIntS(m, "min"), Max: dsOptIntS(m, "max"), Units: dsOptUnits(m)}
	case "float":
		return &dsTy{T: "float", Min: dsOptFloatS(m, "min"), Max: dsOptFloatS(m, "max"), Units: dsOptUnits(m)}
	case "string":
		return &dsTy{T: "str", Min: dsOptIntS(m, "min"), Max: dsOptIntS(m, "max"), Pat: dsOptStr(m, "pattern")}
	case "bool", "pattern", "any":
		return &dsTy{T: tid}
	case "enum_integer":
		t := &dsTy{T: "enumInt", Units: dsOptUnits(m)}
		for _, e := range dsEntries(m, "values") {
			t.DVals = append(t.DVals, dsVal{strconv.FormatInt(dsAsInt(e[0]), 10), dsParseDisp(e[1])})
		}
		return t
	case "enum_string":
		t := &dsTy{T: "enumStr"}
		for _, e := range dsEntries(m, "values") {
			s, ok := e[0].(string)
			if !ok {
				dsFail("enum value %v", e[0])
			}
			t.DVals = append(t.DVals, dsVal{s, dsParseDisp(e[1])})
		}
		return t
	case "list":
		return &dsTy{T: "list", Item: dsParseTy(m["items"]), Min: dsOptIntS(m, "min"), Max: dsOptIntS(m, "max")}
	case "map":
		return &dsTy{T: "map", K: dsParseTy(m["keys"]), V: dsParseTy(m["values"]), Min: dsOptIntS(m, "min"), Max: dsOptIntS(m, "max")}
	case "object":
		return dsParseObjFields(m)
	case "one_of_int", "one_of_string":
		t := &dsTy{T: "oneOf", IntKey: tid == "one_of_int", Disc: dsStrOr(m, "discriminator_field_name"), Inlined: dsBoolOr(m, "discriminator_inlined")}
		for _, e := range dsEntries(m, "types") {
			key := fmt.Sprint(e[0])
			if t.IntKey {
				key = strconv.FormatInt(dsAsInt(e[0]), 10)
			}
			t.Members = append(t.Members, dsMember{key, dsParseTy(e[1])})
		}
		return t
	case "ref":
		return &dsTy{T: "ref", ID: dsStrOr(m, "id"), NS: dsStrOr(m, "namespace"), Disp: dsOptDisp(m)}
	case "scope":
		return dsParseScopeFields(m)
	default:
		dsFail("unknown type_id %q", tid)
	}
	return nil
}

// dsParseScope parses a canonical scope description; an error means the value is not one.
func dsParseScope(v any) (t *dsTy, err error) {
	defer func() {
		if r := recover(); r != nil {
			if pe, ok := r.(dsParseError); ok {
				t, err = nil, pe
				return
			}
			panic(r)
		}
	}()
	return dsParseScopeFields(dsFields(v)), nil
}

func dsParsePlugin(v any) (p *dsPlugin, err error) {
	defer func() {
		if r := recover(); r != nil {
			if pe, ok := r.(dsParseError); ok {
				p, err = nil, pe
				return
			}
			panic(r)
		}
	}()
	p = &dsPlugin{Steps: []dsKeyed[*dsStep]{}}
	sig := func(m map[string]any, k string) []dsKeyed[*dsSignal] {
		out := []dsKeyed[*dsSignal]{}
		for _, e := range dsEntries(m, k) {
			sm := dsFields(e[1])
			out = append(out, dsKeyed[*dsSignal]{fmt.Sprint(e[0]), &dsSignal{ID: dsStrOr(sm, "id"), Data: dsParseScopeFields(dsFields(sm["data_schema"])), Disp: dsOptDisp(sm)}})
		}
		return out
	}
	for _, e := range dsEntries(dsFields(v), "steps") {
		sm := dsFields(e[1])
		st := &dsStep{ID: dsStrOr(sm, "id"), Input: dsParseScopeFields(dsFields(sm["input"])), Disp: dsOptDisp(sm),
			Handlers: sig(sm, "signal_handlers"), Emitters: sig(sm, "signal_emitters")}
		for _, o := range dsEntries(sm, "outputs") {
			om := dsFields(o[1])
			st.Outputs = append(st.Outputs, dsKeyed[*dsOutput]{fmt.Sprint(o[0]), &dsOutput{Schema: dsParseScopeFields(dsFields(om["schema"])), Disp: dsOptDisp(om), Error: dsBoolOr(om, "error")}})
		}
		p.Steps = append(p.Steps, dsKeyed[*dsStep]{fmt.Sprint(e[0]), st})
	}
	return p, nil
}

// ---------------------------------------------------------------------------------------------
// externals for the model

const dsIDPattern = `^[$@a-zA-Z0-9-_]+$`

// dsMetaProbe is a schema mentioning the external functions the meta-schema uses, so that
// hx.MkExt tabulates them: float parsing and formatting, pattern compilation, the ID pattern.
var dsMetaProbe = &hx.Ty{T: "obj", ID: "probe", Props: []hx.NamedProp{
	{Name: "f", P: &hx.Prop{Ty: &hx.Ty{T: "float"}}},
	{Name: "p", P: &hx.Prop{Ty: &hx.Ty{T: "pattern"}}},
	{Name: "i", P: &hx.Prop{Ty: &hx.Ty{T: "str", Pat: hx.StrP(dsIDPattern)}}},
}}

// dsExtOf tabulates the externals for every scalar in the given values.
func dsExtOf(vs ...*hx.Val) *hx.Ext { return hx.MkExt(dsMetaProbe, vs...) }

// dsStringsOf lists the strings of a JSON-marshalable tree as one list value.
func dsStringsOf(x any) *hx.Val {
	b, err := json.Marshal(x)
	if err != nil {
		panic(err)
	}
	var tree any
	if err := json.Unmarshal(b, &tree); err != nil {
		panic(err)
	}
	seen := map[string]bool{}
	var rec func(x any)
	rec = func(x any) {
		switch v := x.(type) {
		case string:
			seen[v] = true
		case []any:
			for _, e := range v {
				rec(e)
			}
		case map[string]any:
			for _, e := range v {
				rec(e)
			}
		}
	}
	rec(tree)
	keys := make([]string, 0, len(seen))
	for s := range seen {
		keys = append(keys, s)
	}
	sort.Strings(keys)
	l := &hx.Val{Kind: "l"}
	for _, s := range keys {
		l.L = append(l.L, hx.Str(s))
	}
	return l
}

// dsJD tabulates encoding/json on the default texts of a description value: every scalar found
// under a key "default", as the string schema of the meta-schema would read it, plain and quoted.
func dsJD(desc *hx.Val) [][2]any {
	texts := map[string]bool{}
	strSchema := schema.NewStringSchema(nil, nil, nil)
	desc.Walk(func(v *hx.Val) {
		if v.Kind != "m" {
			return
		}
		for _, kv := range v.M {
			if kv[0].Kind == "s" && kv[0].S == "default" {
				switch kv[1].Kind {
				case "s", "i", "f":
					if s, err := strSchema.Unserialize(kv[1].ToGo()); err == nil {
						texts[s.(string)] = true
					}
				}
			}
		}
	})
	keys := make([]string, 0, len(texts))
	for s := range texts {
		keys = append(keys, s)
	}
	sort.Strings(keys)
	var out [][2]any
	add := func(t string) {
		var v any
		if err := json.Unmarshal([]byte(t), &v); err != nil {
			out = append(out, [2]any{t, nil})
		} else {
			out = append(out, [2]any{t, &hx.Wrapped{V: hx.Enc(v)}})
		}
	}
	for _, t := range keys {
		add(t)
		add("\"" + t + "\"")
	}
	return out
}

// ---------------------------------------------------------------------------------------------
// cases and sink

type dsCase struct {
	ID      int       `json:"id"`
	Op      string    `json:"op"`
	Mode    string    `json:"mode,omitempty"`
	DSchema *dsTy     `json:"dschema,omitempty"`
	DPlugin *dsPlugin `json:"dplugin,omitempty"`
	Schema  *dsHxTy   `json:"schema,omitempty"`
	V       *hx.Val   `json:"v"`
	Ext     *hx.Ext   `json:"ext,omitempty"`
	JD      [][2]any  `json:"jd,omitempty"`
	Fuel    int       `json:"fuel,omitempty"`
	Note    string    `json:"note,omitempty"`
}

// dsHxTy is an hx.Ty whose JSON form always carries the discriminator name of a one-of (hx.Ty omits
// empty strings, but the empty string is a legal discriminator field name in a received schema).
type dsHxTy hx.Ty

func (t *dsHxTy) MarshalJSON() ([]byte, error) {
	b, err := json.Marshal((*hx.Ty)(t))
	if err != nil {
		return nil, err
	}
	var tree any
	if err := json.Unmarshal(b, &tree); err != nil {
		return nil, err
	}
	var fix func(x any)
	fix = func(x any) {
		switch v := x.(type) {
		case map[string]any:
			if v["t"] == "oneOf" {
				if _, ok := v["disc"]; !ok {
					v["disc"] = ""
				}
			}
			for _, e := range v {
				fix(e)
			}
		case []any:
			for _, e := range v {
				fix(e)
			}
		}
	}
	fix(tree)
	return json.Marshal(tree)
}

func (t *dsHxTy) UnmarshalJSON(b []byte) error { return json.Unmarshal(b, (*hx.Ty)(t)) }

type dsFinding struct {
	Prop   string   `json:"prop"`
	What   string   `json:"what"`
	Cases  []int    `json:"cases"`
	Schema any      `json:"schema,omitempty"`
	Input  *hx.Val  `json:"input,omitempty"`
	Detail []string `json:"detail,omitempty"`
}

type dsSink struct {
	dir                      string
	cases, results, findings *bufio.Writer
	files                    []*os.File
	nextID                   int
	stats                    map[string]int
	nFindings                int
}

func dsNewSink(dir string) *dsSink {
	if err := os.MkdirAll(dir, 0o755); err != nil {
		panic(err)
	}
	s := &dsSink{dir: dir, stats: map[string]int{}}
	open := func(name string) *bufio.Writer {
		f, err := os.Create(filepath.Join(dir, name))
		if err != nil {
			panic(err)
		}
		s.files = append(s.files, f)
		return bufio.NewWriterSize(f, 1<<20)
	}
	s.cases, s.results, s.findings = open("cases.jsonl"), open("go.jsonl"), open("findings.jsonl")
	return s
}

func (s *dsSink) close(extra map[string]any) {
	s.cases.Flush()
	s.results.Flush()
	s.findings.Flush()
	for _, f := range s.files {
		f.Close()
	}
	st := map[string]any{"harness": s.stats, "cases": s.nextID, "findings": s.nFindings}
	for k, v := range extra {
		st[k] = v
	}
	b, _ := json.MarshalIndent(st, "", " ")
	_ = os.WriteFile(filepath.Join(s.dir, "stats.json"), b, 0o644)
}

func (s *dsSink) count(k string) { s.stats[k]++ }

func (s *dsSink) finding(f dsFinding) {
	if f.Cases == nil {
		f.Cases = []int{}
	}
	b, _ := json.Marshal(f)
	s.findings.Write(b)
	s.findings.WriteByte('\n')
	s.nFindings++
	s.stats["finding:"+f.Prop]++
}

// emit records a case and the implementation's result for it.
func (s *dsSink) emit(c dsCase, res hx.Result) int {
	s.nextID++
	c.ID = s.nextID
	b, err := json.Marshal(c)
	if err != nil {
		panic(err)
	}
	s.cases.Write(b)
	s.cases.WriteByte('\n')
	rb, _ := json.Marshal(res)
	s.results.Write(rb)
	s.results.WriteByte('\n')
	s.stats["op:"+c.Op]++
	s.stats["res:"+c.Op+":"+res.R]++
	return c.ID
}

// ---------------------------------------------------------------------------------------------
// small helpers on results

func dsOK(v any) hx.Result { return hx.Result{R: "ok", V: hx.Enc(v)} }

func dsSame(a, b hx.Result) bool {
	if a.R != b.R {
		return false
	}
	if a.R == "ok" {
		return hx.Canon(a.V) == hx.Canon(b.V)
	}
	return true
}

func dsCBOR(x any) (any, error) {
	b, err := cbor.Marshal(x)
	if err != nil {
		return nil, err
	}
	var out any
	if err := cbor.Unmarshal(b, &out); err != nil {
		return nil, err
	}
	return out, nil
}

// dsSafeValue: the type-directed generator assumes generated schemas (a one-of has members, every
// reference resolves in its scope); for anything else fall back to a random value.
func dsSafeValue(g *hx.Gen, ft *hx.Ty) (v *hx.Val) {
	defer func() {
		if r := recover(); r != nil {
			v = g.RandomVal(0)
		}
	}()
	return g.Value(ft, hx.Env{}, 0)
}

// dsPosZero maps -0.0 to +0.0 everywhere (YAML writes both as 0; the model identifies them).
func dsPosZero(v *hx.Val) *hx.Val {
	v.Walk(func(x *hx.Val) {
		if x.Kind == "f" && x.F == 1<<63 {
			x.F = 0
		}
	})
	return v
}
