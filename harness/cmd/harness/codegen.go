package main

// Sub-command `codegen` (property C19): the type-definition generator of
// /repo/cmd/arcaflow-codegen, built from the current working tree and run as a subprocess.
//
//   - generates schema YAML documents from the seed (0..N objects, 0..M properties, every type ID of
//     the schema package, references to existing objects; malformed streams: references to missing
//     objects, properties without a type, names that are not identifiers);
//   - runs the generator on each document with every argument form (no ignore argument, an existing
//     object, a missing object, the empty string `go generate` passes when ARG is unset, two extra
//     arguments), several times each (Go map iteration order differs between runs);
//   - re-parses the emitted file with go/parser, checks gofmt stability with go/format and extracts
//     the declarations;
//   - judges C19 with an oracle that does not use the model: exit status, panic text, parseable,
//     gofmt-stable, identical bytes over the runs, one struct per non-ignored object (name equal to
//     the object name up to letter case), one field per property whose json tag is the property
//     name, and the type mapping of the property statement.
//
// cases.jsonl: {"id","op":"CODEGEN","doc":[[object,[[property,typeId,refId]...]]...],"args":[...]}
// (the doc is listed in a seed-shuffled order: it stands for a map iteration order, which the model
// takes as input). go.jsonl: {"r":"ok","v":{"decls":[...],"raw":"..."}} in emission order, or
// {"r":"panic"}. "raw" is the canonical pre-gofmt rendering of the observed declarations; the
// harness checks that gofmt(raw) is byte-identical to the file the generator wrote.

import (
	"bufio"
	"bytes"
	"context"
	"encoding/json"
	"fmt"
	"go/ast"
	"go/format"
	"go/parser"
	"go/token"
	"go/types"
	"math/rand"
	"os"
	"os/exec"
	"path/filepath"
	"reflect"
	"runtime"
	"sort"
	"strconv"
	"strings"
	"sync"
	"time"
)

func init() {
	register("codegen", func(a Args) { codegenCmd(a) })
}

// ---------------------------------------------------------------------------------------------
// documents

type cgProp struct {
	Name   string
	TypeID string
	RefID  string
	NoType bool // malformed: the property has no `type:` block at all
}

type cgObj struct {
	Name  string
	Props []cgProp
}

type cgDoc struct {
	Objs   []cgObj
	Stream string // valid | missingref | notype | badname
	YAML   string
}

// cgCase is one line of cases.jsonl.
type cgCase struct {
	ID     int       `json:"id"`
	Op     string    `json:"op"`
	Doc    [][]any   `json:"doc"`
	Args   []string  `json:"args"`
	Schema *struct{} `json:"schema"` // always null: keeps bin/compare.py's diff printer happy
	V      *struct{} `json:"v"`      // always null
	Note   string    `json:"note,omitempty"`
	Stream string    `json:"stream,omitempty"`
	DocNo  int       `json:"docno"`
	YAML   string    `json:"yaml,omitempty"`
	objs   []cgObj   // unshuffled
	runKey int       // index of the subprocess group whose observation this case uses
}

type cgField struct {
	Name string `json:"name"`
	Type string `json:"type"`
	Tag  string `json:"tag"`
}

type cgStruct struct {
	Name   string    `json:"name"`
	Fields []cgField `json:"fields"`
}

type cgV struct {
	Decls []cgStruct `json:"decls"`
	Raw   string     `json:"raw"`
}

type cgResult struct {
	R   string `json:"r"`
	V   *cgV   `json:"v,omitempty"`
	Msg string `json:"msg,omitempty"` // diagnostics only
}

type cgFinding struct {
	Prop   string   `json:"prop"`
	What   string   `json:"what"`
	Cases  []int    `json:"cases"`
	Stream string   `json:"stream,omitempty"`
	Args   []string `json:"args"`
	YAML   string   `json:"yaml,omitempty"`
	Detail []string `json:"detail,omitempty"`
}

// every type ID the schema package defines (schema/types.go)
var cgTypeIDs = []string{
	"string", "integer", "float", "bool", "pattern", "enum_string", "enum_integer", "list", "map",
	"object", "one_of_string", "one_of_int", "scope", "any", "ref",
}

var cgGoKeywords = []string{
	"break", "case", "chan", "const", "continue", "default", "defer", "else", "fallthrough", "for",
	"func", "go", "goto", "if", "import", "interface", "map", "package", "range", "return",
	"select", "struct", "switch", "type", "var",
}

// words YAML resolves to something else than a string when written plain
var cgYAMLWords = []string{"null", "Null", "NULL", "true", "false", "yes", "no", "on", "off", "y", "n", "True", "Yes"}

var cgWords = []string{
	"connection", "bearerToken", "burst", "qps", "metadata", "ObjectMeta", "Connection", "spec",
	"podSpec", "name", "namespace", "labels", "host", "path", "cacert", "serverName", "timeout",
	"x", "Y", "kubeconfig", "id", "URL", "httpProxy", "v1", "a", "B",
}

type cgGen struct {
	r     *rand.Rand
	stats map[string]int
}

func (g *cgGen) pick(xs []string) string { return xs[g.r.Intn(len(xs))] }

const cgLower = "abcdefghijklmnopqrstuvwxyz"
const cgUpper = "ABCDEFGHIJKLMNOPQRSTUVWXYZ"
const cgDigit = "0123456789"

// ident returns a valid ASCII identifier; the classes cover what the title-casing and the Go
// parser care about (needs capitalisation, underscores, digits, keywords, predeclared names...).
func (g *cgGen) ident() string {
	cls := g.r.Intn(14)
	var s string
	switch cls {
	case 0, 1:
		s = g.pick(cgWords)
		g.stats["name:word"]++
	case 2:
		s = g.pick(cgWords) + "_" + g.pick(cgWords)
		g.stats["name:snake"]++
	case 3:
		s = "_" + g.pick(cgWords)
		g.stats["name:leading_underscore"]++
	case 4:
		s = g.pick(cgWords) + strconv.Itoa(g.r.Intn(100))
		g.stats["name:trailing_digits"]++
	case 5:
		s = g.pick(cgGoKeywords)
		g.stats["name:go_keyword"]++
	case 6:
		s = g.pick(cgTypeIDs)
		g.stats["name:type_id"]++
	case 7:
		s = g.pick([]string{"int64", "float64", "string", "bool", "any", "error", "nil", "len", "v1", "metav1", "json"})
		g.stats["name:predeclared"]++
	case 8:
		s = g.pick(cgYAMLWords)
		g.stats["name:yaml_word"]++
	case 9:
		s = g.pick([]string{"_", "__", "_1", "_9a", "__x", "_1_", "a_", "A_1b", "_A"})
		g.stats["name:underscore_digit"]++
	default:
		// random identifier
		n := 1 + g.r.Intn(8)
		var b strings.Builder
		first := cgLower + cgLower + cgUpper + "_"
		rest := cgLower + cgLower + cgUpper + cgDigit + "__"
		b.WriteByte(first[g.r.Intn(len(first))])
		for i := 1; i < n; i++ {
			b.WriteByte(rest[g.r.Intn(len(rest))])
		}
		s = b.String()
		g.stats["name:random"]++
	}
	return s
}

// cgUniWords: identifiers with letters outside ASCII whose first letter has a one-letter title case
// (no ß, no ligatures in front: their title case is two letters and the struct would not be named after the object
// up to letter case).
var cgUniWords = []string{"größe", "Maßeinheit", "señal", "año", "имя", "данные", "Ärger", "ünit", "naïve", "日付", "名前",
	"été", "Ωmega", "λ", "ключ", "straße", "coût", "zażółć", "Ελλάδα", "x_é", "_ö1", "поле2"}

// identU returns a valid identifier that contains at least one letter outside ASCII.
func (g *cgGen) identU() string {
	w := g.pick(cgUniWords)
	switch g.r.Intn(5) {
	case 0:
		w = g.pick(cgWords) + "_" + w
	case 1:
		w = w + strconv.Itoa(g.r.Intn(100))
	case 2:
		w = w + "_" + g.pick(cgUniWords)
	}
	g.stats["name:unicode"]++
	return w
}

// badName returns a name that is not an identifier (malformed stream).
func (g *cgGen) badName() string {
	w1, w2 := g.pick(cgWords), g.pick(cgWords)
	return w1 + g.pick([]string{"-", ".", " "}) + w2
}

func (g *cgGen) distinct(used map[string]bool, mk func() string) string {
	for {
		s := mk()
		if !used[s] {
			used[s] = true
			return s
		}
	}
}

func (g *cgGen) doc(thorough bool) *cgDoc {
	d := &cgDoc{}
	switch p := g.r.Intn(100); {
	case p < 8:
		// valid identifiers with letters outside ASCII (a Go identifier is letters and digits in the Unicode
		// sense); oracle-only: the model's identifiers are ASCII
		d.Stream = "unicode"
	case p < 78:
		d.Stream = "valid"
	case p < 88:
		d.Stream = "missingref"
	case p < 94:
		d.Stream = "notype"
	default:
		d.Stream = "badname"
	}
	maxObj, maxProp := 6, 6
	if thorough {
		maxObj, maxProp = 10, 9
	}
	nObj := 0
	switch p := g.r.Intn(20); {
	case p == 0:
		nObj = 0
	case p < 4:
		nObj = 1
	case p < 8:
		nObj = 2
	default:
		nObj = 3 + g.r.Intn(maxObj-2)
	}
	if d.Stream != "valid" && nObj == 0 {
		nObj = 1
	}
	used := map[string]bool{}
	mkName := g.ident
	if d.Stream == "unicode" {
		mkName = g.identU
		if nObj == 0 {
			nObj = 1
		}
	}
	for i := 0; i < nObj; i++ {
		name := g.distinct(used, mkName)
		// now and then a second object whose name differs only in the case of the first letter
		if i > 0 && g.r.Intn(25) == 0 {
			prev := d.Objs[g.r.Intn(i)].Name
			alt := cgFlipFirst(prev)
			if alt != prev && !used[alt] {
				used[alt] = true
				name = alt
				g.stats["doc:title_collision"]++
			}
		}
		d.Objs = append(d.Objs, cgObj{Name: name})
	}
	for i := range d.Objs {
		nProp := 0
		switch p := g.r.Intn(10); {
		case p == 0:
			nProp = 0
		case p < 3:
			nProp = 1
		default:
			nProp = 2 + g.r.Intn(maxProp-1)
		}
		usedP := map[string]bool{}
		for j := 0; j < nProp; j++ {
			pr := cgProp{Name: g.distinct(usedP, mkName)}
			pr.TypeID = g.pick(cgTypeIDs)
			if g.r.Intn(8) == 0 {
				pr.TypeID = "ref"
			}
			if pr.TypeID == "ref" {
				pr.RefID = d.Objs[g.r.Intn(len(d.Objs))].Name
			}
			d.Objs[i].Props = append(d.Objs[i].Props, pr)
		}
	}
	// malformed streams: make sure the feature occurs at least once
	switch d.Stream {
	case "missingref":
		o := &d.Objs[g.r.Intn(len(d.Objs))]
		if len(o.Props) == 0 {
			o.Props = append(o.Props, cgProp{Name: g.ident()})
		}
		k := g.r.Intn(len(o.Props))
		o.Props[k].TypeID = "ref"
		o.Props[k].RefID = g.distinct(used, g.ident) // not an object of this document
	case "notype":
		o := &d.Objs[g.r.Intn(len(d.Objs))]
		if len(o.Props) == 0 {
			o.Props = append(o.Props, cgProp{Name: g.ident()})
		}
		k := g.r.Intn(len(o.Props))
		if g.r.Intn(2) == 0 {
			o.Props[k] = cgProp{Name: o.Props[k].Name, NoType: true}
		} else {
			o.Props[k] = cgProp{Name: o.Props[k].Name, TypeID: "ref"} // reference without id
		}
	case "badname":
		o := &d.Objs[g.r.Intn(len(d.Objs))]
		if g.r.Intn(2) == 0 || len(o.Props) == 0 {
			o.Name = g.distinct(used, g.badName)
		} else {
			o.Props[g.r.Intn(len(o.Props))].Name = g.badName()
		}
	}
	d.YAML = g.yaml(d)
	g.stats["stream:"+d.Stream]++
	g.stats[fmt.Sprintf("objects:%02d", len(d.Objs))]++
	for _, o := range d.Objs {
		g.stats[fmt.Sprintf("properties:%02d", len(o.Props))]++
		for _, p := range o.Props {
			if p.NoType {
				g.stats["type:<none>"]++
			} else {
				g.stats["type:"+p.TypeID]++
			}
		}
	}
	return d
}

func cgFlipFirst(s string) string {
	if s == "" {
		return s
	}
	c := s[0]
	switch {
	case c >= 'a' && c <= 'z':
		return string(c-32) + s[1:]
	case c >= 'A' && c <= 'Z':
		return string(c+32) + s[1:]
	}
	return s
}

// key writes a YAML mapping key: plain where YAML reads a string, quoted where it would not
// (null, booleans of YAML 1.1) and sometimes just for variety.
func (g *cgGen) key(s string) string {
	for _, w := range cgYAMLWords {
		if strings.EqualFold(w, s) {
			return strconv.Quote(s)
		}
	}
	if s == "~" || g.r.Intn(8) == 0 {
		return strconv.Quote(s)
	}
	return s
}

func (g *cgGen) yaml(d *cgDoc) string {
	var b strings.Builder
	if len(d.Objs) == 0 && g.r.Intn(3) == 0 {
		// no objects, written as a file that contains no YAML document at all
		return []string{"", "\n", "\n\n", "# nothing to generate\n", "  # only a comment\n\n", "---\n", "~\n", "{}\n", "steps: {}\n"}[g.r.Intn(9)]
	}
	if g.r.Intn(3) == 0 {
		b.WriteString("version: v0.2.0\n")
	}
	b.WriteString("steps:\n  create:\n    id: create\n    input:\n")
	if len(d.Objs) == 0 {
		switch g.r.Intn(3) {
		case 0:
			b.WriteString("      objects: {}\n")
		case 1:
			b.WriteString("      root: none\n")
		default:
			b.WriteString("      objects:\n")
		}
		return b.String()
	}
	if g.r.Intn(2) == 0 {
		b.WriteString("      root: " + g.key(d.Objs[0].Name) + "\n")
	}
	b.WriteString("      objects:\n")
	for _, o := range d.Objs {
		if len(o.Props) == 0 && g.r.Intn(3) == 0 {
			// an object without properties written with a null body: the key alone, or an explicit null
			b.WriteString("        " + g.key(o.Name) + ":" + []string{"", " ~", " null"}[g.r.Intn(3)] + "\n")
			continue
		}
		b.WriteString("        " + g.key(o.Name) + ":\n")
		b.WriteString("          id: " + g.key(o.Name) + "\n")
		if len(o.Props) == 0 {
			if g.r.Intn(2) == 0 {
				b.WriteString("          properties: {}\n")
			}
			continue
		}
		b.WriteString("          properties:\n")
		for _, p := range o.Props {
			b.WriteString("            " + g.key(p.Name) + ":\n")
			switch g.r.Intn(6) {
			case 0, 1:
				b.WriteString("              display:\n                name: " + strconv.Quote("The "+p.Name) + "\n")
			case 2: // display data the generator must ignore: descriptions of one and of several lines, an icon
				b.WriteString("              display:\n                name: " + strconv.Quote("The "+p.Name) + "\n")
				b.WriteString("                description: " + strconv.Quote("one line // with `marks` */ and a trailing break\n") + "\n")
			case 3:
				b.WriteString("              display:\n                description: |\n                  The " + p.Name + " of the object.\n                  Optional\n")
				b.WriteString("                icon: \"<svg/>\"\n")
			case 4:
				b.WriteString("              display:\n                description: |\n                  First sentence of the text.\n                  The second line is a sentence too, with a } brace.\n")
			}
			if g.r.Intn(2) == 0 {
				b.WriteString("              required: " + []string{"true", "false"}[g.r.Intn(2)] + "\n")
			}
			if p.NoType {
				if g.r.Intn(2) == 0 {
					b.WriteString("              type: {}\n")
				} else {
					b.WriteString("              required_if: []\n")
				}
				continue
			}
			b.WriteString("              type:\n")
			hasMin := false
			if p.TypeID == "ref" && p.RefID != "" && g.r.Intn(2) == 0 {
				b.WriteString("                id: " + g.key(p.RefID) + "\n")
				b.WriteString("                type_id: ref\n")
			} else {
				b.WriteString("                type_id: " + p.TypeID + "\n")
				if p.TypeID == "ref" && p.RefID != "" {
					b.WriteString("                id: " + g.key(p.RefID) + "\n")
				}
				if p.TypeID == "integer" && g.r.Intn(2) == 0 {
					b.WriteString("                min: 0\n")
					hasMin = true
				}
			}
			// the rest of what a schema file says about a type (bounds, units, patterns, items): the generator
			// reads none of it, whatever its YAML type is
			if g.r.Intn(3) == 0 {
				bound := func() string {
					return g.pick([]string{"0", "1", "-5", "255", "0.05", "0.5", "2.5e3", "1.0e+30", "9.3e+18", "-1.7976931348623157e+308",
						"1.7976931348623157e+308", ".inf", "-.inf", "9223372036854775807", "18446744073709551615", "99999999999999999999", "\"10\"", "~"})
				}
				switch p.TypeID {
				case "integer", "float", "string", "list", "map":
					if !hasMin && g.r.Intn(2) == 0 {
						b.WriteString("                min: " + bound() + "\n")
					}
					if g.r.Intn(2) == 0 {
						b.WriteString("                max: " + bound() + "\n")
					}
					g.stats["type:extra-bounds"]++
				}
				switch p.TypeID {
				case "integer", "float":
					if g.r.Intn(2) == 0 {
						b.WriteString("                units:\n                  base_unit:\n                    name_short_singular: B\n                    name_short_plural: B\n                    name_long_singular: byte\n                    name_long_plural: bytes\n                  multipliers:\n                    1024:\n                      name_short_singular: kB\n                      name_short_plural: kB\n                      name_long_singular: kilobyte\n                      name_long_plural: kilobytes\n")
					}
				case "string":
					if g.r.Intn(2) == 0 {
						b.WriteString("                pattern: " + strconv.Quote("^[a-z]+$") + "\n")
					}
				case "list":
					b.WriteString("                items:\n                  type_id: string\n                  max: " + bound() + "\n")
				case "map":
					b.WriteString("                keys:\n                  type_id: integer\n                  min: " + bound() + "\n                values:\n                  type_id: float\n")
				}
			}
		}
	}
	// further steps, which the generator does not read: their input objects reuse the object IDs of
	// the create step with other properties, and add objects of their own (names sorting before and
	// after "create")
	if g.r.Intn(3) == 0 {
		steps := []string{"alpha", "delete", "update", "zeta"}
		g.r.Shuffle(len(steps), func(i, j int) { steps[i], steps[j] = steps[j], steps[i] })
		for _, st := range steps[:1+g.r.Intn(len(steps))] {
			b.WriteString("  " + st + ":\n    id: " + st + "\n    input:\n      objects:\n")
			for i, o := range d.Objs {
				if i > 2 {
					break
				}
				b.WriteString("        " + g.key(o.Name) + ":\n          id: " + g.key(o.Name) + "\n          properties:\n")
				b.WriteString("            only_in_" + st + ":\n              type:\n                type_id: " + []string{"string", "integer", "bool", "float"}[g.r.Intn(4)] + "\n")
			}
			b.WriteString("        Own" + st + ":\n          id: Own" + st + "\n          properties:\n            q:\n              type:\n                type_id: string\n")
		}
	}
	return b.String()
}

// shuffledDoc lists the document for the model in a pseudo-random order of objects and properties.
func (g *cgGen) shuffledDoc(objs []cgObj, reverse bool) [][]any {
	oi := g.r.Perm(len(objs))
	out := make([][]any, 0, len(objs))
	for _, i := range oi {
		o := objs[i]
		pi := g.r.Perm(len(o.Props))
		ps := make([][]string, 0, len(o.Props))
		for _, j := range pi {
			p := o.Props[j]
			ps = append(ps, []string{p.Name, p.TypeID, p.RefID})
		}
		out = append(out, []any{o.Name, ps})
	}
	if reverse {
		for i, j := 0, len(out)-1; i < j; i, j = i+1, j-1 {
			out[i], out[j] = out[j], out[i]
		}
	}
	return out
}

// ---------------------------------------------------------------------------------------------
// running the generator

type cgRun struct {
	exit   int
	stderr string
	out    []byte // typedef_output.go, nil if not written
	hang   bool
}

type cgGroup struct {
	yaml string
	args []string // os.Args[1:]
	reps int
	runs []cgRun
}

func cgRepo() string {
	if r := os.Getenv("VERIF_REPO"); r != "" {
		return r
	}
	return "/repo"
}

func cgBuild(outDir string) (string, error) {
	bin, err := filepath.Abs(filepath.Join(outDir, "codegen-bin"))
	if err != nil {
		return "", err
	}
	_ = os.Remove(bin)
	cmd := exec.Command("go", "build", "-o", bin, ".")
	cmd.Dir = filepath.Join(cgRepo(), "cmd", "arcaflow-codegen")
	cmd.Env = append(os.Environ(), "GOFLAGS=-mod=mod", "GOPROXY=off", "GOSUMDB=off", "GOTOOLCHAIN=local")
	if b, err := cmd.CombinedOutput(); err != nil {
		return "", fmt.Errorf("go build of the generator failed: %v\n%s", err, b)
	}
	return bin, nil
}

func cgExec(bin, work string, n int, grp *cgGroup) {
	for rep := 0; rep < grp.reps; rep++ {
		dir := filepath.Join(work, fmt.Sprintf("%d-%d", n, rep))
		if err := os.MkdirAll(dir, 0o755); err != nil {
			panic(err)
		}
		if err := os.WriteFile(filepath.Join(dir, "schema_input.yaml"), []byte(grp.yaml), 0o644); err != nil {
			panic(err)
		}
		var staleOut []byte
		if rep%2 == 1 {
			// `go generate` re-runs in the directory that already holds the previous output: an older,
			// longer typedef_output.go must be replaced, not overwritten in place
			var stale bytes.Buffer
			stale.WriteString("package arcaflow_plugin_service\n\n")
			for i := 0; i < 400; i++ {
				fmt.Fprintf(&stale, "type Stale%d struct {\n\tLeftover%d string `json:\"leftover_%d\"`\n}\n\n", i, i, i)
			}
			staleOut = stale.Bytes()
			if err := os.WriteFile(filepath.Join(dir, "typedef_output.go"), staleOut, 0o644); err != nil {
				panic(err)
			}
		}
		ctx, cancel := context.WithTimeout(context.Background(), 30*time.Second)
		cmd := exec.CommandContext(ctx, bin, grp.args...)
		cmd.Dir = dir
		var stderr bytes.Buffer
		cmd.Stderr = &stderr
		cmd.Stdout = nil
		err := cmd.Run()
		run := cgRun{stderr: stderr.String()}
		if ctx.Err() != nil {
			run.hang = true
		}
		cancel()
		if err != nil {
			run.exit = -1
			if ee, ok := err.(*exec.ExitError); ok {
				run.exit = ee.ExitCode()
			}
		}
		if b, err := os.ReadFile(filepath.Join(dir, "typedef_output.go")); err == nil && !bytes.Equal(b, staleOut) {
			run.out = b // (an untouched stale file means: no output written)
		}
		grp.runs = append(grp.runs, run)
		_ = os.RemoveAll(dir)
	}
}

// ---------------------------------------------------------------------------------------------
// reading the output back

const cgTypeDefImports = "package arcaflow_plugin_service\n\nimport (\n    v1 \"k8s.io/api/core/v1\"\n    metav1 \"k8s.io/apimachinery/pkg/apis/meta/v1\"\n)\n"

// cgExtract parses the generated file and lists its struct declarations in file order.
// problems: everything in the file that is not a struct type declaration or the fixed prelude.
func cgExtract(src []byte) (decls []cgStruct, problems []string, err error) {
	fset := token.NewFileSet()
	f, err := parser.ParseFile(fset, "typedef_output.go", src, parser.ParseComments|parser.SkipObjectResolution)
	if err != nil {
		return nil, nil, err
	}
	if f.Name.Name != "arcaflow_plugin_service" {
		problems = append(problems, "package name "+f.Name.Name)
	}
	decls = []cgStruct{}
	for _, d := range f.Decls {
		gd, ok := d.(*ast.GenDecl)
		if !ok {
			problems = append(problems, "unexpected function declaration")
			continue
		}
		if gd.Tok == token.IMPORT {
			continue
		}
		if gd.Tok != token.TYPE {
			problems = append(problems, "unexpected "+gd.Tok.String()+" declaration")
			continue
		}
		for _, sp := range gd.Specs {
			ts := sp.(*ast.TypeSpec)
			st, ok := ts.Type.(*ast.StructType)
			if !ok || ts.Assign.IsValid() || ts.TypeParams != nil {
				problems = append(problems, "type "+ts.Name.Name+" is not a plain struct declaration")
				continue
			}
			s := cgStruct{Name: ts.Name.Name, Fields: []cgField{}}
			for _, fl := range st.Fields.List {
				tag := ""
				if fl.Tag == nil {
					problems = append(problems, "field without tag in "+s.Name)
				} else if uq, err := strconv.Unquote(fl.Tag.Value); err != nil {
					problems = append(problems, "unreadable tag in "+s.Name)
				} else if v, ok := reflect.StructTag(uq).Lookup("json"); !ok {
					problems = append(problems, "tag without json key in "+s.Name+": "+uq)
				} else {
					tag = v
				}
				ty := types.ExprString(fl.Type)
				if len(fl.Names) == 0 {
					// `Name `json:"..."``: an embedded field; happens when the type is empty
					s.Fields = append(s.Fields, cgField{Name: ty, Type: "", Tag: tag})
					continue
				}
				for _, n := range fl.Names {
					s.Fields = append(s.Fields, cgField{Name: n.Name, Type: ty, Tag: tag})
				}
			}
			decls = append(decls, s)
		}
	}
	return decls, problems, nil
}

// cgRaw is the canonical text (before gofmt) of a file with these declarations.
func cgRaw(args []string, decls []cgStruct) string {
	var b strings.Builder
	fmt.Fprintf(&b, "// Code generated by \"gen %s\"\n", strings.Join(args, " "))
	b.WriteString(cgTypeDefImports)
	for _, s := range decls {
		fmt.Fprintf(&b, "\ntype %s struct {\n", s.Name)
		for _, f := range s.Fields {
			// an empty type leaves two blanks, exactly as the generator's format string does
			fmt.Fprintf(&b, "\t%s %s `json:\"%s\"`\n", f.Name, f.Type, f.Tag)
		}
		b.WriteString("}\n")
	}
	return b.String()
}

// ---------------------------------------------------------------------------------------------
// the oracle (C19 as stated, no model involved)

// cgExpectedType is the type mapping of the property statement. For a reference the expectation
// depends on the emitted structs and is handled by the caller. "map" cannot be emitted verbatim
// (Go keyword); the repaired generator writes map[any]any.
func cgExpectedType(typeID string) string {
	switch typeID {
	case "integer":
		return "int64"
	case "float":
		return "float64"
	case "map":
		return "map[any]any"
	}
	return typeID
}

// cgCheckStruct returns "" if struct s is a correct rendering of object o.
func cgCheckStruct(o cgObj, s cgStruct, structOfObj map[string][]string) string {
	if !strings.EqualFold(o.Name, s.Name) {
		return fmt.Sprintf("struct %s is not named after object %s", s.Name, o.Name)
	}
	if len(s.Fields) != len(o.Props) {
		return fmt.Sprintf("object %s has %d properties, struct %s has %d fields", o.Name, len(o.Props), s.Name, len(s.Fields))
	}
	byTag := map[string][]cgField{}
	for _, f := range s.Fields {
		byTag[f.Tag] = append(byTag[f.Tag], f)
	}
	for _, p := range o.Props {
		fs := byTag[p.Name]
		if len(fs) != 1 {
			return fmt.Sprintf("object %s property %s: %d fields tagged json:%q", o.Name, p.Name, len(fs), p.Name)
		}
		f := fs[0]
		if !strings.EqualFold(f.Name, p.Name) {
			return fmt.Sprintf("object %s property %s: field is called %s", o.Name, p.Name, f.Name)
		}
		if p.TypeID == "ref" {
			if want, ok := structOfObj[p.RefID]; ok {
				// the referenced object has a struct in this file: the field must be typed by it
				// (several candidates only when object names differ in nothing but letter case)
				hit := false
				for _, w := range want {
					hit = hit || f.Type == w
				}
				if !hit {
					return fmt.Sprintf("object %s property %s: reference to %s is typed %s, but the struct of that object is called %s", o.Name, p.Name, p.RefID, f.Type, strings.Join(want, " or "))
				}
			} else if !strings.EqualFold(f.Type, p.RefID) {
				return fmt.Sprintf("object %s property %s: reference to %s is typed %s", o.Name, p.Name, p.RefID, f.Type)
			}
			continue
		}
		if want := cgExpectedType(p.TypeID); f.Type != want {
			return fmt.Sprintf("object %s property %s: type_id %s is typed %s, want %s", o.Name, p.Name, p.TypeID, f.Type, want)
		}
	}
	return ""
}

// cgCheckDecls matches the emitted structs with the non-ignored objects, one to one.
func cgCheckDecls(objs []cgObj, ignore *string, decls []cgStruct) []string {
	var want []cgObj
	for _, o := range objs {
		if ignore != nil && *ignore == o.Name {
			continue
		}
		want = append(want, o)
	}
	var out []string
	if len(want) != len(decls) {
		out = append(out, fmt.Sprintf("%d non-ignored objects but %d structs", len(want), len(decls)))
	}
	// which struct stands for which object (by name up to case; exact when unambiguous)
	structOfObj := map[string][]string{}
	for _, o := range want {
		var cands []string
		for _, s := range decls {
			if strings.EqualFold(s.Name, o.Name) {
				cands = append(cands, s.Name)
			}
		}
		if len(cands) > 0 {
			structOfObj[o.Name] = cands
		}
	}
	used := make([]bool, len(decls))
	for _, o := range want {
		found := false
		firstWhy, countWhy := "", ""
		for i, s := range decls {
			if used[i] || !strings.EqualFold(s.Name, o.Name) {
				continue
			}
			why := cgCheckStruct(o, s, structOfObj)
			if why == "" {
				used[i] = true
				found = true
				break
			}
			// with several candidates (names equal up to case) prefer the most specific reason
			if len(s.Fields) != len(o.Props) {
				if countWhy == "" {
					countWhy = why
				}
			} else if firstWhy == "" {
				firstWhy = why
			}
		}
		if !found {
			if firstWhy == "" {
				firstWhy = countWhy
			}
			if firstWhy == "" {
				firstWhy = "no struct for object " + o.Name
			}
			out = append(out, firstWhy)
		}
	}
	for i, s := range decls {
		if !used[i] {
			isIgnored := ignore != nil && strings.EqualFold(*ignore, s.Name)
			extra := "struct " + s.Name + " does not correspond to a non-ignored object"
			if isIgnored {
				extra = "struct " + s.Name + " was emitted although the object is ignored"
			}
			// only report when not already explained by a mismatch above
			if len(out) == 0 || isIgnored {
				out = append(out, extra)
			}
		}
	}
	return out
}

// ---------------------------------------------------------------------------------------------

func cgIgnoreOf(args []string) *string {
	if len(args) >= 2 {
		return &args[1]
	}
	return nil
}

func codegenCmd(a Args) {
	start := time.Now()
	if err := os.MkdirAll(a.Out, 0o755); err != nil {
		panic(err)
	}
	thorough := a.Tier == "thorough"
	nDocs, reps := 150, 4
	if thorough {
		nDocs, reps = 3000, 6
	}
	if a.N != 200 { // explicit -n
		nDocs = a.N
	}
	open := func(name string) (*os.File, *bufio.Writer) {
		f, err := os.Create(filepath.Join(a.Out, name))
		if err != nil {
			panic(err)
		}
		return f, bufio.NewWriterSize(f, 1<<20)
	}
	fc, wc := open("cases.jsonl")
	fg, wg := open("go.jsonl")
	ff, wf := open("findings.jsonl")
	defer func() {
		wc.Flush()
		wg.Flush()
		wf.Flush()
		fc.Close()
		fg.Close()
		ff.Close()
	}()
	stats := map[string]int{}
	nFindings := 0
	finding := func(f cgFinding) {
		f.Prop = "C19"
		b, _ := json.Marshal(f)
		wf.Write(b)
		wf.WriteByte('\n')
		nFindings++
		stats["finding:"+strings.SplitN(f.What, ":", 2)[0]]++
	}
	writeStats := func(extra map[string]any) {
		st := map[string]any{"harness": stats, "seed": a.Seed, "tier": a.Tier}
		for k, v := range extra {
			st[k] = v
		}
		b, _ := json.MarshalIndent(st, "", " ")
		_ = os.WriteFile(filepath.Join(a.Out, "stats.json"), b, 0o644)
	}

	// 1. build the generator from the working tree (every run)
	bin, err := cgBuild(a.Out)
	if err != nil {
		finding(cgFinding{What: "build: the generator does not build", Cases: []int{}, Args: []string{}, Detail: []string{err.Error()}})
		writeStats(nil)
		wc.Flush()
		wg.Flush()
		wf.Flush()
		fmt.Fprintln(os.Stderr, err)
		os.Exit(1)
	}
	buildTime := time.Since(start)

	// 1b. the documented stand-alone entry point: `[ARG=object] go generate` in the generator's folder, several
	// times in the same folder (the second run finds the first run's output there)
	for _, why := range cgGoGenerateWitness(a.Out) {
		finding(cgFinding{What: "go-generate: " + why[0], Cases: []int{}, Args: []string{}, Detail: why[1:]})
	}
	stats["go-generate-witness"]++

	// 2. cases
	g := &cgGen{r: rand.New(rand.NewSource(a.Seed)), stats: map[string]int{}}
	var cases []*cgCase
	var groups []*cgGroup
	addGroup := func(yaml string, args []string) int {
		groups = append(groups, &cgGroup{yaml: yaml, args: args, reps: reps})
		return len(groups) - 1
	}
	addCase := func(docNo int, d *cgDoc, args []string, note string, grp int, reverse bool) {
		c := &cgCase{ID: len(cases) + 1, Op: "CODEGEN", Doc: g.shuffledDoc(d.Objs, reverse), Args: args,
			Note: note, Stream: d.Stream, DocNo: docNo, YAML: d.YAML, objs: d.Objs, runKey: grp}
		if c.Doc == nil {
			c.Doc = [][]any{}
		}
		cases = append(cases, c)
		g.stats["form:"+note]++
	}
	if a.Replay != "" {
		cgReplay(a.Replay, &cases, addGroup)
		docs := map[int]bool{}
		for _, c := range cases {
			docs[c.DocNo] = true
		}
		nDocs = len(docs)
	} else {
		const file = "schema_input.yaml"
		for n := 0; n < nDocs; n++ {
			d := g.doc(thorough)
			// without the ignore argument; the model sees two different iteration orders
			k := addGroup(d.YAML, []string{file})
			addCase(n, d, []string{file}, "no-ignore", k, false)
			addCase(n, d, []string{file}, "no-ignore/other-order", k, true)
			// an existing object
			if len(d.Objs) > 0 {
				ig := d.Objs[g.r.Intn(len(d.Objs))].Name
				args := []string{file, ig}
				addCase(n, d, args, "ignore-existing", addGroup(d.YAML, args), false)
			}
			// an object that does not exist (sometimes differing from one only by case)
			used := map[string]bool{}
			for _, o := range d.Objs {
				used[o.Name] = true
			}
			miss := g.distinct(used, g.ident)
			if len(d.Objs) > 0 && g.r.Intn(3) == 0 {
				if alt := cgFlipFirst(d.Objs[0].Name); !used[alt] {
					miss = alt
				}
			}
			args := []string{file, miss}
			addCase(n, d, args, "ignore-missing", addGroup(d.YAML, args), false)
			// the name of a PROPERTY as the ignore argument: it names no object (unless an object happens to
			// carry the same name), so nothing but such an object may disappear - in particular no field
			for _, o := range d.Objs {
				if len(o.Props) > 0 && g.r.Intn(3) == 0 {
					pn := o.Props[g.r.Intn(len(o.Props))].Name
					args := []string{file, pn}
					addCase(n, d, args, "ignore-property-name", addGroup(d.YAML, args), false)
					break
				}
			}
			// `go generate` with ARG unset passes an empty argument
			if g.r.Intn(2) == 0 {
				args := []string{file, ""}
				addCase(n, d, args, "ignore-empty", addGroup(d.YAML, args), false)
			}
			// two extra arguments: only the first one is looked at
			if len(d.Objs) > 1 && g.r.Intn(4) == 0 {
				args := []string{file, d.Objs[0].Name, d.Objs[1].Name}
				addCase(n, d, args, "two-extra-args", addGroup(d.YAML, args), false)
			}
		}
	}

	// 3. run all groups on all cores
	work := filepath.Join(a.Out, "work")
	_ = os.RemoveAll(work)
	if err := os.MkdirAll(work, 0o755); err != nil {
		panic(err)
	}
	runStart := time.Now()
	var wgr sync.WaitGroup
	jobs := make(chan int)
	workers := runtime.NumCPU()
	if workers > 16 {
		workers = 16
	}
	for w := 0; w < workers; w++ {
		wgr.Add(1)
		go func() {
			defer wgr.Done()
			for n := range jobs {
				cgExec(bin, work, n, groups[n])
			}
		}()
	}
	for n := range groups {
		jobs <- n
	}
	close(jobs)
	wgr.Wait()
	_ = os.RemoveAll(work)
	runTime := time.Since(runStart)

	// 4. observe and judge
	judged := map[int]bool{}
	for _, c := range cases {
		grp := groups[c.runKey]
		first := grp.runs[0]
		res := cgResult{}
		var decls []cgStruct
		var problems []string
		var perr error
		if first.exit != 0 || first.out == nil {
			res.R = "panic"
			res.Msg = cgFirstLines(first.stderr, 2)
			if first.exit == 0 {
				res.R = "err"
				res.Msg = "no output file"
			}
		} else {
			decls, problems, perr = cgExtract(first.out)
			if perr != nil {
				res.R = "ok"
				res.V = &cgV{Decls: []cgStruct{}, Raw: ""}
				res.Msg = "unparseable: " + perr.Error()
			} else {
				res.R = "ok"
				res.V = &cgV{Decls: decls, Raw: cgRaw(grp.args, decls)}
			}
		}
		if c.Stream != "unicode" { // oracle-only: not a model case
			cb, err := json.Marshal(c)
			if err != nil {
				panic(err)
			}
			wc.Write(cb)
			wc.WriteByte('\n')
			rb, _ := json.Marshal(res)
			wg.Write(rb)
			wg.WriteByte('\n')
		}
		stats["case:"+c.Stream+":"+res.R]++

		if judged[c.runKey] {
			continue // second model order of the same runs
		}
		judged[c.runKey] = true
		stats["runs"] += len(grp.runs)
		mk := func(what string, detail ...string) cgFinding {
			return cgFinding{What: what, Cases: []int{c.ID}, Stream: c.Stream, Args: grp.args, YAML: grp.yaml, Detail: detail}
		}
		inScope := c.Stream == "valid" || c.Stream == "missingref" || c.Stream == "unicode"
		// repeated runs: identical observable behaviour (all streams: same input, same output)
		for i, r := range grp.runs[1:] {
			if r.exit != first.exit || !bytes.Equal(r.out, first.out) {
				finding(mk(fmt.Sprintf("nondeterministic: run %d on the same input differs from run 1", i+2),
					cgFirstLines(first.stderr, 2), string(first.out), cgFirstLines(r.stderr, 2), string(r.out)))
				break
			}
		}
		if !inScope {
			continue // malformed input: C19 promises nothing; the model is still compared
		}
		bad := false
		for i, r := range grp.runs {
			if r.hang {
				finding(mk(fmt.Sprintf("hang: run %d did not finish in 30 s", i+1)))
				bad = true
				break
			}
			if r.exit != 0 || strings.Contains(r.stderr, "panic:") || strings.Contains(r.stderr, "fatal error:") {
				finding(mk(fmt.Sprintf("panic: run %d exited with status %d", i+1, r.exit), cgFirstLines(r.stderr, 3)))
				bad = true
				break
			}
			if r.out == nil {
				finding(mk(fmt.Sprintf("no-output: run %d wrote no typedef_output.go", i+1)))
				bad = true
				break
			}
		}
		if bad {
			continue
		}
		if perr != nil {
			finding(mk("unparseable: the output is not valid Go", perr.Error(), string(first.out)))
			continue
		}
		if fm, err := format.Source(first.out); err != nil || !bytes.Equal(fm, first.out) {
			finding(mk("not-gofmt: the output is not gofmt-stable", string(first.out)))
		}
		if len(problems) > 0 {
			finding(mk("extra-content: the output holds more than the struct declarations", problems...))
		}
		if fm, err := format.Source([]byte(res.V.Raw)); err != nil || !bytes.Equal(fm, first.out) {
			finding(mk("not-canonical: the output is not gofmt of the plain rendering of its declarations", string(first.out), res.V.Raw))
		}
		if why := cgCheckDecls(c.objs, cgIgnoreOf(grp.args), decls); len(why) > 0 {
			finding(mk("declarations: "+why[0], append(why[1:], string(first.out))...))
		}
	}
	writeStats(map[string]any{
		"generator": g.stats,
		"documents": nDocs, "cases": len(cases), "subprocess_groups": len(groups), "repetitions": reps,
		"findings": nFindings, "workers": workers,
		"build_seconds": buildTime.Seconds(), "run_seconds": runTime.Seconds(), "total_seconds": time.Since(start).Seconds(),
		"generator_source": filepath.Join(cgRepo(), "cmd", "arcaflow-codegen"),
	})
	fmt.Printf("codegen: %d documents, %d cases, %d subprocess runs, %d findings, %.1fs\n",
		nDocs, len(cases), stats["runs"], nFindings, time.Since(start).Seconds())
}

func cgFirstLines(s string, n int) string {
	lines := strings.Split(strings.TrimSpace(s), "\n")
	var keep []string
	for _, l := range lines {
		if strings.TrimSpace(l) == "" {
			continue
		}
		keep = append(keep, l)
		if len(keep) == n {
			break
		}
	}
	return strings.Join(keep, " | ")
}

// cgReplay re-runs the cases of an earlier cases.jsonl (same documents, same arguments).
func cgReplay(path string, cases *[]*cgCase, addGroup func(string, []string) int) {
	f, err := os.Open(path)
	if err != nil {
		panic(err)
	}
	defer f.Close()
	sc := bufio.NewScanner(f)
	sc.Buffer(make([]byte, 1<<20), 1<<26)
	groupOf := map[string]int{}
	for sc.Scan() {
		line := strings.TrimSpace(sc.Text())
		if line == "" {
			continue
		}
		var c cgCase
		if err := json.Unmarshal([]byte(line), &c); err != nil {
			fmt.Fprintln(os.Stderr, "replay: bad case line:", err)
			os.Exit(2)
		}
		if c.Op != "CODEGEN" {
			continue
		}
		// rebuild the object list (sorted: the order in a case is arbitrary anyway)
		for _, o := range c.Doc {
			obj := cgObj{Name: o[0].(string)}
			for _, p := range o[1].([]any) {
				q := p.([]any)
				obj.Props = append(obj.Props, cgProp{Name: q[0].(string), TypeID: q[1].(string), RefID: q[2].(string)})
			}
			c.objs = append(c.objs, obj)
		}
		sort.Slice(c.objs, func(i, j int) bool { return c.objs[i].Name < c.objs[j].Name })
		key := c.YAML + "\x00" + strings.Join(c.Args, "\x00")
		k, ok := groupOf[key]
		if !ok {
			k = addGroup(c.YAML, c.Args)
			groupOf[key] = k
		}
		c.runKey = k
		cc := c
		*cases = append(*cases, &cc)
	}
}

// cgGoGenerateWitness copies the generator's source folder (gen.go, go.mod, go.sum), adds a schema file and
// runs `go generate` there: twice without ARG, then with ARG naming an object, then without again. Every run
// must finish, leave gofmt-valid output with one struct per non-ignored object, and equal inputs must give
// equal bytes.
func cgGoGenerateWitness(outDir string) [][]string {
	src := filepath.Join(cgRepo(), "cmd", "arcaflow-codegen")
	dir, err := filepath.Abs(filepath.Join(outDir, "go-generate"))
	if err != nil {
		return [][]string{{"cannot prepare the folder", err.Error()}}
	}
	_ = os.RemoveAll(dir)
	if err := os.MkdirAll(dir, 0o755); err != nil {
		return [][]string{{"cannot prepare the folder", err.Error()}}
	}
	defer os.RemoveAll(dir)
	for _, f := range []string{"gen.go", "go.mod", "go.sum"} {
		b, err := os.ReadFile(filepath.Join(src, f))
		if err != nil {
			return [][]string{{"cannot read the generator's " + f, err.Error()}}
		}
		if err := os.WriteFile(filepath.Join(dir, f), b, 0o644); err != nil {
			return [][]string{{"cannot prepare the folder", err.Error()}}
		}
	}
	yaml := "steps:\n  create:\n    id: create\n    input:\n      root: Pod\n      objects:\n" +
		"        Pod:\n          id: Pod\n          properties:\n            meta:\n              type:\n                type_id: ref\n                id: ObjectMeta\n            replicas:\n              type:\n                type_id: integer\n" +
		"        ObjectMeta:\n          id: ObjectMeta\n          properties:\n            name:\n              type:\n                type_id: string\n"
	if err := os.WriteFile(filepath.Join(dir, "schema_input.yaml"), []byte(yaml), 0o644); err != nil {
		return [][]string{{"cannot prepare the folder", err.Error()}}
	}
	var problems [][]string
	var outs [][]byte
	for i, arg := range []string{"", "", "ObjectMeta", ""} {
		ctx, cancel := context.WithTimeout(context.Background(), 120*time.Second)
		cmd := exec.CommandContext(ctx, "go", "generate")
		cmd.Dir = dir
		cmd.Env = append(os.Environ(), "GOFLAGS=-mod=mod", "GOPROXY=off", "GOSUMDB=off", "GOTOOLCHAIN=local", "ARG="+arg)
		b, err := cmd.CombinedOutput()
		cancel()
		what := fmt.Sprintf("run %d of `ARG=%s go generate` in one folder", i+1, arg)
		if err != nil {
			problems = append(problems, []string{what + " did not finish: " + err.Error(), cgFirstLines(string(b), 4)})
			return problems
		}
		out, err := os.ReadFile(filepath.Join(dir, "typedef_output.go"))
		if err != nil {
			problems = append(problems, []string{what + " left no typedef_output.go"})
			return problems
		}
		outs = append(outs, out)
		decls, _, perr := cgExtract(out)
		want := 2
		if arg != "" {
			want = 1
		}
		if perr != nil || len(decls) != want {
			problems = append(problems, []string{what + fmt.Sprintf(": the output does not hold %d structs", want), fmt.Sprint(perr), string(out)})
		}
	}
	if len(outs) == 4 && (!bytes.Equal(outs[0], outs[1]) || !bytes.Equal(outs[0], outs[3])) {
		problems = append(problems, []string{"the same input gives different bytes on a later run in the same folder", string(outs[0]), string(outs[1]), string(outs[3])})
	}
	return problems
}
