package main

// Sub-command `atpserver` (property C07): drives the REAL atp.RunATPServer (built from /repo's
// working tree) in-process with a scripted client that writes raw CBOR.
//
//   * message sequences from a grammar of valid and invalid client behaviour (valid work-start /
//     signal / client-done, unknown step / signal / message IDs, missing, empty or duplicate run
//     IDs, wrongly typed payloads, omitted fields, malformed CBOR, several messages coalesced into
//     one write), truncation of recorded transcripts at stratified (quick) or every (thorough)
//     byte offset, end of input / output closure / cancellation at any moment;
//   * plugin schemas whose step handlers are gated by the harness (success, declared error output,
//     undeclared output, invalid data, panic; released before or after the end of input), so the
//     order of end-of-input and step completion is controlled;
//   * every session runs in a worker subprocess (re-exec of this binary); a session that was in
//     flight when a worker died is re-run alone in its own subprocess, so a crash is attributed to
//     exactly one session.
//
//   * stream `stress`: a re-exec'ed child process serves RunATPServer on its stdin/stdout and is
//     flooded by a pipelining client (thousands of runs per round, no waiting for answers) with a
//     mix of valid, unknown-step, bad-input, undeclared/invalid-output and panicking work-starts
//     and signals; several rounds with the normal binary and with a `go build -race` build of this
//     harness (source dir $HARNESS_SRC, default /verif/harness; with $VERIF_REPO set both binaries
//     are built against that tree). Oracle: the child exits cleanly with nothing but its marker on
//     stderr, every accepted run is answered exactly once; a `fatal error:` (e.g. concurrent map
//     writes), panic or race report is a finding with the head of stderr as detail. This is the
//     stream that sees unsynchronised access to session state from step/signal goroutines.
//
// A failing step must be REPORTED: for every accepted work-start whose handler ended in a failure
// (undeclared output ID, invalid output data, panic) there must be a step-fatal error message for
// its run ID on the wire, or a ServerError with its run ID in the slice RunATPServer returns - also
// when the failure happens after the server stopped writing (end of input, malformed or truncated
// message, failed write, cancellation). The finding names the run and the stop point.
//
// Every message the server writes must be readable: the output reader decodes each item, its
// envelope and its payload with the CBOR library's default (validating) options; an item a standard
// decoder refuses - e.g. a text string that is not valid UTF-8 because an echoed ID was cut inside a
// character - is a finding, and the run it was meant for has no readable terminal message.
//
// Behaviour "waitsig": the step handler returns only when the signal handler of its run has been
// called with its stream position (`src`), i.e. its completion depends on the read loop delivering a
// later message. The harness's own gates and the end-of-script release do NOT open it.
//
// Step "imap" (and the signal "sig" of every step) take maps with INTEGER keys - a `table`
// property of type map[int]string and, for the step, an any-typed `extra` that is given such a map,
// also nested: payloads whose CBOR maps have non-text keys. A valid work-start carrying them must
// reach its handler and be answered with work-done; a valid signal carrying one must be delivered
// (it releases a "waitsig" step).
//
// Step "keyed" registers its signal handlers (and emitters) under map KEYS that differ from the IDs
// of the signal schemas stored under them ("stop" -> ID "stop-requested", "cancel-step" -> ID "cancel",
// "a1" and "a2" -> both ID "same-id"). The hello message announces the keys; the sessions address
// signals by those keys and the output reader checks that the hello message announces exactly the
// registered keys. A valid release signal (announced name, known run in progress, accepted data)
// must be DELIVERED to its handler: that is checked directly on the handler call, not only through
// the step that waits for it.
//
// Signal behaviour "hand": the signal handler hands the signal over to the step on an unbuffered
// channel and blocks until the step (behaviour "takesig") takes it - or until the end of the script.
// A late or doubled hand-over therefore parks the signal's goroutine; it must not park the read loop:
// a message the server does not read within the write timeout, although nothing ended the stream, is a
// finding.
//
// client-done is recognised by its message ID: sessions end with client-done envelopes without any
// `data` key, without `run_id`, and with oddly typed data (0, "done", [], true, null), with and without
// a step still running; the harness then keeps its end of the input open and the server has to return.
//
// Step "islow" has a per-run INITIALIZER that takes a few milliseconds and step data that carries the
// release: behaviour "waitdata" waits (with a give-up time) for the release its signal handler stores
// in the run's step data. Sessions put the release signal directly behind the work-start, in the same
// write, so that the step and its signal reach the step-data setup together. Per-run step data must be
// created exactly once: the initializer calls are counted against the runs that reached it (reported
// under prop C11), and a step that gave up although its release signal was delivered is a finding.
//
// Behaviour "ctxwatch": the handler waits for its gate or for its context; its context must not be
// cancelled unless the client cancelled (a plain client-done does not cancel running steps).
//
// Behaviours "nan" / "inf" / "ninf": the step returns a declared output ("numbers") whose float
// field, float list and any-typed value hold NaN / +Inf / -Inf: conforming output that has to be
// answered with work-done like any other.
//
// Oracle findings (prop C07): process crash, RunATPServer not returning after input ended and all
// handlers were released, a run whose number of terminal messages differs from the number of its
// accepted work-starts while the output was open, corrupted output framing.
// Each session's observed history is emitted as a case {"op":"ATP_SERVER_TRACE",...} (go.jsonl line
// {"r":"ok"}) for trace inclusion by the Lean driver (Arca.Dispatch.atpServerHandler).
//
// Soundness of the logged order (why a correct server can always be explained by the model):
// offers are logged before the bytes are written; closeInput / breakOutput / cancel are logged and
// performed in one critical section of the log; enter / exit are logged by the handler itself;
// `out` is logged by the output reader after the message was decoded (the model's `observe`), `ret`
// after RunATPServer returned.

import (
	"bufio"
	"bytes"
	"context"
	"encoding/json"
	"errors"
	"fmt"
	"io"
	"math"
	"math/rand"
	"os"
	"os/exec"
	"path/filepath"
	"sort"
	"strings"
	"sync"
	"sync/atomic"
	"time"

	"github.com/fxamacker/cbor/v2"
	"go.flow.arcalot.io/pluginsdk/atp"
	"go.flow.arcalot.io/pluginsdk/schema"
)

func init() {
	register("atpserver", atpsCmd)
}

// ---------------------------------------------------------------------------------------------
// session scripts

type atpsAction struct {
	Op    string `json:"op"` // send, closeInput, breakOutput, cancel, release, settle
	Bytes []byte `json:"bytes,omitempty"`
	Src   int    `json:"src,omitempty"`
}

type atpsSession struct {
	ID      int          `json:"id"`
	Stream  string       `json:"stream"`
	Note    string       `json:"note,omitempty"`
	Actions []atpsAction `json:"actions"`
	// the first InitPanics calls of step "pinit"'s per-run initializer panic
	InitPanics int `json:"init_panics,omitempty"`
}

// what one session produced
type atpsOutcome struct {
	ID       int              `json:"id"`
	Events   []map[string]any `json:"events"`
	End      string           `json:"end"` // returned | hang | crash | skipped
	Findings []string         `json:"findings,omitempty"`
	Stats    map[string]int   `json:"stats,omitempty"`
	Stderr   string           `json:"stderr,omitempty"`
}

// ---------------------------------------------------------------------------------------------
// the plugin under test

type atpsIn struct {
	Name string `json:"name"`
	Beh  string `json:"beh"`
	Src  int64  `json:"src"`
}

type atpsInMap struct {
	Name  string           `json:"name"`
	Beh   string           `json:"beh"`
	Src   int64            `json:"src"`
	Table map[int64]string `json:"table"`
	Extra any              `json:"extra"`
}

type atpsOut struct {
	Message string `json:"message"`
}

type atpsErrOut struct {
	Error string `json:"error"`
}

type atpsSigIn struct {
	Beh string `json:"beh"`
	// stream position of a work-start whose "waitsig" handler this signal releases (0 = none)
	Src   int64            `json:"src"`
	Table map[int64]string `json:"table"`
}

func atpsProp(t schema.Type, required bool) *schema.PropertySchema {
	return schema.NewPropertySchema(t, nil, required, nil, nil, nil, nil, nil)
}

type atpsRunner struct {
	mu      sync.Mutex
	events  []map[string]any
	gates   map[int]chan struct{}
	gateMu  sync.Mutex
	openAll bool
	quiet   bool // stress child: handlers neither log nor wait
	// "waitsig": opened only by the plugin's signal handler
	sigGates map[int]chan struct{}
	// signal handler calls by stream position of the released work-start -> signal key it came under
	sigDelivered map[int]string
	// "islow": initializer calls, and the work-starts whose "waitdata" handler gave up
	slowInits int32
	gaveUp    map[int]bool
	// "ctxwatch": work-starts whose context was cancelled while they waited
	ctxCancelled map[int]bool
	// "hand" / "takesig": unbuffered hand-over per work-start; allOpen ends every wait at the end of the script
	handoffs map[int]chan struct{}
	allOpen  chan struct{}
	// number of calls of step "pinit"'s initializer that still have to panic
	initBudget int32
	runIDs  map[string]int
	entered map[int]bool
	exited  map[int]bool
}

func (r *atpsRunner) log(ev map[string]any) {
	r.mu.Lock()
	r.events = append(r.events, ev)
	r.mu.Unlock()
}

// logAnd logs the event and performs f in the same critical section of the log.
func (r *atpsRunner) logAnd(ev map[string]any, f func()) {
	r.mu.Lock()
	r.events = append(r.events, ev)
	f()
	r.mu.Unlock()
}

func (r *atpsRunner) gate(src int) chan struct{} {
	r.gateMu.Lock()
	defer r.gateMu.Unlock()
	g, ok := r.gates[src]
	if !ok {
		g = make(chan struct{})
		if r.openAll {
			close(g)
		}
		r.gates[src] = g
	}
	return g
}

func (r *atpsRunner) release(src int) {
	g := r.gate(src)
	r.gateMu.Lock()
	defer r.gateMu.Unlock()
	select {
	case <-g:
	default:
		close(g)
	}
}

func (r *atpsRunner) sigGate(src int) chan struct{} {
	r.gateMu.Lock()
	defer r.gateMu.Unlock()
	if r.sigGates == nil {
		r.sigGates = map[int]chan struct{}{}
	}
	g, ok := r.sigGates[src]
	if !ok {
		g = make(chan struct{})
		r.sigGates[src] = g
	}
	return g
}

func (r *atpsRunner) openSigGate(src int) {
	g := r.sigGate(src)
	r.gateMu.Lock()
	defer r.gateMu.Unlock()
	select {
	case <-g:
	default:
		close(g)
	}
}

func (r *atpsRunner) handoff(src int) chan struct{} {
	r.gateMu.Lock()
	defer r.gateMu.Unlock()
	if r.handoffs == nil {
		r.handoffs = map[int]chan struct{}{}
	}
	h, ok := r.handoffs[src]
	if !ok {
		h = make(chan struct{})
		r.handoffs[src] = h
	}
	return h
}

func (r *atpsRunner) allOpenCh() chan struct{} {
	r.gateMu.Lock()
	defer r.gateMu.Unlock()
	if r.allOpen == nil {
		r.allOpen = make(chan struct{})
	}
	return r.allOpen
}

// releaseAll opens every gate, including those of handlers that are entered later.
func (r *atpsRunner) releaseAll() {
	all := r.allOpenCh()
	r.gateMu.Lock()
	defer r.gateMu.Unlock()
	if !r.openAll {
		close(all)
	}
	r.openAll = true
	for _, g := range r.gates {
		select {
		case <-g:
		default:
			close(g)
		}
	}
}

func atpsBehClass(beh string) string {
	switch beh {
	case "undeclared", "invalid":
		return "fail"
	case "panic":
		return "panic"
	}
	return "ok"
}

func (r *atpsRunner) stepHandler(ctx context.Context, data any, in atpsIn) (string, any) {
	src := int(in.Src)
	if !r.quiet {
		r.mu.Lock()
		r.events = append(r.events, map[string]any{"e": "enter", "src": src})
		r.entered[src] = true
		r.mu.Unlock()
		switch in.Beh {
		case "waitsig":
			<-r.sigGate(src)
		case "takesig":
			select {
			case <-r.handoff(src):
			case <-r.allOpenCh():
			}
		case "waitdata":
			if d, ok := data.(*atpsStepData); ok && d != nil && d.released != nil {
				select {
				case <-d.released:
				case <-time.After(400 * time.Millisecond):
					r.gateMu.Lock()
					if r.gaveUp == nil {
						r.gaveUp = map[int]bool{}
					}
					r.gaveUp[src] = true
					r.gateMu.Unlock()
				}
			}
		case "ctxwatch":
			select {
			case <-r.gate(src):
			case <-ctx.Done():
				r.gateMu.Lock()
				if r.ctxCancelled == nil {
					r.ctxCancelled = map[int]bool{}
				}
				r.ctxCancelled[src] = true
				r.gateMu.Unlock()
			}
		default:
			<-r.gate(src)
		}
		r.mu.Lock()
		r.events = append(r.events, map[string]any{"e": "exit", "src": src, "b": atpsBehClass(in.Beh)})
		r.exited[src] = true
		r.mu.Unlock()
	}
	switch in.Beh {
	case "errout":
		return "error", atpsErrOut{Error: "declared failure of " + in.Name}
	case "undeclared":
		return "no-such-output", atpsOut{Message: "x"}
	case "invalid":
		return "success", 42
	case "panic":
		panic("handler panic requested by " + in.Name)
	case "nan":
		return "numbers", atpsNumOut{X: math.NaN(), L: []float64{1.5, math.NaN()}, A: map[string]any{"v": math.NaN()}}
	case "inf":
		return "numbers", atpsNumOut{X: math.Inf(1), L: []float64{math.Inf(1), 0}, A: []any{math.Inf(1)}}
	case "ninf":
		return "numbers", atpsNumOut{X: math.Inf(-1), L: []float64{}, A: math.Inf(-1)}
	}
	return "success", atpsOut{Message: "Hello, " + in.Name + "!"}
}

// sigArrived is what every signal handler does first; key is the map key the handler is registered under.
func (r *atpsRunner) sigArrived(key string, in atpsSigIn) {
	if in.Src > 0 {
		r.gateMu.Lock()
		if r.sigDelivered == nil {
			r.sigDelivered = map[int]string{}
		}
		r.sigDelivered[int(in.Src)] = key
		r.gateMu.Unlock()
		if in.Beh == "hand" {
			select {
			case r.handoff(int(in.Src)) <- struct{}{}:
			case <-r.allOpenCh():
			}
			return
		}
		r.openSigGate(int(in.Src))
	}
}

func (r *atpsRunner) keyedSigHandler(key string) func(context.Context, any, atpsSigIn) {
	return func(_ context.Context, _ any, in atpsSigIn) { r.sigArrived(key, in) }
}

func (r *atpsRunner) sigHandler(_ context.Context, _ any, in atpsSigIn) {
	r.sigArrived("sig", in)
	if in.Beh == "panic" {
		panic("signal handler panic requested")
	}
}

type atpsStepData struct {
	n        int
	mu       sync.Mutex
	released chan struct{} // "islow": closed by the run's signal handler
}

func (d *atpsStepData) release() {
	d.mu.Lock()
	defer d.mu.Unlock()
	select {
	case <-d.released:
	default:
		close(d.released)
	}
}

type atpsNumOut struct {
	X float64   `json:"x"`
	L []float64 `json:"l"`
	A any       `json:"a"`
}

func (r *atpsRunner) sigHandler2(_ context.Context, _ *atpsStepData, in atpsSigIn) {
	r.sigArrived("sig", in)
	if in.Beh == "panic" {
		panic("signal handler panic requested")
	}
}

func (r *atpsRunner) stepHandler2(ctx context.Context, d *atpsStepData, in atpsIn) (string, any) {
	return r.stepHandler(ctx, d, in)
}

// sigHandlerData: the release goes into the run's step data (and is recorded as delivered).
func (r *atpsRunner) sigHandlerData(_ context.Context, d *atpsStepData, in atpsSigIn) {
	if d != nil && d.released != nil {
		d.release()
	}
	if in.Src > 0 {
		r.gateMu.Lock()
		if r.sigDelivered == nil {
			r.sigDelivered = map[int]string{}
		}
		r.sigDelivered[int(in.Src)] = "sig"
		r.gateMu.Unlock()
	}
}

func (r *atpsRunner) plugin() *schema.CallableSchema {
	inSchema := func() *schema.ScopeSchema {
		return schema.NewScopeSchema(schema.NewStructMappedObjectSchema[atpsIn]("Input", map[string]*schema.PropertySchema{
			"name": atpsProp(schema.NewStringSchema(nil, nil, nil), true),
			"beh":  atpsProp(schema.NewStringSchema(nil, nil, nil), false),
			"src":  atpsProp(schema.NewIntSchema(nil, nil, nil), true),
		}))
	}
	outputs := func() map[string]*schema.StepOutputSchema {
		return map[string]*schema.StepOutputSchema{
			"success": schema.NewStepOutputSchema(schema.NewScopeSchema(schema.NewStructMappedObjectSchema[atpsOut]("Output", map[string]*schema.PropertySchema{
				"message": atpsProp(schema.NewStringSchema(nil, nil, nil), true),
			})), nil, false),
			"error": schema.NewStepOutputSchema(schema.NewScopeSchema(schema.NewStructMappedObjectSchema[atpsErrOut]("ErrorOutput", map[string]*schema.PropertySchema{
				"error": atpsProp(schema.NewStringSchema(nil, nil, nil), true),
			})), nil, true),
			"numbers": schema.NewStepOutputSchema(schema.NewScopeSchema(schema.NewStructMappedObjectSchema[atpsNumOut]("Numbers", map[string]*schema.PropertySchema{
				"x": atpsProp(schema.NewFloatSchema(nil, nil, nil), true),
				"l": atpsProp(schema.NewListSchema(schema.NewFloatSchema(nil, nil, nil), nil, nil), true),
				"a": atpsProp(schema.NewAnySchema(), false),
			})), nil, false),
		}
	}
	sigSchema := func() *schema.ScopeSchema {
		return schema.NewScopeSchema(schema.NewStructMappedObjectSchema[atpsSigIn]("SigInput", map[string]*schema.PropertySchema{
			"beh": atpsProp(schema.NewStringSchema(nil, nil, nil), true),
			"src": atpsProp(schema.NewIntSchema(nil, nil, nil), false),
			"table": atpsProp(schema.NewMapSchema(schema.NewIntSchema(nil, nil, nil), schema.NewStringSchema(nil, nil, nil), nil, nil), false),
		}))
	}
	// "hello": step data of interface type without initializer (as in the SDK's own tests)
	hello := schema.NewCallableStepWithSignals[any, atpsIn]("hello", inSchema(), outputs(),
		map[string]schema.CallableSignal{"sig": schema.NewCallableSignal[any, atpsSigIn]("sig", sigSchema(), nil, r.sigHandler)},
		nil, nil, nil, r.stepHandler)
	// "init": step data of pointer type with initializer
	withInit := schema.NewCallableStepWithSignals[*atpsStepData, atpsIn]("init", inSchema(), outputs(),
		map[string]schema.CallableSignal{"sig": schema.NewCallableSignal[*atpsStepData, atpsSigIn]("sig", sigSchema(), nil, r.sigHandler2)},
		nil, nil, func() *atpsStepData { return &atpsStepData{} }, r.stepHandler2)
	// "pinit": like "init", but the per-run initializer panics while the session's budget lasts
	// (the panic happens inside CallStep / CallSignal, under the step's initializer mutex)
	panicInit := schema.NewCallableStepWithSignals[*atpsStepData, atpsIn]("pinit", inSchema(), outputs(),
		map[string]schema.CallableSignal{"sig": schema.NewCallableSignal[*atpsStepData, atpsSigIn]("sig", sigSchema(), nil, r.sigHandler2)},
		nil, nil, func() *atpsStepData {
			if atomic.AddInt32(&r.initBudget, -1) >= 0 {
				panic("initializer panic requested")
			}
			return &atpsStepData{}
		}, r.stepHandler2)
	// "imap": input with an int-keyed map and an any-typed property
	mapIn := schema.NewScopeSchema(schema.NewStructMappedObjectSchema[atpsInMap]("MapInput", map[string]*schema.PropertySchema{
		"name":  atpsProp(schema.NewStringSchema(nil, nil, nil), true),
		"beh":   atpsProp(schema.NewStringSchema(nil, nil, nil), false),
		"src":   atpsProp(schema.NewIntSchema(nil, nil, nil), true),
		"table": atpsProp(schema.NewMapSchema(schema.NewIntSchema(nil, nil, nil), schema.NewStringSchema(nil, nil, nil), nil, nil), true),
		"extra": atpsProp(schema.NewAnySchema(), false),
	}))
	withMap := schema.NewCallableStepWithSignals[any, atpsInMap]("imap", mapIn, outputs(),
		map[string]schema.CallableSignal{"sig": schema.NewCallableSignal[any, atpsSigIn]("sig", sigSchema(), nil, r.sigHandler)},
		nil, nil, nil, func(ctx context.Context, _ any, in atpsInMap) (string, any) {
			return r.stepHandler(ctx, nil, atpsIn{Name: in.Name, Beh: in.Beh, Src: in.Src})
		})
	// "keyed": handlers and emitters registered under keys that differ from their signal IDs
	keyedSig := func(key, id string) schema.CallableSignal {
		return schema.NewCallableSignalFromSchema[any, atpsSigIn](schema.NewSignalSchema(id, sigSchema(), nil), r.keyedSigHandler(key))
	}
	keyed := schema.NewCallableStepWithSignals[any, atpsIn]("keyed", inSchema(), outputs(),
		map[string]schema.CallableSignal{
			"stop":        keyedSig("stop", "stop-requested"),
			"cancel-step": keyedSig("cancel-step", "cancel"),
			"a1":          keyedSig("a1", "same-id"),
			"a2":          keyedSig("a2", "same-id"),
		},
		map[string]*schema.SignalSchema{
			"progress-key": schema.NewSignalSchema("progress", sigSchema(), nil),
			"p2":           schema.NewSignalSchema("progress", sigSchema(), nil),
		},
		nil, nil, r.stepHandler)
	// "islow": the initializer takes a few milliseconds; the release travels in the step data
	slowInit := schema.NewCallableStepWithSignals[*atpsStepData, atpsIn]("islow", inSchema(), outputs(),
		map[string]schema.CallableSignal{"sig": schema.NewCallableSignal[*atpsStepData, atpsSigIn]("sig", sigSchema(), nil, r.sigHandlerData)},
		nil, nil, func() *atpsStepData {
			atomic.AddInt32(&r.slowInits, 1)
			time.Sleep(4 * time.Millisecond)
			return &atpsStepData{released: make(chan struct{})}
		}, r.stepHandler2)
	return schema.NewCallableSchema(hello, withInit, panicInit, withMap, keyed, slowInit)
}

// ---------------------------------------------------------------------------------------------
// message-level classification of what the client wrote, by running the real decoder

const atpsSentinelID = 0xFFFFFFF1

var atpsSentinelRun = "\x00\x01absent"
var atpsSentinelRaw = cbor.RawMessage{0x63, 0x00, 0x01, 0x02}

type atpsItem struct {
	Bad     bool
	Decoded atp.DecodedRuntimeMessage
	HasID   bool
	HasRun  bool
	HasData bool
	WsOK    bool
	WsStep  string
	WsSrc   int64
	WsSrcOK bool
	WsValid bool // the config is what the step's input schema accepts (name string, src number, beh string or absent)
	// the same for step "imap": additionally a non-empty int-keyed `table`, `extra` absent or such a table
	WsValidMap bool
	SgOK    bool
	SgID    string // signal_id
	SgSrc   int64  // data.src of a release signal (0 = none)
	SgValid bool   // the data is what the signal's schema accepts (beh string, src / table optional)
}

// atpsClassifyStream splits the bytes written so far into complete items (from offset off);
// it returns the items, the new offset, and whether a malformed item ended the stream.
func atpsClassifyStream(stream []byte, off int, first bool) (items []atpsItem, newOff int, ended bool) {
	for off < len(stream) {
		dec := cbor.NewDecoder(bytes.NewReader(stream[off:]))
		var raw cbor.RawMessage
		err := dec.Decode(&raw)
		if err != nil {
			if errors.Is(err, io.EOF) || errors.Is(err, io.ErrUnexpectedEOF) {
				return items, off, false // incomplete tail: nothing for the server to decode yet
			}
			items = append(items, atpsItem{Bad: true})
			return items, off, true
		}
		off += dec.NumBytesRead()
		if first {
			first = false
			var x any
			if err := cbor.Unmarshal(raw, &x); err != nil {
				items = append(items, atpsItem{Bad: true})
				return items, off, true
			}
			items = append(items, atpsItem{})
			continue
		}
		var it atpsItem
		if err := cbor.Unmarshal(raw, &it.Decoded); err != nil {
			items = append(items, atpsItem{Bad: true})
			return items, off, true
		}
		probe := atp.DecodedRuntimeMessage{MessageID: atpsSentinelID, RunID: atpsSentinelRun, RawMessageData: append(cbor.RawMessage{}, atpsSentinelRaw...)}
		_ = cbor.Unmarshal(raw, &probe)
		it.HasID = probe.MessageID != atpsSentinelID
		it.HasRun = probe.RunID != atpsSentinelRun
		it.HasData = !bytes.Equal(probe.RawMessageData, atpsSentinelRaw)
		var ws atp.WorkStartMessage
		if err := cbor.Unmarshal(it.Decoded.RawMessageData, &ws); err == nil {
			it.WsOK = true
			it.WsStep = ws.StepID
			if m, ok := ws.Config.(map[any]any); ok {
				_, nameOK := m["name"].(string)
				behV, hasBeh := m["beh"]
				_, behOK := behV.(string)
				it.WsValid = nameOK && (!hasBeh || behOK)
				for k := range m {
					if ks, ok := k.(string); !ok || (ks != "name" && ks != "beh" && ks != "src") {
						it.WsValid = false
					}
				}
				it.WsValidMap = nameOK && (!hasBeh || behOK) && atpsIntKeyedTable(m["table"], false)
				for k, v := range m {
					ks, ok := k.(string)
					switch {
					case !ok:
						it.WsValidMap = false
					case ks == "extra":
						// what the generator gives the any-typed property: an int-keyed table, plain or
						// nested one level under a text key
						if !atpsIntKeyedTable(v, true) {
							it.WsValidMap = false
						}
					case ks != "name" && ks != "beh" && ks != "src" && ks != "table":
						it.WsValidMap = false
					}
				}
				switch n := m["src"].(type) {
				case uint64:
					it.WsSrc, it.WsSrcOK = int64(n), true
				case int64:
					it.WsSrc, it.WsSrcOK = n, true
				}
			}
		}
		var sg atp.SignalMessage
		if err := cbor.Unmarshal(it.Decoded.RawMessageData, &sg); err == nil {
			it.SgOK = true
			it.SgID = sg.SignalID
			if m, ok := sg.Data.(map[any]any); ok {
				_, behOK := m["beh"].(string)
				it.SgValid = behOK
				for k, v := range m {
					ks, _ := k.(string)
					switch ks {
					case "beh":
					case "src":
						switch n := v.(type) {
						case uint64:
							it.SgSrc = int64(n)
						case int64:
							it.SgSrc = n
						default:
							it.SgValid = false
						}
					case "table":
						if !atpsIntKeyedTable(v, false) {
							it.SgValid = false
						}
					default:
						it.SgValid = false
					}
				}
			}
		}
		items = append(items, it)
	}
	return items, off, false
}

// accepted reports whether a stateless server starts a step for this item.
func (it atpsItem) accepted() bool {
	return !it.Bad && it.Decoded.MessageID == atp.MessageTypeWorkStart && it.WsOK && it.Decoded.RunID != "" && it.WsStep != ""
}

func (r *atpsRunner) runNum(id string) int {
	if id == "" {
		return 0
	}
	n, ok := r.runIDs[id]
	if !ok {
		n = len(r.runIDs) + 1
		r.runIDs[id] = n
	}
	return n
}

func (r *atpsRunner) itemJSON(it atpsItem, first bool) map[string]any {
	if it.Bad {
		return map[string]any{"k": "bad"}
	}
	if first {
		return map[string]any{"k": "msg", "id": nil, "run": nil, "data": nil}
	}
	m := map[string]any{"k": "msg", "id": nil, "run": nil, "data": nil}
	if it.HasID {
		m["id"] = it.Decoded.MessageID
	}
	if it.HasRun {
		m["run"] = r.runNum(it.Decoded.RunID)
	}
	if it.HasData {
		var ws any
		if it.WsOK {
			ws = it.WsStep == ""
		}
		m["data"] = map[string]any{"ws": ws, "sg": it.SgOK}
	}
	return m
}

// ---------------------------------------------------------------------------------------------
// running one session against the real server

type atpsTimeouts struct {
	settle time.Duration
	write  time.Duration
	hang   time.Duration
}

func atpsRunSession(sess *atpsSession, to atpsTimeouts) (out atpsOutcome) {
	out.ID = sess.ID
	out.Stats = map[string]int{}
	r := &atpsRunner{gates: map[int]chan struct{}{}, runIDs: map[string]int{}, entered: map[int]bool{}, exited: map[int]bool{}}
	inR, inW := io.Pipe()
	outR, outW := io.Pipe()
	ctx, cancel := context.WithCancel(context.Background())
	defer cancel()
	r.initBudget = int32(sess.InitPanics)
	plugin := r.plugin()

	returned := make(chan int, 1)
	returnedRuns := map[string]int{} // run ID -> ServerErrors returned for it
	var retMu sync.Mutex
	go func() {
		errs := atp.RunATPServer(ctx, inR, outW, plugin)
		retMu.Lock()
		for _, e := range errs {
			if e != nil {
				returnedRuns[e.RunID]++
			}
		}
		retMu.Unlock()
		r.log(map[string]any{"e": "ret", "n": len(errs)})
		returned <- len(errs)
		_ = outW.Close()
	}()

	// output reader
	var outFindings []string
	var outMu sync.Mutex
	doneCount := map[int]int{}     // run -> work-done messages
	stepFatal := map[int]int{}     // run -> step-fatal (not server-fatal) error messages
	wireStepFatal := map[string]int{} // the same by run ID text
	var announced map[string]map[string][]string // hello message: step -> "handlers" / "emitters" -> keys
	serverFatalSeen := false       // a server-fatal error message was written
	readerDone := make(chan struct{})
	go func() {
		defer close(readerDone)
		dec := cbor.NewDecoder(outR)
		first := true
		for {
			var raw cbor.RawMessage
			if err := dec.Decode(&raw); err != nil {
				if !(errors.Is(err, io.EOF) || errors.Is(err, io.ErrClosedPipe)) {
					outMu.Lock()
					outFindings = append(outFindings, "output stream is not a sequence of CBOR items: "+err.Error())
					outMu.Unlock()
				}
				return
			}
			if first {
				first = false
				// the hello message, unless the start message already failed (then an error message)
				var generic map[string]any
				if err := cbor.Unmarshal(raw, &generic); err == nil {
					if _, isHello := generic["version"]; isHello {
						var h atp.HelloMessage
						if err := cbor.Unmarshal(raw, &h); err != nil || h.Version != atp.ProtocolVersion || h.Schema == nil {
							outMu.Lock()
							outFindings = append(outFindings, "malformed hello message")
							outMu.Unlock()
						}
						outMu.Lock()
						announced = atpsAnnounced(h.Schema)
						for _, what := range atpsCheckAnnounced(announced) {
							outFindings = append(outFindings, what)
						}
						outMu.Unlock()
						r.log(map[string]any{"e": "out", "m": map[string]any{"k": "hello"}})
						continue
					}
				}
			}
			var m atp.DecodedRuntimeMessage
			if err := cbor.Unmarshal(raw, &m); err != nil {
				outMu.Lock()
				outFindings = append(outFindings, "the server wrote a message that a standard CBOR decoder refuses (envelope): "+err.Error())
				outMu.Unlock()
				continue
			}
			switch m.MessageID {
			case atp.MessageTypeWorkDone:
				var wd atp.WorkDoneMessage
				if err := cbor.Unmarshal(m.RawMessageData, &wd); err != nil {
					outMu.Lock()
					outFindings = append(outFindings, fmt.Sprintf("the server wrote a work-done message for run %q that a standard CBOR decoder refuses: %v", m.RunID, err))
					outMu.Unlock()
				}
				r.mu.Lock()
				n := r.runNum(m.RunID)
				r.events = append(r.events, map[string]any{"e": "out", "m": map[string]any{"k": "done", "run": n}})
				r.mu.Unlock()
				outMu.Lock()
				doneCount[n]++
				outMu.Unlock()
			case atp.MessageTypeError:
				var em atp.ErrorMessage
				if err := cbor.Unmarshal(m.RawMessageData, &em); err != nil {
					outMu.Lock()
					outFindings = append(outFindings, fmt.Sprintf("the server wrote an error message for run %q that a standard CBOR decoder refuses (the run has no readable terminal message): %v", m.RunID, err))
					outMu.Unlock()
				}
				r.mu.Lock()
				n := r.runNum(m.RunID)
				r.events = append(r.events, map[string]any{"e": "out", "m": map[string]any{"k": "err", "run": n, "sf": em.StepFatal, "vf": em.ServerFatal}})
				r.mu.Unlock()
				outMu.Lock()
				if em.ServerFatal {
					serverFatalSeen = true
				} else if em.StepFatal {
					stepFatal[n]++
					wireStepFatal[m.RunID]++
				}
				outMu.Unlock()
			default:
				outMu.Lock()
				outFindings = append(outFindings, fmt.Sprintf("unexpected message ID %d written by the server", m.MessageID))
				outMu.Unlock()
			}
		}
	}()

	// script
	var stream []byte
	off := 0
	nItems := 0
	streamEnded := false // a malformed item was offered: nothing after it is ever decoded
	var items []atpsItem
	var gatedSrcs []int
	inputClosed, outputBroken, cancelled := false, false, false
	srcMismatch := false
	type wreq struct {
		b   []byte
		ack chan struct{}
	}
	writes := make(chan wreq, 1024)
	go func() {
		for w := range writes {
			_, _ = inW.Write(w.b) // fails once stdin was closed by the server: later writes fail too
			close(w.ack)
		}
	}()
	var lastAck chan struct{}
	// once the server has left a write unread for the whole timeout it is taken to have stopped
	// reading: later writes are only waited for briefly (a session in which the read loop is stuck
	// would otherwise cost one timeout per message)
	stalledReader := false
	waitAck := func(d time.Duration) {
		if lastAck == nil {
			return
		}
		if stalledReader && d > 20*time.Millisecond {
			d = 20 * time.Millisecond
		}
		select {
		case <-lastAck:
		case <-time.After(d):
			if d >= to.write {
				if !stalledReader && !streamEnded && !outputBroken && !cancelled {
					out.Findings = append(out.Findings, fmt.Sprintf(
						"the server stopped reading its input: the message ending at stream position %d was not read within %v although nothing ended the stream (no malformed item, no client-done, output open)", nItems-1, to.write))
				}
				stalledReader = true
			}
		}
	}
	for _, a := range sess.Actions {
		switch a.Op {
		case "send":
			if inputClosed {
				continue
			}
			stream = append(stream, a.Bytes...)
			if !streamEnded {
				var its []atpsItem
				its, off, streamEnded = atpsClassifyStream(stream, off, nItems == 0)
				for _, it := range its {
					idx := nItems
					nItems++
					items = append(items, it)
					if it.accepted() {
						if !it.WsSrcOK || int(it.WsSrc) != idx {
							srcMismatch = true
						}
						gatedSrcs = append(gatedSrcs, idx)
					}
					r.log(map[string]any{"e": "offer", "item": r.itemJSON(it, idx == 0)})
				}
			}
			if srcMismatch {
				break
			}
			// the write blocks until the server has read it; once a malformed item is on the wire the
			// loop ends there and later bytes may never be read
			lastAck = make(chan struct{})
			writes <- wreq{append([]byte{}, a.Bytes...), lastAck}
			if streamEnded {
				waitAck(20 * time.Millisecond)
			} else {
				waitAck(to.write)
			}
			time.Sleep(to.settle)
		case "closeInput":
			if !inputClosed {
				inputClosed = true
				// everything queued must have been read by the server first
				waitAck(to.write)
				r.logAnd(map[string]any{"e": "closeInput"}, func() { _ = inW.Close() })
				time.Sleep(to.settle)
			}
		case "breakOutput":
			if !outputBroken {
				outputBroken = true
				r.logAnd(map[string]any{"e": "breakOutput"}, func() { _ = outR.Close() })
				time.Sleep(to.settle)
			}
		case "cancel":
			if !cancelled {
				cancelled = true
				r.logAnd(map[string]any{"e": "cancel"}, func() { cancel() })
				time.Sleep(to.settle)
			}
		case "release":
			r.release(a.Src)
			time.Sleep(to.settle)
		case "settle":
			time.Sleep(to.settle)
		}
		if srcMismatch {
			break
		}
	}
	// a session that ended with client-done: the server has to finish on its own, while the client
	// keeps its end of the input open
	alreadyReturned := false
	var earlyFindings []string
	if !inputClosed && !outputBroken && !cancelled {
		doneAt := -1
		for i, it := range items {
			if i == 0 && it.Bad {
				break
			}
			if i == 0 {
				continue
			}
			if it.Bad {
				break
			}
			if it.Decoded.MessageID == atp.MessageTypeClientDone {
				doneAt = i
				break
			}
		}
		if doneAt > 0 {
			waitAck(to.write)
			r.releaseAll()
			select {
			case <-returned:
				alreadyReturned = true
			case <-time.After(2 * time.Second):
				earlyFindings = append(earlyFindings, fmt.Sprintf(
					"RunATPServer did not return within 2s after the client-done message at stream position %d (all handlers released, the client's end of the input still open)", doneAt))
			}
		}
	}
	// end of script: input ends, every handler is released
	if !inputClosed {
		inputClosed = true
		if streamEnded {
			waitAck(20 * time.Millisecond)
		} else {
			waitAck(to.write)
		}
		r.logAnd(map[string]any{"e": "closeInput"}, func() { _ = inW.Close() })
	}
	r.releaseAll()
	close(writes)
	if alreadyReturned {
		out.End = "returned"
	} else {
		select {
		case <-returned:
			out.End = "returned"
		case <-time.After(to.hang):
			out.End = "hang"
		}
	}
	out.Findings = append(out.Findings, earlyFindings...)
	if out.End == "returned" {
		select {
		case <-readerDone:
		case <-time.After(2 * time.Second):
			out.Findings = append(out.Findings, "output reader did not finish after RunATPServer returned")
		}
	}
	_ = inR.Close()
	if out.End == "hang" {
		_ = outR.Close()
	}

	r.mu.Lock()
	out.Events = append([]map[string]any{}, r.events...)
	r.mu.Unlock()
	if srcMismatch {
		out.End = "skipped"
		return out
	}

	// ---- oracle on the history (independent of the model)
	outMu.Lock()
	defer outMu.Unlock()
	out.Findings = append(out.Findings, outFindings...)
	if out.End == "hang" {
		out.Findings = append(out.Findings, fmt.Sprintf("RunATPServer did not return within %v after input ended and all handlers were released", to.hang))
	}
	// per-run step data is created exactly once; a delivered release is seen by the step; a step's
	// context is cancelled only when the client cancelled
	{
		slowRuns := map[string]bool{}
		for i, it := range items {
			if i > 0 && !it.Bad && it.accepted() && it.WsStep == "islow" && r.entered[i] {
				slowRuns[it.Decoded.RunID] = true
			}
		}
		inits := int(atomic.LoadInt32(&r.slowInits))
		if sess.Stream == "directed" && len(slowRuns) > 0 && inits != len(slowRuns) {
			out.Findings = append(out.Findings, fmt.Sprintf(
				"[C11] the per-run initializer of step \"islow\" ran %d times for %d runs (a run's step and its signal must share one step data record, created once)", inits, len(slowRuns)))
		}
		r.gateMu.Lock()
		var gave []int
		for src := range r.gaveUp {
			gave = append(gave, src)
		}
		sort.Ints(gave)
		for _, src := range gave {
			if _, delivered := r.sigDelivered[src]; delivered && src < len(items) {
				out.Findings = append(out.Findings, fmt.Sprintf(
					"the step of run %q (stream position %d) gave up waiting for its release although the release signal was delivered to the run's signal handler: step and signal work on different step data records", items[src].Decoded.RunID, src))
			}
		}
		var cc []int
		for src := range r.ctxCancelled {
			cc = append(cc, src)
		}
		sort.Ints(cc)
		r.gateMu.Unlock()
		if !cancelled {
			for _, src := range cc {
				run := ""
				if src < len(items) {
					run = items[src].Decoded.RunID
				}
				out.Findings = append(out.Findings, fmt.Sprintf(
					"the context of the running step of run %q (stream position %d) was cancelled although the client did not cancel (the input ending, or a client-done, does not cancel running steps)", run, src))
			}
		}
	}
	// a valid release signal is delivered to its handler
	if !outputBroken && !cancelled && !serverFatalSeen && announced != nil {
		undelivered := 0
		defer func() {
			if undelivered > 3 {
				out.Findings = append(out.Findings, fmt.Sprintf("... and %d more valid signals of this session were not delivered", undelivered-3))
			}
		}()
		reach3 := true
		for i, it := range items {
			if i == 0 {
				reach3 = !it.Bad
				continue
			}
			if !reach3 || it.Bad || it.Decoded.MessageID == atp.MessageTypeClientDone {
				reach3 = false
				continue
			}
			if it.Decoded.MessageID != atp.MessageTypeSignal || !it.SgOK || !it.SgValid || it.SgSrc <= 0 || int(it.SgSrc) >= i {
				continue
			}
			ws := items[it.SgSrc]
			if !ws.accepted() || ws.Decoded.RunID != it.Decoded.RunID || !ws.WsSrcOK || ws.WsSrc != it.SgSrc {
				continue
			}
			if ws.WsStep == "pinit" && sess.InitPanics > 0 {
				continue
			}
			known := false
			for _, k := range announced[ws.WsStep]["handlers"] {
				if k == it.SgID {
					known = true
				}
			}
			if !known {
				continue
			}
			// a later work-start with the same run ID would take the signal over
			taken := false
			for j := int(it.SgSrc) + 1; j < i; j++ {
				if items[j].accepted() && items[j].Decoded.RunID == it.Decoded.RunID {
					taken = true
				}
			}
			if taken {
				continue
			}
			r.gateMu.Lock()
			key, delivered := r.sigDelivered[int(it.SgSrc)]
			r.gateMu.Unlock()
			if !delivered {
				undelivered++
				if undelivered > 3 {
					continue
				}
				out.Findings = append(out.Findings, fmt.Sprintf(
					"the signal %q at stream position %d for run %q (step %q announces it in the hello message, its data is valid, the run was started at position %d) was not delivered to its handler",
					it.SgID, i, it.Decoded.RunID, ws.WsStep, it.SgSrc))
			} else if key != it.SgID && key != "sig" {
				out.Findings = append(out.Findings, fmt.Sprintf(
					"the signal %q at stream position %d for run %q was delivered to the handler registered as %q", it.SgID, i, it.Decoded.RunID, key))
			}
		}
	}
	// a failing step is reported on the wire or in the returned slice, whenever it fails
	if out.End == "returned" {
		failed := map[string]int{} // run ID -> handlers that ended in a failure
		var order []string
		for _, ev := range out.Events {
			if ev["e"] != "exit" {
				continue
			}
			b, _ := ev["b"].(string)
			src, _ := ev["src"].(int)
			if (b == "fail" || b == "panic") && src > 0 && src < len(items) && items[src].accepted() {
				run := items[src].Decoded.RunID
				if failed[run] == 0 {
					order = append(order, run)
				}
				failed[run]++
			}
		}
		var stops []string
		if outputBroken {
			stops = append(stops, "the client closed the output")
		}
		if cancelled {
			stops = append(stops, "the context was cancelled")
		}
		if serverFatalSeen {
			stops = append(stops, "a server-fatal error message was written")
		}
		for i, it := range items {
			if it.Bad {
				stops = append(stops, fmt.Sprintf("the item at stream position %d was malformed", i))
				break
			}
		}
		if inputClosed {
			stops = append(stops, "the input ended")
		}
		retMu.Lock()
		for _, run := range order {
			k := failed[run]
			if wireStepFatal[run] < k && returnedRuns[run] < k {
				out.Findings = append(out.Findings, fmt.Sprintf(
					"the step of run %q failed (%d handler(s) ended in undeclared/invalid output or a panic) but only %d step-fatal error message(s) for it are on the wire and %d ServerError(s) for it were returned; stop point(s) of this session: %s",
					run, k, wireStepFatal[run], returnedRuns[run], strings.Join(stops, "; ")))
			}
		}
		retMu.Unlock()
	}
	// expected terminal messages per run, computed statelessly from the items the loop can reach
	expected := map[int]int{}
	reach := true
	for i, it := range items {
		if i == 0 {
			if it.Bad {
				reach = false
			}
			continue
		}
		if !reach || it.Bad {
			reach = false
			continue
		}
		switch it.Decoded.MessageID {
		case atp.MessageTypeWorkStart:
			if it.accepted() {
				expected[r.runNum(it.Decoded.RunID)]++
				out.Stats["accepted"]++
			} else if !it.WsOK && it.Decoded.RunID != "" {
				// "failed to decode work start message": a step-fatal error carrying the run ID
				expected[r.runNum(it.Decoded.RunID)]++
			}
		case atp.MessageTypeClientDone:
			reach = false
		}
	}
	outputOpen := !outputBroken && !cancelled && !serverFatalSeen
	if out.End == "returned" && outputOpen {
		// an accepted work-start for a step without failing initializer, with input the schema
		// accepts, must reach its handler (whatever its run ID was used for before)
		reach2 := true
		for i, it := range items {
			if i == 0 {
				reach2 = !it.Bad
				continue
			}
			if !reach2 || it.Bad {
				reach2 = false
				continue
			}
			if it.Decoded.MessageID == atp.MessageTypeClientDone {
				reach2 = false
				continue
			}
			if it.accepted() && (((it.WsStep == "hello" || it.WsStep == "init") && it.WsValid) || (it.WsStep == "imap" && it.WsValidMap)) && it.WsSrcOK && int(it.WsSrc) == i {
				r.mu.Lock()
				entered := r.entered[i]
				r.mu.Unlock()
				if !entered {
					out.Findings = append(out.Findings, fmt.Sprintf("the valid work-start at stream position %d (run %q, step %q) was answered without its step handler being called", i, it.Decoded.RunID, it.WsStep))
				}
			}
		}
	}
	if out.End == "returned" {
		runs := map[int]bool{}
		for k := range expected {
			runs[k] = true
		}
		for k := range doneCount {
			runs[k] = true
		}
		for k := range stepFatal {
			runs[k] = true
		}
		var keys []int
		for k := range runs {
			keys = append(keys, k)
		}
		sort.Ints(keys)
		omitted := false
		for i, it := range items {
			if i > 0 && !it.Bad && (!it.HasID || !it.HasRun || !it.HasData) {
				omitted = true
			}
		}
		for _, k := range keys {
			if k == 0 {
				continue
			}
			got := doneCount[k] + stepFatal[k]
			want := expected[k]
			if got > want || (outputOpen && got != want) {
				what := fmt.Sprintf("run #%d: %d accepted work-start(s) but %d terminal message(s) while the output was open=%v", k, want, got, outputOpen)
				if omitted {
					what += " (the session contains messages with omitted fields: a message inherited fields from its predecessor?)"
				}
				out.Findings = append(out.Findings, what)
			}
		}
	}
	out.Stats["items"] = len(items)
	for _, it := range items {
		if it.Bad {
			out.Stats["bad"]++
		}
	}
	return out
}

// ---------------------------------------------------------------------------------------------
// generators

type atpsGen struct {
	r *rand.Rand
	// per session: run IDs whose work-start named an unknown step; whether step "pinit" was used
	unkRuns   []string
	usedPinit bool
}

func atpsEnc(x any) []byte {
	b, err := cbor.Marshal(x)
	if err != nil {
		panic(err)
	}
	return b
}

func atpsWS(run any, step any, name string, beh string, src int) map[string]any {
	cfg := map[string]any{"name": name, "src": src}
	if beh != "" {
		cfg["beh"] = beh
	}
	m := map[string]any{"id": uint32(1), "data": map[string]any{"id": step, "config": cfg}}
	if run != nil {
		m["run_id"] = run
	}
	return m
}

func atpsSig(run any, sig string, beh any) map[string]any {
	m := map[string]any{"id": uint32(3), "data": map[string]any{"signal_id": sig, "data": map[string]any{"beh": beh}}}
	if run != nil {
		m["run_id"] = run
	}
	return m
}

// atpsAnnounced reads the signal handler and emitter names of every step out of the hello message.
func atpsAnnounced(sch any) map[string]map[string][]string {
	out := map[string]map[string][]string{}
	root, _ := sch.(map[any]any)
	steps, _ := root["steps"].(map[any]any)
	for id, st := range steps {
		sid, _ := id.(string)
		m, _ := st.(map[any]any)
		entry := map[string][]string{}
		for field, name := range map[string]string{"signal_handlers": "handlers", "signal_emitters": "emitters"} {
			keys := []string{}
			if hm, ok := m[field].(map[any]any); ok {
				for k := range hm {
					if ks, ok := k.(string); ok {
						keys = append(keys, ks)
					}
				}
			}
			sort.Strings(keys)
			entry[name] = keys
		}
		out[sid] = entry
	}
	return out
}

// atpsCheckAnnounced: step "keyed" must be announced with the keys its handlers and emitters are
// registered under.
func atpsCheckAnnounced(a map[string]map[string][]string) []string {
	var out []string
	k, ok := a["keyed"]
	if !ok {
		return []string{"the hello message does not announce step \"keyed\""}
	}
	if got, want := strings.Join(k["handlers"], ","), "a1,a2,cancel-step,stop"; got != want {
		out = append(out, fmt.Sprintf("the hello message announces the signal handlers of step \"keyed\" as [%s], they are registered as [%s]", got, want))
	}
	if got, want := strings.Join(k["emitters"], ","), "p2,progress-key"; got != want {
		out = append(out, fmt.Sprintf("the hello message announces the signal emitters of step \"keyed\" as [%s], they are registered as [%s]", got, want))
	}
	return out
}

// atpsIntKeyedTable: a non-empty CBOR map whose keys are integers and whose values are text; with
// nested, also a map with one text key holding such a table.
func atpsIntKeyedTable(v any, nested bool) bool {
	m, ok := v.(map[any]any)
	if !ok || len(m) == 0 {
		return false
	}
	for k, x := range m {
		switch k.(type) {
		case uint64, int64:
			if _, ok := x.(string); !ok {
				return false
			}
		case string:
			if !nested || len(m) != 1 || !atpsIntKeyedTable(x, false) {
				return false
			}
		default:
			return false
		}
	}
	return true
}

// atpsWSMap is a work-start for step "imap".
func atpsWSMap(run string, name, beh string, src int, table map[int]string, extra any) map[string]any {
	cfg := map[string]any{"name": name, "src": src, "table": table}
	if beh != "" {
		cfg["beh"] = beh
	}
	if extra != nil {
		cfg["extra"] = extra
	}
	return map[string]any{"id": uint32(1), "run_id": run, "data": map[string]any{"id": "imap", "config": cfg}}
}

// atpsSigKey is a release / hand-over signal addressed by the handler's key.
func atpsSigKey(run, key, beh string, src int) map[string]any {
	return map[string]any{"id": uint32(3), "run_id": run, "data": map[string]any{"signal_id": key, "data": map[string]any{"beh": beh, "src": src}}}
}

// atpsClientDoneVariants: client-done is recognised by its message ID alone.
func atpsClientDoneVariants() []map[string]any {
	return []map[string]any{
		{"id": uint32(4)},
		{"id": uint32(4), "run_id": ""},
		{"id": uint32(4), "run_id": "", "data": 0},
		{"id": uint32(4), "run_id": "", "data": "done"},
		{"id": uint32(4), "run_id": "", "data": []any{}},
		{"id": uint32(4), "run_id": "", "data": true},
		{"id": uint32(4), "run_id": "", "data": nil},
		{"id": uint32(4), "run_id": "r1", "data": map[string]any{"unexpected": 1}},
	}
}

// atpsReleaseMap is atpsRelease carrying an int-keyed map in the signal's data.
func atpsReleaseMap(run string, src int, table map[int]string) map[string]any {
	return map[string]any{"id": uint32(3), "run_id": run, "data": map[string]any{"signal_id": "sig", "data": map[string]any{"beh": "ok", "src": src, "table": table}}}
}

// atpsRelease is the signal that lets the "waitsig" handler at stream position src return.
func atpsRelease(run string, src int) map[string]any {
	return map[string]any{"id": uint32(3), "run_id": run, "data": map[string]any{"signal_id": "sig", "data": map[string]any{"beh": "ok", "src": src}}}
}

// atpsLongIDs are IDs longer than 64 bytes in multi-byte scripts; a cut after 48 or 64 BYTES falls
// inside a character for most of them.
var atpsLongIDs = []string{
	strings.Repeat("語", 30),
	"x" + strings.Repeat("日本語のステップ", 6),
	"шаг-" + strings.Repeat("который-не-существует-", 4),
	strings.Repeat("단계가없습니다", 5),
	"ab" + strings.Repeat("🚀", 20),
	"step-" + strings.Repeat("é", 40),
}

func atpsClientDone() map[string]any {
	return map[string]any{"id": uint32(4), "run_id": "", "data": map[string]any{}}
}

var atpsBehs = []string{"ok", "ok", "errout", "undeclared", "invalid", "panic", "nan", "inf", "ninf", "ctxwatch"}

// one grammar message at stream position idx; returns bytes, whether it starts a gated handler,
// and whether it ends the stream (malformed)
func (g *atpsGen) message(idx int, runs *[]string) (b []byte, gated bool, note string) {
	newRun := func() string {
		id := fmt.Sprintf("r%d", len(*runs)+1)
		*runs = append(*runs, id)
		return id
	}
	someRun := func() string {
		if len(*runs) == 0 || g.r.Intn(4) == 0 {
			return "ghost"
		}
		return (*runs)[g.r.Intn(len(*runs))]
	}
	step := "hello"
	switch g.r.Intn(7) {
	case 0, 1:
		step = "init"
	case 2:
		step = "pinit"
		g.usedPinit = true
	case 3:
		step = "keyed"
	}
	beh := atpsBehs[g.r.Intn(len(atpsBehs))]
	switch k := g.r.Intn(100); {
	case k < 6: // int-keyed maps in the input
		table := map[int]string{1 + g.r.Intn(5): "a", 10 + g.r.Intn(5): "b"}
		var extra any
		switch g.r.Intn(3) {
		case 0:
			extra = map[int]string{g.r.Intn(100): "x"}
		case 1:
			extra = map[string]any{"nested": map[int]string{7: "y", 8: "z"}}
		}
		return atpsEnc(atpsWSMap(newRun(), fmt.Sprintf("n%d", idx), beh, idx, table, extra)), true, "ws-imap:" + beh
	case k < 34:
		return atpsEnc(atpsWS(newRun(), step, fmt.Sprintf("n%d", idx), beh, idx)), true, "ws:" + beh
	case k < 38: // duplicate run ID
		if len(*runs) > 0 {
			return atpsEnc(atpsWS((*runs)[g.r.Intn(len(*runs))], step, fmt.Sprintf("n%d", idx), beh, idx)), true, "ws-dup:" + beh
		}
		return atpsEnc(atpsWS(newRun(), step, fmt.Sprintf("n%d", idx), beh, idx)), true, "ws:" + beh
	case k < 42: // unknown step
		run := newRun()
		g.unkRuns = append(g.unkRuns, run)
		if g.r.Intn(2) == 0 {
			return atpsEnc(atpsWS(run, atpsLongIDs[g.r.Intn(len(atpsLongIDs))], "x", beh, idx)), true, "ws-unknown-step-long-id"
		}
		return atpsEnc(atpsWS(run, "no-such-step", "x", beh, idx)), true, "ws-unknown-step"
	case k < 45: // input rejected by the schema
		m := atpsWS(newRun(), step, "x", beh, idx)
		delete(m["data"].(map[string]any)["config"].(map[string]any), "name")
		return atpsEnc(m), true, "ws-invalid-input"
	case k < 48: // run ID omitted / empty
		if g.r.Intn(2) == 0 {
			return atpsEnc(atpsWS(nil, step, "x", beh, idx)), false, "ws-no-run"
		}
		return atpsEnc(atpsWS("", step, "x", beh, idx)), false, "ws-empty-run"
	case k < 50: // step ID empty / omitted
		m := atpsWS(newRun(), "", "x", beh, idx)
		if g.r.Intn(2) == 0 {
			delete(m["data"].(map[string]any), "id")
		}
		return atpsEnc(m), false, "ws-no-step"
	case k < 55: // wrongly typed payloads
		bad := []any{5, "text", []any{1, 2}, map[string]any{"id": 7}, map[string]any{"id": "hello", "config": 5}, nil, true, map[any]any{1: 2}}
		p := bad[g.r.Intn(len(bad))]
		run := newRun()
		m := map[string]any{"id": uint32(1), "run_id": run, "data": p}
		// {"id":"hello","config":5} is a well-formed work-start whose input the schema rejects
		return atpsEnc(m), true, "ws-bad-payload"
	case k < 58: // envelope fields omitted
		switch g.r.Intn(3) {
		case 0:
			return atpsEnc(map[string]any{"id": uint32(1), "run_id": someRun()}), false, "omit-data"
		case 1:
			return atpsEnc(map[string]any{"run_id": someRun(), "data": map[string]any{"id": step, "config": map[string]any{"name": "x", "src": idx}}}), false, "omit-id"
		default:
			return atpsEnc(map[string]any{"id": uint32(1)}), false, "omit-run-and-data"
		}
	case k < 66: // signals
		switch g.r.Intn(6) {
		case 0:
			if g.r.Intn(2) == 0 {
				return atpsEnc(atpsSig(someRun(), atpsLongIDs[g.r.Intn(len(atpsLongIDs))], "ok")), false, "sig-unknown-signal-long-id"
			}
			return atpsEnc(atpsSig(someRun(), "no-such-signal", "ok")), false, "sig-unknown-signal"
		case 1:
			return atpsEnc(atpsSig("ghost", "sig", "ok")), false, "sig-unknown-run"
		case 2:
			return atpsEnc(atpsSig(nil, "sig", "ok")), false, "sig-no-run"
		case 3:
			return atpsEnc(atpsSig(someRun(), "sig", "panic")), false, "sig-panic"
		case 4:
			return atpsEnc(map[string]any{"id": uint32(3), "run_id": someRun(), "data": []any{1}}), false, "sig-bad-payload"
		default:
			return atpsEnc(atpsSig(someRun(), "sig", 7)), false, "sig"
		}
	case k < 72:
		if g.r.Intn(3) == 0 {
			return atpsEnc(atpsReleaseMap(someRun(), 0, map[int]string{g.r.Intn(9): "s", 20: "t"})), false, "sig-ok-int-map"
		}
		return atpsEnc(atpsSig(someRun(), "sig", "ok")), false, "sig-ok"
	case k < 78: // unknown message IDs (including the server's own)
		ids := []uint32{0, 2, 5, 6, 99, 4294967295}
		return atpsEnc(map[string]any{"id": ids[g.r.Intn(len(ids))], "run_id": someRun(), "data": map[string]any{}}), false, "unknown-msg-id"
	case k < 82: // items that are not a runtime message at all
		odd := [][]byte{{0xf6}, {0xf7}, atpsEnc(map[string]any{}), atpsEnc(map[string]any{"ID": uint32(99)})}
		return odd[g.r.Intn(len(odd))], false, "odd-item"
	case k < 88: // malformed or wrongly typed envelope: Decode fails
		bad := [][]byte{{0xff}, {0x1c}, {0xa1, 0x62, 0x69, 0x64, 0x61, 0x78}, atpsEnc(5), atpsEnc("str"), atpsEnc([]any{1}),
			atpsEnc(map[string]any{"id": "one"}), atpsEnc(map[string]any{"id": uint32(1), "run_id": 5}), {0x62, 0xff, 0xfe}, atpsEnc(map[string]any{"id": -1})}
		return bad[g.r.Intn(len(bad))], false, "malformed"
	case k < 94:
		if g.r.Intn(2) == 0 {
			vs := atpsClientDoneVariants()
			return atpsEnc(vs[g.r.Intn(len(vs))]), false, "client-done-odd-payload"
		}
		return atpsEnc(atpsClientDone()), false, "client-done"
	default:
		// a signal to a run whose work-start named an unknown step (the run ID is in runningSteps)
		if len(g.unkRuns) > 0 {
			run := g.unkRuns[g.r.Intn(len(g.unkRuns))]
			if g.r.Intn(2) == 0 {
				return atpsEnc(atpsSig(run, "sig", "ok")), false, "sig-to-unknown-step-run"
			}
			return atpsEnc(atpsSig(run, "no-such-signal", "ok")), false, "unknown-sig-to-unknown-step-run"
		}
		return atpsEnc(atpsWS(newRun(), step, fmt.Sprintf("n%d", idx), "ok", idx)), true, "ws:ok"
	}
}

// grammar session: messages, releases and faults interleaved at random
func (g *atpsGen) grammar(id int, maxMsgs int) *atpsSession {
	s := &atpsSession{ID: id, Stream: "grammar"}
	g.unkRuns, g.usedPinit = nil, false
	var runs []string
	var notes []string
	s.Actions = append(s.Actions, atpsAction{Op: "send", Bytes: []byte{0xf6}})
	n := 1 + g.r.Intn(maxMsgs)
	var unreleased []int
	coalesce := g.r.Intn(4) == 0
	var pending []byte
	flush := func() {
		if len(pending) > 0 {
			s.Actions = append(s.Actions, atpsAction{Op: "send", Bytes: pending})
			pending = nil
		}
	}
	fault := g.r.Intn(100)
	faultAt := g.r.Intn(n + 1)
	if n > 9 {
		// after the output broke or the context was cancelled nothing is observable any more; the
		// trace checker's state sets grow with every further message, so long sessions stay fault-free
		fault = 99
	}
	for i := 1; i <= n; i++ {
		if i == faultAt {
			flush()
			switch {
			case fault < 10:
				s.Actions = append(s.Actions, atpsAction{Op: "breakOutput"})
				notes = append(notes, "breakOutput")
			case fault < 18:
				s.Actions = append(s.Actions, atpsAction{Op: "cancel"})
				notes = append(notes, "cancel")
			case fault < 26:
				s.Actions = append(s.Actions, atpsAction{Op: "closeInput"})
				notes = append(notes, "closeInput")
			}
		}
		b, gated, note := g.message(i, &runs)
		notes = append(notes, note)
		if coalesce && g.r.Intn(3) > 0 {
			pending = append(pending, b...)
		} else {
			flush()
			s.Actions = append(s.Actions, atpsAction{Op: "send", Bytes: b})
		}
		if gated {
			unreleased = append(unreleased, i)
		}
		// release some handlers now, keep others running across the end of input
		if !coalesce || len(pending) == 0 {
			for len(unreleased) > 0 && g.r.Intn(3) == 0 {
				j := g.r.Intn(len(unreleased))
				s.Actions = append(s.Actions, atpsAction{Op: "release", Src: unreleased[j]})
				unreleased = append(unreleased[:j], unreleased[j+1:]...)
			}
		}
	}
	flush()
	// the end of input relative to the remaining handlers
	switch g.r.Intn(3) {
	case 0:
		s.Actions = append(s.Actions, atpsAction{Op: "closeInput"})
		s.Actions = append(s.Actions, atpsAction{Op: "settle"})
	case 1:
		g.r.Shuffle(len(unreleased), func(i, j int) { unreleased[i], unreleased[j] = unreleased[j], unreleased[i] })
		k := 0
		if len(unreleased) > 0 {
			k = g.r.Intn(len(unreleased) + 1)
		}
		for _, u := range unreleased[:k] {
			s.Actions = append(s.Actions, atpsAction{Op: "release", Src: u})
		}
		s.Actions = append(s.Actions, atpsAction{Op: "closeInput"})
		s.Actions = append(s.Actions, atpsAction{Op: "settle"})
	}
	if g.usedPinit {
		s.InitPanics = g.r.Intn(3)
		notes = append(notes, fmt.Sprintf("init-panics=%d", s.InitPanics))
	}
	s.Note = strings.Join(notes, ",")
	return s
}

// directed sessions: the histories that matter most, every run
func atpsDirected(nextID func() int) []*atpsSession {
	mk := func(note string, acts ...atpsAction) *atpsSession {
		all := append([]atpsAction{{Op: "send", Bytes: []byte{0xf6}}}, acts...)
		return &atpsSession{ID: nextID(), Stream: "directed", Note: note, Actions: all}
	}
	send := func(x any) atpsAction { return atpsAction{Op: "send", Bytes: atpsEnc(x)} }
	raw := func(b ...byte) atpsAction { return atpsAction{Op: "send", Bytes: b} }
	rel := func(src int) atpsAction { return atpsAction{Op: "release", Src: src} }
	var out []*atpsSession
	for _, beh := range []string{"ok", "errout", "undeclared", "invalid", "panic"} {
		// the step completes after client-done / after EOF / after garbage / before any of them
		out = append(out,
			mk("ws,client-done,release:"+beh, send(atpsWS("r1", "hello", "a", beh, 1)), send(atpsClientDone()), atpsAction{Op: "settle"}, rel(1)),
			mk("ws,eof,release:"+beh, send(atpsWS("r1", "hello", "a", beh, 1)), atpsAction{Op: "closeInput"}, atpsAction{Op: "settle"}, rel(1)),
			mk("ws,garbage,release:"+beh, send(atpsWS("r1", "init", "a", beh, 1)), raw(0xff), atpsAction{Op: "settle"}, rel(1)),
			mk("ws,release,client-done:"+beh, send(atpsWS("r1", "hello", "a", beh, 1)), rel(1), atpsAction{Op: "settle"}, send(atpsClientDone())),
		)
	}
	// many failing steps completing after a fatal error: more reports than the channel's capacity
	var many []atpsAction
	for i := 1; i <= 7; i++ {
		many = append(many, send(atpsWS(fmt.Sprintf("r%d", i), "hello", "a", "undeclared", i)))
	}
	out = append(out, mk("7 failing steps released after garbage", append(append([]atpsAction{}, many...), raw(0xff), atpsAction{Op: "settle"})...))
	out = append(out, mk("7 failing steps released after cancel", append(append([]atpsAction{}, many...), atpsAction{Op: "cancel"}, atpsAction{Op: "settle"})...))
	out = append(out, mk("7 failing steps released after the output broke", append(append([]atpsAction{}, many...), atpsAction{Op: "breakOutput"}, atpsAction{Op: "settle"})...))
	// more error reports from the read loop than the channel holds, in one write
	var burst []byte
	for i := 0; i < 9; i++ {
		burst = append(burst, atpsEnc(map[string]any{"id": uint32(99), "run_id": "", "data": nil})...)
	}
	out = append(out,
		mk("output broken, 9 unknown messages coalesced", atpsAction{Op: "breakOutput"}, atpsAction{Op: "send", Bytes: burst}),
		mk("cancelled, 9 unknown messages coalesced", atpsAction{Op: "cancel"}, atpsAction{Op: "send", Bytes: burst}),
		mk("9 unknown messages coalesced, client-done", atpsAction{Op: "send", Bytes: append(append([]byte{}, burst...), atpsEnc(atpsClientDone())...)}),
	)
	// fields omitted after a complete message
	out = append(out,
		mk("ws then ws without run_id", send(atpsWS("r1", "hello", "a", "ok", 1)), rel(1),
			send(map[string]any{"id": uint32(1), "data": map[string]any{"id": "hello", "config": map[string]any{"name": "b", "src": 2}}}), rel(2)),
		mk("ws then message with id only", send(atpsWS("r1", "hello", "a", "ok", 1)), rel(1), send(map[string]any{"id": uint32(1)}), rel(2)),
		mk("ws then null item", send(atpsWS("r1", "hello", "a", "ok", 1)), rel(1), raw(0xf6), rel(2)),
		mk("ws then empty map", send(atpsWS("r1", "hello", "a", "ok", 1)), rel(1), send(map[string]any{}), rel(2)),
	)
	// signals
	out = append(out,
		mk("signal with unknown signal ID", send(atpsWS("r1", "hello", "a", "ok", 1)), send(atpsSig("r1", "no-such-signal", "ok")), atpsAction{Op: "settle"}, rel(1)),
		mk("signal to a step without step data", send(atpsWS("r1", "hello", "a", "ok", 1)), send(atpsSig("r1", "sig", "ok")), atpsAction{Op: "settle"}, rel(1)),
		mk("signal to a step with step data", send(atpsWS("r1", "init", "a", "ok", 1)), send(atpsSig("r1", "sig", "ok")), atpsAction{Op: "settle"}, rel(1)),
		mk("panicking signal handler", send(atpsWS("r1", "init", "a", "ok", 1)), send(atpsSig("r1", "sig", "panic")), atpsAction{Op: "settle"}, rel(1)),
		mk("signal after client-done race", send(atpsWS("r1", "hello", "a", "ok", 1)), send(atpsSig("r1", "sig", "panic")), send(atpsClientDone()), rel(1)),
	)
	// a signal to a run whose work-start named an unknown step: the run ID is recorded in
	// runningSteps before the step ID is validated
	out = append(out,
		mk("unknown step, then a known signal to that run", send(atpsWS("r1", "no-such-step", "a", "ok", 1)), atpsAction{Op: "settle"}, send(atpsSig("r1", "sig", "ok")), atpsAction{Op: "settle"}, send(atpsClientDone())),
		mk("unknown step, then an unknown signal to that run", send(atpsWS("r1", "no-such-step", "a", "ok", 1)), atpsAction{Op: "settle"}, send(atpsSig("r1", "no-such-signal", "ok")), atpsAction{Op: "settle"}, send(atpsClientDone())),
		mk("unknown step and signals to that run, pipelined with a good run", atpsAction{Op: "send", Bytes: append(append(append(atpsEnc(atpsWS("r1", "no-such-step", "a", "ok", 1)), atpsEnc(atpsWS("r2", "hello", "b", "ok", 2))...), atpsEnc(atpsSig("r1", "sig", "ok"))...), atpsEnc(atpsSig("r2", "sig", "ok"))...)}, rel(2)),
	)
	// the per-run initializer of a step panics (inside CallStep / CallSignal, under the step's
	// initializer mutex): that run is answered with a step-fatal error, everything after it goes on
	withInit := func(n int, x *atpsSession) *atpsSession { x.InitPanics = n; return x }
	out = append(out,
		withInit(1, mk("initializer panics: alone", send(atpsWS("r1", "pinit", "a", "ok", 1)), atpsAction{Op: "settle"}, send(atpsClientDone()))),
		withInit(1, mk("initializer panics: then another run of the step", send(atpsWS("r1", "pinit", "a", "ok", 1)), atpsAction{Op: "settle"}, send(atpsWS("r2", "pinit", "b", "ok", 2)), atpsAction{Op: "settle"}, rel(2), send(atpsClientDone()))),
		withInit(1, mk("initializer panics: first of several pipelined runs", atpsAction{Op: "send", Bytes: append(append(atpsEnc(atpsWS("r1", "pinit", "a", "ok", 1)), atpsEnc(atpsWS("r2", "pinit", "b", "errout", 2))...), atpsEnc(atpsWS("r3", "pinit", "c", "undeclared", 3))...)}, atpsAction{Op: "settle"}, rel(1), rel(2), rel(3), send(atpsClientDone()))),
		withInit(1, mk("initializer panics: then signalled", send(atpsWS("r1", "pinit", "a", "ok", 1)), atpsAction{Op: "settle"}, send(atpsWS("r2", "pinit", "b", "ok", 2)), send(atpsSig("r2", "sig", "ok")), send(atpsSig("r1", "sig", "ok")), atpsAction{Op: "settle"}, rel(2), send(atpsClientDone()))),
		withInit(2, mk("initializer panics in the step and again in its signal's goroutine", send(atpsWS("r1", "pinit", "a", "ok", 1)), atpsAction{Op: "settle"}, send(atpsSig("r1", "sig", "ok")), atpsAction{Op: "settle"}, send(atpsWS("r2", "pinit", "b", "ok", 3)), rel(3), send(atpsClientDone()))),
		withInit(2, mk("initializer panics twice, third run fine, EOF", send(atpsWS("r1", "pinit", "a", "ok", 1)), send(atpsWS("r2", "pinit", "b", "ok", 2)), send(atpsWS("r3", "pinit", "c", "ok", 3)), atpsAction{Op: "closeInput"}, rel(1), rel(2), rel(3))),
	)
	// unknown step and signal IDs that are long and not ASCII: they are echoed in the error message
	for i, id := range atpsLongIDs {
		out = append(out, mk(fmt.Sprintf("unknown step ID #%d, %d bytes, multi-byte", i, len(id)),
			send(atpsWS("r1", id, "a", "ok", 1)), atpsAction{Op: "settle"}, send(atpsWS("r2", "hello", "b", "ok", 2)), rel(2),
			send(atpsSig("r2", id, "ok")), send(atpsSig("r1", id, "ok")), atpsAction{Op: "settle"}, send(atpsClientDone())))
	}
	// the release signal directly behind its work-start, in the same write; the initializer is slow
	{
		one := func(run string, src int) []byte {
			return append(atpsEnc(atpsWS(run, "islow", "a", "waitdata", src)), atpsEnc(atpsRelease(run, src))...)
		}
		out = append(out,
			mk("slow initializer: work-start and its release signal in one write", atpsAction{Op: "send", Bytes: one("r1", 1)}, atpsAction{Op: "settle"}, atpsAction{Op: "settle"}, send(atpsClientDone())),
			mk("slow initializer: three runs, each with its release signal in the same write", atpsAction{Op: "send", Bytes: one("r1", 1)}, atpsAction{Op: "send", Bytes: one("r2", 3)},
				atpsAction{Op: "send", Bytes: append(one("r3", 5), one("r4", 7)...)}, atpsAction{Op: "settle"}, atpsAction{Op: "settle"}, send(atpsClientDone())),
		)
	}
	// a run in progress across a plain client-done: it still fails on the wire, its context stays alive
	out = append(out,
		mk("client-done while a step watches its context", send(atpsWS("r1", "hello", "a", "ctxwatch", 1)), atpsAction{Op: "settle"}, send(atpsClientDone()), atpsAction{Op: "settle"}, atpsAction{Op: "settle"}, rel(1)),
		mk("end of input while a step watches its context", send(atpsWS("r1", "init", "a", "ctxwatch", 1)), atpsAction{Op: "settle"}, atpsAction{Op: "closeInput"}, atpsAction{Op: "settle"}, atpsAction{Op: "settle"}, rel(1)),
	)
	// conforming outputs with NaN and infinities
	for _, beh := range []string{"nan", "inf", "ninf"} {
		out = append(out, mk("output with "+beh, send(atpsWS("r1", "hello", "a", beh, 1)), rel(1), send(atpsWS("r2", "init", "b", "ok", 2)), rel(2), atpsAction{Op: "settle"}, send(atpsClientDone())))
	}
	// signal handlers registered under keys that differ from their signal IDs (also two with the same ID)
	for _, key := range []string{"stop", "cancel-step", "a1", "a2"} {
		out = append(out, mk("step waits for the signal announced as "+key,
			send(atpsWS("r1", "keyed", "a", "waitsig", 1)), atpsAction{Op: "settle"}, send(atpsSigKey("r1", key, "ok", 1)), atpsAction{Op: "settle"}, send(atpsClientDone())))
	}
	out = append(out, mk("two steps wait for the two signals that share an ID",
		send(atpsWS("r1", "keyed", "a", "waitsig", 1)), send(atpsWS("r2", "keyed", "b", "waitsig", 2)), atpsAction{Op: "settle"},
		send(atpsSigKey("r2", "a2", "ok", 2)), send(atpsSigKey("r1", "a1", "ok", 1)), atpsAction{Op: "settle"}, send(atpsClientDone())))
	// client-done with absent or oddly typed payload, nothing running / a step still running
	for i, v := range atpsClientDoneVariants() {
		out = append(out, mk(fmt.Sprintf("client-done variant #%d, nothing running", i), send(atpsWS("r1", "hello", "a", "ok", 1)), rel(1), atpsAction{Op: "settle"}, send(v)))
		out = append(out, mk(fmt.Sprintf("client-done variant #%d, a step still running", i), send(atpsWS("r1", "init", "a", []string{"ok", "undeclared"}[i%2], 1)), atpsAction{Op: "settle"}, send(v), atpsAction{Op: "settle"}, rel(1)))
	}
	// a signal handler that blocks until the step takes the signal: a late and a doubled hand-over
	// park the signal's goroutine, the read loop goes on with the work-starts behind them
	out = append(out,
		mk("late hand-over, then more work", send(atpsWS("r1", "hello", "a", "takesig", 1)), atpsAction{Op: "settle"}, send(atpsSigKey("r1", "sig", "hand", 1)), atpsAction{Op: "settle"},
			send(atpsSigKey("r1", "sig", "hand", 1)), atpsAction{Op: "settle"}, send(atpsWS("r2", "hello", "b", "ok", 4)), rel(4), send(atpsWS("r3", "init", "c", "errout", 5)), rel(5), atpsAction{Op: "settle"}, send(atpsClientDone())),
		mk("doubled hand-over in one write, then more work", send(atpsWS("r1", "keyed", "a", "takesig", 1)), atpsAction{Op: "settle"},
			atpsAction{Op: "send", Bytes: append(atpsEnc(atpsSigKey("r1", "stop", "hand", 1)), atpsEnc(atpsSigKey("r1", "stop", "hand", 1))...)}, atpsAction{Op: "settle"},
			send(atpsWS("r2", "hello", "b", "waitsig", 4)), atpsAction{Op: "settle"}, send(atpsRelease("r2", 4)), send(atpsWS("r3", "hello", "c", "ok", 6)), rel(6), atpsAction{Op: "settle"}, send(atpsClientDone())),
		mk("hand-over to a step that already ended, then more work", send(atpsWS("r1", "hello", "a", "ok", 1)), rel(1), atpsAction{Op: "settle"}, send(atpsSigKey("r1", "sig", "hand", 1)), atpsAction{Op: "settle"},
			send(atpsWS("r2", "hello", "b", "ok", 3)), rel(3), send(atpsWS("r3", "hello", "c", "panic", 4)), rel(4), atpsAction{Op: "settle"}, send(atpsClientDone())),
	)
	// payloads with integer-keyed maps: in the step input, in an any-typed property (also nested),
	// and in the data of the signal that releases a waiting step
	out = append(out,
		mk("int-keyed map in the step input", send(atpsWSMap("r1", "a", "ok", 1, map[int]string{1: "one", 2: "two"}, nil)), rel(1), atpsAction{Op: "settle"}, send(atpsClientDone())),
		mk("int-keyed maps in the input and in an any-typed property", send(atpsWSMap("r1", "a", "errout", 1, map[int]string{5: "five"}, map[int]string{7: "x", 8: "y"})), rel(1),
			send(atpsWSMap("r2", "b", "ok", 2, map[int]string{1: "q"}, map[string]any{"nested": map[int]string{3: "z"}})), rel(2), atpsAction{Op: "settle"}, send(atpsClientDone())),
		mk("a step waits for a signal whose data carries an int-keyed map", send(atpsWSMap("r1", "a", "waitsig", 1, map[int]string{1: "one"}, nil)), atpsAction{Op: "settle"},
			send(atpsWS("r2", "hello", "b", "waitsig", 2)), atpsAction{Op: "settle"},
			send(atpsReleaseMap("r1", 1, map[int]string{4: "four", 5: "five"})), send(atpsReleaseMap("r2", 2, map[int]string{6: "six"})), atpsAction{Op: "settle"}, send(atpsClientDone())),
	)
	// many runs in progress, each finishing only when a later message (its release signal) is
	// delivered: all started before the first signal is sent; released in order and in reverse order
	for _, reverse := range []bool{false, true} {
		const nRuns = 72
		var acts []atpsAction
		var chunk []byte
		for i := 1; i <= nRuns; i++ {
			step := "hello"
			if i%3 == 0 {
				step = "init"
			}
			chunk = append(chunk, atpsEnc(atpsWS(fmt.Sprintf("w%d", i), step, "a", "waitsig", i))...)
			if i%1 == 0 {
				acts = append(acts, atpsAction{Op: "send", Bytes: chunk})
				chunk = nil
			}
		}
		acts = append(acts, atpsAction{Op: "settle"}, atpsAction{Op: "settle"})
		for k := 1; k <= nRuns; k++ {
			i := k
			if reverse {
				i = nRuns + 1 - k
			}
			chunk = append(chunk, atpsEnc(atpsRelease(fmt.Sprintf("w%d", i), i))...)
			if k%1 == 0 {
				acts = append(acts, atpsAction{Op: "send", Bytes: chunk})
				chunk = nil
			}
		}
		acts = append(acts, send(atpsClientDone()))
		out = append(out, mk(fmt.Sprintf("%d runs in progress, each released by a later signal (reverse=%v)", nRuns, reverse), acts...))
	}
	// a run ID reused after its execution completed (runningSteps is never pruned; the model's
	// `running` list is not either, and a repeated run ID is accepted)
	out = append(out,
		mk("run ID reused after success", send(atpsWS("r1", "hello", "a", "ok", 1)), rel(1), atpsAction{Op: "settle"}, send(atpsWS("r1", "init", "b", "ok", 2)), rel(2), atpsAction{Op: "settle"}, send(atpsSig("r1", "sig", "ok")), send(atpsClientDone())),
		mk("run ID reused after an unknown step and after rejected input", send(atpsWS("r1", "no-such-step", "a", "ok", 1)), atpsAction{Op: "settle"}, send(atpsWS("r1", "hello", "b", "ok", 2)), rel(2), atpsAction{Op: "settle"},
			send(map[string]any{"id": uint32(1), "run_id": "r2", "data": map[string]any{"id": "hello", "config": map[string]any{"src": 3}}}), atpsAction{Op: "settle"}, send(atpsWS("r2", "hello", "c", "errout", 4)), rel(4), atpsAction{Op: "settle"}, send(atpsWS("r1", "hello", "d", "panic", 5)), rel(5), send(atpsClientDone())),
	)
	// duplicate run IDs
	out = append(out,
		mk("duplicate run ID, both running", send(atpsWS("r1", "hello", "a", "ok", 1)), send(atpsWS("r1", "hello", "b", "ok", 2)), rel(2), rel(1)),
		mk("duplicate run ID, one fails", send(atpsWS("r1", "hello", "a", "panic", 1)), send(atpsWS("r1", "init", "b", "ok", 2)), rel(1), rel(2)),
	)
	// nothing at all / only the start message
	out = append(out, &atpsSession{ID: nextID(), Stream: "directed", Note: "empty input", Actions: []atpsAction{{Op: "closeInput"}}})
	out = append(out, mk("start message only"))
	out = append(out, &atpsSession{ID: nextID(), Stream: "directed", Note: "malformed start message", Actions: []atpsAction{{Op: "send", Bytes: []byte{0xff}}}})
	out = append(out, &atpsSession{ID: nextID(), Stream: "directed", Note: "output broken before the start message", Actions: []atpsAction{{Op: "breakOutput"}, {Op: "send", Bytes: []byte{0xf6}}}})
	return out
}

// base transcripts for the truncation stream
func atpsTranscripts() [][][]byte {
	t1 := [][]byte{{0xf6},
		atpsEnc(atpsWS("r1", "hello", "Arca Lot", "ok", 1)),
		atpsEnc(atpsSig("r1", "sig", "ok")),
		atpsEnc(atpsWS("r2", "init", "b", "undeclared", 3)),
		atpsEnc(atpsClientDone())}
	t2 := [][]byte{{0xf6},
		atpsEnc(atpsWS("r1", "hello", "a", "panic", 1)),
		atpsEnc(map[string]any{"id": uint32(99), "run_id": "", "data": nil}),
		atpsEnc(atpsWS("r2", "no-such-step", "b", "ok", 3)),
		atpsEnc(atpsWS("r3", "hello", "c", "errout", 4)),
		atpsEnc(atpsSig("r9", "sig", "ok")),
		atpsEnc(atpsClientDone())}
	t3 := [][]byte{{0xf6},
		atpsEnc(atpsWS("r1", "init", "a", "invalid", 1)),
		atpsEnc(atpsWS("r1", "hello", "b", "ok", 2)),
		atpsEnc(atpsClientDone())}
	return [][][]byte{t1, t2, t3}
}

// truncation session: the transcript cut after `cut` bytes, then end of input; the handlers are
// released before (early) or after (late) the end of input
func atpsTruncated(id int, tr [][]byte, cut int, late bool) *atpsSession {
	s := &atpsSession{ID: id, Stream: "truncate", Note: fmt.Sprintf("cut=%d late=%v", cut, late)}
	pos := 0
	var srcs []int
	for i, item := range tr {
		if pos >= cut {
			break
		}
		end := pos + len(item)
		if end <= cut {
			s.Actions = append(s.Actions, atpsAction{Op: "send", Bytes: item})
			if i > 0 {
				srcs = append(srcs, i)
			}
		} else {
			s.Actions = append(s.Actions, atpsAction{Op: "send", Bytes: item[:cut-pos]})
		}
		pos = end
	}
	if !late {
		for _, k := range srcs {
			s.Actions = append(s.Actions, atpsAction{Op: "release", Src: k})
		}
	}
	s.Actions = append(s.Actions, atpsAction{Op: "closeInput"}, atpsAction{Op: "settle"})
	return s
}

// corruption session: one byte of a transcript replaced, inserted or deleted
func (g *atpsGen) corrupted(id int, tr [][]byte) *atpsSession {
	var all []byte
	for _, it := range tr {
		all = append(all, it...)
	}
	p := 1 + g.r.Intn(len(all)-1)
	var mut []byte
	switch g.r.Intn(3) {
	case 0:
		mut = append(append(append([]byte{}, all[:p]...), byte(g.r.Intn(256))), all[p+1:]...)
	case 1:
		mut = append(append(append([]byte{}, all[:p]...), byte(g.r.Intn(256))), all[p:]...)
	default:
		mut = append(append([]byte{}, all[:p]...), all[p+1:]...)
	}
	s := &atpsSession{ID: id, Stream: "corrupt", Note: fmt.Sprintf("pos=%d", p)}
	// written in a few chunks of arbitrary size
	for len(mut) > 0 {
		n := 1 + g.r.Intn(len(mut))
		if g.r.Intn(2) == 0 && n > 40 {
			n = 40
		}
		s.Actions = append(s.Actions, atpsAction{Op: "send", Bytes: mut[:n]})
		mut = mut[n:]
	}
	if g.r.Intn(2) == 0 {
		s.Actions = append(s.Actions, atpsAction{Op: "closeInput"}, atpsAction{Op: "settle"})
	}
	return s
}

// ---------------------------------------------------------------------------------------------
// worker subprocess

func atpsChild(a Args) {
	f, err := os.Open(a.Replay)
	if err != nil {
		panic(err)
	}
	var sessions []*atpsSession
	sc := bufio.NewScanner(f)
	sc.Buffer(make([]byte, 1<<20), 1<<26)
	for sc.Scan() {
		var s atpsSession
		if err := json.Unmarshal(sc.Bytes(), &s); err != nil {
			panic(err)
		}
		sessions = append(sessions, &s)
	}
	f.Close()
	outF, err := os.Create(a.Out)
	if err != nil {
		panic(err)
	}
	var wmu sync.Mutex
	write := func(v any) {
		b, _ := json.Marshal(v)
		wmu.Lock()
		outF.Write(append(b, '\n'))
		wmu.Unlock()
	}
	to := atpsTimeouts{settle: 3 * time.Millisecond, write: 3 * time.Second, hang: 5 * time.Second}
	if a.Tier == "thorough" {
		to.hang = 10 * time.Second
	}
	par := a.N
	if par <= 0 {
		par = 1
	}
	sem := make(chan struct{}, par)
	var wg sync.WaitGroup
	for _, s := range sessions {
		s := s
		sem <- struct{}{}
		wg.Add(1)
		go func() {
			defer wg.Done()
			defer func() { <-sem }()
			write(map[string]any{"start": s.ID})
			write(atpsRunSession(s, to))
		}()
	}
	wg.Wait()
	outF.Close()
}

type atpsBatchResult struct {
	outcomes map[int]*atpsOutcome
	started  map[int]bool
	exitErr  error
	stderr   string
}

func atpsRunBatch(dir string, name string, sessions []*atpsSession, par int, tier string) atpsBatchResult {
	in := filepath.Join(dir, name+".in.jsonl")
	outp := filepath.Join(dir, name+".out.jsonl")
	var buf bytes.Buffer
	for _, s := range sessions {
		b, _ := json.Marshal(s)
		buf.Write(b)
		buf.WriteByte('\n')
	}
	if err := os.WriteFile(in, buf.Bytes(), 0o644); err != nil {
		panic(err)
	}
	cmd := exec.Command(os.Args[0], "atpserver", "-streams", "child", "-replay", in, "-out", outp, "-n", fmt.Sprint(par), "-tier", tier)
	var stderr bytes.Buffer
	cmd.Stderr = &stderr
	cmd.Stdout = io.Discard
	res := atpsBatchResult{outcomes: map[int]*atpsOutcome{}, started: map[int]bool{}}
	res.exitErr = cmd.Run()
	res.stderr = stderr.String()
	if f, err := os.Open(outp); err == nil {
		sc := bufio.NewScanner(f)
		sc.Buffer(make([]byte, 1<<20), 1<<26)
		for sc.Scan() {
			var probe map[string]json.RawMessage
			if json.Unmarshal(sc.Bytes(), &probe) != nil {
				continue // a line cut short by a crash
			}
			if st, ok := probe["start"]; ok {
				var id int
				_ = json.Unmarshal(st, &id)
				res.started[id] = true
				continue
			}
			var o atpsOutcome
			if json.Unmarshal(sc.Bytes(), &o) == nil && o.End != "" {
				oc := o
				res.outcomes[o.ID] = &oc
			}
		}
		f.Close()
	}
	_ = os.Remove(in)
	_ = os.Remove(outp)
	return res
}

func atpsPanicLine(stderr string) string {
	for _, l := range strings.Split(stderr, "\n") {
		if strings.HasPrefix(l, "panic:") || strings.HasPrefix(l, "fatal error:") || strings.Contains(l, "[signal ") {
			return l
		}
	}
	if len(stderr) > 200 {
		return stderr[:200]
	}
	return stderr
}

// ---------------------------------------------------------------------------------------------
// the command

func atpsCmd(a Args) {
	if a.Streams == "child" {
		atpsChild(a)
		return
	}
	if a.Streams == "stresschild" {
		atpsStressChild()
		return
	}
	if err := os.MkdirAll(a.Out, 0o755); err != nil {
		panic(err)
	}
	s := newSink(a.Out)
	defer s.close()
	g := &atpsGen{r: rand.New(rand.NewSource(a.Seed))}
	thorough := a.Tier == "thorough"
	next := 0
	nextID := func() int { next++; return next }
	var sessions []*atpsSession
	streams := a.Streams
	if streams == "valid,random" { // the flag's default
		streams = "directed,grammar,truncate,corrupt,stress"
	}
	if a.Replay != "" {
		// replay: the session scripts of an earlier run (sessions.jsonl), or a finding / replay file
		// whose detail carries the session script
		add := func(b []byte) bool {
			var x atpsSession
			if json.Unmarshal(b, &x) == nil && len(x.Actions) > 0 {
				x.ID = nextID()
				sessions = append(sessions, &x)
				return true
			}
			return false
		}
		fromFinding := func(b []byte) bool {
			var fd struct {
				Detail []string `json:"detail"`
			}
			ok := false
			if json.Unmarshal(b, &fd) == nil {
				for _, d := range fd.Detail {
					if strings.HasPrefix(d, "{") && add([]byte(d)) {
						ok = true
					}
				}
			}
			return ok
		}
		whole, err := os.ReadFile(a.Replay)
		if err != nil {
			panic(err)
		}
		if !fromFinding(whole) {
			sc := bufio.NewScanner(bytes.NewReader(whole))
			sc.Buffer(make([]byte, 1<<20), 1<<26)
			for sc.Scan() {
				if !add(sc.Bytes()) {
					fromFinding(sc.Bytes())
				}
			}
		}
	} else {
		for _, st := range strings.Split(streams, ",") {
			switch st {
			case "directed":
				sessions = append(sessions, atpsDirected(nextID)...)
			case "grammar":
				n := a.N
				if thorough {
					n *= 10
				}
				for i := 0; i < n; i++ {
					max := 8
					if i%5 == 0 {
						max = 14
					}
					sessions = append(sessions, g.grammar(nextID(), max))
				}
			case "truncate":
				for _, tr := range atpsTranscripts() {
					total := 0
					bounds := map[int]bool{}
					for _, it := range tr {
						total += len(it)
						bounds[total] = true
					}
					for cut := 0; cut <= total; cut++ {
						near := bounds[cut] || bounds[cut-1] || bounds[cut+1]
						if !thorough && !near && cut%9 != int(a.Seed%9+9)%9 {
							continue
						}
						sessions = append(sessions, atpsTruncated(nextID(), tr, cut, false))
						if thorough || near {
							sessions = append(sessions, atpsTruncated(nextID(), tr, cut, true))
						}
					}
				}
			case "corrupt":
				n := a.N / 2
				if thorough {
					n = a.N * 5
				}
				trs := atpsTranscripts()
				for i := 0; i < n; i++ {
					sessions = append(sessions, g.corrupted(nextID(), trs[i%len(trs)]))
				}
			}
		}
	}
	// the scripts, for replay
	{
		var buf bytes.Buffer
		for _, x := range sessions {
			b, _ := json.Marshal(x)
			buf.Write(b)
			buf.WriteByte('\n')
		}
		_ = os.WriteFile(filepath.Join(a.Out, "sessions.jsonl"), buf.Bytes(), 0o644)
	}

	// run in worker subprocesses
	workers := 8
	par := 4
	tmp, err := os.MkdirTemp("", "atpserver-")
	if err != nil {
		panic(err)
	}
	defer os.RemoveAll(tmp)
	outcomes := map[int]*atpsOutcome{}
	var omu sync.Mutex
	batchSize := (len(sessions) + workers*4 - 1) / (workers * 4)
	if batchSize < 1 {
		batchSize = 1
	}
	var batches [][]*atpsSession
	for i := 0; i < len(sessions); i += batchSize {
		j := i + batchSize
		if j > len(sessions) {
			j = len(sessions)
		}
		batches = append(batches, sessions[i:j])
	}
	sem := make(chan struct{}, workers)
	var wg sync.WaitGroup
	var retry []*atpsSession
	for bi, batch := range batches {
		bi, batch := bi, batch
		sem <- struct{}{}
		wg.Add(1)
		go func() {
			defer wg.Done()
			defer func() { <-sem }()
			res := atpsRunBatch(tmp, fmt.Sprintf("b%d", bi), batch, par, a.Tier)
			omu.Lock()
			defer omu.Unlock()
			for _, x := range batch {
				if o, ok := res.outcomes[x.ID]; ok {
					outcomes[x.ID] = o
				} else {
					// the worker died (or never got to it): run it alone
					retry = append(retry, x)
				}
			}
		}()
	}
	wg.Wait()
	sort.Slice(retry, func(i, j int) bool { return retry[i].ID < retry[j].ID })
	for ri, x := range retry {
		ri, x := ri, x
		sem <- struct{}{}
		wg.Add(1)
		go func() {
			defer wg.Done()
			defer func() { <-sem }()
			res := atpsRunBatch(tmp, fmt.Sprintf("r%d", ri), []*atpsSession{x}, 1, a.Tier)
			omu.Lock()
			defer omu.Unlock()
			if o, ok := res.outcomes[x.ID]; ok {
				outcomes[x.ID] = o
				s.stats["rerun-alone-ok"]++
				return
			}
			outcomes[x.ID] = &atpsOutcome{ID: x.ID, End: "crash", Stderr: atpsPanicLine(res.stderr),
				Findings: []string{"the server process died: " + atpsPanicLine(res.stderr)}}
		}()
	}
	wg.Wait()

	// cases, results, findings
	for _, x := range sessions {
		o := outcomes[x.ID]
		s.stats["stream:"+x.Stream]++
		s.stats["end:"+o.End]++
		if o.End == "skipped" {
			continue
		}
		s.nextID++
		id := s.nextID
		evs := o.Events
		if evs == nil {
			evs = []map[string]any{}
		}
		c := map[string]any{"id": id, "op": "ATP_SERVER_TRACE", "cfg": "repaired", "events": evs, "end": o.End,
			"note": x.Stream + ": " + x.Note, "session": x.ID, "schema": nil, "v": nil}
		b, _ := json.Marshal(c)
		s.cases.Write(b)
		s.cases.WriteByte('\n')
		s.results.WriteString("{\"r\":\"ok\"}\n")
		for k, v := range o.Stats {
			s.stats["sum:"+k] += v
		}
		for _, e := range evs {
			s.stats["ev:"+fmt.Sprint(e["e"])]++
		}
		for _, what := range o.Findings {
			script, _ := json.Marshal(x)
			prop := "C07"
			if strings.HasPrefix(what, "[C11] ") {
				prop, what = "C11", strings.TrimPrefix(what, "[C11] ")
			}
			s.finding(Finding{Prop: prop, What: what, Cases: []int{id}, Detail: []string{"session " + fmt.Sprint(x.ID), x.Stream + ": " + x.Note, string(script)}})
		}
	}
	s.stats["sessions"] = len(sessions)
	if a.Replay == "" {
		for _, st := range strings.Split(streams, ",") {
			if st == "stress" {
				atpsStress(a, s)
			}
		}
	}
	writeStats(a.Out, s, nil)
}

// ---------------------------------------------------------------------------------------------
// stress stream

const atpsStressMarker = "atps-stress: RunATPServer returned"

// atpsStressChild serves one ATP session on the process's stdin/stdout.
func atpsStressChild() {
	r := &atpsRunner{gates: map[int]chan struct{}{}, runIDs: map[string]int{}, entered: map[int]bool{}, exited: map[int]bool{}, quiet: true, openAll: true}
	errs := atp.RunATPServer(context.Background(), os.Stdin, os.Stdout, r.plugin())
	fmt.Fprintf(os.Stderr, "%s %d errors\n", atpsStressMarker, len(errs))
}

type atpsStressResult struct {
	findings []string
	detail   string
	runs     int
	messages int
	answered int
	elapsed  time.Duration
}

// atpsStressRound floods one child with nRuns pipelined work-starts (and signals).
func atpsStressRound(bin string, seed int64, nRuns int, race bool, timeout time.Duration) (res atpsStressResult) {
	start := time.Now()
	defer func() { res.elapsed = time.Since(start) }()
	rnd := rand.New(rand.NewSource(seed))
	cmd := exec.Command(bin, "atpserver", "-streams", "stresschild")
	cmd.Env = append(os.Environ(), "GORACE=halt_on_error=1 exitcode=66")
	stdin, err := cmd.StdinPipe()
	if err != nil {
		res.findings = append(res.findings, "stress: "+err.Error())
		return
	}
	stdout, err := cmd.StdoutPipe()
	if err != nil {
		res.findings = append(res.findings, "stress: "+err.Error())
		return
	}
	var stderr bytes.Buffer
	cmd.Stderr = &stderr
	if err := cmd.Start(); err != nil {
		res.findings = append(res.findings, "stress: could not start the child: "+err.Error())
		return
	}
	// what each run is owed
	expected := map[string]int{}
	var wmu sync.Mutex
	// reader: everything the server writes, concurrently with the flood
	terminal := map[string]int{}
	serverFatal := 0
	var readErr error
	readerDone := make(chan struct{})
	go func() {
		defer close(readerDone)
		dec := cbor.NewDecoder(bufio.NewReaderSize(stdout, 1<<16))
		var hello atp.HelloMessage
		if err := dec.Decode(&hello); err != nil {
			readErr = fmt.Errorf("hello: %w", err)
			return
		}
		for {
			var m atp.DecodedRuntimeMessage
			if err := dec.Decode(&m); err != nil {
				if !errors.Is(err, io.EOF) {
					readErr = err
				}
				return
			}
			switch m.MessageID {
			case atp.MessageTypeWorkDone:
				terminal[m.RunID]++
			case atp.MessageTypeError:
				var em atp.ErrorMessage
				_ = cbor.Unmarshal(m.RawMessageData, &em)
				if em.ServerFatal {
					serverFatal++
				} else if em.StepFatal {
					terminal[m.RunID]++
				}
			}
		}
	}()
	// writer: no waiting for answers
	writeDone := make(chan error, 1)
	go func() {
		w := bufio.NewWriterSize(stdin, 1<<12)
		put := func(x any) error {
			_, err := w.Write(atpsEnc(x))
			return err
		}
		_, _ = w.Write([]byte{0xf6})
		behs := []string{"ok", "ok", "ok", "errout", "undeclared", "invalid", "panic"}
		var werr error
		for i := 0; i < nRuns && werr == nil; i++ {
			run := fmt.Sprintf("s%d-%d", seed%1000, i)
			step := "hello"
			if rnd.Intn(3) == 0 {
				step = "init"
			}
			var m map[string]any
			switch k := rnd.Intn(100); {
			case k < 22:
				m = atpsWS(run, "no-such-step", "x", "ok", i+1)
			case k < 40:
				m = atpsWS(run, step, "x", "ok", i+1)
				delete(m["data"].(map[string]any)["config"].(map[string]any), "name")
			default:
				m = atpsWS(run, step, "n", behs[rnd.Intn(len(behs))], i+1)
			}
			wmu.Lock()
			expected[run]++
			res.messages++
			wmu.Unlock()
			werr = put(m)
			if werr == nil && rnd.Intn(4) == 0 {
				var sg map[string]any
				switch rnd.Intn(5) {
				case 0:
					sg = atpsSig(run, "no-such-signal", "ok")
				case 1:
					sg = atpsSig("ghost", "sig", "ok")
				case 2:
					sg = atpsSig(fmt.Sprintf("s%d-%d", seed%1000, rnd.Intn(i+1)), "sig", "ok")
				default:
					sg = atpsSig(run, "sig", "ok")
				}
				wmu.Lock()
				res.messages++
				wmu.Unlock()
				werr = put(sg)
			}
			if rnd.Intn(64) == 0 {
				_ = w.Flush()
			}
		}
		if werr == nil {
			werr = put(atpsClientDone())
		}
		if werr == nil {
			werr = w.Flush()
		}
		_ = stdin.Close()
		writeDone <- werr
	}()
	waitDone := make(chan error, 1)
	go func() {
		<-readerDone
		waitDone <- cmd.Wait()
	}()
	var waitErr error
	timedOut := false
	select {
	case waitErr = <-waitDone:
	case <-time.After(timeout):
		timedOut = true
		_ = cmd.Process.Kill()
		waitErr = <-waitDone
	}
	select {
	case <-writeDone:
	case <-time.After(time.Second):
	}
	res.runs = nRuns
	text := stderr.String()
	head := text
	if len(head) > 3000 {
		head = head[:3000]
	}
	kind := "normal build"
	if race {
		kind = "race-detector build"
	}
	switch {
	case strings.Contains(text, "DATA RACE"):
		res.findings = append(res.findings, "stress ("+kind+"): the race detector reports a data race in the server under a pipelining client")
		res.detail = head
		return
	case strings.Contains(text, "fatal error:"):
		res.findings = append(res.findings, "stress ("+kind+"): the server process died under a pipelining client: "+atpsPanicLine(text))
		res.detail = head
		return
	case strings.Contains(text, "panic:") || strings.Contains(text, "[signal "):
		res.findings = append(res.findings, "stress ("+kind+"): the server process panicked under a pipelining client: "+atpsPanicLine(text))
		res.detail = head
		return
	case timedOut:
		res.findings = append(res.findings, fmt.Sprintf("stress (%s): the server did not finish %d pipelined runs within %v", kind, nRuns, timeout))
		res.detail = head
		return
	case waitErr != nil:
		res.findings = append(res.findings, "stress ("+kind+"): the server process ended abnormally: "+waitErr.Error())
		res.detail = head
		return
	}
	if !strings.Contains(text, atpsStressMarker) {
		res.findings = append(res.findings, "stress ("+kind+"): the child exited without RunATPServer returning")
		res.detail = head
	}
	if readErr != nil {
		res.findings = append(res.findings, "stress ("+kind+"): the output stream is not a sequence of runtime messages: "+readErr.Error())
	}
	if serverFatal > 0 {
		res.findings = append(res.findings, fmt.Sprintf("stress (%s): %d server-fatal error messages for a well-formed message stream", kind, serverFatal))
	}
	wmu.Lock()
	defer wmu.Unlock()
	var wrong []string
	for run, want := range expected {
		got := terminal[run]
		if got == want {
			res.answered++
		} else {
			wrong = append(wrong, fmt.Sprintf("%s: %d terminal message(s)", run, got))
		}
	}
	for run := range terminal {
		if _, ok := expected[run]; !ok && run != "" {
			wrong = append(wrong, fmt.Sprintf("%s: terminal message for a run that was never started", run))
		}
	}
	if len(wrong) > 0 {
		sort.Strings(wrong)
		n := len(wrong)
		if len(wrong) > 8 {
			wrong = wrong[:8]
		}
		res.findings = append(res.findings, fmt.Sprintf("stress (%s): %d of %d accepted runs were not answered exactly once: %s", kind, n, len(expected), strings.Join(wrong, "; ")))
	}
	return res
}

// atpsBuildHarness builds this harness (optionally with the race detector, optionally against
// the tree in $VERIF_REPO) and returns the binary's path.
func atpsBuildHarness(outDir string, race bool) (string, error) {
	src := os.Getenv("HARNESS_SRC")
	if src == "" {
		src = "/verif/harness"
	}
	name := "harness-atps"
	args := []string{"build"}
	if race {
		args = append(args, "-race")
		name += "-race"
	}
	if repo := os.Getenv("VERIF_REPO"); repo != "" {
		// an alternate go.mod whose replace points at that tree
		mod, err := os.ReadFile(filepath.Join(src, "go.mod"))
		if err != nil {
			return "", err
		}
		abs, err := filepath.Abs(repo)
		if err != nil {
			return "", err
		}
		var lines []string
		for _, l := range strings.Split(string(mod), "\n") {
			if strings.HasPrefix(strings.TrimSpace(l), "replace go.flow.arcalot.io/pluginsdk") {
				l = "replace go.flow.arcalot.io/pluginsdk => " + abs
			}
			lines = append(lines, l)
		}
		alt := filepath.Join(outDir, "atps-alt.mod")
		if err := os.WriteFile(alt, []byte(strings.Join(lines, "\n")), 0o644); err != nil {
			return "", err
		}
		if sum, err := os.ReadFile(filepath.Join(src, "go.sum")); err == nil {
			_ = os.WriteFile(filepath.Join(outDir, "atps-alt.sum"), sum, 0o644)
		}
		args = append(args, "-modfile="+alt)
	}
	bin := filepath.Join(outDir, name)
	args = append(args, "-o", bin, "./cmd/harness")
	build := exec.Command("go", args...)
	build.Dir = src
	build.Env = append(os.Environ(), "GOFLAGS=-mod=mod", "GOPROXY=off", "GOSUMDB=off", "GOTOOLCHAIN=local")
	if out, err := build.CombinedOutput(); err != nil {
		return "", fmt.Errorf("%v: %s", err, string(out))
	}
	return bin, nil
}

func atpsStress(a Args, s *sink) {
	outDir, err := filepath.Abs(a.Out)
	if err != nil {
		outDir = a.Out
	}
	thorough := a.Tier == "thorough"
	normalRounds, raceRounds, normalRuns, raceRuns := 3, 2, 3000, 1500
	if thorough {
		normalRounds, raceRounds, normalRuns, raceRuns = 10, 6, 6000, 3000
	}
	report := func(res atpsStressResult, label string) {
		s.stats["stress:"+label+":rounds"]++
		s.stats["stress:"+label+":runs"] += res.runs
		s.stats["stress:"+label+":messages"] += res.messages
		s.stats["stress:"+label+":answered-once"] += res.answered
		s.stats["stress:"+label+":ms"] += int(res.elapsed / time.Millisecond)
		for _, what := range res.findings {
			var detail []string
			if res.detail != "" {
				detail = []string{res.detail}
			}
			s.finding(Finding{Prop: "C07", What: what, Cases: []int{}, Detail: detail})
		}
	}
	self := os.Args[0]
	if os.Getenv("VERIF_REPO") != "" {
		bin, err := atpsBuildHarness(outDir, false)
		if err != nil {
			s.stats["stress:build-failed"]++
			s.finding(Finding{Prop: "C07", What: "stress: could not build the harness against $VERIF_REPO: " + err.Error(), Cases: []int{}})
			return
		}
		defer os.Remove(bin)
		self = bin
	}
	// the race-detector build is prepared while the normal rounds run
	type built struct {
		bin string
		err error
	}
	raceBin := make(chan built, 1)
	go func() {
		bin, err := atpsBuildHarness(outDir, true)
		raceBin <- built{bin, err}
	}()
	var wg sync.WaitGroup
	var rmu sync.Mutex
	for i := 0; i < normalRounds; i++ {
		i := i
		wg.Add(1)
		go func() {
			defer wg.Done()
			res := atpsStressRound(self, a.Seed*7919+int64(i), normalRuns, false, 60*time.Second)
			rmu.Lock()
			report(res, "normal")
			rmu.Unlock()
		}()
	}
	wg.Wait()
	rb := <-raceBin
	if rb.err != nil {
		s.stats["stress:race-build-failed"]++
		s.finding(Finding{Prop: "C07", What: "stress: could not build the race-detector harness: " + rb.err.Error(), Cases: []int{}})
	} else {
		for i := 0; i < raceRounds; i++ {
			i := i
			wg.Add(1)
			go func() {
				defer wg.Done()
				res := atpsStressRound(rb.bin, a.Seed*104729+int64(i), raceRuns, true, 120*time.Second)
				rmu.Lock()
				report(res, "race")
				rmu.Unlock()
			}()
		}
		wg.Wait()
		_ = os.Remove(rb.bin)
	}
	_ = os.Remove(filepath.Join(outDir, "atps-alt.mod"))
	_ = os.Remove(filepath.Join(outDir, "atps-alt.sum"))
}
