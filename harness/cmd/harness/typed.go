package main

import (
	"fmt"
	"reflect"

	"go.flow.arcalot.io/pluginsdk/schema"
	"harness/hx"
)

// Typed (generic) schema variants are outside the Lean model: typed string enums, one-ofs whose
// member interface is not `any`, typed lists / maps / objects / scopes, struct-mapped members with
// unsigned and narrow integer fields, treat-empty-as-default on slice and map fields. This stream
// evaluates totality (C04) and the round trip (C01) directly on the implementation for a family of
// such schemas at several positions, on targeted and random Go values.

type tyColour string

type tyShape interface{ Area() int64 }

type tyCircle struct {
	R    int64    `json:"r"`
	Port uint16   `json:"port"`
	Tags []string `json:"tags"`
}

func (c tyCircle) Area() int64 { return 3 * c.R * c.R }

type tySquare struct {
	S       int64            `json:"s"`
	Backlog *uint            `json:"backlog"`
	Small   uint8            `json:"small"`
	Narrow  int32            `json:"narrow"`
	Labels  map[string]int64 `json:"labels"`
}

func (q tySquare) Area() int64 { return q.S * q.S }

type tyTriangle struct {
	A int64 `json:"a"`
}

func (t tyTriangle) Area() int64 { return t.A }

func tyProp(t schema.Type, required bool) *schema.PropertySchema {
	return schema.NewPropertySchema(t, nil, required, nil, nil, nil, nil, nil)
}

func tyCircleObj() *schema.ObjectSchema {
	return schema.NewStructMappedObjectSchema[tyCircle]("Circle", map[string]*schema.PropertySchema{
		"r":    tyProp(schema.NewIntSchema(nil, nil, nil), true),
		"port": tyProp(schema.NewIntSchema(sp(int64(0)), sp(int64(65535)), nil), false),
		"tags": tyProp(schema.NewListSchema(schema.NewStringSchema(nil, nil, nil), nil, nil), false).TreatEmptyAsDefaultValue(),
	})
}

func tySquareObj() *schema.ObjectSchema {
	return schema.NewStructMappedObjectSchema[tySquare]("Square", map[string]*schema.PropertySchema{
		"s":       tyProp(schema.NewIntSchema(nil, nil, nil), true),
		"backlog": tyProp(schema.NewIntSchema(sp(int64(0)), nil, nil), false),
		"small":   tyProp(schema.NewIntSchema(sp(int64(0)), sp(int64(255)), nil), false),
		"narrow":  tyProp(schema.NewIntSchema(sp(int64(-1000)), sp(int64(1000)), nil), false),
		"labels": tyProp(schema.NewMapSchema(schema.NewStringSchema(nil, nil, nil), schema.NewIntSchema(nil, nil, nil), nil, nil), false).
			TreatEmptyAsDefaultValue(),
	})
}

type tyCore struct {
	name  string
	build func() schema.Type
}

func tyCores() []tyCore {
	return []tyCore{
		{"typed-string-enum", func() schema.Type {
			return schema.NewTypedStringEnumSchema(map[tyColour]*schema.DisplayValue{"red": nil, "green": nil})
		}},
		{"oneof-string[Shape]", func() schema.Type {
			return schema.NewOneOfStringSchema[tyShape](map[string]schema.Object{"c": tyCircleObj(), "q": tySquareObj()}, "kind", false)
		}},
		{"oneof-int[Shape]", func() schema.Type {
			return schema.NewOneOfIntSchema[tyShape](map[int64]schema.Object{0: tyCircleObj(), 1: tySquareObj()}, "k", false)
		}},
		{"oneof-string[any]", func() schema.Type {
			return schema.NewOneOfStringSchema[any](map[string]schema.Object{"c": tyCircleObj(), "q": tySquareObj()}, "kind", false)
		}},
		{"struct-mapped", func() schema.Type { return tySquareObj() }},
		{"typed-object", func() schema.Type {
			return schema.NewTypedObject[tyCircle]("Circle", tyCircleObj().Properties())
		}},
		{"typed-scope", func() schema.Type { return schema.NewTypedScopeSchema[tySquare](tySquareObj()) }},
		{"typed-list", func() schema.Type {
			return schema.NewTypedListSchema[string](schema.NewStringSchema(nil, nil, nil), nil, sp(int64(3)))
		}},
		{"typed-map", func() schema.Type {
			return schema.NewTypedMapSchema[string, int64](schema.NewStringSchema(nil, nil, nil), schema.NewIntSchema(nil, nil, nil), nil, nil)
		}},
	}
}

type tyWrap struct {
	name string
	ty   func(schema.Type) schema.Type
	val  func(any) any
}

func tyWraps() []tyWrap {
	return []tyWrap{
		{"root", func(t schema.Type) schema.Type { return t }, func(x any) any { return x }},
		{"list", func(t schema.Type) schema.Type { return schema.NewListSchema(t, nil, nil) }, func(x any) any { return []any{x} }},
		{"map", func(t schema.Type) schema.Type {
			return schema.NewMapSchema(schema.NewStringSchema(nil, nil, nil), t, nil, nil)
		}, func(x any) any { return map[string]any{"a": x} }},
		{"property", func(t schema.Type) schema.Type {
			return schema.NewObjectSchema("O", map[string]*schema.PropertySchema{"p": tyProp(t, false), "z": tyProp(schema.NewBoolSchema(), false)})
		}, func(x any) any { return map[string]any{"p": x} }},
		{"scope", func(t schema.Type) schema.Type {
			return schema.NewScopeSchema(schema.NewObjectSchema("O", map[string]*schema.PropertySchema{"p": tyProp(t, false), "z": tyProp(schema.NewBoolSchema(), false)}))
		}, func(x any) any { return map[string]any{"p": x} }},
	}
}

func tyTargeted() []any {
	u := uint(7)
	return []any{
		"red", tyColour("red"), tyColour("blue"), "blue", "", int64(5), 5, uint8(3), 1.5, true, nil, []byte("red"),
		[]any{"red"}, []string{"red", "green"}, []tyColour{"red"}, map[string]string{"a": "red"}, map[string]any{"a": "red"},
		map[string]any{"kind": "c", "r": int64(2)}, map[string]any{"kind": "c", "r": 2, "port": 8080, "tags": []any{"x"}},
		map[string]any{"kind": "q", "s": 3, "backlog": 5, "small": 200, "narrow": -7, "labels": map[string]any{"l": 1}},
		map[any]any{"kind": "q", "s": uint64(3)}, map[string]any{"kind": "zz", "s": 3}, map[string]any{"s": 3},
		map[string]any{"k": 0, "r": 1}, map[string]any{"k": int64(1), "s": 4, "small": uint8(9)}, map[string]any{"k": "1", "s": 4}, map[string]any{"k": 7},
		map[string]any{"s": 4, "backlog": uint(9), "narrow": int32(5)}, map[string]any{"r": 1, "port": uint16(443)},
		map[string]any{"r": 1, "tags": []any{}}, map[string]any{"s": 1, "labels": map[string]any{}},
		tyCircle{R: 1}, &tyCircle{R: 1, Port: 8080, Tags: []string{"a"}}, tyCircle{R: 1, Tags: []string{}}, tySquare{S: 2}, &tySquare{S: 2, Backlog: &u, Small: 9, Narrow: -3, Labels: map[string]int64{"a": 1}},
		tySquare{S: 2, Labels: map[string]int64{}}, tyTriangle{A: 1}, &tyTriangle{A: 1}, (*tyCircle)(nil), []tyCircle{{R: 1}}, map[string]tyCircle{"a": {R: 1}},
		map[string]int64{"a": 1}, map[string]any{"a": int64(1)}, map[int64]string{1: "a"},
	}
}

func groupTyped(s *sink, g *hx.Gen) {
	cores := tyCores()
	wraps := tyWraps()
	core := cores[g.R.Intn(len(cores))]
	wrap := wraps[g.R.Intn(len(wraps))]
	var sch schema.Type
	r := hx.Guard(func() hx.Result { sch = wrap.ty(core.build()); return hx.Result{R: "ok"} })
	where := core.name + " at " + wrap.name
	if r.R != "ok" {
		s.finding(Finding{Prop: "C04", What: "constructing " + where + " panicked: " + r.Msg})
		return
	}
	inputs := tyTargeted()
	for i := 0; i < 6; i++ {
		inputs = append(inputs, g.RandomVal(0).ToGo())
	}
	for _, in := range inputs {
		for _, x := range []any{in, wrap.val(in)} {
			desc := fmt.Sprintf("%s, input %T %s", where, x, clipStr(fmt.Sprintf("%#v", x), 160))
			var u any
			ures := hx.Guard(func() hx.Result {
				v, err := sch.Unserialize(x)
				if err != nil {
					return hx.ErrResult(err)
				}
				u = v
				return hx.Result{R: "ok"}
			})
			s.stats["typed:U:"+ures.R]++
			if ures.R == "panic" {
				s.finding(Finding{Prop: "C04", What: "Unserialize panicked: " + ures.Msg, Detail: []string{desc}})
			}
			for _, op := range []string{"V", "S", "C"} {
				res := hx.Guard(func() hx.Result {
					var err error
					switch op {
					case "V":
						err = sch.Validate(x)
					case "S":
						_, err = sch.Serialize(x)
					default:
						err = sch.ValidateCompatibility(x)
					}
					if err != nil {
						return hx.ErrResult(err)
					}
					return hx.Result{R: "ok"}
				})
				s.stats["typed:"+op+":"+res.R]++
				if res.R == "panic" {
					s.finding(Finding{Prop: "C04", What: map[string]string{"V": "Validate", "S": "Serialize", "C": "ValidateCompatibility"}[op] + " panicked: " + res.Msg, Detail: []string{desc}})
				}
			}
			if ures.R != "ok" {
				continue
			}
			// C01 on whatever Unserialize produced
			chainRes := hx.Guard(func() hx.Result {
				if err := sch.Validate(u); err != nil {
					return hx.Result{R: "err", Msg: "result of Unserialize fails Validate: " + err.Error()}
				}
				w, err := sch.Serialize(u)
				if err != nil {
					return hx.Result{R: "err", Msg: "result of Unserialize fails Serialize: " + err.Error()}
				}
				u2, err := sch.Unserialize(w)
				if err != nil {
					return hx.Result{R: "err", Msg: "serialized form is rejected: " + err.Error()}
				}
				if goCanon(u2) != goCanon(u) {
					return hx.Result{R: "err", Msg: "Unserialize(Serialize(v)) differs from v: " + goCanon(u) + " vs " + goCanon(u2)}
				}
				wc, err := cborNorm(w)
				if err != nil {
					return hx.Result{R: "err", Msg: "serialized form is not CBOR-encodable: " + err.Error()}
				}
				u3, err := sch.Unserialize(wc)
				if err != nil || goCanon(u3) != goCanon(u) {
					return hx.Result{R: "err", Msg: fmt.Sprintf("Unserialize after CBOR differs from v (%v)", err)}
				}
				return hx.Result{R: "ok"}
			})
			s.stats["typed:chain:"+chainRes.R]++
			if chainRes.R == "panic" {
				s.finding(Finding{Prop: "C04", What: "panic in the Validate/Serialize chain of an unserialized value: " + chainRes.Msg, Detail: []string{desc}})
			} else if chainRes.R != "ok" {
				s.finding(Finding{Prop: "C01", What: "typed schema: " + chainRes.Msg, Detail: []string{desc}})
			}
		}
	}
	_ = reflect.TypeOf
}

func clipStr(s string, n int) string {
	if len(s) > n {
		return s[:n] + "..."
	}
	return s
}
