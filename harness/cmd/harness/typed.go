package main

import (
	"fmt"
	"math"
	"reflect"
	"regexp"
	"strings"

	"go.flow.arcalot.io/pluginsdk/schema"
	"harness/hx"
)

// Typed (generic) schema variants are outside the Lean model: typed string enums, one-ofs whose
// member interface is not `any`, typed lists / maps / objects / scopes, struct-mapped members with
// unsigned and narrow integer fields, treat-empty-as-default on slice and map fields. This stream
// evaluates totality (C04) and the round trip (C01) directly on the implementation for a family of
// such schemas at several positions, on targeted and random Go values.

type tyColour string

type tyShape interface{ Area() int64 }

type tyCircle struct {
	R    int64    `json:"r"`
	Port uint16   `json:"port"`
	Tags []string `json:"tags"`
}

func (c tyCircle) Area() int64 { return 3 * c.R * c.R }

type tySquare struct {
	S       int64            `json:"s"`
	Backlog *uint            `json:"backlog"`
	Small   uint8            `json:"small"`
	Narrow  int32            `json:"narrow"`
	Labels  map[string]int64 `json:"labels"`
}

func (q tySquare) Area() int64 { return q.S * q.S }

type tyTriangle struct {
	A int64 `json:"a"`
}

func (t tyTriangle) Area() int64 { return t.A }

// members of one-ofs with an INLINED discriminator that is an optional, treat-empty-as-default field:
// the member keyed by the zero value (0, "") serializes without it
type tyStop struct {
	Kind   int64  `json:"kind"`
	Reason string `json:"reason"`
}
type tyGo struct {
	Kind  int64 `json:"kind"`
	Speed int64 `json:"speed"`
}
type tyStopS struct {
	Kind   string `json:"kind"`
	Reason string `json:"reason"`
}
type tyGoS struct {
	Kind  string `json:"kind"`
	Speed int64  `json:"speed"`
}

func tyInlinedInt() schema.Type {
	return schema.NewOneOfIntSchema[any](map[int64]schema.Object{
		0: schema.NewStructMappedObjectSchema[tyStop]("Stop", map[string]*schema.PropertySchema{
			"kind":   tyProp(schema.NewIntSchema(nil, nil, nil), false).TreatEmptyAsDefaultValue(),
			"reason": tyProp(schema.NewStringSchema(nil, nil, nil), false),
		}),
		1: schema.NewStructMappedObjectSchema[tyGo]("Go", map[string]*schema.PropertySchema{
			"kind":  tyProp(schema.NewIntSchema(nil, nil, nil), false).TreatEmptyAsDefaultValue(),
			"speed": tyProp(schema.NewIntSchema(nil, nil, nil), false),
		}),
	}, "kind", true)
}

func tyInlinedStr() schema.Type {
	return schema.NewOneOfStringSchema[any](map[string]schema.Object{
		"": schema.NewStructMappedObjectSchema[tyStopS]("StopS", map[string]*schema.PropertySchema{
			"kind":   tyProp(schema.NewStringSchema(nil, nil, nil), false).TreatEmptyAsDefaultValue(),
			"reason": tyProp(schema.NewStringSchema(nil, nil, nil), false),
		}),
		"go": schema.NewStructMappedObjectSchema[tyGoS]("GoS", map[string]*schema.PropertySchema{
			"kind":  tyProp(schema.NewStringSchema(nil, nil, nil), false).TreatEmptyAsDefaultValue(),
			"speed": tyProp(schema.NewIntSchema(nil, nil, nil), false),
		}),
	}, "kind", true)
}

func tyProp(t schema.Type, required bool) *schema.PropertySchema {
	return schema.NewPropertySchema(t, nil, required, nil, nil, nil, nil, nil)
}

func tyCircleObj() *schema.ObjectSchema {
	return schema.NewStructMappedObjectSchema[tyCircle]("Circle", map[string]*schema.PropertySchema{
		"r":    tyProp(schema.NewIntSchema(nil, nil, nil), true),
		"port": tyProp(schema.NewIntSchema(sp(int64(0)), sp(int64(65535)), nil), false),
		"tags": tyProp(schema.NewListSchema(schema.NewStringSchema(nil, nil, nil), nil, nil), false).TreatEmptyAsDefaultValue(),
	})
}

func tySquareObj() *schema.ObjectSchema {
	return schema.NewStructMappedObjectSchema[tySquare]("Square", map[string]*schema.PropertySchema{
		"s":       tyProp(schema.NewIntSchema(nil, nil, nil), true),
		"backlog": tyProp(schema.NewIntSchema(sp(int64(0)), nil, nil), false),
		"small":   tyProp(schema.NewIntSchema(sp(int64(0)), sp(int64(255)), nil), false),
		"narrow":  tyProp(schema.NewIntSchema(sp(int64(-1000)), sp(int64(1000)), nil), false),
		"labels": tyProp(schema.NewMapSchema(schema.NewStringSchema(nil, nil, nil), schema.NewIntSchema(nil, nil, nil), nil, nil), false).
			TreatEmptyAsDefaultValue(),
	})
}

// tyLoose: a struct whose fields are interface-typed (third-party structs are): whatever they hold,
// Validate and Serialize answer with a verdict.
type tyLoose struct {
	Timeout any `json:"timeout"`
	Name    any `json:"name"`
	Tags    any `json:"tags"`
	Plain   any `json:"plain"`
}

type tyCore struct {
	name  string
	build func() schema.Type
}

func tyCores() []tyCore {
	return []tyCore{
		{"typed-string-enum", func() schema.Type {
			return schema.NewTypedStringEnumSchema(map[tyColour]*schema.DisplayValue{"red": nil, "green": nil})
		}},
		{"oneof-string[Shape]", func() schema.Type {
			return schema.NewOneOfStringSchema[tyShape](map[string]schema.Object{"c": tyCircleObj(), "q": tySquareObj()}, "kind", false)
		}},
		{"oneof-int[Shape]", func() schema.Type {
			return schema.NewOneOfIntSchema[tyShape](map[int64]schema.Object{0: tyCircleObj(), 1: tySquareObj()}, "k", false)
		}},
		{"oneof-string[any]", func() schema.Type {
			return schema.NewOneOfStringSchema[any](map[string]schema.Object{"c": tyCircleObj(), "q": tySquareObj()}, "kind", false)
		}},
		{"oneof-string written as a literal, struct members", func() schema.Type {
			// no constructor: the unexported interface type stays unset, which the library supports (ReflectedType says `any`)
			return &schema.OneOfSchema[string]{
				TypesValue:                  map[string]schema.Object{"c": tyCircleObj(), "q": tySquareObj()},
				DiscriminatorFieldNameValue: "kind",
			}
		}},
		{"oneof-int written as a literal, struct members", func() schema.Type {
			return &schema.OneOfSchema[int64]{
				TypesValue:                  map[int64]schema.Object{0: tyCircleObj(), 1: tySquareObj()},
				DiscriminatorFieldNameValue: "k",
			}
		}},
		{"oneof-string written as a literal, inlined struct members", func() schema.Type {
			c := tyInlinedStr().(*schema.OneOfSchema[string])
			return &schema.OneOfSchema[string]{TypesValue: c.TypesValue, DiscriminatorFieldNameValue: c.DiscriminatorFieldNameValue,
				DiscriminatorInlined: c.DiscriminatorInlined}
		}},
		{"oneof-string held by value (the struct, not the pointer the constructor returns)", func() schema.Type {
			// OneOfSchema implements Type with value receivers: a dereferenced constructor result is a schema too
			return *schema.NewOneOfStringSchema[any](map[string]schema.Object{"c": tyCircleObj(), "q": tySquareObj()}, "kind", false)
		}},
		{"oneof-int held by value", func() schema.Type {
			return *schema.NewOneOfIntSchema[any](map[int64]schema.Object{0: tyCircleObj(), 1: tySquareObj()}, "k", false)
		}},
		{"object with display data", func() schema.Type {
			dp := func(t schema.Type, d *schema.DisplayValue) *schema.PropertySchema {
				if d == nil {
					// (a typed nil pointer inside the Display interface is a construction error, not an input)
					return schema.NewPropertySchema(t, nil, false, nil, nil, nil, nil, nil)
				}
				return schema.NewPropertySchema(t, d, false, nil, nil, nil, nil, nil)
			}
			return schema.NewObjectSchema("D", map[string]*schema.PropertySchema{
				"amount": dp(schema.NewIntSchema(sp(int64(0)), sp(int64(10)), nil), schema.NewDisplayValue(nil, sp("only a description"), nil)),
				"label":  dp(schema.NewStringSchema(sp(int64(1)), nil, nil), schema.NewDisplayValue(sp("Label"), sp("d"), sp("<svg/>"))),
				"icon":   dp(schema.NewBoolSchema(), schema.NewDisplayValue(nil, nil, sp("<svg/>"))),
				"bare":   dp(schema.NewIntSchema(nil, nil, nil), schema.NewDisplayValue(nil, nil, nil)),
				"plain":  dp(schema.NewIntSchema(nil, sp(int64(5)), nil), nil),
			})
		}},
		{"any", func() schema.Type { return schema.NewAnySchema() }},
		{"oneof-int inlined struct members", tyInlinedInt},
		{"oneof-string inlined struct members", tyInlinedStr},
		{"oneof-int map members", func() schema.Type {
			return schema.NewOneOfIntSchema[any](map[int64]schema.Object{
				0:  schema.NewObjectSchema("A", map[string]*schema.PropertySchema{"x": tyProp(schema.NewAnySchema(), false)}),
				-1: schema.NewObjectSchema("B", map[string]*schema.PropertySchema{"y": tyProp(schema.NewIntSchema(nil, nil, nil), false)}),
			}, "k", false)
		}},
		{"oneof-string inlined map members, named-enum discriminator", func() schema.Type {
			mk := func(id string, own string) schema.Object {
				return schema.NewObjectSchema(id, map[string]*schema.PropertySchema{
					"kind": tyProp(schema.NewTypedStringEnumSchema(map[tyColour]*schema.DisplayValue{"red": nil, "green": nil}), true),
					own:    tyProp(schema.NewIntSchema(nil, nil, nil), false),
				})
			}
			return schema.NewOneOfStringSchema[any](map[string]schema.Object{"red": mk("R", "r"), "green": mk("G", "s")}, "kind", true)
		}},
		{"struct-mapped with interface-typed fields", func() schema.Type {
			return schema.NewStructMappedObjectSchema[tyLoose]("Loose", map[string]*schema.PropertySchema{
				"timeout": tyProp(schema.NewIntSchema(nil, nil, nil), false).TreatEmptyAsDefaultValue(),
				"name":    tyProp(schema.NewStringSchema(nil, nil, nil), false).TreatEmptyAsDefaultValue(),
				"tags":    tyProp(schema.NewListSchema(schema.NewStringSchema(nil, nil, nil), nil, nil), false).TreatEmptyAsDefaultValue(),
				"plain":   tyProp(schema.NewIntSchema(nil, nil, nil), false),
			})
		}},
		{"struct-mapped", func() schema.Type { return tySquareObj() }},
		{"typed-object", func() schema.Type {
			return schema.NewTypedObject[tyCircle]("Circle", tyCircleObj().Properties())
		}},
		{"typed-scope", func() schema.Type { return schema.NewTypedScopeSchema[tySquare](tySquareObj()) }},
		{"any-typed-object", func() schema.Type { return schema.NewTypedObject[tyCircle]("Circle", tyCircleObj().Properties()).Any() }},
		{"typed-list", func() schema.Type {
			return schema.NewTypedListSchema[string](schema.NewStringSchema(nil, nil, nil), nil, sp(int64(3)))
		}},
		{"typed-map", func() schema.Type {
			return schema.NewTypedMapSchema[string, int64](schema.NewStringSchema(nil, nil, nil), schema.NewIntSchema(nil, nil, nil), nil, nil)
		}},
	}
}

type tyWrap struct {
	name string
	ty   func(schema.Type) schema.Type
	val  func(any) any
}

func tyWraps() []tyWrap {
	return []tyWrap{
		{"root", func(t schema.Type) schema.Type { return t }, func(x any) any { return x }},
		{"list", func(t schema.Type) schema.Type { return schema.NewListSchema(t, nil, nil) }, func(x any) any { return []any{x} }},
		{"map", func(t schema.Type) schema.Type {
			return schema.NewMapSchema(schema.NewStringSchema(nil, nil, nil), t, nil, nil)
		}, func(x any) any { return map[string]any{"a": x} }},
		{"property", func(t schema.Type) schema.Type {
			return schema.NewObjectSchema("O", map[string]*schema.PropertySchema{"p": tyProp(t, false), "z": tyProp(schema.NewBoolSchema(), false)})
		}, func(x any) any { return map[string]any{"p": x} }},
		{"scope", func(t schema.Type) schema.Type {
			return schema.NewScopeSchema(schema.NewObjectSchema("O", map[string]*schema.PropertySchema{"p": tyProp(t, false), "z": tyProp(schema.NewBoolSchema(), false)}))
		}, func(x any) any { return map[string]any{"p": x} }},
	}
}

func tyTargeted() []any {
	u := uint(7)
	return []any{
		"red", tyColour("red"), tyColour("blue"), "blue", "", int64(5), 5, uint8(3), 1.5, true, nil, []byte("red"),
		[]any{"red"}, []string{"red", "green"}, []tyColour{"red"}, map[string]string{"a": "red"}, map[string]any{"a": "red"},
		map[string]any{"kind": "c", "r": int64(2)}, map[string]any{"kind": "c", "r": 2, "port": 8080, "tags": []any{"x"}},
		map[string]any{"kind": "q", "s": 3, "backlog": 5, "small": 200, "narrow": -7, "labels": map[string]any{"l": 1}},
		map[any]any{"kind": "q", "s": uint64(3)}, map[string]any{"kind": "zz", "s": 3}, map[string]any{"s": 3},
		map[string]any{"k": 0, "r": 1}, map[string]any{"k": int64(1), "s": 4, "small": uint8(9)}, map[string]any{"k": "1", "s": 4}, map[string]any{"k": 7},
		map[string]any{"s": 4, "backlog": uint(9), "narrow": int32(5)}, map[string]any{"r": 1, "port": uint16(443)},
		map[string]any{"r": 1, "tags": []any{}}, map[string]any{"s": 1, "labels": map[string]any{}},
		tyCircle{R: 1}, &tyCircle{R: 1, Port: 8080, Tags: []string{"a"}}, tyCircle{R: 1, Tags: []string{}}, tySquare{S: 2}, &tySquare{S: 2, Backlog: &u, Small: 9, Narrow: -3, Labels: map[string]int64{"a": 1}},
		tySquare{S: 2, Labels: map[string]int64{}}, tyTriangle{A: 1}, &tyTriangle{A: 1}, (*tyCircle)(nil), []tyCircle{{R: 1}}, map[string]tyCircle{"a": {R: 1}},
		map[string]int64{"a": 1}, map[string]any{"a": int64(1)}, map[int64]string{1: "a"},
		map[string]any{"amount": 1000}, map[string]any{"amount": "x", "label": "l"}, map[string]any{"label": ""}, map[string]any{"icon": "maybe"},
		map[string]any{"bare": []any{}}, map[string]any{"plain": 9}, map[string]any{"amount": 3, "label": "ok", "icon": true, "bare": 1, "plain": 2},
		map[string]any{"kind": 0, "reason": "done"}, map[string]any{"kind": int64(1), "speed": 3}, map[string]any{"kind": "0", "reason": "r"},
		map[string]any{"kind": uint64(0)}, map[string]any{"kind": 0.0, "reason": "x"}, map[string]any{"kind": "", "reason": "done"},
		map[string]any{"kind": "go", "speed": 5}, map[string]any{"kind": 2}, tyStop{Reason: "s"}, &tyGo{Kind: 1, Speed: 2}, tyStopS{}, tyGoS{Kind: "go"},
		map[string]any{"kind": "red", "r": 3}, map[string]any{"kind": tyColour("green"), "s": 1}, map[any]any{"kind": "green"}, map[string]any{"kind": "blue", "r": 1},
		map[string]any{"kind": 1, "s": 2}, map[string]any{"kind": uint8(0), "r": 2}, map[string]any{"kind": "1", "s": 2},
		map[string]any{"timeout": 5, "name": "n", "tags": []any{"a"}, "plain": 1}, map[string]any{},
		tyLoose{}, tyLoose{Timeout: int64(5), Name: "n", Tags: []string{"a"}, Plain: int64(1)}, tyLoose{Timeout: map[string]any{"a": 1}}, tyLoose{Timeout: []int{1}},
		tyLoose{Timeout: (*int64)(nil)}, tyLoose{Timeout: &u}, tyLoose{Timeout: true}, tyLoose{Timeout: "5"}, tyLoose{Timeout: 2.5}, tyLoose{Timeout: tyTriangle{A: 1}},
		tyLoose{Name: 1.5}, tyLoose{Name: []byte("n")}, tyLoose{Name: map[string]string{}}, tyLoose{Name: &u}, tyLoose{Tags: "a"}, tyLoose{Tags: map[string]any{}},
		tyLoose{Tags: []any{1}}, tyLoose{Tags: [1]string{"a"}}, tyLoose{Plain: []any{}}, tyLoose{Plain: complex(1, 1)}, &tyLoose{Timeout: int32(0), Name: "", Tags: []string{}},
		// map keys of unusual kinds: arrays (hashable, but their conversion is not), NaN (cannot be looked up again),
		// structs, pointers, bools, nil interfaces - alone and next to a valid discriminator
		map[[2]string]int{{"a", "b"}: 1}, map[any]any{[2]string{"a", "b"}: 1}, map[[0]int]string{{}: "z"}, map[tyTriangle]string{{A: 1}: "t"},
		map[any]any{"kind": "c", "r": 1, math.NaN(): 1}, map[any]any{"k": 0, math.NaN(): 1}, map[any]any{"k": int64(-1), "y": 1, math.Inf(1): 2},
		map[any]any{"kind": "q", "s": 1, true: 2}, map[any]any{"kind": "q", "s": 1, nil: 2}, map[any]any{"x": map[any]any{[1]int{1}: 1}, "k": 0},
		map[float64]any{math.NaN(): 1}, map[bool]any{true: 1}, map[*int]any{nil: 1}, map[any]any{&u: 1},
	}
}

func groupTyped(s *sink, g *hx.Gen) {
	groupTypedAPI(s, g)
	groupTypedPaths(s, g)
	groupStepOutput(s, g)
	groupTypedRules(s, g)
	groupOneOfTwins(s, g)
	groupStringerEnums(s)
	groupRound10Witnesses(s)
	groupGoWitnesses(s)
	cores := tyCores()
	wraps := tyWraps()
	core := cores[g.R.Intn(len(cores))]
	wrap := wraps[g.R.Intn(len(wraps))]
	var sch schema.Type
	r := hx.Guard(func() hx.Result { sch = wrap.ty(core.build()); return hx.Result{R: "ok"} })
	where := core.name + " at " + wrap.name
	if r.R != "ok" {
		s.finding(Finding{Prop: "C04", What: "constructing " + where + " panicked: " + r.Msg})
		return
	}
	// every schema is compatible with itself and with a twin built the same way (C15), whatever its Go type
	for _, twin := range []struct {
		name string
		mk   func() schema.Type
	}{{"itself", func() schema.Type { return sch }}, {"a twin built the same way", func() schema.Type { return wrap.ty(core.build()) }}} {
		var cerr error
		cr := hx.Guard(func() hx.Result { cerr = sch.ValidateCompatibility(twin.mk()); return hx.Result{R: "ok"} })
		s.stats["typed:selfcompat"]++
		if cr.R != "ok" {
			s.finding(Finding{Prop: "C04", What: "ValidateCompatibility of a schema with " + twin.name + " panicked: " + cr.Msg, Detail: []string{where}})
		} else if cerr != nil {
			s.finding(Finding{Prop: "C15", What: "a schema is reported incompatible with " + twin.name, Detail: []string{where, cerr.Error()}})
		}
	}
	// the typed entry points of a one-of take `any`: nil (untyped, or of an interface type) is refused, not dereferenced
	var tyNilShape tyShape
	for _, nilArg := range []any{nil, tyNilShape, (*tyCircle)(nil), map[string]any(nil)} {
		nilArg := nilArg
		var r1, r2 hx.Result
		switch o := core.build().(type) {
		case *schema.OneOfSchema[string]:
			r1 = hx.Guard(func() hx.Result { _ = o.ValidateType(nilArg); return hx.Result{R: "ok"} })
			r2 = hx.Guard(func() hx.Result { _, _ = o.SerializeType(nilArg); return hx.Result{R: "ok"} })
		case *schema.OneOfSchema[int64]:
			r1 = hx.Guard(func() hx.Result { _ = o.ValidateType(nilArg); return hx.Result{R: "ok"} })
			r2 = hx.Guard(func() hx.Result { _, _ = o.SerializeType(nilArg); return hx.Result{R: "ok"} })
		default:
			continue
		}
		s.stats["typed:oneof-nil"]++
		if r1.R == "panic" {
			s.finding(Finding{Prop: "C04", What: "ValidateType of a one-of panicked: " + r1.Msg, Detail: []string{core.name, fmt.Sprintf("argument %#v", nilArg)}})
		}
		if r2.R == "panic" {
			s.finding(Finding{Prop: "C04", What: "SerializeType of a one-of panicked: " + r2.Msg, Detail: []string{core.name, fmt.Sprintf("argument %#v", nilArg)}})
		}
	}
	inputs := tyTargeted()
	for i := 0; i < 6; i++ {
		inputs = append(inputs, g.RandomVal(0).ToGo())
	}
	for _, in := range inputs {
		for _, x := range []any{in, wrap.val(in)} {
			desc := fmt.Sprintf("%s, input %T %s", where, x, clipStr(fmt.Sprintf("%#v", x), 160))
			var u any
			ures := hx.Guard(func() hx.Result {
				v, err := sch.Unserialize(x)
				if err != nil {
					return hx.ErrResult(err)
				}
				u = v
				return hx.Result{R: "ok"}
			})
			s.stats["typed:U:"+ures.R]++
			if ures.R == "panic" {
				s.finding(Finding{Prop: "C04", What: "Unserialize panicked: " + ures.Msg, Detail: []string{desc}})
			}
			for _, op := range []string{"V", "S", "C"} {
				res := hx.Guard(func() hx.Result {
					var err error
					switch op {
					case "V":
						err = sch.Validate(x)
					case "S":
						_, err = sch.Serialize(x)
					default:
						err = sch.ValidateCompatibility(x)
					}
					if err != nil {
						return hx.ErrResult(err)
					}
					return hx.Result{R: "ok"}
				})
				s.stats["typed:"+op+":"+res.R]++
				if res.R == "panic" {
					s.finding(Finding{Prop: "C04", What: map[string]string{"V": "Validate", "S": "Serialize", "C": "ValidateCompatibility"}[op] + " panicked: " + res.Msg, Detail: []string{desc}})
				}
			}
			if ures.R != "ok" {
				continue
			}
			// C01 on whatever Unserialize produced
			chainRes := hx.Guard(func() hx.Result {
				if err := sch.Validate(u); err != nil {
					return hx.Result{R: "err", Msg: "result of Unserialize fails Validate: " + err.Error()}
				}
				w, err := sch.Serialize(u)
				if err != nil {
					return hx.Result{R: "err", Msg: "result of Unserialize fails Serialize: " + err.Error()}
				}
				u2, err := sch.Unserialize(w)
				if err != nil {
					return hx.Result{R: "err", Msg: "serialized form is rejected: " + err.Error()}
				}
				if goCanon(u2) != goCanon(u) {
					return hx.Result{R: "err", Msg: "Unserialize(Serialize(v)) differs from v: " + goCanon(u) + " vs " + goCanon(u2)}
				}
				wc, err := cborNorm(w)
				if err != nil {
					return hx.Result{R: "err", Msg: "serialized form is not CBOR-encodable: " + err.Error()}
				}
				u3, err := sch.Unserialize(wc)
				if err != nil || goCanon(u3) != goCanon(u) {
					return hx.Result{R: "err", Msg: fmt.Sprintf("Unserialize after CBOR differs from v (%v)", err)}
				}
				return hx.Result{R: "ok"}
			})
			s.stats["typed:chain:"+chainRes.R]++
			if chainRes.R == "panic" {
				s.finding(Finding{Prop: "C04", What: "panic in the Validate/Serialize chain of an unserialized value: " + chainRes.Msg, Detail: []string{desc}})
			} else if chainRes.R != "ok" {
				s.finding(Finding{Prop: "C01", What: "typed schema: " + chainRes.Msg, Detail: []string{desc}})
				if strings.HasPrefix(core.name, "oneof") && strings.Contains(chainRes.Msg, "result of Unserialize fails") {
					s.finding(Finding{Prop: "C03", What: "one-of dispatch: Validate / Serialize do not accept, for the member Unserialize selected, the value Unserialize returned: " + chainRes.Msg, Detail: []string{desc}})
				}
			}
		}
	}
	_ = reflect.TypeOf
}

func clipStr(s string, n int) string {
	if len(s) > n {
		return s[:n] + "..."
	}
	return s
}

// ---------------------------------------------------------------------------------------------
// typed entry points: UnserializeType / ValidateType / SerializeType must agree with the untyped
// operations of the same schema (same verdict, same value), and never panic.

func tyAPISchemas() []tyCore {
	return []tyCore{
		{"int[0,1000] bytes", func() schema.Type { return schema.NewIntSchema(sp(int64(0)), sp(int64(1000)), schema.UnitBytes) }},
		{"float[-1,1]", func() schema.Type { return schema.NewFloatSchema(sp(-1.0), sp(1.0), nil) }},
		{"string[1,4] pattern", func() schema.Type {
			return schema.NewStringSchema(sp(int64(1)), sp(int64(4)), regexp.MustCompile("^[a-z0-9]+$"))
		}},
		{"bool", func() schema.Type { return schema.NewBoolSchema() }},
		{"pattern", func() schema.Type { return schema.NewPatternSchema() }},
		{"int enum", func() schema.Type {
			return schema.NewIntEnumSchema(map[int64]*schema.DisplayValue{1: nil, 1024: nil}, schema.UnitBytes)
		}},
		{"string enum", func() schema.Type {
			return schema.NewStringEnumSchema(map[string]*schema.DisplayValue{"a": nil, "5": nil})
		}},
		{"typed string enum", func() schema.Type {
			return schema.NewTypedStringEnumSchema(map[tyColour]*schema.DisplayValue{"red": nil, "green": nil})
		}},
		{"typed list", func() schema.Type {
			return schema.NewTypedListSchema[int64](schema.NewIntSchema(sp(int64(0)), nil, nil), sp(int64(1)), sp(int64(3)))
		}},
		{"typed map", func() schema.Type {
			return schema.NewTypedMapSchema[string, int64](schema.NewStringSchema(nil, nil, nil), schema.NewIntSchema(nil, nil, nil), nil, sp(int64(2)))
		}},
		{"typed object", func() schema.Type { return schema.NewTypedObject[tyCircle]("Circle", tyCircleObj().Properties()) }},
		{"typed scope", func() schema.Type { return schema.NewTypedScopeSchema[tySquare](tySquareObj()) }},
		{"oneof", func() schema.Type {
			return schema.NewOneOfStringSchema[tyShape](map[string]schema.Object{"c": tyCircleObj(), "q": tySquareObj()}, "kind", false)
		}},
		{"any typed object", func() schema.Type { return schema.NewTypedObject[tySquare]("Square", tySquareObj().Properties()).Any() }},
	}
}

func tyScalarInputs() []any {
	return []any{"5", "5kB", "1kB", " 7 ", 5, int64(11), int8(-1), uint64(1024), uint8(1), 1.5, float32(0.5), -1.0, 2.0, "0.5", "1e-1", "abc", "ab1", "ABCDE", "",
		true, false, "yes", "off", "maybe", 1, 0, "^a+$", "(", "a", "red", tyColour("green"), []any{1, "2", 3.0}, []int64{1, 2}, []any{}, []any{1, 2, 3, 4},
		map[string]any{"a": 1}, map[string]any{"a": 1, "b": "2", "c": 3}, map[any]any{"k": "7"}, nil, []byte("ab"),
		// pointers, nil pointers, pointers to pointers, typed nils, channels, funcs, arrays, structs
		sp(int64(5)), (*int64)(nil), sp("abc"), (*string)(nil), sp(true), sp(1.5), sp(sp(int64(1))), (*tyCircle)(nil), (*map[string]any)(nil),
		sp(map[string]any{"a": 1}), sp([]any{1}), [2]int64{1, 2}, struct{}{}, make(chan int), func() {}, error(nil), fmt.Errorf("e"),
		[]any(nil), map[string]any(nil), map[any]any(nil), []string(nil), any(tyColour("")), complex(1, 2), uintptr(7), int16(300), uint32(70000), float32(1e30)}
}

func groupTypedAPI(s *sink, g *hx.Gen) {
	cores := tyAPISchemas()
	core := cores[g.R.Intn(len(cores))]
	var sch schema.Type
	if r := hx.Guard(func() hx.Result { sch = core.build(); return hx.Result{R: "ok"} }); r.R != "ok" {
		s.finding(Finding{Prop: "C04", What: "constructing " + core.name + " panicked: " + r.Msg})
		return
	}
	rv := reflect.ValueOf(sch)
	mU, mV, mS := rv.MethodByName("UnserializeType"), rv.MethodByName("ValidateType"), rv.MethodByName("SerializeType")
	if !mU.IsValid() {
		return
	}
	errT := reflect.TypeOf((*error)(nil)).Elem()
	asErr := func(v reflect.Value) error {
		if v.IsNil() {
			return nil
		}
		return v.Interface().(error)
	}
	_ = errT
	inputs := append(tyScalarInputs(), tyTargeted()...)
	for i := 0; i < 4; i++ {
		inputs = append(inputs, g.RandomVal(0).ToGo())
	}
	for _, x := range inputs {
		x := x
		desc := fmt.Sprintf("%s, input %T %s", core.name, x, clipStr(fmt.Sprintf("%#v", x), 160))
		var typed reflect.Value
		var terr error
		tr := hx.Guard(func() hx.Result {
			out := mU.Call([]reflect.Value{reflect.ValueOf(&x).Elem()})
			typed, terr = out[0], asErr(out[1])
			return hx.Result{R: "ok"}
		})
		var untyped any
		var uerr error
		ur := hx.Guard(func() hx.Result { untyped, uerr = sch.Unserialize(x); return hx.Result{R: "ok"} })
		s.stats["typedapi:U"]++
		for _, op := range []string{"V", "S", "C"} {
			r := hx.Guard(func() hx.Result {
				switch op {
				case "V":
					_ = sch.Validate(x)
				case "S":
					_, _ = sch.Serialize(x)
				default:
					_ = sch.ValidateCompatibility(x)
				}
				return hx.Result{R: "ok"}
			})
			if r.R == "panic" {
				s.finding(Finding{Prop: "C04", What: map[string]string{"V": "Validate", "S": "Serialize", "C": "ValidateCompatibility"}[op] + " panicked: " + r.Msg, Detail: []string{desc}})
			}
		}
		if tr.R == "panic" || ur.R == "panic" {
			s.finding(Finding{Prop: "C04", What: "UnserializeType / Unserialize panicked: " + tr.Msg + ur.Msg, Detail: []string{desc}})
			continue
		}
		if (terr == nil) != (uerr == nil) {
			s.finding(Finding{Prop: "C02", What: fmt.Sprintf("UnserializeType and Unserialize disagree on acceptance (typed err: %v, untyped err: %v)", terr, uerr), Detail: []string{desc}})
			continue
		}
		if terr != nil {
			continue
		}
		if goCanon(typed.Interface()) != goCanon(untyped) {
			// a typed string enum's UnserializeType returns the underlying string: compare by value
			if fmt.Sprint(typed.Interface()) != fmt.Sprint(untyped) {
				s.finding(Finding{Prop: "C01", What: "UnserializeType and Unserialize return different values", Detail: []string{desc, goCanon(typed.Interface()), goCanon(untyped)}})
				continue
			}
		}
		// Validate / Serialize, typed vs untyped, on the unserialized value
		conv := func(m reflect.Value) (reflect.Value, bool) {
			if !m.IsValid() {
				return reflect.Value{}, false
			}
			want := m.Type().In(0)
			v := reflect.ValueOf(untyped)
			switch {
			case want.Kind() == reflect.Interface:
				return reflect.ValueOf(&untyped).Elem(), true
			case v.IsValid() && v.Type().AssignableTo(want):
				return v, true
			case v.IsValid() && v.Type().ConvertibleTo(want) && v.Kind() == want.Kind():
				return v.Convert(want), true
			}
			return reflect.Value{}, false
		}
		if a, ok := conv(mV); ok {
			var e1, e2 error
			r := hx.Guard(func() hx.Result {
				e1 = asErr(mV.Call([]reflect.Value{a})[0])
				e2 = sch.Validate(untyped)
				return hx.Result{R: "ok"}
			})
			s.stats["typedapi:V"]++
			if r.R == "panic" {
				s.finding(Finding{Prop: "C04", What: "ValidateType / Validate panicked on an unserialized value: " + r.Msg, Detail: []string{desc}})
			} else if e1 != nil || e2 != nil {
				s.finding(Finding{Prop: "C01", What: fmt.Sprintf("an unserialized value fails ValidateType (%v) / Validate (%v)", e1, e2), Detail: []string{desc}})
			}
		}
		if a, ok := conv(mS); ok {
			var w1, w2 any
			var e1, e2 error
			r := hx.Guard(func() hx.Result {
				out := mS.Call([]reflect.Value{a})
				w1, e1 = out[0].Interface(), asErr(out[1])
				w2, e2 = sch.Serialize(untyped)
				return hx.Result{R: "ok"}
			})
			s.stats["typedapi:S"]++
			switch {
			case r.R == "panic":
				s.finding(Finding{Prop: "C04", What: "SerializeType / Serialize panicked on an unserialized value: " + r.Msg, Detail: []string{desc}})
			case e1 != nil || e2 != nil:
				s.finding(Finding{Prop: "C01", What: fmt.Sprintf("an unserialized value fails SerializeType (%v) / Serialize (%v)", e1, e2), Detail: []string{desc}})
			default:
				// compared up to the CBOR type normalisation (SerializeType of a typed enum returns the
				// defined string type, Serialize the plain string: the same bytes on the wire)
				n1, err1 := cborNorm(w1)
				n2, err2 := cborNorm(w2)
				if err1 != nil || err2 != nil || hx.Canon(hx.Enc(n1)) != hx.Canon(hx.Enc(n2)) {
					s.finding(Finding{Prop: "C01", What: "SerializeType and Serialize return different wire forms", Detail: []string{desc, hx.Canon(hx.Enc(w1)), hx.Canon(hx.Enc(w2))}})
				}
			}
		}
	}
}

// groupTypedPaths: struct-mapped objects, one out-of-bounds field at a time, through Validate (the Go
// value) and Unserialize (the raw map): the rejection's path must consist of PROPERTY names (json
// tags), never Go field names, prefixed by the container segments (C17).
func groupTypedPaths(s *sink, g *hx.Gen) {
	u := uint(3)
	type bad struct {
		native any
		raw    map[string]any
		prop   string
	}
	bads := []bad{
		{tySquare{S: 1, Narrow: 5000}, map[string]any{"s": 1, "narrow": 5000}, "narrow"},
		{tySquare{S: 1, Narrow: -5000, Backlog: &u}, map[string]any{"s": 1, "narrow": -5000, "backlog": 3}, "narrow"},
		{tySquare{S: 1, Labels: map[string]int64{"a": 1}, Narrow: 1001}, map[string]any{"s": 1, "labels": map[string]any{"a": 1}, "narrow": 1001}, "narrow"},
	}
	wraps := tyWraps()
	w := wraps[g.R.Intn(len(wraps))]
	sch := w.ty(tySquareObj())
	var prefix []string
	switch w.name {
	case "list":
		prefix = []string{"[0]"}
	case "map":
		prefix = []string{"[a]"}
	case "property", "scope":
		prefix = []string{"p"}
	}
	for _, b := range bads {
		want := append(append([]string{}, prefix...), b.prop)
		for _, c := range []struct {
			op string
			x  any
		}{{"Validate", w.val(b.native)}, {"Unserialize", w.val(b.raw)}} {
			var err error
			r := hx.Guard(func() hx.Result {
				if c.op == "Validate" {
					err = sch.Validate(c.x)
				} else {
					_, err = sch.Unserialize(c.x)
				}
				return hx.Result{R: "ok"}
			})
			s.stats["typedpaths:"+c.op]++
			desc := fmt.Sprintf("struct-mapped at %s, %s(%s)", w.name, c.op, clipStr(fmt.Sprintf("%#v", c.x), 160))
			if r.R == "panic" {
				s.finding(Finding{Prop: "C04", What: c.op + " panicked: " + r.Msg, Detail: []string{desc}})
				continue
			}
			res := hx.ErrResult(err)
			if err == nil {
				s.finding(Finding{Prop: "C02", What: "an out-of-bounds field of a struct-mapped object is accepted", Detail: []string{desc}})
				continue
			}
			if res.C == nil || !*res.C || !samePath(stripMarkers(res.Path), want) {
				s.finding(Finding{Prop: "C17", What: "struct-mapped object: the rejection does not name the offending property",
					Detail: []string{desc, "expected path " + pathText(want), "got " + res.JSON()}})
			}
		}
	}
}

// groupStepOutput: a step output schema is a thin wrapper around its scope: every operation must
// give exactly what the scope gives, and never panic.
func groupStepOutput(s *sink, g *hx.Gen) {
	scope := schema.NewScopeSchema(tySquareObj())
	so := schema.NewStepOutputSchema(scope, nil, g.R.Intn(2) == 0)
	inputs := append(tyTargeted(), g.RandomVal(0).ToGo())
	for _, x := range inputs {
		x := x
		desc := fmt.Sprintf("step output, input %T %s", x, clipStr(fmt.Sprintf("%#v", x), 160))
		type out struct {
			v   any
			err bool
		}
		run := func(f func() (any, error)) (out, hx.Result) {
			var o out
			r := hx.Guard(func() hx.Result {
				v, err := f()
				o = out{v, err != nil}
				return hx.Result{R: "ok"}
			})
			return o, r
		}
		pairs := []struct {
			name string
			a, b func() (any, error)
		}{
			{"Unserialize", func() (any, error) { return so.Unserialize(x) }, func() (any, error) { return scope.Unserialize(x) }},
			{"Validate", func() (any, error) { return nil, so.Validate(x) }, func() (any, error) { return nil, scope.Validate(x) }},
			{"Serialize", func() (any, error) { return so.Serialize(x) }, func() (any, error) { return scope.Serialize(x) }},
			{"ValidateCompatibility", func() (any, error) { return nil, so.ValidateCompatibility(x) }, func() (any, error) { return nil, scope.ValidateCompatibility(x) }},
			{"ValidateReferences", func() (any, error) { return nil, so.ValidateReferences() }, func() (any, error) { return nil, scope.ValidateReferences() }},
		}
		for _, p := range pairs {
			oa, ra := run(p.a)
			ob, rb := run(p.b)
			s.stats["stepoutput:"+p.name]++
			if ra.R == "panic" || rb.R == "panic" {
				s.finding(Finding{Prop: "C04", What: p.name + " of a step output schema panicked: " + ra.Msg + rb.Msg, Detail: []string{desc}})
				continue
			}
			if oa.err != ob.err || goCanon(oa.v) != goCanon(ob.v) {
				s.finding(Finding{Prop: "C01", What: p.name + " of a step output schema differs from its scope's", Detail: []string{desc, goCanon(oa.v), goCanon(ob.v)}})
			}
		}
	}
}

// ---------------------------------------------------------------------------------------------
// struct-mapped objects with presence rules on treat-empty-as-default fields: an empty field counts as
// ABSENT, for Validate and Serialize alike; both must agree with the rules evaluated on that presence.

type tyRuled struct {
	A string `json:"a"`
	B *bool  `json:"b"`
	C int64  `json:"c"`
}

func groupTypedRules(s *sink, g *hx.Gen) {
	type rule struct {
		on, kind, ref string
	}
	names := []string{"a", "b", "c"}
	var rules []rule
	for k := 0; k < 1+g.R.Intn(2); k++ {
		i := g.R.Intn(3)
		j := (i + 1 + g.R.Intn(2)) % 3
		rules = append(rules, rule{names[i], []string{"required_if", "required_if_not", "conflicts"}[g.R.Intn(3)], names[j]})
	}
	mk := func(name string, t schema.Type, treatEmpty bool) *schema.PropertySchema {
		var rif, rifn, conf []string
		for _, r := range rules {
			if r.on == name {
				switch r.kind {
				case "required_if":
					rif = append(rif, r.ref)
				case "required_if_not":
					rifn = append(rifn, r.ref)
				default:
					conf = append(conf, r.ref)
				}
			}
		}
		p := schema.NewPropertySchema(t, nil, false, rif, rifn, conf, nil, nil)
		if treatEmpty {
			p = p.TreatEmptyAsDefaultValue()
		}
		return p
	}
	var sch *schema.ObjectSchema
	if r := hx.Guard(func() hx.Result {
		sch = schema.NewStructMappedObjectSchema[tyRuled]("Ruled", map[string]*schema.PropertySchema{
			"a": mk("a", schema.NewStringSchema(nil, nil, nil), true),
			"b": mk("b", schema.NewBoolSchema(), false),
			"c": mk("c", schema.NewIntSchema(nil, nil, nil), true),
		})
		return hx.Result{R: "ok"}
	}); r.R != "ok" {
		s.finding(Finding{Prop: "C04", What: "constructing a struct-mapped object with presence rules panicked: " + r.Msg})
		return
	}
	tr := true
	for _, a := range []string{"", "x"} {
		for _, b := range []*bool{nil, &tr} {
			for _, c := range []int64{0, 5} {
				v := tyRuled{A: a, B: b, C: c}
				present := map[string]bool{"a": a != "", "b": b != nil, "c": c != 0}
				want := true
				for _, n := range names {
					var rif, rifn, conf []string
					for _, r := range rules {
						if r.on == n {
							switch r.kind {
							case "required_if":
								rif = append(rif, r.ref)
							case "required_if_not":
								rifn = append(rifn, r.ref)
							default:
								conf = append(conf, r.ref)
							}
						}
					}
					anyOf := func(l []string) bool {
						for _, x := range l {
							if present[x] {
								return true
							}
						}
						return false
					}
					if !present[n] && (anyOf(rif) || (len(rifn) > 0 && !anyOf(rifn))) {
						want = false
					}
					if present[n] && anyOf(conf) {
						want = false
					}
				}
				var verr, serr error
				r := hx.Guard(func() hx.Result { verr = sch.Validate(v); _, serr = sch.Serialize(v); return hx.Result{R: "ok"} })
				s.stats["typedrules"]++
				desc := fmt.Sprintf("rules %v, value {A:%q B:%v C:%d}", rules, a, b != nil, c)
				switch {
				case r.R == "panic":
					s.finding(Finding{Prop: "C04", What: "Validate / Serialize of a struct-mapped object panicked: " + r.Msg, Detail: []string{desc}})
				case (verr == nil) != (serr == nil):
					s.finding(Finding{Prop: "C03", What: fmt.Sprintf("struct-mapped object: Validate (%v) and Serialize (%v) apply different presence rules", verr, serr), Detail: []string{desc}})
				case (verr == nil) != want:
					s.finding(Finding{Prop: "C03", What: fmt.Sprintf("struct-mapped object: accepted=%v, the declared presence rules say %v (%v)", verr == nil, want, verr), Detail: []string{desc}})
				}
			}
		}
	}
}
