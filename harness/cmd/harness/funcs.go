package main

// Sub-command `funcs` (property C18): the matrix of handler signatures x declared
// (inputs, output, outputsError) triples for NewCallableFunction / NewDynamicCallableFunction, and
// calls of the accepted functions with every argument count 0..4, well and wrongly typed arguments
// and several handler behaviours. Handlers are made with reflect.FuncOf / reflect.MakeFunc.
//
// Ops written to cases.jsonl (read by Arca.Dispatch.funcHandler, see DispatchFunc.lean for the
// encodings): FN_NEW, FN_NEWDYN, FN_CALL.
//
// Enumeration (identical in both tiers; the tiers differ only in the size of the random sample):
//   types TFull (22 Go types: the native types of all scalar/list/map/any schemas plus int, a named
//   int64, error, a non-interface type NAMED "error", a named interface, []int), TSmall (4);
//   schemas SFull (22 kinds incl. enums, object, one-of, nested lists/maps), SSmall (4).
//   P  parameter matrix: every handler parameter list (0..1 over TFull, 2..3 over TSmall, and the
//      variadic form of every list ending in a slice) x every declared input list (0..1 over SFull,
//      2..3 over SSmall), each with 3 static and 2 dynamic result/declaration representatives;
//   R  result matrix: every result list (none, value, error, value+error, types named "error",
//      non-error last result, extra results) x every (output in none+SFull, outputsError) pair, each
//      with 4 parameter representatives; the same result lists for the dynamic constructor;
//   H  nil / non-function / nil-function handlers;
//   X  a seeded random sample of the full product P x R;
//   C  calls: every accepted parameter list x 4 result shapes (plus all value types for 0..1
//      parameters) x argument lists of length 0..4, each argument replaced by a wrongly typed value,
//      nil and a named value in turn x handler behaviours (constant, failing, echoing, typed-nil
//      error, panicking);
//   W  `CallableFunctionSchema` literals (constructor bypassed) for every result list: ties the
//      model of Call's result switch on shapes the constructors refuse. No oracle applies to these.
//
// Findings are judged by an oracle that does not use the model: it recomputes with reflect whether
// the handler's types agree with the declaration, remembers what the handler received and returned,
// and checks acceptance, absence of panics, the returned value, and the function-reported flag.

import (
	"crypto/sha1"
	"encoding/json"
	"errors"
	"fmt"
	"math/rand"
	"os"
	"reflect"
	"regexp"

	"go.flow.arcalot.io/pluginsdk/schema"
	"harness/hx"
)

func init() {
	register("funcs", func(a Args) { funcsCmd(a) })
}

// ---------------------------------------------------------------------------------------------
// type universe

type fnMyInt64 int64

type fnErr struct{ Msg string }

func (e fnErr) Error() string { return e.Msg }

type fnPtrErr struct{ Msg string }

func (e *fnPtrErr) Error() string { return "ptr" }

type fnFooer interface{ Foo() }

type fnFoo struct{}

func (fnFoo) Foo() {}

// types that are merely CALLED "error" (declared locally, so that the predeclared identifier stays
// usable in the rest of the package)
func fnFakeErrInt() reflect.Type {
	type error int
	return reflect.TypeOf(error(0))
}

func fnFakeErrIfaceFoo() reflect.Type {
	type error interface{ Foo() }
	return reflect.TypeOf((*error)(nil)).Elem()
}

func fnFakeErrIfaceError() reflect.Type {
	type error interface{ Error() string }
	return reflect.TypeOf((*error)(nil)).Elem()
}

func fnFakeErrPtr() reflect.Type {
	type error *struct{ X int }
	return reflect.TypeOf(error(nil))
}

var (
	fnInt64T   = reflect.TypeOf(int64(0))
	fnFloat64T = reflect.TypeOf(float64(0))
	fnStringT  = reflect.TypeOf("")
	fnBoolT    = reflect.TypeOf(false)
	fnRegexpT  = reflect.TypeOf((*regexp.Regexp)(nil))
	fnAnyT     = reflect.TypeOf((*any)(nil)).Elem()
	fnErrorT   = reflect.TypeOf((*error)(nil)).Elem()
	fnIntT     = reflect.TypeOf(int(0))
	fnMyInt64T = reflect.TypeOf(fnMyInt64(0))
	fnErrT     = reflect.TypeOf(fnErr{})
	fnPtrErrT  = reflect.TypeOf((*fnPtrErr)(nil))
	fnFooerT   = reflect.TypeOf((*fnFooer)(nil)).Elem()
	fnFooT     = reflect.TypeOf(fnFoo{})

	fnFakeIntT   = fnFakeErrInt()
	fnFakeFooT   = fnFakeErrIfaceFoo()
	fnFakeErrorT = fnFakeErrIfaceError()
	fnFakePtrT   = fnFakeErrPtr()

	// defined types: package, name, kind of the underlying type, method set
	fnNamed = map[reflect.Type][]string{
		fnIntT:       {"", "int", "int", "none"},
		fnMyInt64T:   {"main", "fnMyInt64", "int", "none"},
		fnErrT:       {"main", "fnErr", "struct", "error"},
		fnPtrErrT:    {"main", "*fnPtrErr", "ptr", "error"},
		fnFooerT:     {"main", "fnFooer", "iface", "other"},
		fnFooT:       {"main", "fnFoo", "struct", "other"},
		fnFakeIntT:   {"main.fnFakeErrInt", "error", "int", "none"},
		fnFakeFooT:   {"main.fnFakeErrIfaceFoo", "error", "iface", "other"},
		fnFakeErrorT: {"main.fnFakeErrIfaceError", "error", "iface", "error"},
		fnFakePtrT:   {"main.fnFakeErrPtr", "error", "ptr", "none"},
	}
)

// fnEncType is the JSON form of a Go type (Lean: Arca.Func.GoType).
func fnEncType(t reflect.Type) any {
	switch t {
	case fnInt64T:
		return "int64"
	case fnFloat64T:
		return "float64"
	case fnStringT:
		return "string"
	case fnBoolT:
		return "bool"
	case fnRegexpT:
		return "regexp"
	case fnAnyT:
		return "any"
	case fnErrorT:
		return "error"
	}
	if n, ok := fnNamed[t]; ok {
		return map[string]any{"named": n}
	}
	if t.Name() == "" {
		switch t.Kind() {
		case reflect.Slice:
			return map[string]any{"slice": fnEncType(t.Elem())}
		case reflect.Map:
			return map[string]any{"map": []any{fnEncType(t.Key()), fnEncType(t.Elem())}}
		}
	}
	panic("funcs: type outside the universe: " + t.String())
}

func fnEncTypes(ts []reflect.Type) []any {
	out := make([]any, len(ts))
	for i, t := range ts {
		out[i] = fnEncType(t)
	}
	return out
}

// fnEncVal is hx.Enc with the opaque marker the driver prints.
func fnEncVal(x any) *hx.Val {
	v := hx.Enc(x)
	v.Walk(func(w *hx.Val) {
		if w.Kind == "o" {
			w.O = 1
		}
	})
	return v
}

// fnEncAny is the JSON form of a Go `any` value: null, or its dynamic type and contents.
func fnEncAny(x any) any {
	if x == nil {
		return nil
	}
	return map[string]any{"ty": fnEncType(reflect.TypeOf(x)), "val": fnEncVal(x)}
}

func fnEncAnyResult(x any) any {
	if x == nil {
		return map[string]any{"nil": true}
	}
	return fnEncAny(x)
}

func fnNilable(t reflect.Type) bool {
	switch t.Kind() {
	case reflect.Interface, reflect.Pointer, reflect.Slice, reflect.Map, reflect.Func, reflect.Chan:
		return true
	}
	return false
}

// fnSample builds a value of type t: variant 0 a non-zero one, variant 1 the zero value.
func fnSample(t reflect.Type, variant int) reflect.Value {
	v := reflect.New(t).Elem()
	if variant == 1 {
		return v
	}
	switch t.Kind() {
	case reflect.Int, reflect.Int64:
		v.SetInt(7)
	case reflect.Float64:
		v.SetFloat(1.5)
	case reflect.String:
		v.SetString("a")
	case reflect.Bool:
		v.SetBool(true)
	case reflect.Pointer:
		if t == fnRegexpT {
			v.Set(reflect.ValueOf(regexp.MustCompile("^a+$")))
		} else {
			v.Set(reflect.New(t.Elem()))
		}
	case reflect.Interface:
		switch {
		case t.NumMethod() == 0:
			v.Set(reflect.ValueOf(int64(5)))
		case fnErrT.Implements(t):
			v.Set(reflect.ValueOf(fnErr{Msg: "boom"}))
		case fnFooT.Implements(t):
			v.Set(reflect.ValueOf(fnFoo{}))
		}
	case reflect.Slice:
		s := reflect.MakeSlice(t, 1, 1)
		s.Index(0).Set(fnSample(t.Elem(), 0))
		v.Set(s)
	case reflect.Map:
		m := reflect.MakeMapWithSize(t, 1)
		m.SetMapIndex(fnSample(t.Key(), 0), fnSample(t.Elem(), 0))
		v.Set(m)
	case reflect.Struct:
	default:
		panic("funcs: no sample for " + t.String())
	}
	return v
}

// fnEncRVal is the JSON form of one result reflect.Value of static type t.
func fnEncRVal(t reflect.Type, v reflect.Value) any {
	if t.Kind() == reflect.Interface {
		return map[string]any{"iface": fnEncType(t), "v": fnEncAny(v.Interface())}
	}
	return map[string]any{"conc": fnEncType(t), "nil": fnNilable(t) && v.IsNil(), "val": fnEncVal(v.Interface())}
}

// ---------------------------------------------------------------------------------------------
// schema kinds

type fnSTy struct {
	K    string // int float string bool pattern any enumInt enumStr object oneOf list map
	Item *fnSTy
	Key  *fnSTy
	Val  *fnSTy
}

func fnS(k string) *fnSTy                     { return &fnSTy{K: k} }
func fnSList(i *fnSTy) *fnSTy                 { return &fnSTy{K: "list", Item: i} }
func fnSMap(k, v *fnSTy) *fnSTy               { return &fnSTy{K: "map", Key: k, Val: v} }
func (s *fnSTy) MarshalJSON() ([]byte, error) { return json.Marshal(s.JSON()) }

func (s *fnSTy) JSON() any {
	switch s.K {
	case "list":
		return map[string]any{"list": s.Item.JSON()}
	case "map":
		return map[string]any{"map": []any{s.Key.JSON(), s.Val.JSON()}}
	}
	return s.K
}

func (s *fnSTy) Build() schema.Type {
	switch s.K {
	case "int":
		return schema.NewIntSchema(nil, nil, nil)
	case "float":
		return schema.NewFloatSchema(nil, nil, nil)
	case "string":
		return schema.NewStringSchema(nil, nil, nil)
	case "bool":
		return schema.NewBoolSchema()
	case "pattern":
		return schema.NewPatternSchema()
	case "any":
		return schema.NewAnySchema()
	case "enumInt":
		return schema.NewIntEnumSchema(map[int64]*schema.DisplayValue{1: nil, 2: nil}, nil)
	case "enumStr":
		return schema.NewStringEnumSchema(map[string]*schema.DisplayValue{"a": nil, "b": nil})
	case "object":
		return schema.NewObjectSchema("o", map[string]*schema.PropertySchema{
			"x": schema.NewPropertySchema(schema.NewIntSchema(nil, nil, nil), nil, false, nil, nil, nil, nil, nil),
		})
	case "oneOf":
		return schema.NewOneOfStringSchema[any](map[string]schema.Object{
			"a": schema.NewObjectSchema("a", map[string]*schema.PropertySchema{}),
		}, "kind", false)
	case "list":
		return schema.NewListSchema(s.Item.Build(), nil, nil)
	case "map":
		return schema.NewMapSchema(s.Key.Build(), s.Val.Build(), nil, nil)
	}
	panic("funcs: bad schema kind " + s.K)
}

func fnBuildAll(ss []*fnSTy) []schema.Type {
	out := make([]schema.Type, len(ss))
	for i, s := range ss {
		out[i] = s.Build()
	}
	return out
}

// ---------------------------------------------------------------------------------------------
// handlers

type fnHandler struct {
	Kind     string // nil nonfunc nilfunc func
	In, Out  []reflect.Type
	Variadic bool
}

func (h fnHandler) JSON() any {
	switch h.Kind {
	case "nil":
		return map[string]any{"h": "nil"}
	case "nonfunc":
		return map[string]any{"h": "nonfunc", "t": fnEncType(fnIntT)}
	}
	return map[string]any{"h": h.Kind, "params": fnEncTypes(h.In), "results": fnEncTypes(h.Out), "variadic": h.Variadic}
}

// one result slot: a constant or the argument with index Echo
type fnRet struct {
	Echo  int // -1: constant
	Const reflect.Value
}

type fnBeh struct {
	Panic bool
	Rets  []fnRet
}

func (b fnBeh) JSON(out []reflect.Type) any {
	if b.Panic {
		return map[string]any{"panic": true}
	}
	rets := make([]any, len(b.Rets))
	for i, r := range b.Rets {
		if r.Echo >= 0 {
			rets[i] = map[string]any{"echo": r.Echo}
		} else {
			rets[i] = map[string]any{"const": fnEncRVal(out[i], r.Const)}
		}
	}
	return map[string]any{"rets": rets}
}

// what the handler saw and did
type fnRecord struct {
	Calls    int
	Args     []reflect.Value
	Rets     []reflect.Value
	Panicked bool
}

type fnHandlerPanic struct{}

// Value builds the `handler any` argument.
func (h fnHandler) Value(b fnBeh, rec *fnRecord) any {
	switch h.Kind {
	case "nil":
		return nil
	case "nonfunc":
		return 5
	}
	ft := reflect.FuncOf(h.In, h.Out, h.Variadic)
	if h.Kind == "nilfunc" {
		return reflect.Zero(ft).Interface()
	}
	return reflect.MakeFunc(ft, func(args []reflect.Value) []reflect.Value {
		rec.Calls++
		rec.Args = args
		if b.Panic {
			rec.Panicked = true
			panic(fnHandlerPanic{})
		}
		rets := make([]reflect.Value, len(h.Out))
		for i, t := range h.Out {
			v := reflect.New(t).Elem()
			if b.Rets[i].Echo >= 0 {
				v.Set(args[b.Rets[i].Echo])
			} else {
				v.Set(b.Rets[i].Const)
			}
			rets[i] = v
		}
		rec.Rets = rets
		return rets
	}).Interface()
}

// constBeh: every slot a constant sample (variant per slot kind), the error slot nil
func fnConstBeh(out []reflect.Type, variant int) fnBeh {
	b := fnBeh{Rets: make([]fnRet, len(out))}
	for i, t := range out {
		v := variant
		if t == fnErrorT && i == len(out)-1 && variant == 0 {
			v = 1 // nil error
		}
		b.Rets[i] = fnRet{Echo: -1, Const: fnSample(t, v)}
	}
	return b
}

// ---------------------------------------------------------------------------------------------
// runner

type fnRun struct {
	s    *sink
	rng  *rand.Rand
	seen map[string]bool
}

func (m *fnRun) writeCase(c map[string]any) (int, string) {
	m.s.nextID++
	c["id"] = m.s.nextID
	// fields every case of the line protocol carries (bin/compare.py prints them)
	c["schema"] = nil
	c["v"] = nil
	b, err := json.Marshal(c)
	if err != nil {
		panic(err)
	}
	m.s.cases.Write(b)
	m.s.cases.WriteByte('\n')
	m.s.stats["op:"+c["op"].(string)]++
	return m.s.nextID, string(b)
}

func (m *fnRun) writeResult(op string, r map[string]any) {
	b, err := json.Marshal(r)
	if err != nil {
		panic(err)
	}
	m.s.results.Write(b)
	m.s.results.WriteByte('\n')
	m.s.stats["res:"+op+":"+r["r"].(string)]++
}

func (m *fnRun) find(what string, id int, caseJSON string, detail ...string) {
	m.s.finding(Finding{Prop: "C18", What: what, Cases: []int{id}, Detail: append([]string{caseJSON}, detail...)})
}

// the declaration side of a case
type fnDecl struct {
	Inputs []*fnSTy
	Output *fnSTy // nil: none
	OE     bool
	ThNil  bool // dynamic: typeHandler is nil
}

func fnTypeHandler(thnil bool) func([]schema.Type) (schema.Type, error) {
	if thnil {
		return nil
	}
	return func([]schema.Type) (schema.Type, error) { return schema.NewAnySchema(), nil }
}

// fnConstruct calls the constructor under recover.
func fnConstruct(dynamic bool, d fnDecl, hv any) (f schema.CallableFunction, err error, panicMsg string, panicked bool) {
	defer func() {
		if r := recover(); r != nil {
			panicked = true
			panicMsg = fmt.Sprint(r)
		}
	}()
	inputs := fnBuildAll(d.Inputs)
	if dynamic {
		f, err = schema.NewDynamicCallableFunction("f", inputs, nil, hv, fnTypeHandler(d.ThNil))
		return
	}
	var out schema.Type
	if d.Output != nil {
		out = d.Output.Build()
	}
	f, err = schema.NewCallableFunction("f", inputs, out, d.OE, nil, hv)
	return
}

// fnShouldAccept is the oracle for the constructors: do the handler's Go types agree with the
// declaration? Written against reflect only.
func fnShouldAccept(dynamic bool, d fnDecl, hv any) bool {
	v := reflect.ValueOf(hv)
	if !v.IsValid() || v.Kind() != reflect.Func || v.IsNil() {
		return false
	}
	t := v.Type()
	if t.NumIn() != len(d.Inputs) {
		return false
	}
	for i, s := range d.Inputs {
		if t.In(i) != s.Build().ReflectedType() {
			return false
		}
	}
	if dynamic {
		return !d.ThNil && t.NumOut() == 2 && t.Out(0).Kind() == reflect.Interface && t.Out(1) == fnErrorT
	}
	var want []reflect.Type
	if d.Output != nil {
		want = append(want, d.Output.Build().ReflectedType())
	}
	if d.OE {
		want = append(want, fnErrorT)
	}
	if t.NumOut() != len(want) {
		return false
	}
	for i, w := range want {
		if t.Out(i) != w {
			return false
		}
	}
	return true
}

func fnKey(parts ...any) string {
	b, _ := json.Marshal(parts)
	h := sha1.Sum(b)
	return string(h[:])
}

// ctor emits one constructor case (deduplicated).
func (m *fnRun) ctor(dynamic bool, h fnHandler, d fnDecl, note string) {
	op := "FN_NEW"
	c := map[string]any{"handler": h.JSON(), "inputs": d.Inputs, "note": note}
	if dynamic {
		op = "FN_NEWDYN"
		c["thnil"] = d.ThNil
	} else {
		c["output"] = d.Output
		c["oe"] = d.OE
	}
	c["op"] = op
	key := fnKey(op, c["handler"], d.Inputs, d.Output, d.OE, d.ThNil)
	if m.seen[key] {
		return
	}
	m.seen[key] = true
	id, cj := m.writeCase(c)
	var rec fnRecord
	var beh fnBeh
	if h.Kind == "func" {
		beh = fnConstBeh(h.Out, 0)
	}
	hv := h.Value(beh, &rec)
	f, err, pmsg, panicked := fnConstruct(dynamic, d, hv)
	want := fnShouldAccept(dynamic, d, hv)
	m.s.stats[fmt.Sprintf("ctor:%s:params=%d:inputs=%d", op, len(h.In), len(d.Inputs))]++
	switch {
	case panicked:
		m.writeResult(op, map[string]any{"r": "panic", "msg": pmsg})
		m.find("constructor panicked: "+pmsg, id, cj)
	case err != nil:
		m.writeResult(op, map[string]any{"r": "err", "msg": err.Error()})
		if want {
			m.find("constructor rejected a handler whose types agree with the declaration: "+err.Error(), id, cj)
		}
		if f != nil {
			m.find("constructor returned both a function and an error", id, cj)
		}
	default:
		m.writeResult(op, map[string]any{"r": "ok"})
		if !want {
			m.find("constructor accepted a handler whose types differ from the declaration", id, cj)
		}
		if f == nil {
			m.find("constructor returned neither a function nor an error", id, cj)
		}
	}
	if rec.Calls != 0 {
		m.find("constructor invoked the handler", id, cj)
	}
}

// fnArgOK: is the argument a value of the declared type (oracle; reflect only)?
func fnArgOK(arg any, declared reflect.Type) bool {
	if arg == nil {
		return declared.Kind() == reflect.Interface
	}
	return reflect.TypeOf(arg).AssignableTo(declared)
}

func fnSame(got any, want reflect.Value) bool {
	var w any
	if want.IsValid() {
		w = want.Interface()
	}
	if got == nil || w == nil {
		return got == nil && w == nil
	}
	return reflect.TypeOf(got) == reflect.TypeOf(w) && reflect.DeepEqual(got, w)
}

// callCase emits one FN_CALL case. mode: static, dynamic, raw.
func (m *fnRun) callCase(mode string, h fnHandler, d fnDecl, rawDyn bool, args []any, beh fnBeh, note string) {
	c := map[string]any{"op": "FN_CALL", "mode": mode, "handler": h.JSON(), "inputs": d.Inputs,
		"output": d.Output, "oe": d.OE, "thnil": d.ThNil, "rawdyn": rawDyn, "note": note}
	encArgs := make([]any, len(args))
	for i, a := range args {
		encArgs[i] = fnEncAny(a)
	}
	c["args"] = encArgs
	c["beh"] = beh.JSON(h.Out)
	key := fnKey("FN_CALL", mode, c["handler"], d.Inputs, d.Output, d.OE, d.ThNil, rawDyn, encArgs, c["beh"])
	if m.seen[key] {
		return
	}
	m.seen[key] = true
	id, cj := m.writeCase(c)
	var rec fnRecord
	hv := h.Value(beh, &rec)

	var f schema.CallableFunction
	if mode == "raw" {
		raw := schema.CallableFunctionSchema{IDValue: "f", InputsValue: fnBuildAll(d.Inputs), OutputsError: d.OE,
			Handler: reflect.ValueOf(hv)}
		if d.Output != nil {
			raw.StaticOutputValue = d.Output.Build()
		}
		if rawDyn {
			raw.DynamicTypeHandler = fnTypeHandler(false)
		}
		f = raw
	} else {
		var err error
		var pmsg string
		var panicked bool
		f, err, pmsg, panicked = fnConstruct(mode == "dynamic", d, hv)
		if panicked {
			m.writeResult("FN_CALL", map[string]any{"r": "panic", "msg": "constructor: " + pmsg})
			m.find("constructor panicked: "+pmsg, id, cj)
			return
		}
		if err != nil {
			m.writeResult("FN_CALL", map[string]any{"r": "rejected", "msg": err.Error()})
			if fnShouldAccept(mode == "dynamic", d, hv) {
				m.find("constructor rejected a handler whose types agree with the declaration: "+err.Error(), id, cj)
			}
			return
		}
		if !fnShouldAccept(mode == "dynamic", d, hv) {
			m.find("constructor accepted a handler whose types differ from the declaration", id, cj)
		}
	}

	var got any
	var callErr error
	panicMsg, panicked := func() (msg string, p bool) {
		defer func() {
			if r := recover(); r != nil {
				p = true
				msg = fmt.Sprint(r)
			}
		}()
		got, callErr = f.Call(args)
		return
	}()

	// canonical result
	var fe *schema.FunctionCallError
	isFE := callErr != nil && errors.As(callErr, &fe)
	switch {
	case panicked:
		m.writeResult("FN_CALL", map[string]any{"r": "panic", "msg": panicMsg})
	case callErr == nil:
		m.writeResult("FN_CALL", map[string]any{"r": "ok", "v": fnEncAnyResult(got)})
	case isFE && fe.IsFunctionReportedError:
		m.writeResult("FN_CALL", map[string]any{"r": "err-fn", "msg": callErr.Error()})
	case isFE:
		m.writeResult("FN_CALL", map[string]any{"r": "err-call", "msg": callErr.Error()})
	default:
		m.writeResult("FN_CALL", map[string]any{"r": "err-other", "msg": callErr.Error()})
	}
	m.s.stats[fmt.Sprintf("call:%s:params=%d:args=%d", mode, len(h.In), len(args))]++
	if mode == "raw" {
		return // constructor bypassed: outside C18, correspondence only
	}

	// oracle
	if panicked && !rec.Panicked {
		m.find("Call panicked although the handler did not: "+panicMsg, id, cj)
		return
	}
	if callErr != nil && !isFE {
		m.find("Call returned an error that is not a FunctionCallError", id, cj, callErr.Error())
		return
	}
	if callErr != nil && got != nil {
		m.find("Call returned both a value and an error", id, cj)
	}
	shapeOK := len(args) == len(d.Inputs)
	if shapeOK {
		for i, a := range args {
			if !fnArgOK(a, d.Inputs[i].Build().ReflectedType()) {
				shapeOK = false
			}
		}
	}
	if !shapeOK {
		what := "wrong argument count"
		if len(args) == len(d.Inputs) {
			what = "argument of a wrong type"
		}
		switch {
		case rec.Calls != 0:
			m.find(what+": the handler was invoked", id, cj)
		case panicked:
		case callErr == nil:
			m.find(what+": Call reported no error", id, cj)
		case fe.IsFunctionReportedError:
			m.find(what+": reported as function-reported", id, cj)
		}
		return
	}
	if rec.Calls != 1 {
		m.find(fmt.Sprintf("well-shaped call: handler invoked %d times", rec.Calls), id, cj)
		return
	}
	for i, a := range args {
		if !fnSame(a, rec.Args[i]) {
			m.find(fmt.Sprintf("handler received a different argument %d", i), id, cj)
		}
	}
	if rec.Panicked {
		return // a panicking handler is outside C18
	}
	// what the handler returned
	var retVal, retErr reflect.Value
	n := len(rec.Rets)
	hasErr := mode == "dynamic" || d.OE
	hasVal := mode == "dynamic" || d.Output != nil
	if hasErr {
		retErr = rec.Rets[n-1]
	}
	if hasVal {
		retVal = rec.Rets[0]
	}
	if hasErr && !retErr.IsNil() {
		switch {
		case callErr == nil:
			m.find("handler error not reported", id, cj)
		case !fe.IsFunctionReportedError:
			m.find("handler error reported as not function-reported", id, cj)
		case !fnSame(fe.SourceError, retErr):
			m.find("reported error is not the handler's error", id, cj)
		}
		return
	}
	if callErr != nil {
		m.find("Call reported an error although the handler returned none: "+callErr.Error(), id, cj)
		return
	}
	if !fnSame(got, retVal) {
		m.find("returned value differs from what the handler returned", id, cj, fmt.Sprintf("%#v", got))
	}
}

// ---------------------------------------------------------------------------------------------
// the matrix

func fnLists[T any](base []T, n int) [][]T {
	if n == 0 {
		return [][]T{{}}
	}
	var out [][]T
	for _, p := range fnLists(base, n-1) {
		for _, b := range base {
			l := append(append([]T{}, p...), b)
			out = append(out, l)
		}
	}
	return out
}

type fnUniverse struct {
	TFull, TSmall []reflect.Type
	SFull, SSmall []*fnSTy
	HP            []fnHandler // parameter lists (results empty)
	DI            [][]*fnSTy
	RS            [][]reflect.Type
}

func fnMakeUniverse() *fnUniverse {
	u := &fnUniverse{}
	sl := reflect.SliceOf
	mp := reflect.MapOf
	u.TFull = []reflect.Type{
		fnInt64T, fnFloat64T, fnStringT, fnBoolT, fnRegexpT, fnAnyT,
		sl(fnInt64T), sl(fnStringT), sl(fnAnyT), sl(sl(fnInt64T)), sl(fnFloat64T),
		mp(fnStringT, fnAnyT), mp(fnStringT, fnInt64T), mp(fnInt64T, fnStringT), mp(fnStringT, sl(fnInt64T)), mp(fnInt64T, fnAnyT),
		fnIntT, fnMyInt64T, fnErrorT, fnFakeIntT, fnFooerT, sl(fnIntT),
	}
	u.TSmall = []reflect.Type{fnInt64T, fnStringT, fnAnyT, sl(fnInt64T)}
	i, f, s, b, p, a := fnS("int"), fnS("float"), fnS("string"), fnS("bool"), fnS("pattern"), fnS("any")
	ei, es, ob, oo := fnS("enumInt"), fnS("enumStr"), fnS("object"), fnS("oneOf")
	u.SFull = []*fnSTy{
		i, f, s, b, p, a, ei, es, ob, oo,
		fnSList(i), fnSList(s), fnSList(a), fnSList(fnSList(i)), fnSList(f), fnSList(es),
		fnSMap(s, a), fnSMap(s, i), fnSMap(i, s), fnSMap(s, fnSList(i)), fnSMap(ei, oo), fnSMap(es, ob),
	}
	u.SSmall = []*fnSTy{i, s, a, fnSList(i)}
	add := func(in []reflect.Type) {
		u.HP = append(u.HP, fnHandler{Kind: "func", In: in})
		if n := len(in); n > 0 && in[n-1].Kind() == reflect.Slice {
			u.HP = append(u.HP, fnHandler{Kind: "func", In: in, Variadic: true})
		}
	}
	add(nil)
	for _, t := range u.TFull {
		add([]reflect.Type{t})
	}
	for _, l := range fnLists(u.TSmall, 2) {
		add(l)
	}
	for _, l := range fnLists(u.TSmall, 3) {
		add(l)
	}
	u.DI = append(u.DI, []*fnSTy{})
	for _, t := range u.SFull {
		u.DI = append(u.DI, []*fnSTy{t})
	}
	u.DI = append(u.DI, fnLists(u.SSmall, 2)...)
	u.DI = append(u.DI, fnLists(u.SSmall, 3)...)

	// result lists
	rs := func(ts ...reflect.Type) { u.RS = append(u.RS, ts) }
	fakes := []reflect.Type{fnFakeIntT, fnFakeFooT, fnFakeErrorT, fnFakePtrT}
	few := []reflect.Type{fnInt64T, fnStringT, fnAnyT}
	rs()
	for _, t := range u.TFull {
		rs(t)
	}
	for _, t := range u.TFull {
		rs(t, fnErrorT)
	}
	for _, fk := range fakes {
		rs(fk)
		for _, t := range few {
			rs(t, fk)
		}
	}
	for _, l := range fnLists(u.TSmall, 2) {
		rs(l...)
	}
	for _, t := range u.TSmall {
		rs(fnErrorT, t)
	}
	rs(fnFakeErrorT, fnErrorT)
	rs(fnFooerT, fnFooerT)
	for _, t := range []reflect.Type{fnInt64T, fnAnyT} {
		rs(t, fnErrorT, fnErrorT)
		rs(t, t, fnErrorT)
		rs(t, fnErrorT, t)
		rs(fnErrorT, t, fnErrorT)
	}
	rs(fnErrorT, fnErrorT, fnErrorT)
	return u
}

// schemaFor returns the first schema of SFull whose reflected type is t (nil if none).
func (u *fnUniverse) schemaFor(t reflect.Type) *fnSTy {
	for _, s := range u.SFull {
		if s.Build().ReflectedType() == t {
			return s
		}
	}
	return nil
}

func (u *fnUniverse) schemasFor(ts []reflect.Type) ([]*fnSTy, bool) {
	out := make([]*fnSTy, len(ts))
	for i, t := range ts {
		out[i] = u.schemaFor(t)
		if out[i] == nil {
			return nil, false
		}
	}
	return out, true
}

func fnWith(h fnHandler, out ...reflect.Type) fnHandler {
	h.Out = out
	return h
}

func (m *fnRun) constructors(u *fnUniverse) {
	str := fnS("string")
	// P: parameter matrix
	for _, hp := range u.HP {
		for _, di := range u.DI {
			m.ctor(false, fnWith(hp), fnDecl{Inputs: di}, "P")
			m.ctor(false, fnWith(hp, fnStringT, fnErrorT), fnDecl{Inputs: di, Output: str, OE: true}, "P")
			m.ctor(false, fnWith(hp, fnInt64T), fnDecl{Inputs: di, Output: str}, "P")
			m.ctor(true, fnWith(hp, fnAnyT, fnErrorT), fnDecl{Inputs: di}, "P")
			m.ctor(true, fnWith(hp, fnInt64T, fnErrorT), fnDecl{Inputs: di}, "P")
		}
	}
	// R: result matrix
	type pc struct {
		in []reflect.Type
		di []*fnSTy
	}
	pcs := []pc{
		{nil, []*fnSTy{}},
		{[]reflect.Type{fnInt64T}, []*fnSTy{fnS("int")}},
		{[]reflect.Type{fnStringT, fnAnyT}, []*fnSTy{str, fnS("any")}},
		{[]reflect.Type{fnInt64T}, []*fnSTy{str}},
	}
	outs := append([]*fnSTy{nil}, u.SFull...)
	for _, r := range u.RS {
		for _, p := range pcs {
			h := fnHandler{Kind: "func", In: p.in, Out: r}
			for _, o := range outs {
				for _, oe := range []bool{false, true} {
					m.ctor(false, h, fnDecl{Inputs: p.di, Output: o, OE: oe}, "R")
				}
			}
			m.ctor(true, h, fnDecl{Inputs: p.di}, "R")
			m.ctor(true, h, fnDecl{Inputs: p.di, ThNil: true}, "R")
		}
	}
	// H: handlers that are not (non-nil) functions
	for _, k := range []string{"nil", "nonfunc", "nilfunc"} {
		for _, p := range pcs[:2] {
			h := fnHandler{Kind: k}
			if k == "nilfunc" {
				h.In = p.in
			}
			for _, oe := range []bool{false, true} {
				m.ctor(false, h, fnDecl{Inputs: p.di, OE: oe}, "H")
				if k == "nilfunc" {
					m.ctor(false, fnWith(h, fnStringT, fnErrorT), fnDecl{Inputs: p.di, Output: str, OE: true}, "H")
				}
			}
			m.ctor(true, h, fnDecl{Inputs: p.di}, "H")
			if k == "nilfunc" {
				m.ctor(true, fnWith(h, fnAnyT, fnErrorT), fnDecl{Inputs: p.di}, "H")
			}
		}
	}
}

// random cells of the full product
func (m *fnRun) randomProduct(u *fnUniverse, n int) {
	for k := 0; k < n; k++ {
		np := m.rng.Intn(4)
		in := make([]reflect.Type, np)
		for i := range in {
			in[i] = u.TFull[m.rng.Intn(len(u.TFull))]
		}
		h := fnHandler{Kind: "func", In: in, Out: u.RS[m.rng.Intn(len(u.RS))]}
		if np > 0 && in[np-1].Kind() == reflect.Slice && m.rng.Intn(4) == 0 {
			h.Variadic = true
		}
		var d fnDecl
		// inputs: mostly the matching list, sometimes mutated
		if di, ok := u.schemasFor(in); ok && m.rng.Intn(10) < 7 {
			d.Inputs = di
			switch m.rng.Intn(6) {
			case 0:
				if len(di) > 0 {
					d.Inputs = append([]*fnSTy{}, di...)
					d.Inputs[m.rng.Intn(len(di))] = u.SFull[m.rng.Intn(len(u.SFull))]
				}
			case 1:
				d.Inputs = append(append([]*fnSTy{}, di...), u.SFull[m.rng.Intn(len(u.SFull))])
			case 2:
				if len(di) > 0 {
					d.Inputs = di[:len(di)-1]
				}
			}
		} else {
			d.Inputs = make([]*fnSTy, m.rng.Intn(4))
			for i := range d.Inputs {
				d.Inputs[i] = u.SFull[m.rng.Intn(len(u.SFull))]
			}
		}
		dynamic := m.rng.Intn(4) == 0
		if dynamic {
			d.ThNil = m.rng.Intn(8) == 0
		} else {
			// declaration: mostly the one matching the result list
			if m.rng.Intn(10) < 6 {
				out := h.Out
				if n := len(out); n > 0 && out[n-1] == fnErrorT {
					d.OE = true
					out = out[:n-1]
				}
				if len(out) > 0 {
					d.Output = u.schemaFor(out[0])
				}
			} else {
				d.OE = m.rng.Intn(2) == 0
				if m.rng.Intn(3) > 0 {
					d.Output = u.SFull[m.rng.Intn(len(u.SFull))]
				}
			}
		}
		m.ctor(dynamic, h, d, "X")
	}
}

// argument lists for a parameter list
type fnArgList struct {
	Args []any
	Well bool
	Note string
}

func fnArgLists(in []reflect.Type) []fnArgList {
	n := len(in)
	well := make([]any, n)
	for i, t := range in {
		well[i] = fnSample(t, 0).Interface()
	}
	out := []fnArgList{{Args: well, Well: true, Note: "well-typed"}}
	// every other length 0..4
	for l := 0; l <= 4; l++ {
		if l == n {
			continue
		}
		a := make([]any, l)
		for i := range a {
			if i < n {
				a[i] = well[i]
			} else {
				a[i] = int64(1)
			}
		}
		out = append(out, fnArgList{Args: a, Note: "count"})
	}
	// every position: another type, nil, a named value, an error value
	for i, t := range in {
		alts := []any{"x", int64(1), nil, fnMyInt64(3), fnErr{Msg: "v"}, []any{int64(1)}, []int64(nil)}
		for _, alt := range alts {
			a := append([]any{}, well...)
			a[i] = alt
			out = append(out, fnArgList{Args: a, Well: fnArgOK(alt, t), Note: "replace"})
		}
	}
	return out
}

// behaviours for a result list of an accepted function
func fnBehaviours(h fnHandler) []fnBeh {
	out := h.Out
	n := len(out)
	bs := []fnBeh{fnConstBeh(out, 0), fnConstBeh(out, 1)}
	hasErr := n > 0 && out[n-1] == fnErrorT
	if hasErr {
		b := fnConstBeh(out, 0)
		b.Rets[n-1] = fnRet{Echo: -1, Const: fnSample(fnErrorT, 0)}
		bs = append(bs, b)
		b2 := fnConstBeh(out, 1)
		e := reflect.New(fnErrorT).Elem()
		e.Set(reflect.ValueOf((*fnPtrErr)(nil)))
		b2.Rets[n-1] = fnRet{Echo: -1, Const: e}
		bs = append(bs, b2)
	}
	nv := n
	if hasErr {
		nv--
	}
	if nv == 1 {
		// echo every argument that fits the value slot
		for i, t := range h.In {
			if t == out[0] || (out[0].Kind() == reflect.Interface && t.Implements(out[0])) {
				b := fnConstBeh(out, 0)
				b.Rets[0] = fnRet{Echo: i}
				bs = append(bs, b)
			}
		}
		// other dynamic contents for interface slots
		if out[0].Kind() == reflect.Interface && out[0].NumMethod() == 0 {
			for _, x := range []any{"s", []int64{1, 2}, map[string]any{"k": int64(1)}, fnMyInt64(4), fnErr{Msg: "value"}} {
				b := fnConstBeh(out, 0)
				v := reflect.New(out[0]).Elem()
				v.Set(reflect.ValueOf(x))
				b.Rets[0] = fnRet{Echo: -1, Const: v}
				bs = append(bs, b)
			}
		}
	}
	return bs
}

func (m *fnRun) callsOf(mode string, h fnHandler, d fnDecl) {
	behs := fnBehaviours(h)
	for _, al := range fnArgLists(h.In) {
		if al.Well {
			for _, b := range behs {
				m.callCase(mode, h, d, false, al.Args, b, al.Note)
			}
			if al.Note == "well-typed" {
				m.callCase(mode, h, d, false, al.Args, fnBeh{Panic: true}, "handler-panics")
			}
		} else {
			m.callCase(mode, h, d, false, al.Args, behs[0], al.Note)
			if len(behs) > 2 {
				m.callCase(mode, h, d, false, al.Args, behs[2], al.Note)
			}
		}
	}
}

func (m *fnRun) calls(u *fnUniverse) {
	str := fnS("string")
	anyS := fnS("any")
	for _, hp := range u.HP {
		di, ok := u.schemasFor(hp.In)
		if !ok {
			continue
		}
		m.callsOf("static", fnWith(hp), fnDecl{Inputs: di})
		m.callsOf("static", fnWith(hp, fnErrorT), fnDecl{Inputs: di, OE: true})
		m.callsOf("static", fnWith(hp, fnStringT), fnDecl{Inputs: di, Output: str})
		m.callsOf("static", fnWith(hp, fnAnyT, fnErrorT), fnDecl{Inputs: di, Output: anyS, OE: true})
		m.callsOf("dynamic", fnWith(hp, fnAnyT, fnErrorT), fnDecl{Inputs: di})
		if len(hp.In) <= 1 {
			for _, t := range u.TFull {
				o := u.schemaFor(t)
				if o == nil {
					continue
				}
				m.callsOf("static", fnWith(hp, t), fnDecl{Inputs: di, Output: o})
				m.callsOf("static", fnWith(hp, t, fnErrorT), fnDecl{Inputs: di, Output: o, OE: true})
			}
			m.callsOf("dynamic", fnWith(hp, fnFooerT, fnErrorT), fnDecl{Inputs: di})
			m.callsOf("dynamic", fnWith(hp, fnErrorT, fnErrorT), fnDecl{Inputs: di})
		}
	}
	// calls of rejected combinations: the constructor refuses, nothing is called
	m.callCase("static", fnHandler{Kind: "func", Out: []reflect.Type{fnFakeIntT}}, fnDecl{Inputs: []*fnSTy{}, OE: true}, false, nil,
		fnConstBeh([]reflect.Type{fnFakeIntT}, 0), "rejected")
	m.callCase("dynamic", fnHandler{Kind: "func", Out: []reflect.Type{fnAnyT, fnFakeIntT}}, fnDecl{Inputs: []*fnSTy{}}, false, nil,
		fnConstBeh([]reflect.Type{fnAnyT, fnFakeIntT}, 0), "rejected")
	m.callCase("dynamic", fnHandler{Kind: "func", Out: []reflect.Type{fnAnyT, fnErrorT}}, fnDecl{Inputs: []*fnSTy{}, ThNil: true}, false, nil,
		fnConstBeh([]reflect.Type{fnAnyT, fnErrorT}, 0), "rejected")
	// W: literals, constructor bypassed
	for _, r := range u.RS {
		h := fnHandler{Kind: "func", Out: r}
		for variant := 0; variant < 2; variant++ {
			b := fnBeh{Rets: make([]fnRet, len(r))}
			for i, t := range r {
				b.Rets[i] = fnRet{Echo: -1, Const: fnSample(t, variant)}
			}
			m.callCase("raw", h, fnDecl{Inputs: []*fnSTy{}}, false, nil, b, "raw")
			m.callCase("raw", h, fnDecl{Inputs: []*fnSTy{}, Output: str}, false, nil, b, "raw")
			m.callCase("raw", h, fnDecl{Inputs: []*fnSTy{}}, true, nil, b, "raw")
			m.callCase("raw", h, fnDecl{Inputs: []*fnSTy{}}, false, []any{int64(1)}, b, "raw")
		}
	}
}

func funcsCmd(a Args) {
	if err := os.MkdirAll(a.Out, 0o755); err != nil {
		panic(err)
	}
	if a.Replay != "" {
		fmt.Fprintln(os.Stderr, "funcs: -replay is not supported (the matrix is deterministic; re-run with the same seed)")
		os.Exit(2)
	}
	s := newSink(a.Out)
	defer s.close()
	m := &fnRun{s: s, rng: rand.New(rand.NewSource(a.Seed)), seen: map[string]bool{}}
	u := fnMakeUniverse()
	m.constructors(u)
	nRandom := 20000
	if a.Tier == "thorough" {
		nRandom = 200000
	}
	m.randomProduct(u, nRandom)
	m.calls(u)
	fnErrorIdentityOracle(m)
	fnConcurrentOracle(m)
	fnHistoryOracle(m)
	s.stats["universe:TFull"] = len(u.TFull)
	s.stats["universe:SFull"] = len(u.SFull)
	s.stats["universe:handlerParamLists"] = len(u.HP)
	s.stats["universe:declaredInputLists"] = len(u.DI)
	s.stats["universe:resultLists"] = len(u.RS)
	s.stats["cases"] = s.nextID
	writeStats(a.Out, s, nil)
}
