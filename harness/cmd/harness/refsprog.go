package main

// Second half of sub-command `refs` (property C14): application SCHEDULES and several scopes that
// link into each other.
//
// groupSched (part of stream "link"; alone: -streams sched): a universe of scopes - the tree under
// test "" (S, or an outer scope O that embeds S as a property type / list item / one-of member),
// a foreign scope X whose objects hold self references AND references into a namespace "Y" that X
// binds to its own scope YX, and the scope Y that the tree under test binds "Y" to; object IDs
// collide across all of them. The trees are linked by a PROGRAM: constructions, then every kind of
// application schedule over {self, X, Y} up to length 4 - repetitions, ApplySelf after foreign
// links, applications on S before it is embedded into a newly constructed O and on O afterwards.
// After the program, the target of EVERY reference of EVERY tree (also those inside the foreign
// objects) is compared with lexical lookup computed from the descriptions (independent of any
// schedule) and with the Lean model (op LINKP).
//
// groupNSBehave (part of stream "behave"; alone: -streams nsbehave): the same kind of universe with
// real property schemas; S (or O around S) and X are used after a schedule and compared - Unserialize
// / Validate / Serialize on generated inputs - with the tree in which every reference into another
// namespace is replaced by a pristine copy of the scope it denotes lexically (rooted at the object);
// that tree uses the self namespace only, so it is also what the Lean model runs.

import (
	"encoding/json"
	"fmt"
	"os"
	"strings"

	"go.flow.arcalot.io/pluginsdk/schema"
	"harness/hx"
)

// ---------------------------------------------------------------------------------------------
// link programs

type namedTree struct {
	Name string
	Tree *lnode
}

func (t namedTree) MarshalJSON() ([]byte, error) { return json.Marshal([]any{t.Name, t.Tree}) }

type progCase struct {
	ID     int         `json:"id"`
	Op     string      `json:"op"`
	Schema *struct{}   `json:"schema"`
	Trees  []namedTree `json:"trees"`
	Steps  [][]string  `json:"steps"`
	Note   string      `json:"note,omitempty"`
	// Via: the value the applications on the root of the tree under test go THROUGH on the Go side
	// (see entryPoint). The model links the scope directly; a wrapper must not change the outcome.
	Via string `json:"via,omitempty"`
}

// linker is what every schema value offers for linking.
type linker interface {
	ApplyNamespace(objects map[string]*schema.ObjectSchema, namespace string)
	ValidateReferences() error
}

var entryKinds = []string{"", "stepOutput", "typedScope", "property", "list", "map", "oneOf", "object"}

// entryPoint wraps a constructed scope into one of the values that forward ApplyNamespace and
// ValidateReferences to it: a step output, a typed scope, a property, a list, a map, a one-of
// member, an inline object holding it. Namespaces applied through any of them must reach the scope
// with the caller's table.
func entryPoint(kind string, sc *schema.ScopeSchema) linker {
	switch kind {
	case "stepOutput":
		return schema.NewStepOutputSchema(sc, nil, false)
	case "typedScope":
		return &schema.TypedScopeSchema[map[string]any]{ScopeSchema: *sc}
	case "property":
		return schema.NewPropertySchema(sc, nil, false, nil, nil, nil, nil, nil)
	case "list":
		return schema.NewListSchema(sc, nil, nil)
	case "map":
		return schema.NewMapSchema(schema.NewStringSchema(nil, nil, nil), sc, nil, nil)
	case "oneOf":
		return schema.NewOneOfStringSchema[any](map[string]schema.Object{"k": sc}, "_entry", false)
	case "object":
		return schema.NewObjectSchema("Entry", map[string]*schema.PropertySchema{
			"e": schema.NewPropertySchema(sc, nil, false, nil, nil, nil, nil, nil),
			"z": schema.NewPropertySchema(schema.NewIntSchema(nil, nil, nil), nil, false, nil, nil, nil, nil, nil),
		})
	}
	return sc
}

type progObs struct {
	Trees [][3]any `json:"trees"` // [name, refs, valid]
}

type progResult struct {
	R   string   `json:"r"`
	V   *progObs `json:"v,omitempty"`
	Msg string   `json:"msg,omitempty"`
	// set when, after some step, ValidateReferences disagreed with the link state (never compared
	// with the model; reported as a finding)
	Inconsistent string `json:"-"`
}

type progTree struct {
	node    *lnode // private copy of the description; "replace" steps change it
	top     schema.Type
	pending []*schema.ObjectSchema       // objects of a top scope that is not constructed yet (root first)
	refs    map[string]*schema.RefSchema // by position
	scopes  map[string]*schema.ScopeSchema
}

// orderedRefs lists the references of the tree as it is now, in traversal order.
func (pt *progTree) orderedRefs(owner string) []refRec {
	var out []refRec
	for _, r := range collectRefs(pt.node, owner) {
		out = append(out, refRec{r.path, pt.refs[r.path]})
	}
	return out
}

func copyNode(n *lnode) *lnode {
	b, err := json.Marshal(n)
	if err != nil {
		panic(err)
	}
	var c lnode
	if err := json.Unmarshal(b, &c); err != nil {
		panic(err)
	}
	return &c
}

// setObject replaces (or adds) the object `id` of the scope at `path` in a description.
func setObject(n *lnode, path string, id string, obj *lnode) {
	var walk func(n *lnode, p []string)
	walk = func(n *lnode, p []string) {
		if n == nil {
			return
		}
		switch n.T {
		case "list":
			walk(n.Item, with(p, "[]"))
		case "map":
			walk(n.V, with(p, "{v}"))
		case "obj":
			for _, k := range n.Props {
				walk(k.N, with(p, k.Name))
			}
		case "oneOf":
			for _, k := range n.Members {
				walk(k.N, with(p, k.Name))
			}
		case "scope":
			if pstr(p) == path {
				for i, k := range n.Objs {
					if k.Name == id {
						n.Objs[i].N = obj
						return
					}
				}
				n.Objs = append(n.Objs, lkid{id, obj})
				return
			}
			for _, k := range n.Objs {
				walk(k.N, with(p, k.Name))
			}
		}
	}
	walk(n, nil)
}

type progBuilder struct {
	// via: entry point kind for applications on the root of the tree under test
	via string
	// literal: scopes are written as plain &ScopeSchema{} values (nothing applies itself)
	literal bool
	objs    map[*schema.ObjectSchema]objAddr
	trees   map[string]*progTree
}

func (b *progBuilder) object(pt *progTree, n *lnode, owner string, p []string) *schema.ObjectSchema {
	props := map[string]*schema.PropertySchema{}
	for _, k := range n.Props {
		props[k.Name] = schema.NewPropertySchema(b.build(pt, k.N, owner, with(p, k.Name)), nil, false, nil, nil, nil, nil, nil)
		if n.isDisabled(k.Name) {
			props[k.Name].Disable("harness")
		}
	}
	return schema.NewObjectSchema(n.ID, props)
}

func (b *progBuilder) scopeObjects(pt *progTree, n *lnode, owner string, p []string) []*schema.ObjectSchema {
	var root *schema.ObjectSchema
	var others []*schema.ObjectSchema
	for _, k := range n.Objs {
		o := b.object(pt, k.N, owner, with(p, k.Name))
		b.objs[o] = objAddr{owner, pstr(p), k.Name}
		if k.Name == n.Root {
			root = o
		} else {
			others = append(others, o)
		}
	}
	return append([]*schema.ObjectSchema{root}, others...)
}

func (b *progBuilder) build(pt *progTree, n *lnode, owner string, p []string) schema.Type {
	switch n.T {
	case "leaf":
		return schema.NewIntSchema(nil, nil, nil)
	case "ref":
		r := schema.NewNamespacedRefSchema(n.ID, n.NS, nil)
		pt.refs[pstr(p)] = r
		return r
	case "list":
		return schema.NewListSchema(b.build(pt, n.Item, owner, with(p, "[]")), nil, nil)
	case "map":
		return schema.NewMapSchema(schema.NewStringSchema(nil, nil, nil), b.build(pt, n.V, owner, with(p, "{v}")), nil, nil)
	case "obj":
		return b.object(pt, n, owner, p)
	case "oneOf":
		members := map[string]schema.Object{}
		for _, k := range n.Members {
			members[k.Name] = b.build(pt, k.N, owner, with(p, k.Name)).(schema.Object)
		}
		return schema.NewOneOfStringSchema[any](members, n.Disc, false)
	case "scope":
		os := b.scopeObjects(pt, n, owner, p)
		var sc *schema.ScopeSchema
		if b.literal {
			sc = &schema.ScopeSchema{ObjectsValue: map[string]*schema.ObjectSchema{}, RootValue: n.Root}
			for _, o := range os {
				sc.ObjectsValue[o.ID()] = o
			}
		} else {
			sc = schema.NewScopeSchema(os[0], os[1:]...)
		}
		pt.scopes[pstr(p)] = sc
		return sc
	}
	panic("harness: bad link node " + n.T)
}

func (b *progBuilder) table(from string) map[string]*schema.ObjectSchema {
	if from == "" {
		return nil
	}
	sc, ok := b.trees[from].top.(*schema.ScopeSchema)
	if !ok {
		return map[string]*schema.ObjectSchema{}
	}
	return sc.Objects()
}

// entry: what applications on the root of a tree are called on.
func (b *progBuilder) entry(pt *progTree, owner string) linker {
	if sc, ok := pt.top.(*schema.ScopeSchema); ok && owner == "" && b.via != "" {
		return entryPoint(b.via, sc)
	}
	return pt.top
}

func (b *progBuilder) tableMinus(from string, missing []string) map[string]*schema.ObjectSchema {
	out := map[string]*schema.ObjectSchema{}
	for id, o := range b.table(from) {
		out[id] = o
	}
	for _, id := range missing {
		delete(out, id)
	}
	return out
}

// try runs a step the way a caller that recovers from the panic does.
func (b *progBuilder) try(st []string) {
	defer func() { _ = recover() }()
	b.step(st)
}

func (b *progBuilder) step(st []string) {
	if st[0] == "try" {
		b.try(st[1:])
		return
	}
	pt := b.trees[st[1]]
	switch st[0] {
	case "literal":
		b.literal = true
		pt.top = b.build(pt, pt.node, st[1], nil)
		b.literal = false
	case "replace":
		// ObjectsValue[id] = a new object, on the scope at st[2]
		var obj lnode
		if err := json.Unmarshal([]byte(st[4]), &obj); err != nil {
			panic("harness: bad replacement object: " + err.Error())
		}
		sc := pt.scopes[st[2]]
		var sp []string
		if st[2] != "" {
			sp = strings.Split(st[2], "/")
		}
		if old, ok := sc.ObjectsValue[st[3]]; ok {
			// the replaced object keeps existing for whoever still points at it: a stale identity
			b.objs[old] = objAddr{"stale", st[2], st[3]}
		}
		prefix := pstr(with(sp, st[3])) + "/"
		for path := range pt.refs {
			if strings.HasPrefix(path, prefix) {
				delete(pt.refs, path)
			}
		}
		no := b.object(pt, &obj, st[1], with(sp, st[3]))
		b.objs[no] = objAddr{st[1], st[2], st[3]}
		sc.ObjectsValue[st[3]] = no
		setObject(pt.node, st[2], st[3], &obj)
	case "applySub":
		b.entry(pt, st[1]).ApplyNamespace(b.tableMinus(st[3], st[4:]), st[2])
	case "applyAtSub":
		pt.scopes[st[2]].ApplyNamespace(b.tableMinus(st[4], st[5:]), st[3])
	case "build":
		pt.top = b.build(pt, pt.node, st[1], nil)
	case "buildKids":
		pt.pending = b.scopeObjects(pt, pt.node, st[1], nil)
	case "self":
		if pt.top == nil {
			sc := schema.NewScopeSchema(pt.pending[0], pt.pending[1:]...)
			pt.scopes[""] = sc
			pt.top = sc
		} else if sc, ok := pt.top.(*schema.ScopeSchema); ok && (st[1] != "" || b.via == "") {
			sc.ApplySelf()
		} else {
			b.entry(pt, st[1]).ApplyNamespace(nil, schema.SelfNamespace)
		}
	case "apply":
		b.entry(pt, st[1]).ApplyNamespace(b.table(st[3]), st[2])
	case "applyAt":
		sc := pt.scopes[st[2]]
		if st[3] == "" {
			sc.ApplySelf()
		} else {
			sc.ApplyNamespace(b.table(st[4]), st[3])
		}
	default:
		panic("harness: bad step " + st[0])
	}
}

func runProg(c *progCase) (res progResult) {
	defer func() {
		if r := recover(); r != nil {
			res = progResult{R: "panic", Msg: fmt.Sprint(r)}
		}
	}()
	b := &progBuilder{via: c.Via, objs: map[*schema.ObjectSchema]objAddr{}, trees: map[string]*progTree{}}
	for _, t := range c.Trees {
		b.trees[t.Name] = &progTree{node: copyNode(t.Tree), refs: map[string]*schema.RefSchema{}, scopes: map[string]*schema.ScopeSchema{}}
	}
	inconsistent := ""
	for i, st := range c.Steps {
		b.step(st)
		// after EVERY step: ValidateReferences succeeds exactly when every reference is linked to an object
		for _, t := range c.Trees {
			pt := b.trees[t.Name]
			if pt.top == nil || inconsistent != "" {
				continue
			}
			all := true
			for _, r := range pt.refs {
				if !r.ObjectReady() {
					all = false
				} else if o, ok := r.GetObject().(*schema.ObjectSchema); !ok || o == nil {
					all = false
				}
			}
			if valid := b.entry(pt, t.Name).ValidateReferences() == nil; valid != all {
				inconsistent = fmt.Sprintf("after step %d %v: ValidateReferences of tree %q succeeds = %v, every reference linked to an object = %v", i, st, t.Name, valid, all)
			}
		}
	}
	obs := &progObs{}
	for _, t := range c.Trees {
		pt := b.trees[t.Name]
		lb := &linkBuilder{objs: b.objs, refs: pt.orderedRefs(t.Name)}
		obs.Trees = append(obs.Trees, [3]any{t.Name, lb.observe(), b.entry(pt, t.Name).ValidateReferences() == nil})
	}
	return progResult{R: "ok", V: obs, Inconsistent: inconsistent}
}

// ---- the oracle: per reference, lexical lookup; a program only decides WHICH references have been
// looked up so far

type oref struct {
	path   string
	id, ns string
	chain  []string // paths of the enclosing scopes, outermost first
	ids    map[string]bool
	target []string
}

func collectRefs(n *lnode, owner string) []*oref {
	var out []*oref
	var walk func(n *lnode, p []string, chain []string, ids map[string]bool)
	walk = func(n *lnode, p []string, chain []string, ids map[string]bool) {
		switch n.T {
		case "ref":
			out = append(out, &oref{path: pstr(p), id: n.ID, ns: n.NS, chain: chain, ids: ids})
		case "list":
			walk(n.Item, with(p, "[]"), chain, ids)
		case "map":
			walk(n.V, with(p, "{v}"), chain, ids)
		case "obj":
			for _, k := range n.Props {
				walk(k.N, with(p, k.Name), chain, ids)
			}
		case "oneOf":
			for _, k := range n.Members {
				walk(k.N, with(p, k.Name), chain, ids)
			}
		case "scope":
			nids := map[string]bool{}
			for _, k := range n.Objs {
				nids[k.Name] = true
			}
			nchain := append(append([]string{}, chain...), pstr(p))
			for _, k := range n.Objs {
				for _, pk := range k.N.Props {
					walk(pk.N, with(p, k.Name, pk.Name), nchain, nids)
				}
			}
		}
	}
	walk(n, nil, nil, nil)
	return out
}

func topIDs(n *lnode) map[string]bool {
	ids := map[string]bool{}
	if n.T == "scope" {
		for _, k := range n.Objs {
			ids[k.Name] = true
		}
	}
	return ids
}

func inChain(chain []string, p string) bool {
	for _, c := range chain {
		if c == p {
			return true
		}
	}
	return false
}

func progOracle(c *progCase) (map[string][]*oref, bool) {
	refs := map[string][]*oref{}
	nodes := map[string]*lnode{}
	for _, t := range c.Trees {
		nodes[t.Name] = copyNode(t.Tree)
		refs[t.Name] = collectRefs(nodes[t.Name], t.Name)
	}
	self := func(owner string, r *oref) bool {
		if r.ids == nil || !r.ids[r.id] {
			return false
		}
		r.target = []string{owner, r.chain[len(r.chain)-1], r.id}
		return true
	}
	foreign := func(r *oref, from string) bool {
		if from == "" || !topIDs(nodes[from])[r.id] {
			return false
		}
		r.target = []string{from, "", r.id}
		return true
	}
	for _, st := range c.Steps {
		recovering := st[0] == "try"
		if recovering {
			st = st[1:]
		}
		owner := st[1]
		switch st[0] {
		case "literal":
			continue // plain values: nothing is linked
		case "replace":
			var obj lnode
			if err := json.Unmarshal([]byte(st[4]), &obj); err != nil {
				panic(err)
			}
			setObject(nodes[owner], st[2], st[3], &obj)
			old := map[string][]string{}
			for _, r := range refs[owner] {
				old[r.path] = r.target
			}
			prefix := st[2] + "/" + st[3] + "/"
			if st[2] == "" {
				prefix = st[3] + "/"
			}
			refs[owner] = collectRefs(nodes[owner], owner)
			for _, r := range refs[owner] {
				if strings.HasPrefix(r.path, prefix) {
					continue // a reference of the new object: not linked yet
				}
				r.target = old[r.path]
				if t := r.target; t != nil && t[0] == owner && t[1] == st[2] && t[2] == st[3] {
					// still points at the object that was replaced, until the namespace is applied again
					r.target = []string{"stale", st[2], st[3]}
				}
			}
			continue
		}
		// a recovered failure leaves every reference as it was
		var saved [][]string
		for _, r := range refs[owner] {
			saved = append(saved, r.target)
		}
		failed := false
		var missing []string
		switch st[0] {
		case "applySub":
			missing = st[4:]
			st = []string{"apply", st[1], st[2], st[3]}
		case "applyAtSub":
			missing = st[5:]
			st = []string{"applyAt", st[1], st[2], st[3], st[4]}
		}
		foreign := func(r *oref, from string) bool {
			for _, m := range missing {
				if m == r.id {
					return false
				}
			}
			return foreign(r, from)
		}
		for _, r := range refs[owner] {
			if failed {
				break
			}
			ok := true
			switch st[0] {
			case "build":
				ok = !(r.ns == "" && r.ids != nil) || self(owner, r)
			case "buildKids":
				ok = !(r.ns == "" && len(r.chain) >= 2) || self(owner, r)
			case "self":
				ok = r.ns != "" || self(owner, r)
			case "apply":
				ok = r.ns != st[2] || foreign(r, st[3])
			case "applyAt":
				if !inChain(r.chain, st[2]) || r.ns != st[3] {
					continue
				}
				if st[3] == "" {
					ok = self(owner, r)
				} else {
					ok = foreign(r, st[4])
				}
			}
			if !ok {
				failed = true
			}
		}
		if failed {
			if !recovering {
				return nil, true
			}
			for i, r := range refs[owner] {
				r.target = saved[i]
			}
		}
	}
	return refs, false
}

func (s *sink) emitProg(c *progCase, res progResult) {
	b, err := json.Marshal(c)
	if err != nil {
		panic(err)
	}
	s.cases.Write(b)
	s.cases.WriteByte('\n')
	res.Msg = ""
	rb, _ := json.Marshal(res)
	s.results.Write(rb)
	s.results.WriteByte('\n')
	s.stats["op:LINKP"]++
	s.stats["res:LINKP:"+res.R]++
}

// allSchedules lists every sequence over the symbols of length 1..maxLen.
func allSchedules(symbols []string, maxLen int) [][]string {
	var out [][]string
	var cur []string
	var rec func()
	rec = func() {
		if len(cur) > 0 {
			out = append(out, append([]string{}, cur...))
		}
		if len(cur) == maxLen {
			return
		}
		for _, sy := range symbols {
			cur = append(cur, sy)
			rec()
			cur = cur[:len(cur)-1]
		}
	}
	rec()
	return out
}

// "X2" re-binds namespace "X" to another scope with the same IDs (other objects)
var schedules = allSchedules([]string{"self", "X", "Y", "X2"}, 4)
var schedCursor int

// universe of link trees: returns the trees and, for the tree under test, the path of the embedded
// scope S ("" when the tree under test is S itself).
func genLinkUniverse(g *hx.Gen) (trees []namedTree, embedAt string, lg *linkGen) {
	r := g.R
	lg = &linkGen{g: g, extIDs: map[string][]string{}, maxDeep: 1 + r.Intn(2)}
	if r.Intn(12) == 0 {
		lg.dangle = 0.05
	}
	ids := func(t *lnode) []string {
		var out []string
		for _, k := range t.Objs {
			out = append(out, k.Name)
		}
		return out
	}
	// YX and Y: self namespace only
	yx := lg.scope(1, nil, false)
	y := lg.scope(1, nil, false)
	// X: self references and references into "Y" (= YX)
	lg.nss = []string{"Y"}
	lg.extIDs["Y"] = ids(yx)
	x := lg.scope(1, nil, true)
	// X2: what namespace "X" is re-bound to by some schedules: same IDs, its own objects
	x2 := lg.scopeWithIDs(ids(x), 1, nil, true)
	// S: self, X, Y (= Y)
	lg.nss = []string{"X", "Y", "X"}
	lg.extIDs["X"] = ids(x)
	lg.extIDs["Y"] = ids(y)
	sTree := lg.scope(1, nil, true)
	main := sTree
	if r.Intn(3) == 0 {
		// a NEW outer scope around S, with IDs from the same pool
		oids := lg.pickIDs()
		o := &lnode{T: "scope", Root: oids[0]}
		var holder *lnode
		switch r.Intn(3) {
		case 0:
			holder = sTree
			embedAt = oids[0] + "/emb"
		case 1:
			holder = &lnode{T: "list", Item: sTree}
			embedAt = oids[0] + "/emb/[]"
		default:
			holder = &lnode{T: "oneOf", Disc: "_t", Members: []lkid{{"m0", sTree}, {"m1", lg.selfRef(oids, nil)}}}
			embedAt = oids[0] + "/emb/m0"
		}
		for i, id := range oids {
			ob := lg.object(id, 1, oids, nil, true, 2)
			if i == 0 {
				ob.Props = append([]lkid{{"emb", holder}}, ob.Props...)
			}
			o.Objs = append(o.Objs, lkid{id, ob})
		}
		main = o
	}
	return []namedTree{{"", main}, {"X", x}, {"Y", y}, {"YX", yx}, {"X2", x2}}, embedAt, lg
}

func schedSteps(tree string, at string, sched []string) [][]string {
	var out [][]string
	for _, sy := range sched {
		switch {
		case sy == "self" && at == "":
			out = append(out, []string{"self", tree})
		case sy == "self":
			out = append(out, []string{"applyAt", tree, at, "", ""})
		case at == "" && sy == "X2":
			out = append(out, []string{"apply", tree, "X", "X2"})
		case sy == "X2":
			out = append(out, []string{"applyAt", tree, at, "X", "X2"})
		case at == "":
			out = append(out, []string{"apply", tree, sy, sy})
		default:
			out = append(out, []string{"applyAt", tree, at, sy, sy})
		}
	}
	return out
}

type nestedScope struct {
	path string
	ids  []string
}

// nestedScopes lists the scopes below the top scope of a description.
func nestedScopes(n *lnode) []nestedScope {
	var out []nestedScope
	var walk func(n *lnode, p []string, top bool)
	walk = func(n *lnode, p []string, top bool) {
		if n == nil {
			return
		}
		switch n.T {
		case "list":
			walk(n.Item, with(p, "[]"), false)
		case "map":
			walk(n.V, with(p, "{v}"), false)
		case "obj":
			for _, k := range n.Props {
				walk(k.N, with(p, k.Name), false)
			}
		case "oneOf":
			for _, k := range n.Members {
				walk(k.N, with(p, k.Name), false)
			}
		case "scope":
			if !top {
				ns := nestedScope{path: pstr(p)}
				for _, k := range n.Objs {
					ns.ids = append(ns.ids, k.Name)
				}
				out = append(out, ns)
			}
			for _, k := range n.Objs {
				walk(k.N, with(p, k.Name), false)
			}
		}
	}
	walk(n, nil, true)
	return out
}

// emptyishScope has no object any generated reference asks for.
func emptyishScope() *lnode {
	return &lnode{T: "scope", Root: "Qq", Objs: []lkid{{"Qq", &lnode{T: "obj", ID: "Qq",
		Props: []lkid{{"p", &lnode{T: "leaf"}}, {"q", &lnode{T: "leaf"}}}}}}}
}

// withFailures inserts applications that must fail (and are recovered from) into a program for
// the tree under test: (1) a table that has none of the referenced IDs, at any time - before the
// namespace was ever applied, after it was, on the embedded scope or on the whole tree; (2) right
// after a successful application, the same table again with some of its IDs removed (a partial
// re-binding). Neither may change anything: the reference whose ID is missing keeps its link (or
// stays unlinked), the others are re-linked to what they denote already.
func withFailures(r interface{ Intn(int) int }, steps [][]string, trees []namedTree) [][]string {
	ids := map[string][]string{}
	for _, t := range trees {
		for _, k := range t.Tree.Objs {
			ids[t.Name] = append(ids[t.Name], k.Name)
		}
	}
	var out [][]string
	usable := false
	embedAt := ""
	for _, st := range steps {
		out = append(out, st)
		if st[1] != "" {
			continue
		}
		switch st[0] {
		case "build", "self":
			usable = true
		case "applyAt":
			embedAt = st[2]
		}
		if (st[0] == "apply" || st[0] == "applyAt") && st[len(st)-1] != "" && r.Intn(3) == 0 {
			from := st[len(st)-1]
			var missing []string
			for _, id := range ids[from] {
				if r.Intn(2) == 0 {
					missing = append(missing, id)
				}
			}
			if len(missing) == 0 {
				missing = ids[from][:1]
			}
			if st[0] == "apply" {
				out = append(out, append([]string{"try", "applySub", "", st[2], from}, missing...))
			} else {
				out = append(out, append([]string{"try", "applyAtSub", "", st[2], st[3], from}, missing...))
			}
		}
		if r.Intn(3) == 0 {
			ns := []string{"X", "Y"}[r.Intn(2)]
			switch {
			case usable:
				out = append(out, []string{"try", "apply", "", ns, "E"})
			case embedAt != "" || st[0] == "buildKids":
				// the embedded scope before the outer one exists: its position is known from the next steps
				for _, later := range steps {
					if later[0] == "applyAt" && later[1] == "" {
						out = append(out, []string{"try", "applyAt", "", later[2], ns, "E"})
						break
					}
				}
			}
		}
	}
	return out
}

func groupSched(s *sink, g *hx.Gen) {
	r := g.R
	trees, embedAt, lg := genLinkUniverse(g)
	for k := 0; k < 12; k++ {
		sched := schedules[schedCursor%len(schedules)]
		schedCursor++
		c := &progCase{Op: "LINKP", Trees: trees}
		c.Steps = [][]string{{"build", "YX"}, {"build", "Y"}, {"build", "X"}, {"apply", "X", "Y", "YX"},
			{"build", "X2"}, {"apply", "X2", "Y", "YX"}}
		if r.Intn(4) == 0 {
			// X is re-applied / re-linked on its own as well
			c.Steps = append(c.Steps, []string{"self", "X"}, []string{"apply", "X", "Y", "YX"})
		}
		note := "sched:" + strings.Join(sched, ",")
		nested := nestedScopes(trees[0].Tree)
		switch {
		case k%4 == 2:
			// every scope of the tree under test is a plain &ScopeSchema{} value: nothing has applied
			// itself, the nested scopes are linked only by what the root hands down
			c.Steps = append(c.Steps, []string{"literal", ""})
			c.Steps = append(c.Steps, schedSteps("", "", sched)...)
			if r.Intn(2) == 0 {
				c.Steps = append(c.Steps, []string{"self", ""})
			}
			note = "literal:" + note
			s.stats["sched:literal"]++
		case k%4 == 3 && len(nested) > 0:
			// an object of a NESTED scope is replaced (or added), then the ROOT applies itself
			c.Steps = append(c.Steps, []string{"build", ""})
			cut := r.Intn(len(sched) + 1)
			c.Steps = append(c.Steps, schedSteps("", "", sched[:cut])...)
			ns := nested[r.Intn(len(nested))]
			id := ns.ids[r.Intn(len(ns.ids))]
			if r.Intn(4) == 0 {
				id = "N1"
			}
			saveDeep, saveDangle := lg.maxDeep, lg.dangle
			lg.maxDeep, lg.dangle = 0, 0
			obj := lg.object(id, 2, ns.ids, nil, true, 2)
			lg.maxDeep, lg.dangle = saveDeep, saveDangle
			ob, _ := json.Marshal(obj)
			c.Steps = append(c.Steps, []string{"replace", "", ns.path, id, string(ob)})
			if r.Intn(4) == 0 {
				// the nested scope itself first
				c.Steps = append(c.Steps, []string{"applyAt", "", ns.path, "", ""})
			}
			c.Steps = append(c.Steps, []string{"self", ""})
			c.Steps = append(c.Steps, schedSteps("", "", sched[cut:])...)
			note = "replace:" + note
			s.stats["sched:nested-replacement"]++
		case embedAt == "":
			c.Steps = append(c.Steps, []string{"build", ""})
			c.Steps = append(c.Steps, schedSteps("", "", sched)...)
		default:
			// S is constructed and linked first, then embedded into the newly constructed O
			cut := r.Intn(len(sched) + 1)
			c.Steps = append(c.Steps, []string{"buildKids", ""})
			c.Steps = append(c.Steps, schedSteps("", embedAt, sched[:cut])...)
			c.Steps = append(c.Steps, []string{"self", ""})
			c.Steps = append(c.Steps, schedSteps("", "", sched[cut:])...)
			if r.Intn(3) == 0 {
				// and S keeps being used on its own
				c.Steps = append(c.Steps, schedSteps("", embedAt, sched[:1])...)
			}
			note = "embed:" + note
			s.stats["sched:embedded"]++
		}
		if k%4 == 1 {
			// FAILING applications the caller recovers from, anywhere in the history
			c.Trees = append(append([]namedTree{}, trees...), namedTree{"E", emptyishScope()})
			c.Steps = append([][]string{{"build", "E"}}, withFailures(r, c.Steps, trees)...)
			note = "failing:" + note
			s.stats["sched:with-failing-steps"]++
		}
		c.Via = entryKinds[(schedCursor+k)%len(entryKinds)]
		if c.Via != "" {
			note = "via " + c.Via + ":" + note
			s.stats["sched:via:"+c.Via]++
		}
		c.Note = note
		s.nextID++
		c.ID = s.nextID
		res := runProg(c)
		s.emitProg(c, res)
		if res.R == "ok" && res.Inconsistent != "" {
			cb, _ := json.Marshal(c)
			s.finding(Finding{Prop: "C14", What: "ValidateReferences does not say whether every reference is linked: " + res.Inconsistent, Cases: []int{c.ID}, Detail: []string{string(cb)}})
		}
		s.stats[fmt.Sprintf("sched:len:%d", len(sched))]++
		want, wantPanic := progOracle(c)
		detail := func() []string {
			cb, _ := json.Marshal(c)
			rb, _ := json.Marshal(res)
			return []string{string(cb), string(rb)}
		}
		switch {
		case wantPanic && res.R != "panic":
			s.finding(Finding{Prop: "C14", What: "a reference whose ID is missing from the table it must be looked up in did not panic (" + note + ")", Cases: []int{c.ID}, Detail: detail()})
			continue
		case !wantPanic && res.R == "panic":
			s.finding(Finding{Prop: "C14", What: "an application schedule panicked although every reference has its lexical target (" + note + "): " + res.Msg, Cases: []int{c.ID}, Detail: detail()})
			continue
		case wantPanic:
			s.stats["sched:expected-panic"]++
			continue
		}
		bad := false
		for _, tr := range res.V.Trees {
			name := tr[0].(string)
			got := tr[1].([][2]any)
			w := want[name]
			if len(w) != len(got) {
				s.finding(Finding{Prop: "C14", What: "harness: reference count mismatch in tree " + name, Cases: []int{c.ID}, Detail: detail()})
				bad = true
				break
			}
			all := true
			for i := range w {
				if got[i][0] != w[i].path || !sameTarget(got[i][1], w[i].target) {
					where := "the tree under test"
					if name != "" {
						where = "foreign scope " + name + " (its own references must not depend on who links to it)"
					}
					s.finding(Finding{Prop: "C14", What: fmt.Sprintf("after schedule %s the reference at %s in %s does not denote its lexical target: want %v, got %v", note, w[i].path, where, w[i].target, got[i][1]), Cases: []int{c.ID}, Detail: detail()})
					bad = true
					break
				}
				if w[i].target == nil {
					all = false
				}
				s.stats["sched:refs"]++
			}
			if bad {
				break
			}
			if tr[2].(bool) != all {
				s.finding(Finding{Prop: "C14", What: fmt.Sprintf("ValidateReferences of tree %q succeeds = %v, but every reference linked = %v (%s)", name, tr[2], all, note), Cases: []int{c.ID}, Detail: detail()})
				bad = true
				break
			}
		}
	}
}

// ---------------------------------------------------------------------------------------------
// behaviour with namespaces

// In the as-is descriptions a reference into namespace ns is written {T:"ref", ID:"ns:id"}.
func splitNS(id string) (ns, rest string) {
	if i := strings.IndexByte(id, ':'); i >= 0 {
		return id[:i], id[i+1:]
	}
	return "", id
}

type nsBuilder struct {
	refs []*schema.RefSchema
	// plainNested: scopes below the top one are plain &ScopeSchema{} values that never applied themselves
	plainNested bool
	depth       int
	// literalObjects: objects are written as &ObjectSchema{IDValue, PropertiesValue} values (they
	// arrive without the defaults the constructor extracts, like objects rebuilt from a description)
	literalObjects bool
	// describable: enum values get (empty) display values, so that the tree can be SelfSerialized
	describable bool
}

func (b *nsBuilder) object(t *hx.Ty) *schema.ObjectSchema {
	props := map[string]*schema.PropertySchema{}
	for _, np := range t.Props {
		p := np.P
		var def *string
		if p.Default != nil {
			def = hx.StrP(p.Default.Text)
		}
		ps := schema.NewPropertySchema(b.build(p.Ty), nil, p.Required, p.RequiredIf, p.RequiredIfNot, p.Conflicts, def, nil)
		if p.Disabled {
			ps.Disable("harness")
		}
		props[np.Name] = ps
	}
	if b.literalObjects {
		return &schema.ObjectSchema{IDValue: t.ID, PropertiesValue: props}
	}
	return schema.NewObjectSchema(t.ID, props)
}

func (b *nsBuilder) scopeObjects(t *hx.Ty) []*schema.ObjectSchema {
	var root *schema.ObjectSchema
	var others []*schema.ObjectSchema
	for _, o := range t.Objs {
		obj := b.object(o.Ty)
		if o.ID == t.Root {
			root = obj
		} else {
			others = append(others, obj)
		}
	}
	return append([]*schema.ObjectSchema{root}, others...)
}

func (b *nsBuilder) build(t *hx.Ty) schema.Type {
	switch t.T {
	case "list":
		var min, max *int64
		if t.Max != nil {
			var n int64
			fmt.Sscan(*t.Max, &n)
			max = &n
		}
		return schema.NewListSchema(b.build(t.Item), min, max)
	case "map":
		return schema.NewMapSchema(t.K.Build(), b.build(t.V), nil, nil)
	case "obj":
		return b.object(t)
	case "oneOf":
		members := map[string]schema.Object{}
		for _, m := range t.Members {
			members[m.Key] = b.build(m.Ty).(schema.Object)
		}
		return schema.NewOneOfStringSchema[any](members, t.Disc, t.Inlined)
	case "enumStr":
		if b.describable {
			vals := map[string]*schema.DisplayValue{}
			for _, v := range t.Vals {
				vals[v] = schema.NewDisplayValue(nil, nil, nil)
			}
			return schema.NewStringEnumSchema(vals)
		}
	case "enumInt":
		if b.describable {
			vals := map[int64]*schema.DisplayValue{}
			for _, v := range t.Vals {
				var n int64
				fmt.Sscan(v, &n)
				vals[n] = schema.NewDisplayValue(nil, nil, nil)
			}
			return schema.NewIntEnumSchema(vals, t.Units.Build())
		}
	case "ref":
		ns, id := splitNS(t.ID)
		r := schema.NewNamespacedRefSchema(id, ns, nil)
		b.refs = append(b.refs, r)
		return r
	case "scope":
		b.depth++
		os := b.scopeObjects(t)
		b.depth--
		if b.plainNested && b.depth > 0 {
			sc := &schema.ScopeSchema{ObjectsValue: map[string]*schema.ObjectSchema{}, RootValue: t.Root}
			for _, o := range os {
				sc.ObjectsValue[o.ID()] = o
			}
			return sc
		}
		return schema.NewScopeSchema(os[0], os[1:]...)
	}
	return t.Build()
}

// nsUniverse: descriptions of S, X, Y, YX and who binds which namespace name to which scope.
type nsUniverse struct {
	literalObjects bool      // the objects of every scope are written as literals (no defaults cache)
	via            string    // entry point kind the namespaces are applied through (entryPoint)
	bg             *nsBehGen // generator state for objects of the tree under test
	trees          map[string]*hx.Ty
	bind           map[string]map[string]string // tree -> namespace -> tree
}

// lexInline replaces every reference into another namespace by a pristine copy of the scope it
// denotes (as bound by the tree the reference occurs in), rooted at the referenced object.
func (u *nsUniverse) lexInline(t *hx.Ty, tree string) *hx.Ty {
	if t == nil {
		return nil
	}
	if t.T == "ref" {
		ns, id := splitNS(t.ID)
		if ns == "" {
			return copyTy(t)
		}
		from := u.bind[tree][ns]
		sc := u.lexInline(u.trees[from], from)
		sc.Root = id
		return sc
	}
	c := *t
	c.Item = u.lexInline(t.Item, tree)
	c.K = copyTy(t.K)
	c.V = u.lexInline(t.V, tree)
	if t.Props != nil {
		c.Props = make([]hx.NamedProp, len(t.Props))
		for i, p := range t.Props {
			pc := *p.P
			pc.Ty = u.lexInline(p.P.Ty, tree)
			c.Props[i] = hx.NamedProp{Name: p.Name, P: &pc}
		}
	}
	if t.Members != nil {
		c.Members = make([]hx.Member, len(t.Members))
		for i, m := range t.Members {
			c.Members[i] = hx.Member{Key: m.Key, Ty: u.lexInline(m.Ty, tree)}
		}
	}
	if t.Objs != nil {
		c.Objs = make([]hx.NamedObj, len(t.Objs))
		for i, o := range t.Objs {
			c.Objs[i] = hx.NamedObj{ID: o.ID, Ty: u.lexInline(o.Ty, tree)}
		}
	}
	return &c
}

// nsBehGen generates object graphs like behGen, with references into other namespaces.
type nsBehGen struct {
	behGen
	foreign map[string][]string // namespace -> IDs
}

func (bg *nsBehGen) scope(depth int) *hx.Ty {
	r := bg.g.R
	ids := append([]string{}, behIDs...)
	r.Shuffle(len(ids), func(i, j int) { ids[i], ids[j] = ids[j], ids[i] })
	return bg.scopeWithIDs(ids[:1+r.Intn(3)], depth)
}

func (bg *nsBehGen) scopeWithIDs(ids []string, depth int) *hx.Ty {
	t := &hx.Ty{T: "scope", Root: ids[0]}
	for _, id := range ids {
		t.Objs = append(t.Objs, hx.NamedObj{ID: id, Ty: bg.object(id, depth, ids)})
	}
	return t
}

func (bg *nsBehGen) ref(ids []string) *hx.Ty {
	r := bg.g.R
	if len(bg.foreign) > 0 && r.Intn(2) == 0 {
		var nss []string
		for _, ns := range []string{"X", "Y"} {
			if len(bg.foreign[ns]) > 0 {
				nss = append(nss, ns)
			}
		}
		ns := nss[r.Intn(len(nss))]
		fids := bg.foreign[ns]
		return &hx.Ty{T: "ref", ID: ns + ":" + fids[r.Intn(len(fids))]}
	}
	return &hx.Ty{T: "ref", ID: ids[r.Intn(len(ids))]}
}

func (bg *nsBehGen) object(id string, depth int, ids []string) *hx.Ty {
	r := bg.g.R
	o := &hx.Ty{T: "obj", ID: id}
	names := []string{"a", "b", "c", "d", "e"}
	r.Shuffle(len(names), func(i, j int) { names[i], names[j] = names[j], names[i] })
	k := 2 + r.Intn(3)
	for i, name := range names[:k] {
		var pt *hx.Ty
		if i == 0 {
			pt = bg.scalar()
		} else {
			pt = bg.ty(depth+1, ids)
		}
		p := &hx.Prop{Ty: pt}
		if !hasRef(pt) && r.Intn(3) == 0 {
			p.Required = true
		}
		if i > 0 && !p.Required && hasRef(pt) && r.Intn(6) == 0 {
			p.Disabled = true
		}
		if !p.Required && r.Intn(3) == 0 {
			p.Default = randomDefault(r, pt)
		}
		o.Props = append(o.Props, hx.NamedProp{Name: name, P: p})
	}
	return o
}

func (bg *nsBehGen) ty(depth int, ids []string) *hx.Ty {
	r := bg.g.R
	if depth > 2 {
		if r.Intn(2) == 0 {
			return bg.scalar()
		}
		return bg.ref(ids)
	}
	switch x := r.Intn(100); {
	case x < 20:
		return bg.scalar()
	case x < 62:
		return bg.ref(ids)
	case x < 66:
		return &hx.Ty{T: "list", Item: bg.ty(depth+1, ids), Max: hx.IntP(3)}
	case x < 72:
		// a reference directly below a list, a list of lists or a map of lists
		t := &hx.Ty{T: "list", Item: bg.ref(ids), Max: hx.IntP(3)}
		switch r.Intn(3) {
		case 0:
			t = &hx.Ty{T: "list", Item: t, Max: hx.IntP(3)}
		case 1:
			t = &hx.Ty{T: "map", K: &hx.Ty{T: "str"}, V: t}
		}
		return t
	case x < 78:
		return &hx.Ty{T: "map", K: &hx.Ty{T: "str"}, V: bg.ty(depth+1, ids)}
	case x < 90:
		t := &hx.Ty{T: "oneOf", Disc: "_type"}
		for i := 0; i < 1+r.Intn(2); i++ {
			t.Members = append(t.Members, hx.Member{Key: fmt.Sprintf("k%d", i), Ty: bg.ref(ids)})
		}
		return t
	default:
		o := bg.object(fmt.Sprintf("I%d", r.Intn(100)), depth+1, ids)
		return o
	}
}

// randomDefault: a default for an unconstrained int / string property, different almost every time
// (objects that merely share an ID must not share defaults)
func randomDefault(r interface{ Intn(int) int }, pt *hx.Ty) *hx.Default {
	switch {
	case pt.T == "int" && pt.Units == nil && pt.Min == nil && pt.Max == nil:
		return hx.MkDefault(fmt.Sprint(1 + r.Intn(40)))
	case pt.T == "int" && pt.Units == nil && pt.Min != nil && pt.Max != nil && *pt.Min == "0" && *pt.Max == "50":
		return hx.MkDefault(fmt.Sprint(1 + r.Intn(40)))
	case pt.T == "str" && pt.Pat == nil && pt.Min == nil:
		return hx.MkDefault(fmt.Sprintf("%q", []string{"abc", "d", "ef", "xyz", "q7"}[r.Intn(5)]))
	}
	return nil
}

func scopeIDs(t *hx.Ty) []string {
	var out []string
	for _, o := range t.Objs {
		out = append(out, o.ID)
	}
	return out
}

func genNSUniverse(g *hx.Gen) *nsUniverse {
	bg := &nsBehGen{behGen: behGen{g: g, maxDeep: 1}}
	u := &nsUniverse{trees: map[string]*hx.Ty{}, bind: map[string]map[string]string{
		"": {"X": "X", "Y": "Y"}, "X": {"Y": "YX"}, "X2": {"Y": "YX"},
	}}
	u.trees["YX"] = bg.scope(1)
	u.trees["Y"] = bg.scope(1)
	bg.foreign = map[string][]string{"Y": scopeIDs(u.trees["YX"])}
	u.trees["X"] = bg.scope(1)
	// X2: what some schedules re-bind namespace "X" to: the same IDs, objects of their own shape
	u.trees["X2"] = bg.scopeWithIDs(scopeIDs(u.trees["X"]), 1)
	bg.foreign = map[string][]string{"X": scopeIDs(u.trees["X"]), "Y": scopeIDs(u.trees["Y"])}
	u.trees[""] = bg.scope(1)
	u.bg = bg
	return u
}

// usesNS reports which namespaces the tree refers to.
func usesNS(t *hx.Ty) map[string]bool {
	out := map[string]bool{}
	t.WalkTy(func(x *hx.Ty) {
		if x.T == "ref" {
			if ns, _ := splitNS(x.ID); ns != "" {
				out[ns] = true
			}
		}
	})
	return out
}

// nsWorld is one freshly built universe.
type nsWorld struct {
	s, x, y, yx, x2 *schema.ScopeSchema
	o               *schema.ScopeSchema // outer scope around s, when embedded
}

func (u *nsUniverse) buildWorld(sched []string) *nsWorld {
	return u.buildWorldEmbedded(sched, 0, len(sched))
}

// outer describes the newly constructed scope around S: R0{emb: S | list(S) | oneOf{k0: S}, z: int}
// and an object B colliding with the IDs used below. inner = nil keeps S as its description.
func (u *nsUniverse) outer(embed int, inner *hx.Ty) *hx.Ty {
	s := inner
	if s == nil {
		s = u.trees[""]
	}
	var holder *hx.Ty
	switch embed {
	case 1:
		holder = s
	case 2:
		holder = &hx.Ty{T: "list", Item: s, Max: hx.IntP(3)}
	default:
		holder = &hx.Ty{T: "oneOf", Disc: "_type", Members: []hx.Member{{Key: "k0", Ty: s}}}
	}
	return &hx.Ty{T: "scope", Root: "R0", Objs: []hx.NamedObj{
		{ID: "R0", Ty: &hx.Ty{T: "obj", ID: "R0", Props: []hx.NamedProp{
			{Name: "emb", P: &hx.Prop{Ty: holder}},
			{Name: "z", P: &hx.Prop{Ty: &hx.Ty{T: "int"}}},
			{Name: "own", P: &hx.Prop{Ty: &hx.Ty{T: "ref", ID: "B"}}},
		}}},
		{ID: "B", Ty: &hx.Ty{T: "obj", ID: "B", Props: []hx.NamedProp{
			{Name: "ob", P: &hx.Prop{Ty: &hx.Ty{T: "bool"}, Required: true}},
			{Name: "oz", P: &hx.Prop{Ty: &hx.Ty{T: "int"}}},
		}}},
		{ID: "A", Ty: &hx.Ty{T: "obj", ID: "A", Props: []hx.NamedProp{
			{Name: "oa", P: &hx.Prop{Ty: &hx.Ty{T: "str"}, Required: true}},
			{Name: "ob", P: &hx.Prop{Ty: &hx.Ty{T: "ref", ID: "B"}}},
		}}},
	}}
}

func (u *nsUniverse) buildOuter(embed int, s *schema.ScopeSchema) *schema.ScopeSchema {
	prop := func(t schema.Type, req bool) *schema.PropertySchema {
		return schema.NewPropertySchema(t, nil, req, nil, nil, nil, nil, nil)
	}
	var holder schema.Type
	switch embed {
	case 1:
		holder = s
	case 2:
		three := int64(3)
		holder = schema.NewListSchema(s, nil, &three)
	default:
		holder = schema.NewOneOfStringSchema[any](map[string]schema.Object{"k0": s}, "_type", false)
	}
	return schema.NewScopeSchema(
		schema.NewObjectSchema("R0", map[string]*schema.PropertySchema{
			"emb": prop(holder, false),
			"z":   prop(schema.NewIntSchema(nil, nil, nil), false),
			"own": prop(schema.NewRefSchema("B", nil), false),
		}),
		schema.NewObjectSchema("B", map[string]*schema.PropertySchema{
			"ob": prop(schema.NewBoolSchema(), true),
			"oz": prop(schema.NewIntSchema(nil, nil, nil), false),
		}),
		schema.NewObjectSchema("A", map[string]*schema.PropertySchema{
			"oa": prop(schema.NewStringSchema(nil, nil, nil), true),
			"ob": prop(schema.NewRefSchema("B", nil), false),
		}),
	)
}

// emitAgainst records one case whose schema (for the model) is `model`, and whose implementation
// result comes from running the operation on the as-is schema `impl`.
func (s *sink) emitAgainst(op string, model *hx.Ty, impl schema.Type, v *hx.Val, goVal any, useGo bool, note string) (hx.Result, int, any) {
	return s.emitAgainstCmp(op, model, impl, v, goVal, useGo, "class", note)
}

func (s *sink) emitAgainstCmp(op string, model *hx.Ty, impl schema.Type, v *hx.Val, goVal any, useGo bool, cmp, note string) (hx.Result, int, any) {
	s.nextID++
	id := s.nextID
	c := hx.Case{ID: id, Op: op, Schema: model, V: v, Ext: hx.MkExt(model, v), Fuel: 400, Cmp: cmp, Note: note}
	b, err := json.Marshal(c)
	if err != nil {
		panic(err)
	}
	s.cases.Write(b)
	s.cases.WriteByte('\n')
	var raw any
	res := hx.Guard(func() hx.Result {
		arg := goVal
		if !useGo {
			arg = v.ToGo()
		}
		r, out := hx.RunOpRaw(op, impl, arg)
		raw = out
		return r
	})
	rb, _ := json.Marshal(res)
	s.results.Write(rb)
	s.results.WriteByte('\n')
	s.stats["op:"+op]++
	s.stats["res:"+op+":"+res.R]++
	return res, id, raw
}

var completeSchedules = func() [][]string {
	var out [][]string
	for _, sc := range schedules {
		hasX, hasY := false, false
		for _, sy := range sc {
			hasX = hasX || sy == "X" || sy == "X2"
			hasY = hasY || sy == "Y"
		}
		if hasX && hasY {
			out = append(out, sc)
		}
	}
	return out
}()
var nsCursor int

// complete schedules that bind namespace "X" to both of its candidate scopes
var rebindSchedules = func() [][]string {
	var out [][]string
	for _, sc := range completeSchedules {
		a, b := false, false
		for _, sy := range sc {
			a = a || sy == "X"
			b = b || sy == "X2"
		}
		if a && b {
			out = append(out, sc)
		}
	}
	return out
}()

func groupNSBehave(s *sink, g *hx.Gen) {
	r := g.R
	u := genNSUniverse(g)
	inlX := u.lexInline(u.trees["X"], "X")
	for k := 0; k < 3; k++ {
		sched := completeSchedules[nsCursor%len(completeSchedules)]
		if k == 1 {
			// every universe also sees a schedule that re-binds namespace "X"
			sched = rebindSchedules[nsCursor%len(rebindSchedules)]
		}
		nsCursor++
		// the LAST binding of namespace "X" is what every reference into it denotes
		u.bind[""]["X"] = "X"
		rebound := false
		for _, sy := range sched {
			if sy == "X" || sy == "X2" {
				if u.bind[""]["X"] != sy {
					rebound = true
				}
				u.bind[""]["X"] = sy
			}
		}
		inlS := u.lexInline(u.trees[""], "")
		// inputs made for the OTHER binding tell a stale link from a current one
		other := "X"
		if u.bind[""]["X"] == "X" {
			other = "X2"
		}
		last := u.bind[""]["X"]
		u.bind[""]["X"] = other
		inlOther := u.lexInline(u.trees[""], "")
		u.bind[""]["X"] = last
		if rebound {
			s.stats["nsbehave:rebound"]++
		}
		embed := 0
		cut := 0
		if r.Intn(3) == 0 {
			embed = 1 + r.Intn(3)
			cut = r.Intn(len(sched) + 1)
		}
		u.literalObjects = k == 2
		u.via = entryKinds[(nsCursor+k)%len(entryKinds)]
		note := fmt.Sprintf("ns:%s:embed%d", strings.Join(sched, ","), embed)
		if u.via != "" {
			note += ":via " + u.via
			s.stats["nsbehave:via:"+u.via]++
		}
		if u.literalObjects {
			note += ":object-literals"
		}
		var w *nsWorld
		built := hx.Guard(func() hx.Result {
			if embed == 0 {
				w = u.buildWorld(sched)
			} else {
				w = u.buildWorldEmbedded(sched, embed, cut)
			}
			return hx.Result{R: "ok"}
		})
		if built.R != "ok" {
			s.finding(Finding{Prop: "C14", What: "an application schedule panicked although every reference has its lexical target (" + note + "): " + built.Msg, Schema: inlS})
			continue
		}
		s.stats["nsbehave:worlds"]++
		if embed != 0 && r.Intn(2) == 0 {
			// an object of the NESTED scope S is replaced (or added) after O was constructed; then the
			// ROOT applies itself (and the namespaces, for the new object's own references)
			sDesc := copyTy(u.trees[""])
			ids := scopeIDs(sDesc)
			id := ids[r.Intn(len(ids))]
			if r.Intn(4) == 0 {
				id = "N"
				ids = append(ids, id)
			}
			objTy := u.bg.object(id, 2, scopeIDs(sDesc))
			replaced := false
			for i, o := range sDesc.Objs {
				if o.ID == id {
					sDesc.Objs[i].Ty = objTy
					replaced = true
				}
			}
			if !replaced {
				sDesc.Objs = append(sDesc.Objs, hx.NamedObj{ID: id, Ty: objTy})
			}
			res := hx.Guard(func() hx.Result {
				w.s.ObjectsValue[id] = (&nsBuilder{}).object(objTy)
				w.o.ApplySelf()
				xNow := w.x
				if u.bind[""]["X"] == "X2" {
					xNow = w.x2
				}
				w.o.ApplyNamespace(xNow.Objects(), "X")
				w.o.ApplyNamespace(w.y.Objects(), "Y")
				return hx.Result{R: "ok"}
			})
			if res.R != "ok" {
				s.finding(Finding{Prop: "C14", What: "replacing an object of a nested scope and applying the root again panicked (" + note + "): " + res.Msg})
				continue
			}
			inlS = u.lexInline(sDesc, "")
			rebound = false // the inputs for the other binding were made for the old object
			note += ":nested-object-replaced"
			s.stats["nsbehave:nested-replacement"]++
		}
		var impl schema.Type = w.s
		model := inlS
		if embed != 0 {
			impl = w.o
			model = u.outer(embed, inlS)
		}
		if err := impl.ValidateReferences(); err != nil {
			// the schedule (embedding applies the rest to O) left something unlinked: nothing to run
			s.stats["nsbehave:not-fully-linked"]++
			continue
		}
		if k != 0 {
			// applications that fail and are recovered from must leave everything as it was: a table
			// without any of the IDs, and the current table with some IDs removed
			xNow := w.x
			if u.bind[""]["X"] == "X2" {
				xNow = w.x2
			}
			tryApply := func(tbl map[string]*schema.ObjectSchema, ns string) {
				defer func() { _ = recover() }()
				impl.ApplyNamespace(tbl, ns)
			}
			sub := func(full map[string]*schema.ObjectSchema) map[string]*schema.ObjectSchema {
				out := map[string]*schema.ObjectSchema{}
				for id, o := range full {
					out[id] = o
				}
				for id := range full {
					if len(out) == len(full) || r.Intn(2) == 0 {
						delete(out, id)
					}
				}
				return out
			}
			for i := 0; i < 1+r.Intn(3); i++ {
				switch r.Intn(4) {
				case 0:
					tryApply(map[string]*schema.ObjectSchema{}, "X")
				case 1:
					tryApply(map[string]*schema.ObjectSchema{}, "Y")
				case 2:
					tryApply(sub(xNow.Objects()), "X")
				default:
					tryApply(sub(w.y.Objects()), "Y")
				}
			}
			note += ":failed-applications"
			s.stats["nsbehave:with-failed-applications"]++
		}
		compare := func(impl schema.Type, model *hx.Ty, altModel *hx.Ty, what string) {
			var vals []*hx.Val
			for i := 0; i < 4; i++ {
				vals = append(vals, g.Value(model, hx.Env{}, 0))
			}
			if altModel != nil {
				for i := 0; i < 2; i++ {
					vals = append(vals, g.Value(altModel, hx.Env{}, 0))
				}
				if v := deepValue(g, altModel, nil, 5); v != nil {
					vals = append(vals, v)
				}
			}
			if v := deepValue(g, model, nil, 6); v != nil {
				vals = append(vals, v)
			}
			vals = append(vals, g.RandomVal(0))
			for _, v := range vals {
				if !canBuild(v) {
					continue
				}
				ra, ida, out := s.emitAgainst("U", model, impl, v, nil, false, note+":"+what)
				rb := hx.Guard(func() hx.Result { rr, _ := hx.RunOpRaw("U", model.Build(), v.ToGo()); return rr })
				if !sameResult(ra, rb) {
					s.finding(Finding{Prop: "C14", What: "Unserialize of " + what + " after schedule " + note + " differs from the tree with references replaced by what they denote lexically", Cases: []int{ida}, Schema: model, Input: v, Detail: []string{ra.JSON(), rb.JSON()}})
					continue
				}
				s.stats["nsbehave:"+what+":"+ra.R]++
				if ra.R != "ok" {
					continue
				}
				nat := hx.Enc(out)
				for _, op := range []string{"V", "S"} {
					xa, i1, _ := s.emitAgainst(op, model, impl, nat, out, true, note+":"+what+":"+op)
					xb := hx.Guard(func() hx.Result { rr, _ := hx.RunOpRaw(op, model.Build(), out); return rr })
					if !sameResult(xa, xb) {
						s.finding(Finding{Prop: "C14", What: op + " of " + what + " after schedule " + note + " differs from the lexically inlined tree", Cases: []int{i1}, Schema: model, Input: nat, Detail: []string{xa.JSON(), xb.JSON()}})
					}
				}
				// exactly one fault planted in an accepted value: same verdict (C14) and the rejection
				// must name the same element - references add no path segment (C17)
				faults := func(op string, base *hx.Val, k int) {
					if nodesOf(base) > 120 || typedMapDepth(base) > 8 {
						return
					}
					cs := hx.Corruptions(model, base, hx.Env{})
					if len(cs) > k {
						r.Shuffle(len(cs), func(i, j int) { cs[i], cs[j] = cs[j], cs[i] })
						cs = cs[:k]
					}
					for _, c := range cs {
						if !canBuild(c.V) {
							continue
						}
						fa, idf, _ := s.emitAgainstCmp(op, model, impl, c.V, nil, false, "path", note+":"+what+":"+op+"-fault:"+c.What)
						fb := hx.Guard(func() hx.Result { rr, _ := hx.RunOpRaw(op, model.Build(), c.V.ToGo()); return rr })
						if !sameResult(fa, fb) {
							s.finding(Finding{Prop: "C14", What: op + " (faulted input) of " + what + " after schedule " + note + " differs from the lexically inlined tree", Cases: []int{idf}, Schema: model, Input: c.V, Detail: []string{fa.JSON(), fb.JSON()}})
							continue
						}
						s.stats["nsbehave:fault:"+op+":"+fa.R]++
						if fa.R == "err" && !sameErrPath(fa, fb) {
							s.finding(Finding{Prop: "C17", What: op + " of " + what + ": the rejection of a single fault (" + c.What + ") below a reference carries another path than the same tree with the references inlined (references add no path segment)", Cases: []int{idf}, Schema: model, Input: c.V,
								Detail: []string{"planted at " + pathText(c.Path), "with references: " + fa.JSON(), "inlined: " + fb.JSON()}})
						}
					}
				}
				faults("U", v, 3)
				faults("V", nat, 2)
			}
		}
		// values that SET disabled properties (made with the twin schema in which nothing is disabled)
		compareDisabled := func(impl schema.Type, model *hx.Ty, what string) {
			if !hasDisabled(model) {
				return
			}
			twin := enableAll(model)
			for _, b := range []int{2, 5, 8} {
				vE := deepValue(g, twin, nil, b)
				if vE == nil || !canBuild(vE) {
					continue
				}
				run := func(op string, val *hx.Val, goVal any, useGo bool) {
					xa, i1, _ := s.emitAgainst(op, model, impl, val, goVal, useGo, note+":"+what+":"+op+"-disabled-set")
					xb := hx.Guard(func() hx.Result {
						arg := goVal
						if !useGo {
							arg = val.ToGo()
						}
						rr, _ := hx.RunOpRaw(op, model.Build(), arg)
						return rr
					})
					if !sameResult(xa, xb) {
						s.finding(Finding{Prop: "C14", What: op + " of " + what + " on a value that sets a disabled property differs from the lexically inlined tree (" + note + ")", Cases: []int{i1}, Schema: model, Input: val, Detail: []string{xa.JSON(), xb.JSON()}})
					}
					s.stats["nsbehave:disabled-set:"+op+":"+xa.R]++
				}
				run("C", vE, nil, false)
				var outE any
				rE := hx.Guard(func() hx.Result { rr, o := hx.RunOpRaw("U", twin.Build(), vE.ToGo()); outE = o; return rr })
				if rE.R != "ok" {
					continue
				}
				run("V", hx.Enc(outE), outE, true)
				run("S", hx.Enc(outE), outE, true)
			}
		}
		var alt *hx.Ty
		if rebound {
			alt = inlOther
			if embed != 0 {
				alt = u.outer(embed, inlOther)
			}
		}
		compare(impl, model, alt, "the tree under test")
		compareDisabled(impl, model, "the tree under test")
		compareDisabled(w.x, inlX, "foreign scope X")
		// the foreign scope, used on its own, must still be what it was
		compare(w.x, inlX, nil, "foreign scope X")
	}
}

func nodesOf(v *hx.Val) int {
	n := 0
	v.Walk(func(*hx.Val) { n++ })
	return n
}

func (u *nsUniverse) buildWorldEmbedded(sched []string, embed, cut int) *nsWorld {
	b := &nsBuilder{literalObjects: u.literalObjects}
	w := &nsWorld{}
	w.yx = b.build(u.trees["YX"]).(*schema.ScopeSchema)
	w.y = b.build(u.trees["Y"]).(*schema.ScopeSchema)
	w.x = b.build(u.trees["X"]).(*schema.ScopeSchema)
	w.x.ApplyNamespace(w.yx.Objects(), "Y")
	w.x2 = b.build(u.trees["X2"]).(*schema.ScopeSchema)
	w.x2.ApplyNamespace(w.yx.Objects(), "Y")
	w.s = b.build(u.trees[""]).(*schema.ScopeSchema)
	apply := func(sc *schema.ScopeSchema, sy string) {
		t := entryPoint(u.via, sc)
		switch sy {
		case "self":
			t.ApplyNamespace(nil, schema.SelfNamespace)
		case "X":
			t.ApplyNamespace(w.x.Objects(), "X")
		case "X2":
			t.ApplyNamespace(w.x2.Objects(), "X")
		case "Y":
			t.ApplyNamespace(w.y.Objects(), "Y")
		}
	}
	for _, sy := range sched[:cut] {
		apply(w.s, sy)
	}
	if embed == 0 {
		return w
	}
	w.o = u.buildOuter(embed, w.s)
	for _, sy := range sched[cut:] {
		apply(w.o, sy)
	}
	return w
}

// ---------------------------------------------------------------------------------------------
// replay (-replay <cases.jsonl>): LINK / LINKP lines are re-executed as recorded; U/V/S lines are
// re-run on a fresh build of the schema in the line (for the namespace-behaviour cases that is the
// lexically inlined tree; the as-is universe is not part of the line).

func pairJSON(b []byte, name *string, rest any) error {
	var raw []json.RawMessage
	if err := json.Unmarshal(b, &raw); err != nil {
		return err
	}
	if len(raw) != 2 {
		return fmt.Errorf("expected a pair")
	}
	if err := json.Unmarshal(raw[0], name); err != nil {
		return err
	}
	return json.Unmarshal(raw[1], rest)
}

func (k *lkid) UnmarshalJSON(b []byte) error      { return pairJSON(b, &k.Name, &k.N) }
func (e *extTree) UnmarshalJSON(b []byte) error   { return pairJSON(b, &e.NS, &e.Tree) }
func (t *namedTree) UnmarshalJSON(b []byte) error { return pairJSON(b, &t.Name, &t.Tree) }

func replayRefs(s *sink, path string) {
	data, err := os.ReadFile(path)
	if err != nil {
		panic(err)
	}
	for _, line := range strings.Split(string(data), "\n") {
		line = strings.TrimSpace(line)
		if line == "" {
			continue
		}
		var head struct {
			Op string `json:"op"`
		}
		if err := json.Unmarshal([]byte(line), &head); err != nil {
			fmt.Fprintln(os.Stderr, "replay: bad case line:", err)
			os.Exit(2)
		}
		switch head.Op {
		case "LINK":
			var c linkCase
			if err := json.Unmarshal([]byte(line), &c); err != nil {
				panic(err)
			}
			s.emitLink(&c, runLink(&c, c.Order))
		case "LINKP":
			var c progCase
			if err := json.Unmarshal([]byte(line), &c); err != nil {
				panic(err)
			}
			s.emitProg(&c, runProg(&c))
		default:
			var c hx.Case
			if err := json.Unmarshal([]byte(line), &c); err != nil {
				panic(err)
			}
			s.emit(c.Op, c.Schema, c.V, nil, false, c.Cmp, c.Note)
		}
	}
}

// sameErrPath: two rejections agree on being a ConstraintError and on its path (the "{oneof[k]}"
// marker that only Validate inserts is not a position).
func sameErrPath(a, b hx.Result) bool {
	ca := a.C != nil && *a.C
	cb := b.C != nil && *b.C
	return ca == cb && samePath(stripMarkers(a.Path), stripMarkers(b.Path))
}

// ---------------------------------------------------------------------------------------------
// several scopes built from ONE slice of helper objects (stream "slices"; part of stream "link")
//
// The library itself hands one list of helper objects to several scopes (NewScopeSchema(root,
// shared[:k]...)). A constructor must not write into the caller's slice: the scope being built would
// be right, the NEXT scope built from a longer prefix would silently hold another object. Here
// helpers h0..h(m-1) (reference-free, so that sharing them between scopes is harmless) live in one
// slice with spare capacity; scopes are built with growing prefixes, each with a root of its own
// that refers to the helpers of its prefix and to itself; some roots carry the ID of a helper BEYOND
// their prefix. After every constructor call: the caller's slice is unchanged; the scope holds
// exactly the object values it was given; every reference denotes its lexical target;
// ValidateReferences is nil; and the scope behaves like the scope built from its description alone.

func groupSharedSlice(s *sink, g *hx.Gen) {
	r := g.R
	bg := &behGen{g: g, maxDeep: 0}
	m := 3 + r.Intn(3)
	pool := []string{"A", "B", "C", "D", "E", "F", "Item"}
	r.Shuffle(len(pool), func(i, j int) { pool[i], pool[j] = pool[j], pool[i] })
	helperTy := make([]*hx.Ty, m)
	b := &nsBuilder{}
	shared := make([]*schema.ObjectSchema, m, m+3)
	for i := 0; i < m; i++ {
		o := &hx.Ty{T: "obj", ID: pool[i]}
		for j, name := range []string{"a", "b", "c"}[:2+r.Intn(2)] {
			p := &hx.Prop{Ty: bg.scalar()}
			if j == 0 && r.Intn(2) == 0 {
				p.Required = true
			} else if r.Intn(3) == 0 {
				p.Default = randomDefault(r, p.Ty)
			}
			o.Props = append(o.Props, hx.NamedProp{Name: name, P: p})
		}
		helperTy[i] = o
		shared[i] = b.object(o)
	}
	k := 0
	var orig []*schema.ObjectSchema // the helpers as the caller wrote them
	for step := 0; k < m; step++ {
		k += 1 + r.Intn(2)
		if k > m {
			k = m
		}
		// the root: an ID of its own, or (often) the ID of the helper right behind its prefix
		id := fmt.Sprintf("R%d", step)
		if k < m && r.Intn(2) == 0 {
			id = helperTy[k].ID
		}
		ids := []string{id}
		for _, h := range helperTy[:k] {
			ids = append(ids, h.ID)
		}
		root := &hx.Ty{T: "obj", ID: id, Props: []hx.NamedProp{{Name: "z", P: &hx.Prop{Ty: bg.scalar()}}}}
		for j, name := range []string{"p", "q", "r", "t"}[:2+r.Intn(3)] {
			ref := &hx.Ty{T: "ref", ID: ids[r.Intn(len(ids))]}
			if j == 0 {
				ref.ID = helperTy[k-1].ID // the last helper of the prefix is always used
			}
			var pt *hx.Ty = ref
			switch r.Intn(4) {
			case 0:
				pt = &hx.Ty{T: "list", Item: ref, Max: hx.IntP(3)}
			case 1:
				pt = &hx.Ty{T: "map", K: &hx.Ty{T: "str"}, V: ref}
			}
			root.Props = append(root.Props, hx.NamedProp{Name: name, P: &hx.Prop{Ty: pt}})
		}
		desc := &hx.Ty{T: "scope", Root: id, Objs: []hx.NamedObj{{ID: id, Ty: root}}}
		for _, h := range helperTy[:k] {
			desc.Objs = append(desc.Objs, hx.NamedObj{ID: h.ID, Ty: h})
		}
		note := fmt.Sprintf("slices:prefix %d of %d:root %s", k, m, id)
		before := append([]*schema.ObjectSchema{}, shared...)
		if step == 0 {
			orig = before
		}
		rb := &nsBuilder{}
		var rootObj *schema.ObjectSchema
		var sc *schema.ScopeSchema
		res := hx.Guard(func() hx.Result {
			rootObj = rb.object(root)
			sc = schema.NewScopeSchema(rootObj, shared[:k]...)
			return hx.Result{R: "ok"}
		})
		s.stats["slices:scopes"]++
		// (the slice is NOT repaired: what a changed element does to the next scope is reported too)
		for i := range before {
			if shared[i] != before[i] {
				s.finding(Finding{Prop: "C14", What: fmt.Sprintf("NewScopeSchema(root, shared[:%d]...) changed the caller's slice: element %d (%q) is now the object %q", k, i, before[i].ID(), shared[i].ID()), Schema: desc, Detail: []string{note}})
			}
		}
		if res.R != "ok" {
			s.finding(Finding{Prop: "C14", What: "building a scope from a prefix of a shared helper slice panicked although every reference has its target (" + note + "): " + res.Msg, Schema: desc})
			continue
		}
		want := map[string]*schema.ObjectSchema{id: rootObj}
		for i, h := range helperTy[:k] {
			want[h.ID] = orig[i]
		}
		ok := len(sc.Objects()) == len(want)
		for oid, o := range want {
			if sc.Objects()[oid] != o {
				ok = false
			}
		}
		if !ok {
			s.finding(Finding{Prop: "C14", What: "a scope built from a prefix of a shared helper slice does not hold exactly the objects it was given (" + note + ")", Schema: desc})
			continue
		}
		for _, ref := range rb.refs {
			if !ref.ObjectReady() || ref.GetObject() != schema.Object(want[ref.ID()]) {
				s.finding(Finding{Prop: "C14", What: fmt.Sprintf("reference to %q in a scope built from a prefix of a shared helper slice does not denote the object with that ID the scope was given (%s)", ref.ID(), note), Schema: desc})
				ok = false
				break
			}
		}
		if err := sc.ValidateReferences(); err != nil {
			s.finding(Finding{Prop: "C14", What: "ValidateReferences fails on a scope built from a prefix of a shared helper slice (" + note + "): " + err.Error(), Schema: desc})
			ok = false
		}
		if !ok {
			continue
		}
		// behaviour: like the scope built from the description alone (and like the model)
		vals := []*hx.Val{g.Value(desc, hx.Env{}, 0), g.Value(desc, hx.Env{}, 0), hx.StrAny()}
		if v := deepValue(g, desc, nil, 4); v != nil {
			vals = append(vals, v)
		}
		for _, v := range vals {
			if !canBuild(v) {
				continue
			}
			ra, ida, out := s.emitAgainst("U", desc, sc, v, nil, false, note)
			rbb := hx.Guard(func() hx.Result { rr, _ := hx.RunOpRaw("U", desc.Build(), v.ToGo()); return rr })
			if !sameResult(ra, rbb) {
				s.finding(Finding{Prop: "C14", What: "Unserialize of a scope built from a prefix of a shared helper slice differs from the scope built from its description (" + note + ")", Cases: []int{ida}, Schema: desc, Input: v, Detail: []string{ra.JSON(), rbb.JSON()}})
				continue
			}
			s.stats["slices:U:"+ra.R]++
			if ra.R == "ok" {
				for _, op := range []string{"V", "S"} {
					xa, i1, _ := s.emitAgainst(op, desc, sc, hx.Enc(out), out, true, note+":"+op)
					xb := hx.Guard(func() hx.Result { rr, _ := hx.RunOpRaw(op, desc.Build(), out); return rr })
					if !sameResult(xa, xb) {
						s.finding(Finding{Prop: "C14", What: op + " of a scope built from a prefix of a shared helper slice differs from the scope built from its description (" + note + ")", Cases: []int{i1}, Schema: desc, Input: hx.Enc(out), Detail: []string{xa.JSON(), xb.JSON()}})
					}
				}
			}
		}
	}
}
