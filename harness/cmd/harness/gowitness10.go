package main

// Round-10 witnesses of the `typed` stream (oracle-only; they need Go struct types and histories).

import (
	"fmt"
	"reflect"
	"runtime"

	"go.flow.arcalot.io/pluginsdk/schema"

	"harness/hx"
)

type gwListener struct {
	Name   string  `json:"name"`
	Port   *int64  `json:"port"`
	Socket *string `json:"socket"`
}

type gwUpstream struct {
	Port   int64  `json:"port"`
	Weight int64  `json:"weight"`
	Socket string `json:"socket"`
	Name   string `json:"name"`
}

// gwRefusedThenValid: Validate / Serialize of a struct value are functions of (schema, value): a value of ANOTHER
// struct-mapped schema that was rightly refused before (whichever of its properties was looked at first) leaves
// nothing behind that the presence rules of this schema could see.
func gwRefusedThenValid() hx.Result {
	opt := func(t schema.Type, conflicts ...string) *schema.PropertySchema {
		return schema.NewPropertySchema(t, nil, false, nil, nil, conflicts, nil, nil)
	}
	listener := schema.NewStructMappedObjectSchema[gwListener]("listener", map[string]*schema.PropertySchema{
		"name":   schema.NewPropertySchema(schema.NewStringSchema(nil, nil, nil), nil, true, nil, nil, nil, nil, nil),
		"port":   opt(schema.NewIntSchema(sp(int64(1)), nil, nil), "socket"),
		"socket": opt(schema.NewStringSchema(nil, nil, nil), "port"),
	})
	upstream := schema.NewStructMappedObjectSchema[gwUpstream]("upstream", map[string]*schema.PropertySchema{
		"port":   opt(schema.NewIntSchema(sp(int64(1)), sp(int64(65535)), nil)),
		"weight": opt(schema.NewIntSchema(sp(int64(1)), sp(int64(10)), nil)),
		"socket": opt(schema.NewStringSchema(nil, nil, nil)),
		"name":   opt(schema.NewStringSchema(nil, nil, nil)),
	})
	list := schema.NewListSchema(upstream, nil, nil)
	sock := "/run/api.sock"
	good := gwListener{Name: "api", Socket: &sock}
	for round := 0; round < 120; round++ {
		// refused values (one property out of range, the others fine), through Validate and through a list
		bad := gwUpstream{Port: 8080, Weight: 99, Socket: "s", Name: "n"}
		if round%3 == 1 {
			bad = gwUpstream{Port: 0, Weight: 3, Socket: "s", Name: "n"}
		}
		if err := upstream.Validate(bad); err == nil {
			return hx.Result{R: "err", Msg: "an out-of-range value was accepted"}
		}
		if _, err := list.Serialize([]gwUpstream{{Port: 80, Weight: 1}, bad}); err == nil {
			return hx.Result{R: "err", Msg: "an out-of-range value was accepted in a list"}
		}
		v, err := listener.Unserialize(map[string]any{"name": "api", "socket": sock})
		if err != nil {
			return hx.Result{R: "err", Msg: "valid input rejected: " + err.Error()}
		}
		if err := listener.Validate(v); err != nil {
			return hx.Result{R: "err", Msg: fmt.Sprintf("round %d: Validate rejects what Unserialize returned after ANOTHER schema refused a value: %v", round, err)}
		}
		if err := listener.Validate(good); err != nil {
			return hx.Result{R: "err", Msg: fmt.Sprintf("round %d: Validate of a valid value depends on the values refused before: %v", round, err)}
		}
		if _, err := schema.NewListSchema(listener, nil, nil).Serialize([]gwListener{good}); err != nil {
			return hx.Result{R: "err", Msg: fmt.Sprintf("round %d: Serialize of a valid value depends on the values refused before: %v", round, err)}
		}
	}
	return hx.Result{R: "ok"}
}

type gwRes struct {
	CPU    int64  `json:"cpu"`
	Memory string `json:"memory"`
}

type gwContainer struct {
	Name      string `json:"name"`
	Resources gwRes  `json:"resources"`
}

// gwZeroLeafPath: the single offending element is a leaf that holds the ZERO value of its Go type, inside a
// required sub-object whose other fields are zero as well: the rejection still names the leaf.
func gwZeroLeafPath() hx.Result {
	res := schema.NewStructMappedObjectSchema[gwRes]("res", map[string]*schema.PropertySchema{
		"cpu":    schema.NewPropertySchema(schema.NewIntSchema(sp(int64(1)), nil, nil), nil, true, nil, nil, nil, nil, nil),
		"memory": schema.NewPropertySchema(schema.NewStringSchema(nil, nil, nil), nil, false, nil, nil, nil, nil, nil),
	})
	cont := schema.NewStructMappedObjectSchema[gwContainer]("container", map[string]*schema.PropertySchema{
		"name":      schema.NewPropertySchema(schema.NewStringSchema(nil, nil, nil), nil, true, nil, nil, nil, nil, nil),
		"resources": schema.NewPropertySchema(schema.NewRefSchema("res", nil), nil, true, nil, nil, nil, nil, nil),
	})
	sc := schema.NewScopeSchema(cont, res)
	for _, c := range []struct {
		v    gwContainer
		path []string
	}{
		{gwContainer{Name: "main", Resources: gwRes{CPU: 0}}, []string{"resources", "cpu"}},
		{gwContainer{Name: "main", Resources: gwRes{CPU: 0, Memory: "1G"}}, []string{"resources", "cpu"}},
		{gwContainer{Name: "main", Resources: gwRes{CPU: -2}}, []string{"resources", "cpu"}},
	} {
		err := sc.Validate(c.v)
		if err == nil {
			return hx.Result{R: "err", Msg: fmt.Sprintf("%+v is accepted", c.v)}
		}
		r := hx.ErrResult(err)
		if r.C == nil || !*r.C || !reflect.DeepEqual(stripMarkers(r.Path), c.path) {
			return hx.Result{R: "err", Msg: fmt.Sprintf("Validate(%+v): expected path %v, got %v (%v)", c.v, c.path, r.Path, err)}
		}
	}
	return hx.Result{R: "ok"}
}

type gwTCP struct {
	Host string `json:"host"`
}
type gwUnix struct {
	Path string `json:"path"`
}
type gwPipe struct {
	Name string `json:"name"`
}

// gwFreshOneOfs: many short-lived one-of schemas over struct-mapped members, built, used once and dropped,
// with garbage collections in between: every schema answers from its own declaration, whatever schema lived at
// its address before.
func gwFreshOneOfs() hx.Result {
	prop := func() map[string]*schema.PropertySchema {
		return map[string]*schema.PropertySchema{}
	}
	_ = prop
	str := func(name string) map[string]*schema.PropertySchema {
		return map[string]*schema.PropertySchema{name: schema.NewPropertySchema(schema.NewStringSchema(nil, nil, nil), nil, true, nil, nil, nil, nil, nil)}
	}
	members := []struct {
		mk  func() schema.Object
		val any
	}{
		{func() schema.Object { return schema.NewStructMappedObjectSchema[gwTCP]("tcp", str("host")) }, gwTCP{Host: "h"}},
		{func() schema.Object { return schema.NewStructMappedObjectSchema[gwUnix]("unix", str("path")) }, gwUnix{Path: "p"}},
		{func() schema.Object { return schema.NewStructMappedObjectSchema[gwPipe]("pipe", str("name")) }, gwPipe{Name: "n"}},
	}
	keys := []string{"primary", "secondary", "fallback", "local"}
	for trial := 0; trial < 1500; trial++ {
		// a member set and key assignment that differs from trial to trial
		types := map[string]schema.Object{}
		var used []int
		for i := range members {
			if (trial>>uint(i))&1 == 1 || i == trial%3 {
				types[keys[(trial+i)%len(keys)]] = members[i].mk()
				used = append(used, i)
			}
		}
		oo := schema.NewOneOfStringSchema[any](types, "kind", false)
		for _, i := range used {
			if err := oo.Validate(members[i].val); err != nil {
				return hx.Result{R: "err", Msg: fmt.Sprintf("trial %d: a value of a declared member type is refused: %v", trial, err)}
			}
			w, err := oo.Serialize(members[i].val)
			if err != nil {
				return hx.Result{R: "err", Msg: fmt.Sprintf("trial %d: Serialize of a declared member's value fails: %v", trial, err)}
			}
			if m, ok := w.(map[string]any); !ok || m["kind"] != keys[(trial+i)%len(keys)] {
				return hx.Result{R: "err", Msg: fmt.Sprintf("trial %d: Serialize writes the discriminator %v, the type is declared under %q", trial, w, keys[(trial+i)%len(keys)])}
			}
		}
		for i := range members {
			declared := false
			for _, u := range used {
				declared = declared || u == i
			}
			if !declared {
				if err := oo.Validate(members[i].val); err == nil {
					return hx.Result{R: "err", Msg: fmt.Sprintf("trial %d: a value whose type is NOT a member of this one-of is accepted", trial)}
				}
			}
		}
		if trial%15 == 14 {
			runtime.GC()
		}
	}
	return hx.Result{R: "ok"}
}

func groupRound10Witnesses(s *sink) {
	if s.stats["gowitness:round10"] > 0 {
		return
	}
	s.stats["gowitness:round10"]++
	for _, w := range []struct {
		name  string
		props []string
		f     func() hx.Result
	}{
		{"struct values validated after another struct-mapped schema refused a value", []string{"C01", "C12"}, gwRefusedThenValid},
		{"a zero-valued offending leaf inside a required struct-mapped sub-object", []string{"C17"}, gwZeroLeafPath},
		{"short-lived one-of schemas over struct-mapped members with garbage collections in between", []string{"C12", "C13"}, gwFreshOneOfs},
	} {
		w := w
		r := hx.Guard(w.f)
		if r.R == "panic" {
			s.finding(Finding{Prop: "C04", What: w.name + " panicked: " + r.Msg})
			for _, p := range w.props {
				s.finding(Finding{Prop: p, What: w.name + " panicked: " + r.Msg})
			}
		} else if r.R != "ok" {
			for _, p := range w.props {
				s.finding(Finding{Prop: p, What: w.name + ": " + r.Msg})
			}
		}
	}
}
