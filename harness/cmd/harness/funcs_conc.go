package main

import (
	"errors"
	"fmt"
	"sync"

	"go.flow.arcalot.io/pluginsdk/schema"
)

// fnConcurrentOracle: direct evaluation (no model case) of "calls report faithfully" when ONE
// accepted function value is called from several goroutines at once, as an expression engine does:
// every call must invoke the handler with exactly that caller's arguments and return exactly what
// the handler returned for them. Handlers are pure, so the expected result of every call is known
// from its arguments alone. Also: nil slices and nil maps returned by a handler come back as values
// of the declared native type.
func fnConcurrentOracle(m *fnRun) {
	i64 := schema.NewIntSchema(nil, nil, nil)
	str := schema.NewStringSchema(nil, nil, nil)
	type fn struct {
		name string
		mk   func() (schema.CallableFunction, error)
		args func(caller, round int) []any
		want func(args []any) any
	}
	fns := []fn{
		{"double(int) int", func() (schema.CallableFunction, error) {
			return schema.NewCallableFunction("double", []schema.Type{i64}, i64, false, nil, func(a int64) int64 { return 2 * a })
		}, func(c, r int) []any { return []any{int64(c*1000 + r)} }, func(a []any) any { return 2 * a[0].(int64) }},
		{"join(int, string, int) (string, error)", func() (schema.CallableFunction, error) {
			return schema.NewCallableFunction("join", []schema.Type{i64, str, i64}, str, true, nil,
				func(a int64, b string, c int64) (string, error) { return fmt.Sprintf("%d/%s/%d", a, b, c), nil })
		}, func(c, r int) []any { return []any{int64(c), fmt.Sprint(c), int64(c)} },
			func(a []any) any { return fmt.Sprintf("%d/%s/%d", a[0], a[1], a[2]) }},
		{"dynamic pair(any, any) any", func() (schema.CallableFunction, error) {
			return schema.NewDynamicCallableFunction("pair", []schema.Type{schema.NewAnySchema(), schema.NewAnySchema()}, nil,
				func(a any, b any) (any, error) { return fmt.Sprintf("%v+%v", a, b), nil },
				func(in []schema.Type) (schema.Type, error) { return str, nil })
		}, func(c, r int) []any { return []any{int64(c), fmt.Sprint(c)} },
			func(a []any) any { return fmt.Sprintf("%v+%v", a[0], a[1]) }},
	}
	const G, rounds = 8, 400
	for _, f := range fns {
		cf, err := f.mk()
		if err != nil {
			m.s.finding(Finding{Prop: "C18", What: "constructor rejected a matching handler: " + f.name + ": " + err.Error()})
			continue
		}
		var mu sync.Mutex
		var bad []string
		var wg sync.WaitGroup
		for c := 0; c < G; c++ {
			wg.Add(1)
			go func(c int) {
				defer wg.Done()
				defer func() {
					if r := recover(); r != nil {
						mu.Lock()
						bad = append(bad, fmt.Sprintf("caller %d: Call panicked: %v", c, r))
						mu.Unlock()
					}
				}()
				for r := 0; r < rounds; r++ {
					args := f.args(c, r)
					got, err := cf.Call(args)
					if err != nil || got != f.want(args) {
						mu.Lock()
						if len(bad) < 3 {
							bad = append(bad, fmt.Sprintf("caller %d sent %v in round %d; the handler returns %v for these, Call returned %v (error %v)", c, args, r, f.want(args), got, err))
						}
						mu.Unlock()
						return
					}
				}
			}(c)
		}
		wg.Wait()
		m.s.stats["oracle:concurrent-calls"] += G * rounds
		if len(bad) > 0 {
			m.s.finding(Finding{Prop: "C18", What: "one function value called from several goroutines: a call does not return what the handler returns for that caller's arguments (" + f.name + ")", Detail: bad})
		}
	}

	// nil containers returned by handlers
	type nc struct {
		name string
		mk   func() (schema.CallableFunction, error)
		want any
	}
	lst := schema.NewListSchema(str, nil, nil)
	mp := schema.NewMapSchema(str, i64, nil, nil)
	ncs := []nc{
		{"func() []string returning nil", func() (schema.CallableFunction, error) {
			return schema.NewCallableFunction("l", []schema.Type{}, lst, false, nil, func() []string { return nil })
		}, []string(nil)},
		{"func() ([]string, error) returning nil", func() (schema.CallableFunction, error) {
			return schema.NewCallableFunction("l", []schema.Type{}, lst, true, nil, func() ([]string, error) { return nil, nil })
		}, []string(nil)},
		{"func() map[string]int64 returning nil", func() (schema.CallableFunction, error) {
			return schema.NewCallableFunction("m", []schema.Type{}, mp, false, nil, func() map[string]int64 { return nil })
		}, map[string]int64(nil)},
		{"func(string) (map[string]int64, error) returning nil", func() (schema.CallableFunction, error) {
			return schema.NewCallableFunction("m", []schema.Type{str}, mp, true, nil, func(string) (map[string]int64, error) { return nil, nil })
		}, map[string]int64(nil)},
	}
	for _, c := range ncs {
		cf, err := c.mk()
		if err != nil {
			m.s.finding(Finding{Prop: "C18", What: "constructor rejected a matching handler: " + c.name + ": " + err.Error()})
			continue
		}
		args := []any{}
		if len(cf.Parameters()) == 1 {
			args = []any{"a"}
		}
		got, err := cf.Call(args)
		m.s.stats["oracle:nil-containers"]++
		if err != nil || fmt.Sprintf("%T", got) != fmt.Sprintf("%T", c.want) {
			m.s.finding(Finding{Prop: "C18", What: "Call does not return what the handler returned: " + c.name,
				Detail: []string{fmt.Sprintf("handler returned %#v (%T), Call returned %#v (%T), error %v", c.want, c.want, got, got, err)}})
		}
	}

	// typed string enums (native type: the named Go type) as items of lists and values of maps: the
	// handler is accepted iff its parameter / result type is the container OF THE NAMED TYPE, and an
	// accepted function takes such a value. The expected native types are written down here, not asked
	// of the schema.
	type fnColor string
	colours := func() schema.Type {
		return schema.NewTypedStringEnumSchema(map[fnColor]*schema.DisplayValue{"red": nil, "blue": nil})
	}
	type enumCase struct {
		name     string
		declared func() schema.Type
		right    any // handler whose types agree
		wrong    any // handler over the underlying string type
		arg      any
	}
	ecs := []enumCase{
		{"list[enum[Color]]", func() schema.Type { return schema.NewListSchema(colours(), nil, nil) },
			func(c []fnColor) int64 { return int64(len(c)) }, func(c []string) int64 { return int64(len(c)) }, []fnColor{"red", "blue"}},
		{"list[list[enum[Color]]]", func() schema.Type { return schema.NewListSchema(schema.NewListSchema(colours(), nil, nil), nil, nil) },
			func(c [][]fnColor) int64 { return int64(len(c)) }, func(c [][]string) int64 { return int64(len(c)) }, [][]fnColor{{"red"}}},
		{"map[string]list[enum[Color]]", func() schema.Type {
			return schema.NewMapSchema(str, schema.NewListSchema(colours(), nil, nil), nil, nil)
		}, func(c map[string][]fnColor) int64 { return int64(len(c)) }, func(c map[string][]string) int64 { return int64(len(c)) }, map[string][]fnColor{"a": {"red"}}},
		{"enum[Color]", colours, func(c fnColor) int64 { return 1 }, func(c string) int64 { return 1 }, fnColor("red")},
	}
	for _, ec := range ecs {
		for _, dynamic := range []bool{false, true} {
			mk := func(h any) (schema.CallableFunction, error) {
				if dynamic {
					return schema.NewDynamicCallableFunction("f", []schema.Type{ec.declared()}, nil, func() any {
						// dynamic handlers return (any, error)
						switch hh := h.(type) {
						case func([]fnColor) int64:
							return func(c []fnColor) (any, error) { return hh(c), nil }
						case func([]string) int64:
							return func(c []string) (any, error) { return hh(c), nil }
						case func([][]fnColor) int64:
							return func(c [][]fnColor) (any, error) { return hh(c), nil }
						case func([][]string) int64:
							return func(c [][]string) (any, error) { return hh(c), nil }
						case func(map[string][]fnColor) int64:
							return func(c map[string][]fnColor) (any, error) { return hh(c), nil }
						case func(map[string][]string) int64:
							return func(c map[string][]string) (any, error) { return hh(c), nil }
						case func(fnColor) int64:
							return func(c fnColor) (any, error) { return hh(c), nil }
						default:
							return func(c string) (any, error) { return int64(1), nil }
						}
					}(), func(in []schema.Type) (schema.Type, error) { return i64, nil })
				}
				return schema.NewCallableFunction("f", []schema.Type{ec.declared()}, i64, false, nil, h)
			}
			what := fmt.Sprintf("declared %s, dynamic=%v", ec.name, dynamic)
			m.s.stats["oracle:typed-enum-containers"]++
			var f schema.CallableFunction
			var err error
			pmsg := ""
			func() {
				defer func() {
					if r := recover(); r != nil {
						pmsg = fmt.Sprint(r)
					}
				}()
				f, err = mk(ec.right)
			}()
			if pmsg != "" {
				m.s.finding(Finding{Prop: "C18", What: "constructor panicked: " + what + ": " + pmsg})
				continue
			}
			if err != nil {
				m.s.finding(Finding{Prop: "C18", What: "a handler whose parameter type is the declared native type was rejected", Detail: []string{what, err.Error()}})
			} else {
				var got any
				func() {
					defer func() {
						if r := recover(); r != nil {
							err = fmt.Errorf("panic: %v", r)
						}
					}()
					got, err = f.Call([]any{ec.arg})
				}()
				if err != nil || got == nil {
					m.s.finding(Finding{Prop: "C18", What: "an accepted function refuses an argument of its declared native type", Detail: []string{what, fmt.Sprintf("%v %v", got, err)}})
				}
			}
			func() {
				defer func() { _ = recover() }()
				if _, err := mk(ec.wrong); err == nil {
					m.s.finding(Finding{Prop: "C18", What: "a handler over the underlying string type was accepted for a declared typed enum", Detail: []string{what}})
				}
			}()
		}
	}

	// dynamic functions whose TYPE HANDLER derives the output type from concrete input types and
	// declines anything else (an error, or a nil type): Call invokes the handler and returns what it
	// returned - how the output type would be computed is no business of Call.
	type dynCase struct {
		name string
		th   func(in []schema.Type) (schema.Type, error)
	}
	firstOf := func(arg any) (any, error) {
		l, _ := arg.([]any)
		if len(l) == 0 {
			return nil, fmt.Errorf("the list is empty")
		}
		return l[0], nil
	}
	for _, dc := range []dynCase{
		{"type handler returns an error unless the input is a list", func(in []schema.Type) (schema.Type, error) {
			if len(in) == 1 && in[0].TypeID() == schema.TypeIDList {
				return in[0].(interface{ Items() schema.Type }).Items(), nil
			}
			return nil, fmt.Errorf("first() needs a list")
		}},
		{"type handler returns a nil type unless the input is a list", func(in []schema.Type) (schema.Type, error) {
			if len(in) == 1 && in[0].TypeID() == schema.TypeIDList {
				return str, nil
			}
			return nil, nil
		}},
		{"type handler accepts anything", func(in []schema.Type) (schema.Type, error) { return str, nil }},
	} {
		f, err := schema.NewDynamicCallableFunction("first", []schema.Type{schema.NewAnySchema()}, nil, firstOf, dc.th)
		m.s.stats["oracle:dynamic-type-handlers"]++
		if err != nil {
			m.s.finding(Finding{Prop: "C18", What: "constructor rejected a matching dynamic handler (" + dc.name + "): " + err.Error()})
			continue
		}
		got, err := f.Call([]any{[]any{"a", "b"}})
		if err != nil || got != "a" {
			m.s.finding(Finding{Prop: "C18", What: "dynamic function: Call does not return what the handler returned (" + dc.name + ")",
				Detail: []string{fmt.Sprintf("handler returned (\"a\", nil), Call returned (%v, %v)", got, err)}})
		}
		_, err = f.Call([]any{[]any{}})
		var fce *schema.FunctionCallError
		if err == nil || !errors.As(err, &fce) || !fce.IsFunctionReportedError {
			m.s.finding(Finding{Prop: "C18", What: "dynamic function: the handler's own error is not reported as function-reported (" + dc.name + ")",
				Detail: []string{fmt.Sprint(err)}})
		}
	}
}
