package main

// Sub-command `race`: the dynamic search of property C13 ("schemas are safe for concurrent use").
//
// Builds cmd/racestress with `go build -race` against /repo's working tree and runs many short-lived
// processes of it (so that the first use of the package-level unit definitions and meta-schemas is
// raced again and again, and every trial works on a fresh or freshly rebuilt schema instance).
// Findings (prop C13): a data race reported by the race detector (with both stacks), a call that
// returns something else concurrently than alone, a crash or hang that only happens under concurrency.
//
// Output (line protocol): cases.jsonl has one RACE_TRIAL line per trial, go.jsonl {"r":"ok"} per trial
// (the model side has nothing to compute for a trial; the Lean handler answers "ok" for trials within
// the property's range), findings.jsonl, stats.json.
//
//	-n     number of processes        -seed  base seed        -tier thorough: more trials per process
//	-replay <cases.jsonl>: re-run the processes those trials belong to

import (
	"bufio"
	"bytes"
	"context"
	"encoding/json"
	"fmt"
	"os"
	"os/exec"
	"path/filepath"
	"regexp"
	"runtime"
	"sort"
	"strings"
	"sync"
	"time"

	"harness/hx"
)

func init() {
	register("race", func(a Args) { raceCheck(a) })
}

type raceTrial struct {
	Trial      int             `json:"trial"`
	Kind       string          `json:"kind"`
	Rebuilt    bool            `json:"rebuilt"`
	Goroutines int             `json:"goroutines"`
	Calls      int             `json:"calls"`
	Ops        []string        `json:"ops"`
	Schema     *hx.Ty          `json:"schema,omitempty"`
	Mismatch   []raceMismatch  `json:"mismatch,omitempty"`
	Panics     int             `json:"panics"`
	Note       string          `json:"note,omitempty"`
	Raw        json.RawMessage `json:"-"`
}

type raceMismatch struct {
	Call int    `json:"call"`
	Op   string `json:"op"`
	Conc string `json:"conc"`
	Seq  string `json:"seq"`
}

type raceCase struct {
	ID         int            `json:"id"`
	Op         string         `json:"op"`
	Seed       int64          `json:"seed"`
	Trials     int            `json:"trials"`
	Trial      int            `json:"trial"`
	Kind       string         `json:"kind"`
	Rebuilt    bool           `json:"rebuilt"`
	Goroutines int            `json:"goroutines"`
	Calls      int            `json:"calls"`
	Ops        map[string]int `json:"ops"`
	Schema     *hx.Ty         `json:"schema,omitempty"`
	Note       string         `json:"note,omitempty"`
}

type raceReport struct {
	trial  int
	stacks [2]string
	sig    string
	inSDK  bool
}

type procResult struct {
	seed    int64
	trials  []raceTrial
	reports []raceReport
	exitErr string
	timeout bool
	stderr  string
	wall    time.Duration
}

func harnessDir() string {
	if d := os.Getenv("HARNESS_DIR"); d != "" {
		return d
	}
	if wd, err := os.Getwd(); err == nil {
		for d := wd; d != "/" && d != "."; d = filepath.Dir(d) {
			if b, err := os.ReadFile(filepath.Join(d, "go.mod")); err == nil && bytes.HasPrefix(bytes.TrimSpace(b), []byte("module harness")) {
				return d
			}
		}
	}
	return "/verif/harness"
}

func goEnv() []string {
	env := []string{}
	for _, e := range os.Environ() {
		if strings.HasPrefix(e, "CGO_ENABLED=") || strings.HasPrefix(e, "GORACE=") {
			continue
		}
		env = append(env, e)
	}
	return append(env, "GOFLAGS=-mod=mod", "GOPROXY=off", "GOSUMDB=off", "GOTOOLCHAIN=local", "CGO_ENABLED=1")
}

var (
	reFrameFunc = regexp.MustCompile(`^  (\S.*)\(\)$`)
	reFrameFile = regexp.MustCompile(`^      (\S+):(\d+)`)
	reMarker    = regexp.MustCompile(`^RACESTRESS trial (\d+) (begin|seq|end)$`)
)

// parseStderr splits the child's stderr into race reports, attributed to the trial running when printed.
func parseStderr(text string) []raceReport {
	var out []raceReport
	cur := -1
	lines := strings.Split(text, "\n")
	for i := 0; i < len(lines); i++ {
		if m := reMarker.FindStringSubmatch(lines[i]); m != nil {
			fmt.Sscan(m[1], &cur)
			continue
		}
		if !strings.HasPrefix(lines[i], "WARNING: DATA RACE") {
			continue
		}
		var block []string
		for i++; i < len(lines) && !strings.HasPrefix(lines[i], "=================="); i++ {
			block = append(block, lines[i])
		}
		out = append(out, mkReport(cur, block))
	}
	return out
}

// mkReport extracts the two access stacks (function and file:line per frame; no addresses) of one report
func mkReport(trial int, block []string) raceReport {
	r := raceReport{trial: trial}
	var stacks []string
	var cur []string
	var tops []string
	flush := func() {
		if cur != nil {
			stacks = append(stacks, strings.Join(cur, "\n"))
		}
		cur = nil
	}
	inAccess := false
	top := ""
	for i := 0; i < len(block); i++ {
		l := block[i]
		switch {
		case strings.HasPrefix(l, "Write at ") || strings.HasPrefix(l, "Read at ") ||
			strings.HasPrefix(l, "Previous write at ") || strings.HasPrefix(l, "Previous read at ") ||
			strings.HasPrefix(l, "Atomic ") || strings.HasPrefix(l, "Previous atomic "):
			flush()
			if top != "" {
				tops = append(tops, top)
			}
			top = ""
			inAccess = true
			kind := strings.SplitN(l, " at ", 2)[0]
			cur = []string{kind + ":"}
		case strings.HasPrefix(l, "Goroutine "):
			flush()
			if top != "" {
				tops = append(tops, top)
			}
			top = ""
			inAccess = false
		case inAccess:
			if m := reFrameFunc.FindStringSubmatch(l); m != nil {
				fn := m[1]
				loc := ""
				if i+1 < len(block) {
					if f := reFrameFile.FindStringSubmatch(block[i+1]); f != nil {
						loc = filepath.Base(f[1]) + ":" + f[2]
						i++
					}
				}
				cur = append(cur, "  "+fn+" "+loc)
				if strings.Contains(fn, "go.flow.arcalot.io/pluginsdk/") {
					r.inSDK = true
					if top == "" {
						top = strings.TrimPrefix(fn, "go.flow.arcalot.io/pluginsdk/") + " " + loc
					}
				}
			}
		}
	}
	flush()
	if top != "" {
		tops = append(tops, top)
	}
	for i := 0; i < 2 && i < len(stacks); i++ {
		r.stacks[i] = stacks[i]
	}
	sort.Strings(tops)
	r.sig = strings.Join(tops, " <-> ")
	if r.sig == "" {
		r.sig = "(no SDK frame)"
	}
	return r
}

func runStressProcess(bin string, seed int64, trials int, sequential bool, timeout time.Duration) procResult {
	res := procResult{seed: seed}
	ctx, cancel := context.WithTimeout(context.Background(), timeout)
	defer cancel()
	args := []string{"-seed", fmt.Sprint(seed), "-trials", fmt.Sprint(trials)}
	if sequential {
		args = append(args, "-sequential")
	}
	cmd := exec.CommandContext(ctx, bin, args...)
	cmd.Env = append(goEnv(), "GORACE=exitcode=0 halt_on_error=0")
	var stdout, stderr bytes.Buffer
	cmd.Stdout, cmd.Stderr = &stdout, &stderr
	t0 := time.Now()
	err := cmd.Run()
	res.wall = time.Since(t0)
	if ctx.Err() == context.DeadlineExceeded {
		res.timeout = true
	}
	if err != nil {
		res.exitErr = err.Error()
	}
	res.stderr = stderr.String()
	sc := bufio.NewScanner(&stdout)
	sc.Buffer(make([]byte, 1<<20), 1<<28)
	for sc.Scan() {
		var t raceTrial
		if json.Unmarshal(sc.Bytes(), &t) == nil {
			res.trials = append(res.trials, t)
		}
	}
	res.reports = parseStderr(res.stderr)
	return res
}

func tail(s string, n int) string {
	if len(s) > n {
		return s[len(s)-n:]
	}
	return s
}

func raceCheck(a Args) {
	t0 := time.Now()
	if err := os.MkdirAll(a.Out, 0o755); err != nil {
		panic(err)
	}
	s := newSink(a.Out)
	defer s.close()

	// ---- build the instrumented workload from the working tree -------------------------------
	bin := filepath.Join(a.Out, "racestress-bin")
	build := exec.Command("go", "build", "-race", "-o", bin, "./cmd/racestress")
	build.Dir = harnessDir()
	build.Env = goEnv()
	if out, err := build.CombinedOutput(); err != nil {
		fmt.Fprintf(os.Stderr, "race: go build -race failed: %v\n%s\n", err, out)
		os.Exit(1)
	}
	buildTime := time.Since(t0)

	// ---- which processes ---------------------------------------------------------------------
	trials := 12
	timeout := 120 * time.Second
	if a.Tier == "thorough" {
		trials = 27
		timeout = 600 * time.Second
	}
	type job struct {
		seed   int64
		trials int
	}
	var jobs []job
	if a.Replay != "" {
		seen := map[int64]bool{}
		f, err := os.Open(a.Replay)
		if err != nil {
			fmt.Fprintln(os.Stderr, "race: replay:", err)
			os.Exit(2)
		}
		sc := bufio.NewScanner(f)
		sc.Buffer(make([]byte, 1<<20), 1<<28)
		for sc.Scan() {
			var c raceCase
			if json.Unmarshal(sc.Bytes(), &c) == nil && c.Op == "RACE_TRIAL" && !seen[c.Seed] {
				seen[c.Seed] = true
				jobs = append(jobs, job{c.Seed, c.Trials})
			}
		}
		f.Close()
	} else {
		for p := 0; p < a.N; p++ {
			jobs = append(jobs, job{a.Seed*100000 + int64(p), trials})
		}
	}

	// ---- run them, a few at a time ------------------------------------------------------------
	workers := runtime.NumCPU() / 2
	if workers < 2 {
		workers = 2
	}
	results := make([]procResult, len(jobs))
	var wg sync.WaitGroup
	next := make(chan int)
	for w := 0; w < workers; w++ {
		wg.Add(1)
		go func() {
			defer wg.Done()
			for i := range next {
				results[i] = runStressProcess(bin, jobs[i].seed, jobs[i].trials, false, timeout)
			}
		}()
	}
	for i := range jobs {
		next <- i
	}
	close(next)
	wg.Wait()

	// ---- cases, findings ----------------------------------------------------------------------
	type raceAgg struct {
		rep   raceReport
		cases []int
		kinds map[string]bool
		n     int
		ty    *hx.Ty
	}
	races := map[string]*raceAgg{}
	var raceOrder []string
	kinds := map[string]int{}
	gor := map[string]int{}
	opsTotal := map[string]int{}
	nTrials, nCalls, nMismatch, nCrash, nCrashSeq, nHang, nHarnessRaces, nPanics, nRebuilt := 0, 0, 0, 0, 0, 0, 0, 0, 0
	for pi, r := range results {
		idOf := map[int]int{}
		for _, t := range r.trials {
			s.nextID++
			id := s.nextID
			idOf[t.Trial] = id
			ops := map[string]int{}
			for _, o := range t.Ops {
				ops[o]++
				opsTotal[o]++
			}
			c := raceCase{ID: id, Op: "RACE_TRIAL", Seed: r.seed, Trials: jobs[pi].trials, Trial: t.Trial, Kind: t.Kind, Rebuilt: t.Rebuilt,
				Goroutines: t.Goroutines, Calls: t.Calls, Ops: ops, Schema: t.Schema, Note: t.Note}
			b, _ := json.Marshal(c)
			s.cases.Write(b)
			s.cases.WriteByte('\n')
			s.results.WriteString("{\"r\":\"ok\"}\n")
			nTrials++
			nCalls += t.Calls
			nPanics += t.Panics
			if t.Rebuilt {
				nRebuilt++
			}
			kinds[t.Kind]++
			gor[fmt.Sprintf("%02d", t.Goroutines)]++
			for _, m := range t.Mismatch {
				nMismatch++
				if nMismatch <= 20 {
					s.finding(Finding{Prop: "C13", What: fmt.Sprintf("a call returns a different result concurrently than alone (workload %s, op %s, %d goroutines)", t.Kind, m.Op, t.Goroutines),
						Cases: []int{id}, Schema: t.Schema, Detail: []string{"concurrent: " + m.Conc, "alone: " + m.Seq,
							fmt.Sprintf("replay: racestress -seed %d -trials %d (trial %d, call %d)", r.seed, jobs[pi].trials, t.Trial, m.Call)}})
				}
			}
		}
		for _, rep := range r.reports {
			if !rep.inSDK {
				nHarnessRaces++
				fmt.Fprintf(os.Stderr, "race: data race without an SDK frame (harness?) in process seed %d:\n%s\n%s\n", r.seed, rep.stacks[0], rep.stacks[1])
				continue
			}
			ag := races[rep.sig]
			if ag == nil {
				ag = &raceAgg{rep: rep, kinds: map[string]bool{}}
				races[rep.sig] = ag
				raceOrder = append(raceOrder, rep.sig)
			}
			ag.n++
			if id, ok := idOf[rep.trial]; ok {
				if len(ag.cases) < 20 {
					ag.cases = append(ag.cases, id)
				}
				for _, t := range r.trials {
					if t.Trial == rep.trial {
						ag.kinds[t.Kind] = true
						if ag.ty == nil {
							ag.ty = t.Schema
						}
					}
				}
			} else if len(ag.cases) == 0 {
				// the process died before it printed the trial line: point at its last trial
				for _, id := range idOf {
					ag.cases = append(ag.cases, id)
					break
				}
			}
		}
		// a process that did not finish
		if r.timeout || r.exitErr != "" || len(r.trials) != jobs[pi].trials {
			what := ""
			switch {
			case strings.Contains(r.stderr, "fatal error: concurrent map"):
				what = "fatal error: concurrent map access kills the process"
			case r.timeout:
				// does it also hang when the same calls run one after the other?
				again := runStressProcess(bin, r.seed, jobs[pi].trials, true, timeout)
				if again.timeout {
					nCrashSeq++
					fmt.Fprintf(os.Stderr, "race: process seed %d hangs also without concurrency (not C13)\n", r.seed)
				} else {
					nHang++
					what = "the process hangs under concurrency but not when the same calls run one after the other"
				}
			default:
				again := runStressProcess(bin, r.seed, jobs[pi].trials, true, timeout)
				if again.exitErr != "" || len(again.trials) != jobs[pi].trials {
					nCrashSeq++
					fmt.Fprintf(os.Stderr, "race: process seed %d crashes also without concurrency (not C13): %s\n%s\n", r.seed, again.exitErr, tail(again.stderr, 1500))
				} else {
					what = "the process crashes under concurrency but not when the same calls run one after the other: " + r.exitErr
				}
			}
			if what != "" {
				nCrash++
				var ids []int
				for _, id := range idOf {
					ids = append(ids, id)
				}
				sort.Ints(ids)
				if len(ids) > 3 {
					ids = ids[len(ids)-3:]
				}
				s.finding(Finding{Prop: "C13", What: what, Cases: ids,
					Detail: []string{fmt.Sprintf("replay: racestress -seed %d -trials %d", r.seed, jobs[pi].trials), tail(r.stderr, 3000)}})
			}
		}
	}
	for _, sig := range raceOrder {
		ag := races[sig]
		var ks []string
		for k := range ag.kinds {
			ks = append(ks, k)
		}
		sort.Strings(ks)
		sort.Ints(ag.cases)
		s.finding(Finding{Prop: "C13", What: "data race: " + sig, Cases: ag.cases, Schema: ag.ty,
			Detail: []string{ag.rep.stacks[0], ag.rep.stacks[1], fmt.Sprintf("reported %d times; workloads: %s", ag.n, strings.Join(ks, ","))}})
	}

	st := map[string]any{
		"processes": len(jobs), "trials_per_process": trials, "trials": nTrials, "calls": nCalls,
		"workload_kinds": kinds, "goroutines": gor, "ops": opsTotal, "rebuilt_instances": nRebuilt,
		"distinct_races": len(races), "mismatches": nMismatch, "crashes_or_hangs_concurrency_only": nCrash,
		"crashes_also_sequential": nCrashSeq, "hangs": nHang, "harness_only_races": nHarnessRaces,
		"sequential_panics_equal_concurrently": nPanics,
		"build_s":                              buildTime.Seconds(), "wall_s": time.Since(t0).Seconds(), "workers": workers,
		"harness": s.stats,
	}
	b, _ := json.MarshalIndent(st, "", " ")
	_ = os.WriteFile(filepath.Join(a.Out, "stats.json"), b, 0o644)
	_ = os.Remove(bin)
	fmt.Fprintf(os.Stderr, "race: %d processes, %d trials, %d calls; %d distinct races, %d mismatches, %d crashes/hangs (build %.0fs, total %.0fs)\n",
		len(jobs), nTrials, nCalls, len(races), nMismatch, nCrash, buildTime.Seconds(), time.Since(t0).Seconds())
}
