package main

// Sub-command `atpsession` (property C05): real ATP client + real ATP server (both built from
// /repo's working tree) connected by (i) io.Pipe, (ii) a buffered pipe that fragments and coalesces
// the byte stream at random; generated plugin schemas (hx.Gen step input / output scopes) and
// inputs; 1..N serial, overlapping and mixed Execute calls; ATP v3, and the legacy v1 framing
// against a tiny scripted legacy server (as the SDK's own tests do).
//
// Every Execute result is compared with calling the same step in-process (`CallStep`) on the same
// input after CBOR normalisation (cbor.Marshal / Unmarshal) of input and output. Findings
// (prop C05): any difference in error-ness, output ID or output data, an Execute that does not
// return (loss), a server that does not return or reports a different number of errors than steps
// failed. Error texts are never compared.
//
// The handlers are deterministic functions of their (unserialized) input, so the in-process call
// and the call behind ATP agree unless the transport path changes something.

import (
	"context"
	"encoding/json"
	"fmt"
	"hash/fnv"
	"io"
	"math/rand"
	"os"
	"sort"
	"sync"
	"time"

	"github.com/fxamacker/cbor/v2"
	"go.flow.arcalot.io/pluginsdk/atp"
	"go.flow.arcalot.io/pluginsdk/schema"
	"harness/hx"
)

func init() {
	register("atpsession", atpxCmd)
}

// ---------------------------------------------------------------------------------------------
// transports

// atpxChunkPipe is a buffered pipe: writes never block, reads return chunks of arbitrary size
// (a fragment of a message, or several messages at once).
type atpxChunkPipe struct {
	mu     sync.Mutex
	cond   *sync.Cond
	buf    []byte
	closed bool
	r      *rand.Rand
	chunks int
}

func newAtpxChunkPipe(seed int64) *atpxChunkPipe {
	p := &atpxChunkPipe{r: rand.New(rand.NewSource(seed))}
	p.cond = sync.NewCond(&p.mu)
	return p
}

func (p *atpxChunkPipe) Write(b []byte) (int, error) {
	p.mu.Lock()
	defer p.mu.Unlock()
	if p.closed {
		return 0, io.ErrClosedPipe
	}
	p.buf = append(p.buf, b...)
	p.cond.Broadcast()
	return len(b), nil
}

func (p *atpxChunkPipe) Read(b []byte) (int, error) {
	p.mu.Lock()
	defer p.mu.Unlock()
	for len(p.buf) == 0 && !p.closed {
		p.cond.Wait()
	}
	if len(p.buf) == 0 {
		return 0, io.EOF
	}
	if p.r.Intn(3) == 0 {
		// let the writer get ahead, so that several messages coalesce
		p.mu.Unlock()
		time.Sleep(time.Duration(50+p.r.Intn(300)) * time.Microsecond)
		p.mu.Lock()
	}
	max := len(p.buf)
	if len(b) < max {
		max = len(b)
	}
	n := max
	switch p.r.Intn(4) {
	case 0:
		n = 1
	case 1:
		n = 1 + p.r.Intn(max)
	case 2:
		if max > 7 {
			n = 1 + p.r.Intn(7)
		}
	}
	copy(b, p.buf[:n])
	p.buf = p.buf[n:]
	p.chunks++
	return n, nil
}

func (p *atpxChunkPipe) Close() error {
	p.mu.Lock()
	defer p.mu.Unlock()
	p.closed = true
	p.cond.Broadcast()
	return nil
}

type atpxChannel struct {
	io.Reader
	io.Writer
	closer func()
}

func (c atpxChannel) Close() error {
	if c.closer != nil {
		c.closer()
	}
	return nil
}

// ---------------------------------------------------------------------------------------------
// generated plugins

type atpxStep struct {
	ID      string
	Input   *hx.Ty // scope
	Payload *hx.Ty // scope, the generated part of the success output
}

type atpxPlugin struct {
	Steps []atpxStep
}

func atpxHash(s string) uint64 {
	h := fnv.New64a()
	h.Write([]byte(s))
	return h.Sum64()
}

// atpxSanitize removes what keeps a generated schema from describing itself over ATP: enum values
// without display names cannot be self-serialized (a known finding of C09, not this property's).
func atpxSanitize(t *hx.Ty) {
	t.WalkTy(func(x *hx.Ty) {
		switch x.T {
		case "enumInt":
			x.T, x.Vals = "int", nil
		case "enumStr":
			x.T, x.Vals = "str", nil
		}
	})
}

// usable reports whether the plugin can say hello: its schema self-serializes and the client can
// rebuild it.
func (p *atpxPlugin) usable() bool {
	r := hx.Guard(func() hx.Result {
		ser, err := p.build().SelfSerialize()
		if err != nil {
			return hx.ErrResult(err)
		}
		norm, err := cborNorm(ser)
		if err != nil {
			return hx.ErrResult(err)
		}
		if _, err := schema.UnserializeSchema(norm); err != nil {
			return hx.ErrResult(err)
		}
		return hx.Result{R: "ok"}
	})
	return r.R == "ok"
}

func (g *atpxGenT) plugin() *atpxPlugin {
	for {
		p := g.plugin1()
		if p.usable() {
			return p
		}
		g.g.Stats["atpx:plugin-regenerated"]++
	}
}

func (g *atpxGenT) plugin1() *atpxPlugin {
	p := &atpxPlugin{}
	n := 1 + g.g.R.Intn(3)
	for i := 0; i < n; i++ {
		in := g.g.Scope(1)
		atpxSanitize(in)
		// a caller-controlled field, so that the inputs (and hence the expected outputs) of
		// different runs differ
		root := in.Objs[0].Ty
		has := false
		for _, np := range root.Props {
			if np.Name == "uid" {
				has = true
			}
		}
		if !has {
			root.Props = append(root.Props, hx.NamedProp{Name: "uid", P: &hx.Prop{Ty: &hx.Ty{T: "str"}}})
		}
		payload := g.g.Scope(1)
		atpxSanitize(payload)
		p.Steps = append(p.Steps, atpxStep{ID: fmt.Sprintf("step%d", i), Input: in, Payload: payload})
	}
	return p
}

// build constructs a fresh CallableSchema (nothing shared between two calls).
func (p *atpxPlugin) build() *schema.CallableSchema {
	var steps []schema.CallableStep
	for _, st := range p.Steps {
		st := st
		payloadForHandler := st.Payload.Build()
		outputs := map[string]*schema.StepOutputSchema{
			"success": schema.NewStepOutputSchema(schema.NewScopeSchema(schema.NewObjectSchema("Success", map[string]*schema.PropertySchema{
				"tag":     atpsProp(schema.NewStringSchema(nil, nil, nil), true),
				"payload": atpsProp(st.Payload.Build(), false),
			})), nil, false),
			"error": schema.NewStepOutputSchema(schema.NewScopeSchema(schema.NewObjectSchema("Failure", map[string]*schema.PropertySchema{
				"error": atpsProp(schema.NewStringSchema(nil, nil, nil), true),
			})), nil, true),
		}
		handler := func(_ context.Context, input any) (string, any) {
			canon := hx.Canon(hx.Enc(input))
			h := atpxHash(canon)
			tag := fmt.Sprintf("%016x", h)
			switch h % 10 {
			case 0:
				return "error", map[string]any{"error": "declared failure " + tag}
			case 1:
				return "no-such-output", map[string]any{"tag": tag}
			case 2:
				return "success", map[string]any{"tag": 5} // invalid data
			}
			out := map[string]any{"tag": tag}
			raw := hx.NewGen(int64(h >> 1)).Value(st.Payload, hx.Env{}, 0)
			res := hx.Guard(func() hx.Result {
				native, err := payloadForHandler.Unserialize(raw.ToGo())
				if err != nil {
					return hx.ErrResult(err)
				}
				out["payload"] = native
				return hx.Result{R: "ok"}
			})
			_ = res
			return "success", out
		}
		steps = append(steps, schema.NewCallableStep[any](st.ID, st.Input.Build().(*schema.ScopeSchema), outputs, nil, handler))
	}
	return schema.NewCallableSchema(steps...)
}

type atpxGenT struct {
	g *hx.Gen
}

type atpxCall struct {
	RunID string
	Step  string
	Input any // Go value handed to Execute
}

func (g *atpxGenT) input(st atpxStep, uid string) any {
	for try := 0; try < 20; try++ {
		v := g.g.Value(st.Input, hx.Env{}, 0)
		if v.Kind == "m" {
			kept := v.M[:0:0]
			for _, kv := range v.M {
				if !(kv[0].Kind == "s" && kv[0].S == "uid") {
					kept = append(kept, kv)
				}
			}
			v.M = append(kept, [2]*hx.Val{hx.Str("uid"), hx.Str(uid)})
		}
		goVal := v.ToGo()
		if _, err := cborNorm(goVal); err == nil {
			return goVal
		}
	}
	return map[string]any{"uid": uid}
}

// ---------------------------------------------------------------------------------------------
// expectations

type atpxExpect struct {
	Err   bool
	OutID string
	Data  string // canonical
}

func atpxReference(ref *schema.CallableSchema, c atpxCall) (e atpxExpect, ok bool) {
	norm, err := cborNorm(c.Input)
	if err != nil {
		return e, false
	}
	r := hx.Guard(func() hx.Result {
		id, data, err := ref.CallStep(context.Background(), c.RunID, c.Step, norm)
		if err != nil {
			e = atpxExpect{Err: true}
			return hx.Result{R: "ok"}
		}
		nd, err := cborNorm(data)
		if err != nil {
			e = atpxExpect{Err: true}
			return hx.Result{R: "ok"}
		}
		e = atpxExpect{OutID: id, Data: hx.Canon(hx.Enc(nd))}
		return hx.Result{R: "ok"}
	})
	if r.R == "panic" {
		// the server recovers a panicking step and reports a step-fatal error
		e = atpxExpect{Err: true}
	}
	return e, true
}

func atpxObserved(res atp.ExecutionResult) atpxExpect {
	if res.Error != nil {
		return atpxExpect{Err: true}
	}
	return atpxExpect{OutID: res.OutputID, Data: hx.Canon(hx.Enc(res.OutputData))}
}

// ---------------------------------------------------------------------------------------------
// one session

type atpxSessionResult struct {
	findings []string
	calls    int
	errs     int
	chunks   int
}

func atpxRunSession(p *atpxPlugin, calls []atpxCall, pattern string, transport string, v1 bool, seed int64, timeout time.Duration) (out atpxSessionResult) {
	find := func(format string, args ...any) { out.findings = append(out.findings, fmt.Sprintf(format, args...)) }
	ref := p.build()
	expected := make([]atpxExpect, len(calls))
	for i, c := range calls {
		e, ok := atpxReference(ref, c)
		if !ok {
			find("internal: input of call %d is not CBOR-encodable", i)
			return
		}
		expected[i] = e
	}

	var c2sR io.ReadCloser
	var c2sW io.WriteCloser
	var s2cR io.ReadCloser
	var s2cW io.WriteCloser
	var chunkPipes []*atpxChunkPipe
	if transport == "pipe" {
		c2sR, c2sW = io.Pipe()
		s2cR, s2cW = io.Pipe()
	} else {
		a, b := newAtpxChunkPipe(seed), newAtpxChunkPipe(seed+1)
		c2sR, c2sW, s2cR, s2cW = a, a, b, b
		chunkPipes = []*atpxChunkPipe{a, b}
	}
	ctx, cancel := context.WithCancel(context.Background())
	defer cancel()

	serverDone := make(chan int, 1)
	if !v1 {
		srv := p.build()
		go func() {
			errs := atp.RunATPServer(ctx, c2sR, s2cW, srv)
			serverDone <- len(errs)
			_ = s2cW.Close()
		}()
	} else {
		srv := p.build()
		go func() {
			// the legacy server: start message, hello with version 1, then work-start / work-done
			// pairs without run IDs
			dec := cbor.NewDecoder(c2sR)
			enc := cbor.NewEncoder(s2cW)
			n := 0
			defer func() { serverDone <- n; _ = s2cW.Close() }()
			var empty any
			if err := dec.Decode(&empty); err != nil {
				return
			}
			ser, err := srv.SelfSerialize()
			if err != nil {
				return
			}
			if err := enc.Encode(atp.HelloMessage{Version: 1, Schema: ser}); err != nil {
				return
			}
			for {
				var ws atp.WorkStartMessage
				if err := dec.Decode(&ws); err != nil {
					return
				}
				var id string
				var data any
				var cerr error
				r := hx.Guard(func() hx.Result {
					id, data, cerr = srv.CallStep(ctx, "v1", ws.StepID, ws.Config)
					return hx.Result{R: "ok"}
				})
				if r.R == "panic" || cerr != nil {
					n++
					return // the legacy protocol has no error message: the connection ends
				}
				if err := enc.Encode(atp.WorkDoneMessage{StepID: ws.StepID, OutputID: id, OutputData: data}); err != nil {
					return
				}
			}
		}()
	}

	cli := atp.NewClientWithLogger(atpxChannel{Reader: s2cR, Writer: c2sW}, nil)
	schemaRead := make(chan error, 1)
	go func() {
		_, err := cli.ReadSchema()
		schemaRead <- err
	}()
	select {
	case err := <-schemaRead:
		if err != nil {
			find("ReadSchema failed: %v", err)
			return
		}
	case <-time.After(timeout):
		find("ReadSchema did not return within %v", timeout)
		return
	}

	results := make([]*atp.ExecutionResult, len(calls))
	var rmu sync.Mutex
	exec := func(i int) {
		c := calls[i]
		done := make(chan atp.ExecutionResult, 1)
		go func() {
			done <- cli.Execute(schema.Input{RunID: c.RunID, ID: c.Step, InputData: c.Input}, nil, nil)
		}()
		select {
		case r := <-done:
			rmu.Lock()
			results[i] = &r
			rmu.Unlock()
		case <-time.After(timeout):
		}
	}
	stopAt := len(calls)
	switch {
	case v1 || pattern == "serial":
		for i := range calls {
			exec(i)
			if v1 && expected[i].Err {
				// the legacy server ends the connection on a failing step
				stopAt = i + 1
				break
			}
		}
	case pattern == "overlap":
		var wg sync.WaitGroup
		for i := range calls {
			i := i
			wg.Add(1)
			go func() { defer wg.Done(); exec(i) }()
		}
		wg.Wait()
	default: // waves of overlapping calls
		rnd := rand.New(rand.NewSource(seed))
		for i := 0; i < len(calls); {
			k := 1 + rnd.Intn(3)
			var wg sync.WaitGroup
			for j := i; j < i+k && j < len(calls); j++ {
				j := j
				wg.Add(1)
				go func() { defer wg.Done(); exec(j) }()
			}
			wg.Wait()
			i += k
		}
	}
	closed := make(chan error, 1)
	go func() { closed <- cli.Close() }()
	select {
	case err := <-closed:
		if err != nil {
			find("Close returned an error: %v", err)
		}
	case <-time.After(timeout):
		find("Close did not return within %v", timeout)
	}
	if v1 {
		_ = c2sW.Close()
	}
	failing := 0
	for i := 0; i < stopAt; i++ {
		if expected[i].Err {
			failing++
		}
	}
	select {
	case n := <-serverDone:
		if n != failing {
			find("the server returned %d errors, %d steps failed", n, failing)
		}
	case <-time.After(timeout):
		find("the server did not return within %v after Close", timeout)
	}
	_ = c2sW.Close()
	_ = c2sR.Close()
	_ = s2cR.Close()

	for i := 0; i < stopAt; i++ {
		out.calls++
		rmu.Lock()
		r := results[i]
		rmu.Unlock()
		if r == nil {
			find("Execute %d (run %s, step %s) did not return within %v: result lost", i, calls[i].RunID, calls[i].Step, timeout)
			continue
		}
		got := atpxObserved(*r)
		want := expected[i]
		if want.Err {
			out.errs++
		}
		if got != want {
			what := "differs from the in-process result"
			for j := range calls {
				if j != i && got == expected[j] && !got.Err {
					what = fmt.Sprintf("is the result of run %s (cross-delivery)", calls[j].RunID)
				}
			}
			find("Execute %d (run %s, step %s) %s: got err=%v id=%q data=%s, want err=%v id=%q data=%s",
				i, calls[i].RunID, calls[i].Step, what, got.Err, got.OutID, atpxShort(got.Data), want.Err, want.OutID, atpxShort(want.Data))
		}
	}
	for _, cp := range chunkPipes {
		out.chunks += cp.chunks
	}
	return out
}

func atpxShort(s string) string {
	if len(s) > 300 {
		return s[:300] + "..."
	}
	return s
}

// ---------------------------------------------------------------------------------------------
// the command

func atpxCmd(a Args) {
	if err := os.MkdirAll(a.Out, 0o755); err != nil {
		panic(err)
	}
	s := newSink(a.Out)
	defer s.close()
	thorough := a.Tier == "thorough"
	n := a.N
	if thorough {
		n *= 10
	}
	type job struct {
		idx       int
		plugin    *atpxPlugin
		calls     []atpxCall
		pattern   string
		transport string
		v1        bool
		seed      int64
	}
	g := &atpxGenT{g: hx.NewGen(a.Seed)}
	g.g.MaxDepth = 2
	var jobs []job
	for i := 0; i < n; i++ {
		p := g.plugin()
		maxCalls := 6
		if i%7 == 0 {
			maxCalls = 16
		}
		k := 1 + g.g.R.Intn(maxCalls)
		var calls []atpxCall
		for c := 0; c < k; c++ {
			st := p.Steps[g.g.R.Intn(len(p.Steps))]
			run := fmt.Sprintf("s%d-r%d", i, c)
			step := st.ID
			if g.g.R.Intn(25) == 0 {
				step = "no-such-step"
			}
			calls = append(calls, atpxCall{RunID: run, Step: step, Input: g.input(st, run)})
		}
		pattern := []string{"serial", "overlap", "waves"}[g.g.R.Intn(3)]
		transport := []string{"pipe", "chunked"}[g.g.R.Intn(2)]
		v1 := g.g.R.Intn(5) == 0
		jobs = append(jobs, job{i, p, calls, pattern, transport, v1, a.Seed*1000003 + int64(i)})
	}
	timeout := 10 * time.Second
	type res struct {
		idx int
		r   atpxSessionResult
	}
	results := make([]atpxSessionResult, len(jobs))
	sem := make(chan struct{}, 16)
	var wg sync.WaitGroup
	for _, j := range jobs {
		j := j
		sem <- struct{}{}
		wg.Add(1)
		go func() {
			defer wg.Done()
			defer func() { <-sem }()
			defer func() {
				if r := recover(); r != nil {
					results[j.idx] = atpxSessionResult{findings: []string{fmt.Sprintf("harness-side panic: %v", r)}}
				}
			}()
			results[j.idx] = atpxRunSession(j.plugin, j.calls, j.pattern, j.transport, j.v1, j.seed, timeout)
		}()
	}
	wg.Wait()
	for _, j := range jobs {
		r := results[j.idx]
		ver := "v3"
		if j.v1 {
			ver = "v1"
		}
		s.stats["sessions"]++
		s.stats["pattern:"+j.pattern]++
		s.stats["transport:"+j.transport]++
		s.stats["version:"+ver]++
		s.stats["executes"] += r.calls
		s.stats["executes-expected-error"] += r.errs
		s.stats["chunks"] += r.chunks
		s.stats[fmt.Sprintf("calls-per-session:%02d", len(j.calls))]++
		for _, f := range r.findings {
			desc, _ := json.Marshal(map[string]any{"session": j.idx, "pattern": j.pattern, "transport": j.transport, "version": ver, "calls": len(j.calls), "plugin": j.plugin})
			s.finding(Finding{Prop: "C05", What: f, Cases: []int{}, Detail: []string{string(desc)}})
		}
	}
	keys := make([]string, 0)
	for k := range s.stats {
		keys = append(keys, k)
	}
	sort.Strings(keys)
	writeStats(a.Out, s, g.g)
}
